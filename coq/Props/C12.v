(* C12 — Transports deliver exactly the bytes that were sent, or nothing.
   Only statements, each closed by [exact lemma], with Print Assumptions.
   Model: Lib/Crc32.v, Model/Frame.v.  Proofs: Proofs/Crc32Proofs.v, Proofs/FrameProofs.v. *)
From Coq Require Import List ZArith NArith Bool Lia Init.Byte.
From HV Require Import Lib.Crc32 Proofs.Crc32Proofs Model.Frame Proofs.FrameProofs.
Import ListNotations.
Open Scope Z_scope.

(* ---------------------------------------------------------------- the checksum -------- *)

(* the reference CRC is CRC-32/IEEE: standard check value *)
Theorem C12_crc32_check_value :
  crc32 [x31; x32; x33; x34; x35; x36; x37; x38; x39] = 0xCBF43926%N.
Proof. exact crc32_check_value. Qed.
Print Assumptions C12_crc32_check_value.

(* GF(2)-linearity of the CRC register, for bit strings of every length *)
Theorem C12_crc_linear : forall bits bits' s s', length bits = length bits' ->
  feed (N.lxor s s') (xor_bits bits bits') = N.lxor (feed s bits) (feed s' bits').
Proof. exact feed_lin. Qed.
Print Assumptions C12_crc_linear.

(* hence: any single-bit error in a message of n bytes changes the checksum, as soon as the
   8n single-bit syndromes are non-zero (a finite computation; done for n = 8 and n = 4) *)
Theorem C12_crc_detects_single_bit : forall (l : list byte) (k : nat),
  syndromes_nonzero (8 * length l) = true -> (k < 8 * length l)%nat ->
  crc32 (flip_bit k l) <> crc32 l.
Proof. exact crc32_flip_ne. Qed.
Print Assumptions C12_crc_detects_single_bit.

(* ---------------------------------------------------------------- header codecs ------- *)

(* rpc/socket: parseHeader (makeHeader length index) for every 31-bit length and EVERY int
   index: the low 31 bits come back, ok is the complement of bit 31 *)
Theorem C12_header_roundtrip_socket : forall length index,
  0 <= length < 2147483648 ->
  sock_parse_header (sock_make_header length index) =
  Some (length, (index mod 4294967296) mod 2147483648, index mod 4294967296 <? 2147483648).
Proof. exact sock_roundtrip_gen. Qed.
Print Assumptions C12_header_roundtrip_socket.

(* the two uses: request/response indices (31 bits) and error responses (index | MinInt32) *)
Theorem C12_header_roundtrip_socket_plain : forall length index,
  0 <= length < 2147483648 -> 0 <= index < 2147483648 ->
  sock_parse_header (sock_make_header length index) = Some (length, index, true).
Proof. exact sock_roundtrip. Qed.
Print Assumptions C12_header_roundtrip_socket_plain.

Theorem C12_header_roundtrip_socket_error : forall length index,
  0 <= length < 2147483648 -> 0 <= index < 2147483648 ->
  sock_parse_header (sock_make_header length (Z.lor index (-2147483648))) = Some (length, index, false).
Proof. exact sock_roundtrip_error. Qed.
Print Assumptions C12_header_roundtrip_socket_error.

(* rpc/udp: 16-bit length, 15-bit index + flag *)
Theorem C12_header_roundtrip_udp : forall length index,
  0 <= length < 65536 ->
  udp_parse_header (udp_make_header length index) =
  Some (length, (index mod 65536) mod 32768, index mod 65536 <? 32768).
Proof. exact udp_roundtrip_gen. Qed.
Print Assumptions C12_header_roundtrip_udp.

Theorem C12_header_roundtrip_udp_plain : forall length index,
  0 <= length < 65536 -> 0 <= index < 32768 ->
  udp_parse_header (udp_make_header length index) = Some (length, index, true).
Proof. exact udp_roundtrip. Qed.
Print Assumptions C12_header_roundtrip_udp_plain.

Theorem C12_header_roundtrip_udp_error : forall length index,
  0 <= length < 65536 -> 0 <= index < 32768 ->
  udp_parse_header (udp_make_header length (Z.lor index 32768)) = Some (length, index, false).
Proof. exact udp_roundtrip_error. Qed.
Print Assumptions C12_header_roundtrip_udp_error.

(* rpc/websocket: 4-byte index prefix *)
Theorem C12_header_roundtrip_ws : forall index,
  match ws_make_header index with
  | [a; b; c; d] => ws_parse_header a b c d =
                    ((index mod 4294967296) mod 2147483648, index mod 4294967296 <? 2147483648)
  | _ => False
  end.
Proof. exact ws_roundtrip_gen. Qed.
Print Assumptions C12_header_roundtrip_ws.

(* ---------------------------------------------------------------- corrupted headers --- *)

(* every header makeHeader can produce (every length, every index), every one of its 96
   (resp. 64) bits: the flipped header is rejected *)
Theorem C12_crc_single_bit_socket : forall length index k, (k < 96)%nat ->
  sock_parse_header (flip_bit k (sock_make_header length index)) = Some REJECT.
Proof. exact sock_single_bit. Qed.
Print Assumptions C12_crc_single_bit_socket.

Theorem C12_crc_single_bit_udp : forall length index k, (k < 64)%nat ->
  udp_parse_header (flip_bit k (udp_make_header length index)) = Some REJECT.
Proof. exact udp_single_bit. Qed.
Print Assumptions C12_crc_single_bit_udp.

(* an accepted header has a matching checksum and non-negative fields, so it can never be
   mistaken for the rejection triple (0, -1, false) the receive loops test for *)
Theorem C12_accept_implies_crc_ok : forall h r,
  sock_parse_header h = Some r -> is_reject r = false ->
  sock_crc_ok h = true /\ 0 <= fst (fst r) < 2147483648 /\ 0 <= snd (fst r) < 2147483648 + 2147483648.
Proof. exact sock_parse_accept. Qed.
Print Assumptions C12_accept_implies_crc_ok.

(* ---------------------------------------------------------------- socket streams ------ *)

(* any number of frames, any payloads (header look-alikes included), back to back on the
   stream, server side and client side: exactly those frames are handed over, in order *)
Theorem C12_stream_framing : forall sd fs, Forall (wf_frame sd) fs ->
  recv_frames sd (List.concat (map frame_of fs)) = (fs, EndEOF).
Proof. exact stream_framing. Qed.
Print Assumptions C12_stream_framing.

(* ... and whatever follows them is processed as if it were the start of the stream *)
Theorem C12_stream_framing_then : forall sd fs tail, Forall (wf_frame sd) fs ->
  recv_frames sd (concat (map frame_of fs) ++ tail) =
  let '(ds, e) := recv_frames sd tail in (fs ++ ds, e).
Proof. exact recv_frames_app. Qed.
Print Assumptions C12_stream_framing_then.

(* a stream cut anywhere inside a frame: the complete frames before it are delivered, of
   the cut one nothing is *)
Theorem C12_stream_truncation : forall sd fs f p q,
  Forall (wf_frame sd) fs -> wf_frame sd f -> frame_of f = p ++ q -> q <> [] ->
  fst (recv_frames sd (concat (map frame_of fs) ++ p)) = fs.
Proof. exact stream_truncation. Qed.
Print Assumptions C12_stream_truncation.

(* arbitrary bytes on the stream: everything handed over is a contiguous segment preceded
   by a 12-byte header with a valid checksum that declares exactly the segment's length *)
Theorem C12_stream_sound : forall sd s, segments s (fst (recv_frames sd s)).
Proof. exact recv_frames_sound. Qed.
Print Assumptions C12_stream_sound.

(* the grouping of the bytes into TCP segments / Read results is invisible *)
Theorem C12_stream_chunking : forall cs n,
  match take_chunks n cs with
  | Some (d, r) => read_exact n (concat cs) = Some (d, concat r)
  | None => read_exact n (concat cs) = None
  end.
Proof. exact take_chunks_concat. Qed.
Print Assumptions C12_stream_chunking.

(* the fuel of the receive loop is never exhausted *)
Theorem C12_stream_fuel : forall sd s, snd (recv_frames sd s) <> OutOfFuel.
Proof. exact recv_frames_fuel_enough. Qed.
Print Assumptions C12_stream_fuel.

(* ---------------------------------------------------------------- UDP datagrams ------- *)

(* datagrams built as both peers build them are delivered exactly, whatever the reused
   receive buffer contains *)
Theorem C12_datagram_wellformed : forall sd buf i b,
  (8 + length b <= length buf)%nat -> 0 <= i < 32768 -> Z.of_nat (length b) < 65536 ->
  match sd with Server max => Z.of_nat (length b) <= max | Client => True end ->
  snd (udp_step sd buf (udp_make_header (Z.of_nat (length b)) i ++ b)) = DDeliver i b.
Proof. exact udp_wellformed. Qed.
Print Assumptions C12_datagram_wellformed.

(* C12_datagram_exact — "the body handed over equals the bytes received after the header,
   or the datagram is rejected", i.e. [datagram_exact] — is FALSE of the faithful model: *)
Theorem C12_datagram_exact_refuted : ~ datagram_exact.
Proof. exact datagram_exact_refuted. Qed.
Print Assumptions C12_datagram_exact_refuted.

(* it holds under the guard "declared length = received length - 8" ... *)
Theorem C12_datagram_exact_partial : forall sd buf d,
  (length d <= length buf)%nat -> udp_consistent d = true -> datagram_exact_at sd buf d.
Proof. exact udp_partial. Qed.
Print Assumptions C12_datagram_exact_partial.

(* ... and for every datagram once the receive loop checks that guard itself
   (hooks/c12-fix-proposal.patch), without losing any well-formed datagram *)
Theorem C12_datagram_exact_fixed : forall sd buf d i body,
  (length d <= length buf)%nat ->
  snd (udp_step_fixed sd buf d) = DDeliver i body -> body = skipn 8 d.
Proof. exact udp_fixed_exact. Qed.
Print Assumptions C12_datagram_exact_fixed.

Theorem C12_datagram_fixed_wellformed : forall sd buf i b,
  (8 + length b <= length buf)%nat -> 0 <= i < 32768 -> Z.of_nat (length b) < 65536 ->
  match sd with Server max => Z.of_nat (length b) <= max | Client => True end ->
  snd (udp_step_fixed sd buf (udp_make_header (Z.of_nat (length b)) i ++ b)) = DDeliver i b.
Proof. exact udp_fixed_wellformed. Qed.
Print Assumptions C12_datagram_fixed_wellformed.

(* ---------------------------------------------------------------- websocket ----------- *)

Theorem C12_ws_roundtrip : forall sd i b, 0 <= i < 2147483648 ->
  match sd with Server max => Z.of_nat (length b) <= max | Client => True end ->
  ws_recv sd (ws_frame i b) = WDeliver i b.
Proof. exact ws_recv_frame. Qed.
Print Assumptions C12_ws_roundtrip.

(* any message at all: what is delivered is the message minus its first four bytes *)
Theorem C12_ws_exact : forall sd msg i body, ws_recv sd msg = WDeliver i body ->
  (4 <= length msg)%nat /\ body = skipn 4 msg.
Proof. exact ws_recv_exact. Qed.
Print Assumptions C12_ws_exact.

(* messages shorter than the prefix deliver nothing *)
Theorem C12_ws_short : forall sd msg, (length msg < 4)%nat ->
  ws_recv sd msg = WPanic \/ ws_recv sd msg = WBadHeader.
Proof. exact ws_recv_short. Qed.
Print Assumptions C12_ws_short.

(* ---------------------------------------------------------------- HTTP ---------------- *)

(* [http_exact] — the service gets the bytes the client put in the body — is FALSE of the
   faithful model of ServeHTTP (a read error is reported and then ignored) *)
Theorem C12_http_exact_refuted : ~ http_exact.
Proof. exact http_exact_refuted. Qed.
Print Assumptions C12_http_exact_refuted.

Theorem C12_http_exact_partial : forall max declared actual,
  http_consistent declared actual = true -> declared <= max ->
  http_server_recv max declared actual = HDeliver actual.
Proof. exact http_server_partial. Qed.
Print Assumptions C12_http_exact_partial.

Theorem C12_http_exact_fixed : forall max declared actual body,
  http_limited declared actual ->
  http_server_recv_fixed max declared actual = HDeliver body -> body = actual.
Proof. exact http_server_fixed_exact. Qed.
Print Assumptions C12_http_exact_fixed.

(* response direction: the client returns the read error, never a padded body *)
Theorem C12_http_client_exact : forall declared actual body,
  http_limited declared actual ->
  http_client_recv declared actual = HDeliver body -> body = actual.
Proof. exact http_client_exact. Qed.
Print Assumptions C12_http_client_exact.

(* ---------------------------------------------------------------- every length -------- *)

(* one request or response of any length up to the transport's limit, any content, both
   directions ([sd] = Server max is the request direction, Client the response direction) *)
Theorem C12_lengths_socket : forall sd i b, wf_frame sd (i, b) ->
  recv_frames sd (sock_frame i b) = ([(i, b)], EndEOF).
Proof. exact lengths_socket. Qed.
Print Assumptions C12_lengths_socket.

(* UDP: the limit 65499 = 65507 - 8 is where the sender's slice expression panics *)
Theorem C12_lengths_udp : forall sd buf i b,
  length buf = UDP_BUFFER -> 0 <= i < 32768 ->
  match sd with Server max => Z.of_nat (length b) <= max | Client => True end ->
  (Z.of_nat (length b) <= 65499 ->
     exists d, udp_send UDP_BUFFER i b = Sent d /\ snd (udp_step sd buf d) = DDeliver i b) /\
  (65499 < Z.of_nat (length b) -> udp_send UDP_BUFFER i b = SendPanic).
Proof. exact lengths_udp. Qed.
Print Assumptions C12_lengths_udp.

Theorem C12_lengths_ws : forall sd i b, 0 <= i < 2147483648 ->
  match sd with Server max => Z.of_nat (length b) <= max | Client => True end ->
  ws_recv sd (ws_frame i b) = WDeliver i b.
Proof. exact lengths_ws. Qed.
Print Assumptions C12_lengths_ws.

Theorem C12_lengths_http : forall max b, Z.of_nat (length b) <= max ->
  http_server_recv max (Z.of_nat (length b)) b = HDeliver b /\
  http_server_recv max (-1) b = HDeliver b /\
  http_client_recv (Z.of_nat (length b)) b = HDeliver b /\
  http_client_recv (-1) b = HDeliver b.
Proof. exact lengths_http. Qed.
Print Assumptions C12_lengths_http.

(* ---------------------------------------------------------------- handlers as repaired - *)

(* UDP client: a request that does not fit one datagram is refused before it is framed; the
   slice expression of conn.send can no longer panic *)
Theorem C12_udp_transport_limit : forall i b,
  (Z.of_nat (length b) <= 65499 ->
     udp_transport UDP_BUFFER i b = TSent (udp_make_header (Z.of_nat (length b)) i ++ b)) /\
  (65499 < Z.of_nat (length b) -> udp_transport UDP_BUFFER i b = TRefused) /\
  udp_transport UDP_BUFFER i b <> TPanic.
Proof. intros i b. split; [apply udp_transport_ok|split; [apply udp_transport_refused|apply udp_transport_never_panics]]. Qed.
Print Assumptions C12_udp_transport_limit.

(* UDP server answers of any size: exact at the caller, or an error frame — never cut *)
Theorem C12_udp_reply_exact_or_error : forall buf i b,
  length buf = UDP_BUFFER -> 0 <= i < 32768 ->
  (Z.of_nat (length b) <= 65499 ->
     snd (udp_step_fixed Client buf (udp_reply UDP_BUFFER i b)) = DDeliver i b) /\
  (65499 < Z.of_nat (length b) ->
     snd (udp_step_fixed Client buf (udp_reply UDP_BUFFER i b)) = DErrorFrame RESPONSE_TOO_LARGE).
Proof. exact udp_reply_received. Qed.
Print Assumptions C12_udp_reply_exact_or_error.

(* the index a client frames for ANY value of its call counter is a plain (unflagged) index
   that the peer reads back unchanged: 15 bits on UDP, 31 bits on socket *)
Theorem C12_client_index_udp : forall counter length, 0 <= length < 65536 ->
  udp_parse_header (udp_make_header length (client_index UDP_INDEX_MASK counter)) =
  Some (length, client_index UDP_INDEX_MASK counter, true).
Proof. exact udp_client_index_sound. Qed.
Print Assumptions C12_client_index_udp.

Theorem C12_client_index_socket : forall counter length, 0 <= length < 2147483648 ->
  sock_parse_header (sock_make_header length (client_index SOCK_INDEX_MASK counter)) =
  Some (length, client_index SOCK_INDEX_MASK counter, true).
Proof. exact sock_client_index_sound. Qed.
Print Assumptions C12_client_index_socket.

(* ... and a 16-bit mask on UDP is not: the 32768th call is read as flagged index 0 *)
Theorem C12_client_index_udp_wide_refuted :
  exists counter, udp_parse_header (udp_make_header 0 (client_index 65535 counter)) = Some (0, 0, false) /\
                  client_index 65535 counter = 32768.
Proof. exact udp_client_index_wide_refuted. Qed.
Print Assumptions C12_client_index_udp_wide_refuted.

(* net/http as it reads now (limit reader of MaxRequestLength+1, errors refused): for every
   MaxRequestLength, Content-Length or none: the service gets the body exactly, or nothing *)
Theorem C12_http_limited_exact : forall max declared actual body,
  0 <= max -> http_limited declared actual ->
  http_server_recv_limited max declared actual = HDeliver body -> body = actual.
Proof. exact http_limited_exact. Qed.
Print Assumptions C12_http_limited_exact.

Theorem C12_http_limited_delivers : forall max declared actual,
  http_consistent declared actual = true -> declared <= max -> Z.of_nat (length actual) <= max ->
  http_server_recv_limited max declared actual = HDeliver actual.
Proof. exact http_limited_delivers. Qed.
Print Assumptions C12_http_limited_delivers.

Theorem C12_http_limited_refuses_oversize : forall max declared actual,
  0 <= max -> max < Z.of_nat (length actual) -> declared <= 0 ->
  http_server_recv_limited max declared actual = HTooLarge.
Proof. exact http_limited_refuses_oversize. Qed.
Print Assumptions C12_http_limited_refuses_oversize.

(* the "+1" matters: a limit of exactly MaxRequestLength hands the service a prefix *)
Theorem C12_http_limit_off_by_one_refuted :
  http_server_recv_lim 2 2 (-1) [x61; x62; x63] = HDeliver [x61; x62].
Proof. exact http_limit_off_by_one_refuted. Qed.
Print Assumptions C12_http_limit_off_by_one_refuted.

(* ---------------------------------------------------------------- request ownership ----- *)

(* A call abandoned while its request is queued or being written (context ended, the write
   happens later): if the transport frames its own copy, the service gets the request as
   submitted whatever the caller does with its buffer afterwards ... *)
Theorem C12_abandoned_copy_exact : forall max i b0 b1, wf_frame (Server max) (i, b0) ->
  recv_frames (Server max) (abandoned_wire Copies i b0 b1) = ([(i, b0)], EndEOF).
Proof. exact abandoned_copy_exact. Qed.
Print Assumptions C12_abandoned_copy_exact.

(* ... if it keeps the caller's slice, the service gets whatever the buffer holds at write
   time, under a header (and checksum) that is perfectly valid: the framing cannot notice *)
Theorem C12_abandoned_alias_delivers_later_bytes : forall max i b0 b1,
  wf_frame (Server max) (i, b0) -> length b1 = length b0 ->
  recv_frames (Server max) (abandoned_wire Aliases i b0 b1) = ([(i, b1)], EndEOF).
Proof. exact abandoned_alias_delivers_later_bytes. Qed.
Print Assumptions C12_abandoned_alias_delivers_later_bytes.

Theorem C12_abandoned_alias_refuted :
  exists i b0 b1, wf_frame (Server 100) (i, b0) /\ length b1 = length b0 /\
    fst (recv_frames (Server 100) (abandoned_wire Aliases i b0 b1)) <> [(i, b0)].
Proof. exact abandoned_alias_refuted. Qed.
Print Assumptions C12_abandoned_alias_refuted.

(* ---------------------------------------------------------------- witnesses ----------- *)

From Coq Require Strings.String.
Import String.

(* the concrete runs behind the _refuted theorems (these are what the check replays
   against the real transports) *)
Theorem C12_datagram_cross_client_leak :
  udp_server_run 1000 [leak_d1; leak_d2] =
    [DDeliver 1 (bytes_of "SECRET-OF-CLIENT-ONE"%string); DDeliver 2 (bytes_of "hiCRET-OF-CLIENT-ONE"%string)]
  /\ skipn 8 leak_d2 = bytes_of "hi"%string.
Proof. exact udp_cross_client_leak. Qed.
Print Assumptions C12_datagram_cross_client_leak.

Theorem C12_datagram_truncation_witness :
  udp_server_run 1000 [udp_make_header 2 7 ++ bytes_of "hello"%string] = [DDeliver 7 (bytes_of "he"%string)].
Proof. exact udp_truncation_witness. Qed.
Print Assumptions C12_datagram_truncation_witness.

Theorem C12_datagram_client_padding_witness :
  udp_client_recv (udp_make_header 6 3 ++ bytes_of "hi"%string) =
    DDeliver 3 (bytes_of "hi"%string ++ [x00; x00; x00; x00]) /\
  udp_client_recv (udp_make_header 2 3 ++ bytes_of "hello"%string) = DDeliver 3 (bytes_of "he"%string).
Proof. exact udp_client_padding_witness. Qed.
Print Assumptions C12_datagram_client_padding_witness.

Theorem C12_http_padding_witness :
  http_server_recv 1000 6 (bytes_of "hi"%string) = HDeliver (bytes_of "hi"%string ++ [x00; x00; x00; x00]).
Proof. exact http_padding_witness. Qed.
Print Assumptions C12_http_padding_witness.

(* ---------------------------------------------------------------- non-vacuity --------- *)

(* a payload that itself looks like a (valid!) header followed by a frame, inside a stream
   of three frames with boundary lengths 0, 12 and 1 *)
Example framing_nonvacuous :
  let evil := sock_make_header 5 9 in
  let fs := [(1, []); (2147483647, evil); (3, [xff])] in
  Forall (wf_frame (Server 100)) fs /\
  recv_frames (Server 100) (List.concat (map frame_of fs)) = (fs, EndEOF) /\
  List.length (List.concat (map frame_of fs)) = 49%nat.
Proof.
  cbv zeta. split; [|split; vm_compute; reflexivity].
  repeat constructor; cbn; lia.
Qed.

Example truncation_nonvacuous :
  let f := (7, [x01; x02; x03]) in
  wf_frame Client f /\
  exists p q, frame_of f = p ++ q /\ q <> [] /\ List.length p = 14%nat /\
              recv_frames Client p = ([], EndShortBody 7 3 2).
Proof.
  cbv zeta. split; [repeat split; cbn; lia|].
  exists (firstn 14 (frame_of (7, [x01; x02; x03]))), [x03].
  vm_compute. repeat split; try reflexivity. discriminate.
Qed.

Example single_bit_nonvacuous :
  sock_parse_header (sock_make_header 300 77) = Some (300, 77, true) /\
  sock_parse_header (flip_bit 95 (sock_make_header 300 77)) = Some REJECT /\
  flip_bit 95 (sock_make_header 300 77) <> sock_make_header 300 77 /\
  udp_parse_header (flip_bit 0 (udp_make_header 300 77)) = Some REJECT.
Proof. vm_compute. repeat split; try reflexivity. discriminate. Qed.

Example udp_consistent_nonvacuous :
  udp_consistent (udp_make_header 2 5 ++ bytes_of "hi"%string) = true /\
  udp_consistent leak_d1 = true /\ udp_consistent leak_d2 = false.
Proof. vm_compute. repeat split; reflexivity. Qed.

Example wellformed_nonvacuous :
  let buf := leak_d1 ++ leak_d1 in
  (8 + List.length (bytes_of "hi"%string) <= List.length buf)%nat /\
  snd (udp_step (Server 100) buf (udp_make_header 2 5 ++ bytes_of "hi"%string)) = DDeliver 5 (bytes_of "hi"%string).
Proof. vm_compute. split; [lia|reflexivity]. Qed.

Example http_consistent_nonvacuous :
  http_consistent 2 (bytes_of "hi"%string) = true /\ http_consistent (-1) (bytes_of "hi"%string) = true /\
  http_consistent 6 (bytes_of "hi"%string) = false /\ http_limited 6 (bytes_of "hi"%string).
Proof. unfold http_limited. vm_compute. repeat split; try reflexivity. intros _ H; discriminate H. Qed.

Example ws_short_nonvacuous :
  ws_recv (Server 100) [x00; x00] = WPanic /\ ws_recv (Server 100) [x80] = WBadHeader /\
  ws_recv (Server 100) (ws_frame 6 [x41]) = WDeliver 6 [x41].
Proof. vm_compute. repeat split; reflexivity. Qed.

(* ---------------------------------------------------------------- the Go text itself --- *)
(* T2: Gen/GoFuncs.v is regenerated from rpc/socket/common.go and rpc/udp/common.go on every run by
   tools/gotables (golite.go); Proofs/GoFuncsProofs.v proves the generated makeHeader/parseHeader equal
   to the hand models above for ALL arguments, so the header theorems hold of the source as it is now.
   [GPanic] is Go's index-out-of-range panic (a slice shorter than 8 bytes for the UDP parseHeader). *)
From HV Require Import Lib.GoLite Gen.GoFuncs Proofs.GoFuncsProofs.

Theorem C12_source_header_roundtrip_socket : forall length index, 0 <= length < 2147483648 ->
  exists h, socket_makeHeader length index = GRet h /\
            socket_parseHeader h =
            GRet (length, (index mod 4294967296) mod 2147483648, index mod 4294967296 <? 2147483648).
Proof. exact socket_source_roundtrip. Qed.
Print Assumptions C12_source_header_roundtrip_socket.

Theorem C12_source_header_roundtrip_udp : forall length index, 0 <= length < 65536 ->
  exists h, udp_makeHeader length index = GRet h /\
            udp_parseHeader h = GRet (length, (index mod 65536) mod 32768, index mod 65536 <? 32768).
Proof. exact udp_source_roundtrip. Qed.
Print Assumptions C12_source_header_roundtrip_udp.

Theorem C12_source_single_bit_socket : forall length index k h, (k < 96)%nat ->
  socket_makeHeader length index = GRet h -> socket_parseHeader (flip_bit k h) = GRet REJECT.
Proof. exact socket_source_single_bit. Qed.
Print Assumptions C12_source_single_bit_socket.

Theorem C12_source_single_bit_udp : forall length index k h, (k < 64)%nat ->
  udp_makeHeader length index = GRet h -> udp_parseHeader (flip_bit k h) = GRet REJECT.
Proof. exact udp_source_single_bit. Qed.
Print Assumptions C12_source_single_bit_udp.

(* the generated functions are the hand models (the obligations a change to the Go text can break) *)
Theorem C12_source_refines_model :
  (forall length index, socket_makeHeader length index = GRet (sock_make_header length index)) /\
  (forall h, List.length h = 12%nat -> socket_parseHeader h = lift_hdr (sock_parse_header h)) /\
  (forall length index, udp_makeHeader length index = GRet (udp_make_header length index)) /\
  (forall h, List.length h = 8%nat -> udp_parseHeader h = lift_hdr (udp_parse_header h)) /\
  (forall h, (List.length h < 8)%nat -> udp_parseHeader h = GPanic).
Proof.
  exact (conj socket_makeHeader_refines (conj socket_parseHeader_refines_len
        (conj udp_makeHeader_refines (conj udp_parseHeader_refines_len udp_parseHeader_short)))).
Qed.
Print Assumptions C12_source_refines_model.

Example source_header_nonvacuous :
  socket_makeHeader 5 7 = GRet (sock_make_header 5 7) /\
  socket_parseHeader (sock_make_header 5 7) = GRet (5, 7, true) /\
  udp_parseHeader (udp_make_header 5 (Z.lor 7 32768)) = GRet (5, 7, false).
Proof. vm_compute. repeat split. Qed.

(* rpc/websocket/common.go makeHeader/parseHeader as regenerated from the source (T2): equal to the hand model, and
   the index prefix round trip holds of the source for EVERY index word *)
From HV Require Import Proofs.GoFuncsWsProofs.
Theorem C12_source_header_roundtrip_ws : forall index,
  exists h, ws_makeHeader index = GRet h /\
            ws_parseHeader h = GRet ((index mod 4294967296) mod 2147483648, index mod 4294967296 <? 2147483648).
Proof. exact ws_source_roundtrip. Qed.
Print Assumptions C12_source_header_roundtrip_ws.

Theorem C12_source_ws_refines_model :
  (forall index, ws_makeHeader index = GRet (ws_make_header index)) /\
  (forall a b c d, ws_parseHeader [a; b; c; d] = GRet (ws_parse_header a b c d)) /\
  (forall h, (List.length h < 4)%nat -> ws_parseHeader h = GPanic).
Proof. exact (conj ws_makeHeader_refines (conj ws_parseHeader_refines ws_parseHeader_short)). Qed.
Print Assumptions C12_source_ws_refines_model.
