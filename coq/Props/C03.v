(* C03 — Encoder output is well-formed Hprose and denotes the encoded value.
   Statements only; proofs in Proofs/. *)
From Coq Require Import List NArith ZArith Strings.Byte Bool.
From HV Require Import Lib.Dec Lib.Utf8 Model.Wire Model.WireSem Model.Enc Model.Abs
                       Proofs.WireProofs Proofs.EncProofs.
Import ListNotations.

(* The independent reader inverts the printer on every token-legal wire tree, whatever
   follows it in the buffer (so the grammar is prefix-free / self-delimiting). *)
Theorem C03_reader_inverts_printer : forall w, tok_ok w = true -> forall rest,
  parse (wsize w) (emit w ++ rest) = Some (w, rest).
Proof. exact parse_emit. Qed.
Print Assumptions C03_reader_inverts_printer.

Theorem C03_one_value_nothing_more : forall w, tok_ok w = true -> parse_all (emit w) = Some w.
Proof. exact parse_all_emit. Qed.
Print Assumptions C03_one_value_nothing_more.

(* Several values written in sequence stay individually delimited. *)
Theorem C03_sequence_delimited : forall ws, forallb tok_ok ws = true ->
  parse_seq (length ws) (flat_map emit ws) = Some ws.
Proof. exact parse_seq_emit. Qed.
Print Assumptions C03_sequence_delimited.

(* String length fields: on strict UTF-8 Go's utf16Length is the number of UTF-16 code units. *)
Theorem C03_string_length_is_utf16_units : forall s cs,
  str_chars s = Some cs -> go_utf16Length s = Z.of_N (units cs).
Proof. exact go_utf16Length_strict. Qed.
Print Assumptions C03_string_length_is_utf16_units.

(* Go's utf16Length decides strict UTF-8: every other byte string gets -1 and is written as bytes. *)
Theorem C03_utf16Length_decides_utf8 : forall s,
  go_utf16Length s = match str_chars s with Some cs => Z.of_N (units cs) | None => (-1)%Z end.
Proof. exact go_utf16Length_spec. Qed.
Print Assumptions C03_utf16Length_decides_utf8.

(* hence every Go string, valid UTF-8 or not, is emitted as a token the independent reader accepts *)
Theorem C03_string_tags_only_utf8 : forall simple st s st' w,
  enc_string simple st s = (st', w) -> tok_ok w = true.
Proof. exact string_tags_only_utf8. Qed.
Print Assumptions C03_string_tags_only_utf8.

(* The encoder model's output is token-legal for every value (oracle premises [gval_ok] on float/uuid
   texts and clock fields only; no premise on string contents), in both modes, for every heap. *)
Theorem C03_encoder_output_token_legal : forall simple hp fuel st v st' w,
  gval_ok v = true -> heap_ok hp = true ->
  enc simple hp fuel st v = EOk st' w -> tok_ok w = true.
Proof. exact enc_tok_ok. Qed.
Print Assumptions C03_encoder_output_token_legal.

(* hence the bytes of the encoder model are read back by the independent reader as exactly one value *)
Theorem C03_encoder_output_wellformed : forall simple hp fuel st v st' w,
  gval_ok v = true -> heap_ok hp = true ->
  enc simple hp fuel st v = EOk st' w -> parse_all (emit w) = Some w.
Proof. exact enc_parse_all. Qed.
Print Assumptions C03_encoder_output_wellformed.

(* non-vacuity *)
Example wire_example :
  let w := WClass ["P"%byte] [["n"; "a"; "m"; "e"]%byte; ["a"; "g"; "e"]%byte]
             (WObj 0 [WStr ["T"; "o"; "m"]%byte; WInt 18; WRef 0]) in
  tok_ok w = true /\ parse_all (emit w) = Some w /\ length (emit w) = 41%nat.
Proof. vm_compute. repeat split; reflexivity. Qed.

(* T2: io/encode.go utf16Length as regenerated from the source on every run (Gen/GoFuncs.v, golite.go)
   - a counted loop with bounds-checked reads str[i], str[i+1] - equals the hand model for every byte
   string (Proofs/GoFuncsProofs.v, induction over the string), never panics, and therefore decides
   strict UTF-8 and counts UTF-16 code units. *)
From HV Require Import Lib.GoLite Gen.GoFuncs Proofs.GoFuncsProofs.
Theorem C03_source_utf16Length_decides_utf8 : forall s,
  io_utf16Length s = GRet (match str_chars s with Some cs => Z.of_N (units cs) | None => (-1)%Z end).
Proof. exact io_utf16Length_source_spec. Qed.
Print Assumptions C03_source_utf16Length_decides_utf8.

Example source_utf16Length_nonvacuous :
  io_utf16Length [Byte.xe2; Byte.x82; Byte.xac; Byte.x41] = GRet 2%Z /\
  io_utf16Length [Byte.xf0; Byte.x9f; Byte.x98; Byte.x80] = GRet 2%Z /\
  io_utf16Length [Byte.xc0; Byte.x80] = GRet (-1)%Z /\ io_utf16Length [Byte.xe2; Byte.x82] = GRet (-1)%Z.
Proof. vm_compute. repeat split. Qed.

(* The Write entry point (Encoder.Write: the top-level value is written out, never replaced by a
   back-reference, but registered like any other; model Enc.enc_write): its output is token-legal and
   is exactly one value for the independent reader, like Encode's.  On a FRESH encoder (Write as the first
   operation after NewEncoder / Reset) the stream denotes the value (C03_write_entry_denotes_value below: on
   empty tables Write and Encode differ only for strings, which Write always puts in the 's' form).  For a
   Write in the middle of a sequence (tables not empty) the denotation, and that later back-references
   resolve to what Write registered, is not proved; it is checked on every run by the proved reader on the
   real Encoder's output for sequences that mix Write and Encode (lib/iosuite.py sequences_family). *)
Theorem C03_write_entry_output_is_one_value : forall simple hp fuel st v st' w,
  gval_ok v = true -> heap_ok hp = true ->
  enc_write simple hp fuel st v = EOk st' w -> tok_ok w = true /\ parse_all (emit w) = Some w.
Proof.
  intros simple hp fuel st v st' w Hv Hh H. split.
  - exact (enc_write_tok_ok simple hp fuel st v st' w Hv Hh H).
  - exact (enc_write_parse_all simple hp fuel st v st' w Hv Hh H).
Qed.
Print Assumptions C03_write_entry_output_is_one_value.

Example write_entry_nonvacuous :
  (match enc_write false [] 3 einit (GString [Byte.x78]) with EOk _ (WStr [Byte.x78]) => true | _ => false end) = true /\
  enc false [] 3 einit (GString [Byte.x78]) = EOk einit (WChar [Byte.x78]).
Proof. vm_compute. split; reflexivity. Qed.

From HV Require Import Proofs.RefProofs Proofs.WriteProofs.
Theorem C03_write_entry_denotes_value : forall hp fuel v st' w,
  heap_ok hp = true -> gval_ok v = true -> ref_wf hp v = true -> write_plain hp fuel v = true ->
  enc_write false hp fuel einit v = EOk st' w ->
  exists d, denote_top w = Some d /\ abs_top hp fuel v = Some d.
Proof. exact write_denotes_abs. Qed.
Print Assumptions C03_write_entry_denotes_value.

(* ... and the excluded case of that theorem, a string (possibly behind untracked pointers): written in the
   's' (or, when it is not UTF-8, bytes) form, which denotes the string *)
Theorem C03_write_entry_string_denotes : forall simple hp f s st' w,
  enc_write simple hp (S f) einit (GString s) = EOk st' w ->
  w = string_wire s /\ denote_top w = abs_top hp (S f) (GString s).
Proof. exact write_string_denotes. Qed.
Print Assumptions C03_write_entry_string_denotes.

Example write_plain_nonvacuous :
  let hp := [(1%N, GStruct ["N"%byte] [["n"%byte]; ["v"%byte]] [GPtr 1; GInt KInt 5])] in
  write_plain hp 5 (GPtr 1) = true /\ write_plain hp 5 (GString ["x"%byte]) = false /\
  (exists st w, enc_write false hp 10 einit (GPtr 1) = EOk st w).
Proof. vm_compute. repeat split. eexists. eexists. reflexivity. Qed.
