(* C08 - A remote call returns what the service function returns, on every transport.
   Statements only; proofs in Proofs/CallProofs.v.

   [invoke] is Client.InvokeContext: client codec, transport, Service.Handle (service codec, lookup, reflective
   execution under recover, result shaping, service codec), transport, client codec (Model/Call.v).  The published
   functions are one abstract [impl : id -> arguments -> outcome]; every entry into a function is logged.
   Premises that are OTHER properties' statements:
     C01 (C01_value, C01_tuple, C01_headers, C01_bool): what the io decoder yields for one top-level value;
     C12 (C12_delivers): for a request sent, the handler runs exactly once, on exactly those bytes;
     C09 (C09_own_response): the caller receives exactly the response produced for its own request.
   Every theorem holds for every transport meeting C12/C09, every codec option pair, every registry, every
   name spelling, with or without a worker pool (the pool only changes which goroutine runs [handle]). *)
From Coq Require Import String.
From Coq Require Import List NArith ZArith Strings.Byte Bool.
From HV Require Import Lib.Dec Lib.Utf8 Model.Wire Model.WireSem Model.Enc Model.Codec Model.Call
                       Proofs.WireProofs Proofs.EncProofs Proofs.CodecProofs Proofs.CallProofs.
From HV Require Props.C07.
Import ListNotations.
Open Scope N_scope.

(* ---- which function is called ---------------------------------------------------------------------- *)

(* the name is matched ignoring case: two spellings with the same strings.ToLower find the same method *)
Theorem C08_lookup_case_insensitive : forall lower svc n1 n2,
  lower n1 = lower n2 -> lookup lower svc n1 = lookup lower svc n2.
Proof. exact lookup_case_insensitive. Qed.
Print Assumptions C08_lookup_case_insensitive.

Theorem C08_lookup_finds_registered : forall lower svc m name,
  m_missing m = false -> lower name = lower (m_name m) -> lookup lower (radd lower m svc) name = Some m.
Proof. exact lookup_other_spelling. Qed.
Print Assumptions C08_lookup_finds_registered.

(* otherwise the missing-method handler, if one is published *)
Theorem C08_lookup_falls_back : forall lower svc name,
  rfind (lower name) svc = None -> lookup lower svc name = rfind star svc.
Proof. exact lookup_falls_back. Qed.
Print Assumptions C08_lookup_falls_back.

(* the error slot of a published function: its LAST result whenever that result's type implements error - the
   interface type `error` or a concrete type (a pointer-to-struct type such as QuotaError, a named slice or string
   type ..., nillable or not) - and then it is not a result; "no error" is the zero value of that type (98e4ceb) *)
Theorem C08_error_slot_is_any_type_implementing_error : forall id name ctx params velem outs r,
  implements_error r = true ->
  m_err (make_method id name ctx params velem (outs ++ [r])) = true /\
  m_results (make_method id name ctx params velem (outs ++ [r])) = map rdesc_type outs.
Proof. exact make_method_error_slot. Qed.
Print Assumptions C08_error_slot_is_any_type_implementing_error.

(* calls in flight together (on one connection or many, with or without a worker pool) do not share per-call
   state: the answer to request i of a batch is the answer to that request alone *)
Theorem C08_calls_are_independent :
  forall fuel hp lower io_dec io_dec_hdrs impl stack dec_err_text so svc rh reqs i req,
  nth_error reqs i = Some req ->
  nth_error (serve_all fuel hp lower io_dec io_dec_hdrs impl stack dec_err_text so svc rh reqs) i =
  Some (handle fuel hp lower io_dec io_dec_hdrs impl stack dec_err_text so svc rh req).
Proof. intros. eapply serve_all_independent; eassumption. Qed.
Print Assumptions C08_calls_are_independent.

(* ---- exactly once, the right function, the right arguments ------------------------------------------- *)

(* For every conforming call (right number of arguments; or the target is the missing-method handler) and
   whatever the function then does (returns, returns an error, panics): the invocation log of the whole remote
   call is exactly one entry: the function found by [lookup], entered with the arguments converted to its
   parameter types (for the missing-method handler: the name as called and the argument list). *)
Theorem C08_exactly_once :
  forall fuel hp lower io_dec io_dec_hdrs zero (convert : dopts -> pty -> gval -> gval) (fits : gval -> pty -> Prop)
         impl stack dec_err_text tr_req tr_resp,
  C01_value hp io_dec convert fits -> C01_tuple hp io_dec convert fits ->
  C01_headers hp io_dec_hdrs convert fits -> C01_bool convert ->
  C12_delivers tr_req -> C09_own_response tr_resp ->
  forall co so svc rh rts name args h ops m,
  request_ok hp lower fits co svc name args h m -> conforms m args ->
  client_encode fuel hp co name args h = CEOk ops ->
  snd (invoke fuel hp lower io_dec io_dec_hdrs zero impl stack dec_err_text tr_req tr_resp co so svc rh rts name args h) =
  [(m_id m, entered_args convert so m name args)].
Proof. intros. eapply exactly_once; eassumption. Qed.
Print Assumptions C08_exactly_once.

(* ---- remote = local ---------------------------------------------------------------------------------- *)

(* If the function, entered with those arguments, returns vs without error, the caller gets vs converted to its
   declared return types (C01 normal forms; zero values for declared types beyond the results) - and the log is
   that single entry.  Guard ("_partial"): the shaped result is not itself an error value
   (C07_response_error_value_refuted). *)
Theorem C08_equals_local_partial :
  forall fuel hp lower io_dec io_dec_hdrs zero (convert : dopts -> pty -> gval -> gval) (fits : gval -> pty -> Prop)
         impl stack dec_err_text tr_req tr_resp,
  C01_value hp io_dec convert fits -> C01_tuple hp io_dec convert fits ->
  C01_headers hp io_dec_hdrs convert fits -> C01_bool convert ->
  C12_delivers tr_req -> C09_own_response tr_resp ->
  forall co so svc rh rts name args h ops m vs ops',
  request_ok hp lower fits co svc name args h m -> conforms m args -> response_ok fits so rh ->
  client_encode fuel hp co name args h = CEOk ops ->
  impl (m_id m) (entered_args convert so m name args) = FRet vs None ->
  gval_ok (shape vs) = true -> is_error_value (shape vs) = false -> results_fit fits rts vs ->
  service_encode fuel hp so (inl (shape vs)) rh = CEOk ops' ->
  invoke fuel hp lower io_dec io_dec_hdrs zero impl stack dec_err_text tr_req tr_resp co so svc rh rts name args h =
  (RRes (expected_results zero convert (c_dec co) rts vs), [(m_id m, entered_args convert so m name args)]).
Proof. intros. eapply equals_local; eassumption. Qed.
Print Assumptions C08_equals_local_partial.

(* through a proxy built by UseService: variadic tail flattened, leading context stripped, name mangled;
   results copied into the declared slots, zero values for the rest, nil error *)
Theorem C08_proxy_equals_local_partial :
  forall fuel hp lower io_dec io_dec_hdrs zero (convert : dopts -> pty -> gval -> gval) (fits : gval -> pty -> Prop)
         impl stack dec_err_text tr_req tr_resp,
  C01_value hp io_dec convert fits -> C01_tuple hp io_dec convert fits ->
  C01_headers hp io_dec_hdrs convert fits -> C01_bool convert ->
  C12_delivers tr_req -> C09_own_response tr_resp ->
  forall co so svc rh s ns tag field ins args h ops m vs ops',
  plain (strip_ctx (proxy_in (p_variadic s) ins)) = Some args ->
  request_ok hp lower fits co svc (mangle ns tag field) args h m -> conforms m args -> response_ok fits so rh ->
  client_encode fuel hp co (mangle ns tag field) args h = CEOk ops ->
  impl (m_id m) (entered_args convert so m (mangle ns tag field) args) = FRet vs None ->
  gval_ok (shape vs) = true -> is_error_value (shape vs) = false -> results_fit fits (p_outs s) vs ->
  service_encode fuel hp so (inl (shape vs)) rh = CEOk ops' ->
  proxy_call fuel hp lower io_dec io_dec_hdrs zero impl stack dec_err_text tr_req tr_resp co so svc rh s ns tag field ins h =
  (let r := expected_results zero convert (c_dec co) (p_outs s) vs in
   let k := Nat.min (length r) (length (p_outs s)) in
   PRet (firstn k r ++ map zero (skipn k (p_outs s))) None,
   [(m_id m, entered_args convert so m (mangle ns tag field) args)]).
Proof. intros. eapply proxy_equals_local; eassumption. Qed.
Print Assumptions C08_proxy_equals_local_partial.

Theorem C08_proxy_flattens_variadic : forall front vs,
  proxy_in true (front ++ [AVal (GSlice vs)]) = front ++ map AVal vs.
Proof. exact proxy_in_flattens. Qed.
Print Assumptions C08_proxy_flattens_variadic.

(* ---- errors and panics ------------------------------------------------------------------------------- *)

(* an error returned by the function reaches the caller as an error with the same message - never as a result *)
Theorem C08_error_propagates :
  forall fuel hp lower io_dec io_dec_hdrs zero (convert : dopts -> pty -> gval -> gval) (fits : gval -> pty -> Prop)
         impl stack dec_err_text tr_req tr_resp,
  C01_value hp io_dec convert fits -> C01_tuple hp io_dec convert fits ->
  C01_headers hp io_dec_hdrs convert fits -> C01_bool convert ->
  C12_delivers tr_req -> C09_own_response tr_resp ->
  forall co so svc rh rts name args h ops m vs e ops',
  request_ok hp lower fits co svc name args h m -> conforms m args -> response_ok fits so rh ->
  client_encode fuel hp co name args h = CEOk ops ->
  impl (m_id m) (entered_args convert so m name args) = FRet vs (Some e) ->
  service_encode fuel hp so (inr (EPlain e)) rh = CEOk ops' ->
  invoke fuel hp lower io_dec io_dec_hdrs zero impl stack dec_err_text tr_req tr_resp co so svc rh rts name args h =
  (RErr e (bytes_eqb e s_timeout), [(m_id m, entered_args convert so m name args)]).
Proof. intros. eapply error_propagates; eassumption. Qed.
Print Assumptions C08_error_propagates.

(* a panic raised by the function reaches the caller as an error whose message is the panic text
   (followed by the stack only when the service codec is in Debug mode) *)
Theorem C08_panic_propagates :
  forall fuel hp lower io_dec io_dec_hdrs zero (convert : dopts -> pty -> gval -> gval) (fits : gval -> pty -> Prop)
         impl stack dec_err_text tr_req tr_resp,
  C01_value hp io_dec convert fits -> C01_tuple hp io_dec convert fits ->
  C01_headers hp io_dec_hdrs convert fits -> C01_bool convert ->
  C12_delivers tr_req -> C09_own_response tr_resp ->
  forall co so svc rh rts name args h ops m p ops',
  request_ok hp lower fits co svc name args h m -> conforms m args -> response_ok fits so rh ->
  client_encode fuel hp co name args h = CEOk ops ->
  impl (m_id m) (entered_args convert so m name args) = FPanic p ->
  service_encode fuel hp so (inr (EPanicE p stack)) rh = CEOk ops' ->
  invoke fuel hp lower io_dec io_dec_hdrs zero impl stack dec_err_text tr_req tr_resp co so svc rh rts name args h =
  (RErr (error_text (s_debug so) (EPanicE p stack))
        (bytes_eqb (error_text (s_debug so) (EPanicE p stack)) s_timeout),
   [(m_id m, entered_args convert so m name args)]).
Proof. intros. eapply panic_propagates; eassumption. Qed.
Print Assumptions C08_panic_propagates.

(* through a proxy: the error slot carries the message; a proxy without an error slot panics with it *)
Theorem C08_proxy_error_propagates :
  forall fuel hp lower io_dec io_dec_hdrs zero (convert : dopts -> pty -> gval -> gval) (fits : gval -> pty -> Prop)
         impl stack dec_err_text tr_req tr_resp,
  C01_value hp io_dec convert fits -> C01_tuple hp io_dec convert fits ->
  C01_headers hp io_dec_hdrs convert fits -> C01_bool convert ->
  C12_delivers tr_req -> C09_own_response tr_resp ->
  forall co so svc rh s ns tag field ins args h ops m vs e ops',
  plain (strip_ctx (proxy_in (p_variadic s) ins)) = Some args ->
  request_ok hp lower fits co svc (mangle ns tag field) args h m -> conforms m args -> response_ok fits so rh ->
  client_encode fuel hp co (mangle ns tag field) args h = CEOk ops ->
  impl (m_id m) (entered_args convert so m (mangle ns tag field) args) = FRet vs (Some e) ->
  service_encode fuel hp so (inr (EPlain e)) rh = CEOk ops' ->
  proxy_call fuel hp lower io_dec io_dec_hdrs zero impl stack dec_err_text tr_req tr_resp co so svc rh s ns tag field ins h =
  ((if p_err s then PRet (map zero (p_outs s)) (Some e) else PPanic e),
   [(m_id m, entered_args convert so m (mangle ns tag field) args)]).
Proof. intros. eapply proxy_error_propagates; eassumption. Qed.
Print Assumptions C08_proxy_error_propagates.

(* a call with the wrong number of arguments never enters the function and is an error for the caller *)
Theorem C08_arity_mismatch_is_an_error :
  forall fuel hp lower io_dec io_dec_hdrs zero (convert : dopts -> pty -> gval -> gval) (fits : gval -> pty -> Prop)
         impl stack dec_err_text tr_req tr_resp,
  C01_value hp io_dec convert fits -> C01_tuple hp io_dec convert fits ->
  C01_headers hp io_dec_hdrs convert fits -> C01_bool convert ->
  C12_delivers tr_req -> C09_own_response tr_resp ->
  forall co so svc rh rts name args h ops m ops',
  request_ok hp lower fits co svc name args h m -> response_ok fits so rh -> m_missing m = false ->
  arity m (length args) <> Eq ->
  client_encode fuel hp co name args h = CEOk ops ->
  (forall msg, service_encode fuel hp so (inr (EPanicE msg stack)) rh = CEOk (ops' msg)) ->
  exists msg t,
    invoke fuel hp lower io_dec io_dec_hdrs zero impl stack dec_err_text tr_req tr_resp co so svc rh rts name args h =
    (RErr msg t, []).
Proof. intros. eapply arity_mismatch_is_an_error; eassumption. Qed.
Print Assumptions C08_arity_mismatch_is_an_error.

(* ---- nil and interface{} (repaired in /repo by 294f4cd and 74c0bf1) --------------------------------------- *)

(* f(x interface{}) called with nil: the function is entered with nil, as in the local call *)
Theorem C08_nil_interface_argument_enters : forall impl stack m name,
  m_missing m = false -> m_velem m = None -> m_params m = [TIface] ->
  execute impl stack m name [GNil] = of_fout stack (m_id m) [GNil] (impl (m_id m) [GNil]).
Proof. exact nil_interface_argument_enters. Qed.
Print Assumptions C08_nil_interface_argument_enters.

(* func() interface{} through a proxy, the service function returns nil: the proxy returns nil *)
Theorem C08_nil_interface_result_returns : forall zero err,
  proxy_out zero {| p_variadic := false; p_outs := [TIface]; p_err := err |} (RRes [GNil]) = PRet [GNil] None.
Proof. exact nil_interface_result_returns. Qed.
Print Assumptions C08_nil_interface_result_returns.

(* ---- non-vacuity --------------------------------------------------------------------------------------- *)

Import Props.C07.

Definition impl_and (id : N) (args : list gval) : fout :=
  match args with
  | [GBool a; GBool b] => FRet [GBool (a && b)] None
  | _ => FPanic ab
  end.

Definition wire_identity (b : bytes) : list bytes := [b].
Definition same_response (b : bytes) : bytes := b.

(* And(true, true) called as "AND" over a transport that delivers: every premise of C08_equals_local_partial holds,
   and the conclusion is a concrete remote call *)
Example equals_local_nonvacuous :
  invoke 10 [] id_lower toy_dec toy_dec_hdrs (fun _ => GNil) impl_and [] [] wire_identity same_response
         ref_client so1 svc1 [] [TNamed 0] (m_name m_and) [GBool true; GBool true] [] =
  (RRes [GBool true], [(7, [GBool true; GBool true])]).
Proof.
  destruct (C01_premises_satisfiable []) as (H1 & H2 & H3 & H4).
  assert (Hreq : request_ok [] id_lower toy_fits ref_client svc1 (m_name m_and) [GBool true; GBool true] [] m_and).
  { constructor; try reflexivity; [constructor|discriminate|cbn; repeat split]. }
  assert (Hconf : conforms m_and [GBool true; GBool true]) by (right; reflexivity).
  assert (Hresp : response_ok toy_fits so1 []) by (constructor; try reflexivity; [constructor|discriminate]).
  refine (C08_equals_local_partial 10 [] id_lower toy_dec toy_dec_hdrs (fun _ => GNil) toy_convert toy_fits
            impl_and [] [] wire_identity same_response H1 H2 H3 H4 (fun b => eq_refl) (fun b => eq_refl)
            ref_client so1 svc1 [] [TNamed 0] (m_name m_and) [GBool true; GBool true] [] _ m_and [GBool true] _
            Hreq Hconf Hresp eq_refl eq_refl eq_refl eq_refl _ eq_refl).
  cbn. split; [split; reflexivity|]. intros ts. discriminate.
Qed.

(* a panicking function: the caller gets an error with the panic text, and the function was entered once *)
Example panic_nonvacuous :
  invoke 10 [] id_lower toy_dec toy_dec_hdrs (fun _ => GNil) (fun _ _ => FPanic ab) [] [] wire_identity same_response
         ref_client so1 svc1 [] [TNamed 0] (m_name m_and) [GBool true; GBool true] [] =
  (RErr ab false, [(7, [GBool true; GBool true])]).
Proof. vm_compute. reflexivity. Qed.

(* func(n int) (int, pointer to QuotaError): one result, and an error slot *)
Example concrete_error_slot :
  let m := make_method 3 ab false [TNamed 0] None [RPlain (TNamed 0); RConcreteError (TNamed 1)] in
  m_err m = true /\ m_results m = [TNamed 0].
Proof. split; reflexivity. Qed.

(* the arity guard is met by typical calls and excluded ones exist *)
Example arity_examples :
  arity m_and 2 = Eq /\ arity m_and 1 = Lt /\ arity m_and 3 = Gt.
Proof. repeat split; reflexivity. Qed.
