(* C16 — Cluster retries never duplicate non-idempotent calls and respect the budget.
   Only statements, each closed by [exact lemma], with Print Assumptions.
   Model: Model/Cluster.v (Cluster.Handler, getIndex, Forking, Broadcast of
   rpc/plugins/cluster/cluster.go).  [handle c n ix cl] is one call through a plugin with
   config c on a client with n URLs while the failover closure's shared index is ix;
   [script cl k] is what the server does at attempt k (any function: all outcome streams). *)
From Coq Require Import List ZArith Bool Lia Permutation PeanoNat.
From HV Require Import Model.Cluster Proofs.ClusterProofs.
Import ListNotations.
Open Scope Z_scope.

(* ------------------------------------------------------------------ *)
(* the retry recursion *)

(* A call that is not marked idempotent (per-call item, else plugin default) is sent
   exactly once — whatever the outcome stream, the retry budget, the mode, the number of
   servers, the shared failover state — and the caller gets that attempt's outcome. *)
Theorem C16_non_idempotent_once : forall c n ix cl,
  eff_idem c cl = false ->
  attempts (handle c n ix cl) = [url (start n ix (it_retried cl))] /\
  (res (handle c n ix cl) = RCrash \/ res (handle c n ix cl) = result_of (script cl 0%nat)).
Proof. exact handle_non_idempotent_once. Qed.
Print Assumptions C16_non_idempotent_once.

(* At least one, at most (retry - retried) + 1 attempts, for every stream. *)
Theorem C16_attempts_le : forall c n ix cl,
  1 <= Z.of_nat (nattempts (handle c n ix cl)) <= Z.max 0 (eff_retry c cl - it_retried cl) + 1.
Proof. exact handle_attempts_le_Z. Qed.
Print Assumptions C16_attempts_le.

(* in the words of the property: a fresh call is attempted at most retry + 1 times *)
Theorem C16_attempts_le_retry_plus_1 : forall c n ix cl,
  it_retried cl = 0 -> 0 <= eff_retry c cl ->
  Z.of_nat (nattempts (handle c n ix cl)) <= eff_retry c cl + 1.
Proof. exact handle_attempts_le_plain. Qed.
Print Assumptions C16_attempts_le_retry_plus_1.

(* New() replaces a negative Retry by 10 and leaves everything else alone *)
Theorem C16_new_retry_nonneg : forall c, 0 <= retry (new c).
Proof. exact new_retry_nonneg. Qed.
Print Assumptions C16_new_retry_nonneg.

(* The Go recursion (literal test retried < retry, unbounded recursion) terminates: with
   any fuel above the budget it returns exactly what the structural model returns. *)
Theorem C16_terminates : forall c n ix cl fuel,
  (budget_of c cl < fuel)%nat -> handle_lit fuel c n ix cl = Some (handle c n ix cl).
Proof. exact handle_lit_terminates. Qed.
Print Assumptions C16_terminates.

Theorem C16_terminates_seq : forall c n carry cs ix prev,
  run_calls_lit c n carry ix prev cs = map Some (run_calls c n carry ix prev cs).
Proof. exact run_calls_lit_eq. Qed.
Print Assumptions C16_terminates_seq.

(* Stops at the first success and returns that attempt's response: if attempt k is the
   first successful one and lies within the budget, exactly k+1 attempts are made and the
   response of attempt k is returned. *)
Theorem C16_first_success_returned : forall c n ix cl k r,
  no_crash c n -> has_retry c = true -> eff_idem c cl = true ->
  script cl k = Ok r -> (forall j, (j < k)%nat -> is_ok (script cl j) = false) ->
  (k <= budget_of c cl)%nat ->
  nattempts (handle c n ix cl) = S k /\ res (handle c n ix cl) = RResp r.
Proof. exact handle_first_success. Qed.
Print Assumptions C16_first_success_returned.

(* In every mode and for every stream: what is returned is the outcome of the last
   attempt made (a response if it succeeded, else its error / recovered panic), and no
   attempt is ever made after a successful one. *)
Theorem C16_last_attempt_returned : forall c n ix cl,
  no_crash c n ->
  let o := handle c n ix cl in
  res o = result_of (script cl (nattempts o - 1)%nat) /\
  (forall j, (S j < nattempts o)%nat -> is_ok (script cl j) = false).
Proof. exact handle_last_returned. Qed.
Print Assumptions C16_last_attempt_returned.

(* No success within the budget: budget+1 attempts and the LAST error is returned. *)
Theorem C16_last_error_returned : forall c n ix cl,
  no_crash c n -> has_retry c = true -> eff_idem c cl = true ->
  (forall j, (j <= budget_of c cl)%nat -> is_ok (script cl j) = false) ->
  nattempts (handle c n ix cl) = S (budget_of c cl) /\
  res (handle c n ix cl) = result_of (script cl (budget_of c cl)).
Proof. exact handle_all_fail. Qed.
Print Assumptions C16_last_error_returned.

(* failfast (OnRetry == nil): one attempt, whatever Retry / Idempotent / items say *)
Theorem C16_failfast_once : forall c n ix cl,
  has_retry c = false ->
  attempts (handle c n ix cl) = [url (start n ix (it_retried cl))] /\
  (res (handle c n ix cl) = RCrash \/ res (handle c n ix cl) = result_of (script cl 0%nat)).
Proof. exact handle_failfast_once. Qed.
Print Assumptions C16_failfast_once.

(* the only crash: FailoverConfig's OnFailure indexes urls[0] on a client without URLs *)
Theorem C16_crash_only_without_urls : forall c n ix cl,
  no_crash c n -> res (handle c n ix cl) <> RCrash.
Proof. exact handle_no_crash. Qed.
Print Assumptions C16_crash_only_without_urls.

(* "retried" counts the retries; OnSuccess runs once iff a response is returned;
   OnFailure (if any) runs once per failed attempt *)
Theorem C16_callbacks : forall c n ix cl,
  no_crash c n ->
  let o := handle c n ix cl in
  retried (fin o) = it_retried cl + Z.of_nat (nattempts o) - 1 /\
  nsucc (fin o) = (if is_resp (res o) then 1 else 0)%nat /\
  (on_failure c <> FNone ->
   nfail (fin o) = (nattempts o - if is_resp (res o) then 1 else 0)%nat).
Proof. exact handle_callbacks. Qed.
Print Assumptions C16_callbacks.

(* The back-off intervals (WithMinInterval / WithMaxInterval) steer nothing but the sleep:
   two configs that differ only there produce the same attempts, URLs, result, "retried"
   item, index and callback counts.  (C16_attempts_le and the other theorems quantify over
   every cfg, intervals included: OnRetry stores the incremented counter before it clamps.) *)
Theorem C16_intervals_irrelevant : forall c c' n ix cl,
  cfg_core c = cfg_core c' -> core_o (handle c n ix cl) = core_o (handle c' n ix cl).
Proof. exact handle_intervals_irrelevant. Qed.
Print Assumptions C16_intervals_irrelevant.

(* the interval OnRetry returns: min*retried (failtry) / min*(retried-len(urls)) (failover),
   clamped to maxInterval; one interval per retry *)
Theorem C16_interval_clamped : forall c n rd,
  interval_of c n rd <= max_interval c /\
  (on_retry c = RFailover -> min_interval c * (rd - n) <= max_interval c ->
   interval_of c n rd = min_interval c * (rd - n)) /\
  (on_retry c <> RFailover -> min_interval c * rd <= max_interval c ->
   interval_of c n rd = min_interval c * rd).
Proof. exact interval_of_spec. Qed.
Print Assumptions C16_interval_clamped.

(* ------------------------------------------------------------------ *)
(* failover: where the attempts go *)

(* getIndex on a valid index is "+1 modulo n", both for the stored and the returned value *)
Theorem C16_get_index : forall n ix, 1 <= n -> ix_ok n ix ->
  get_index ix n = ((ix + 1) mod n, (ix + 1) mod n).
Proof. exact get_index_spec. Qed.
Print Assumptions C16_get_index.

(* Attempt 0 goes to URL 0, attempt j >= 1 to URL (ix + j) mod n — the value getIndex
   yields — every attempt goes to a configured URL and the shared index stays valid. *)
Theorem C16_failover_rotates : forall c n ix cl,
  on_failure c = FRotate -> 1 <= n -> ix_ok n ix ->
  let o := handle c n ix cl in
  nth_error (attempts o) 0 = Some 0 /\
  (forall j, (0 < j < nattempts o)%nat -> nth_error (attempts o) j = Some ((ix + Z.of_nat j) mod n)) /\
  Forall (ix_ok n) (attempts o) /\ ix_ok n (index (fin o)).
Proof. exact handle_failover_urls. Qed.
Print Assumptions C16_failover_rotates.

(* from the second attempt on, consecutive attempts of a call go to cyclically
   successive servers *)
Theorem C16_failover_successive : forall c n ix cl j u,
  on_failure c = FRotate -> 1 <= n -> ix_ok n ix ->
  (0 < j)%nat -> (S j < nattempts (handle c n ix cl))%nat ->
  nth_error (attempts (handle c n ix cl)) j = Some u ->
  nth_error (attempts (handle c n ix cl)) (S j) = Some ((u + 1) mod n).
Proof. exact handle_failover_successive. Qed.
Print Assumptions C16_failover_successive.

(* any sequence of calls through one plugin (any mode), started with a fresh index:
   every attempt of every call goes to a configured URL *)
Theorem C16_urls_always_configured : forall c n carry, 1 <= n -> forall cs ix prev,
  ix_ok n ix ->
  Forall (fun o => Forall (ix_ok n) (attempts o)) (run_calls c n carry ix prev cs).
Proof. exact run_calls_urls_valid. Qed.
Print Assumptions C16_urls_always_configured.

(* getIndex with CONCURRENT callers (calls failing at the same time share the closure's
   index): for every number of threads, every number of getIndex calls per thread and every
   interleaving of the atomic steps AddInt64 / StoreInt64: the index is never negative,
   exceeds n-1 by at most the number of callers that still owe their StoreInt64(index, 0),
   every value returned is a configured URL index, and as soon as nobody is inside getIndex
   the index is back in [0,n) — the state in which C16_failover_rotates & co. apply. *)
Theorem C16_get_index_concurrent : forall n k sched s,
  1 <= n -> gi_run n (gi_init k) sched = Some s ->
  0 <= g_index s <= n - 1 + Z.of_nat (pending (g_pcs s)) /\
  Forall (fun p => match p with GIdle (Some r) => ix_ok n r | _ => True end) (g_pcs s) /\
  (pending (g_pcs s) = 0%nat -> ix_ok n (g_index s)).
Proof. exact get_index_concurrent. Qed.
Print Assumptions C16_get_index_concurrent.

(* the LTS run by one thread alone is the sequential get_index of the theorems above *)
Theorem C16_get_index_lts_sequential : forall n ix last, 1 <= n -> ix_ok n ix ->
  exists sched s, gi_run n {| g_index := ix; g_pcs := [GIdle last] |} sched = Some s /\
                  g_index s = fst (get_index ix n) /\
                  g_pcs s = [GIdle (Some (snd (get_index ix n)))].
Proof. exact get_index_solo. Qed.
Print Assumptions C16_get_index_lts_sequential.

(* a failover call that gets as far as n retries has tried every configured server (so a
   call with retry >= n succeeds whenever some server is healthy) *)
Theorem C16_failover_covers_all : forall c n ix cl u,
  on_failure c = FRotate -> 1 <= n -> ix_ok n ix -> ix_ok n u ->
  (Z.to_nat n < nattempts (handle c n ix cl))%nat ->
  exists j, (0 < j <= Z.to_nat n)%nat /\ nth_error (attempts (handle c n ix cl)) j = Some u.
Proof. exact handle_failover_covers. Qed.
Print Assumptions C16_failover_covers_all.

(* "Failover moves to ANOTHER configured server after each failure" is FALSE of the
   faithful model: every call starts at urls[0] (ClientContext.Init) while the index of
   the failover closure is shared by all calls; when that index is n-1 the first failure
   of a call wraps it to 0 and the retry goes to urls[0] again.  Witness reachable from a
   fresh plugin: 2 servers, two calls each failing once then succeeding; the second call's
   attempts go to servers 0, 0. *)
Theorem C16_failover_moves_refuted :
  exists (c : cfg) (n : Z) (cs : list call) (o : obs) (j : nat) (u : Z),
    c = new (failover_config 3 true 0 0) /\ 2 <= n /\
    nth_error (run_calls c n false 0 None cs) 1 = Some o /\
    nth_error (attempts o) j = Some u /\ nth_error (attempts o) (S j) = Some u /\
    is_ok (script (nth 1 cs {| it_idem := None; it_retry := None; it_retried := 0;
                               script := script_of [] |}) j) = false.
Proof. exact failover_moves_refuted. Qed.
Print Assumptions C16_failover_moves_refuted.

(* ... and it happens for every call that starts while the shared index is n-1 *)
Theorem C16_failover_moves_refuted_any : forall c n cl,
  on_failure c = FRotate -> 2 <= n -> has_retry c = true -> eff_idem c cl = true ->
  (0 < budget_of c cl)%nat -> is_ok (script cl 0%nat) = false ->
  firstn 2 (attempts (handle c n (n - 1) cl)) = [0; 0].
Proof. exact failover_moves_refuted_any. Qed.
Print Assumptions C16_failover_moves_refuted_any.

(* Under the exact guard (the shared index is not n-1 when the call starts; in particular
   for the first call through a fresh plugin) every failed attempt is followed by an
   attempt at a different server. *)
Theorem C16_failover_moves_partial : forall c n ix cl j u v,
  on_failure c = FRotate -> 2 <= n -> ix_ok n ix -> ix <> n - 1 ->
  nth_error (attempts (handle c n ix cl)) j = Some u ->
  nth_error (attempts (handle c n ix cl)) (S j) = Some v ->
  u <> v.
Proof. exact handle_failover_moves. Qed.
Print Assumptions C16_failover_moves_partial.

(* failtry / failfast never leave the URL the call started with *)
Theorem C16_failtry_same_server : forall c n idm outs b k s,
  on_failure c <> FRotate ->
  let o := loop c n idm outs b k s in
  attempts o = repeat (url s) (nattempts o) /\ index (fin o) = index s /\ url (fin o) = url s.
Proof. exact loop_same_url. Qed.
Print Assumptions C16_failtry_same_server.

(* ------------------------------------------------------------------ *)
(* Forking: every completion order, every mix of errors and panics *)

(* the first goroutine completing successfully decides: its response is returned *)
Theorem C16_forking_first_success : forall outs order pre i post r,
  NoDup order -> (forall j, In j order -> (j < length outs)%nat) ->
  order = pre ++ i :: post ->
  nth_error outs i = Some (Ok r) -> Forall (fun j => okb outs j = false) pre ->
  forking outs order = Some (RResp r).
Proof. exact forking_first_success. Qed.
Print Assumptions C16_forking_first_success.

(* once all goroutines completed (in whatever order) the caller has been released, and
   with an error exactly when every server failed *)
Theorem C16_forking_fails_iff_all_fail : forall outs order,
  Permutation order (seq 0 (length outs)) -> outs <> [] ->
  exists d, forking outs order = Some d /\
            (is_resp d = false <-> Forall (fun o => is_ok o = false) outs).
Proof. exact forking_fails_iff_all_fail. Qed.
Print Assumptions C16_forking_fails_iff_all_fail.

(* which error: that of the goroutine completing last (error or recovered panic) *)
Theorem C16_forking_all_fail_last_error : forall outs order,
  Permutation order (seq 0 (length outs)) -> outs <> [] ->
  Forall (fun o => is_ok o = false) outs ->
  exists pre x o, order = pre ++ [x] /\ nth_error outs x = Some o /\
                  forking outs order = Some (result_of o).
Proof. exact forking_all_fail. Qed.
Print Assumptions C16_forking_all_fail_last_error.

(* which response: that of the first successful completion *)
Theorem C16_forking_some_ok : forall outs order,
  Permutation order (seq 0 (length outs)) ->
  Exists (fun o => is_ok o = true) outs ->
  exists pre i post r, order = pre ++ i :: post /\ nth_error outs i = Some (Ok r) /\
                       Forall (fun j => okb outs j = false) pre /\
                       forking outs order = Some (RResp r).
Proof. exact forking_some_ok. Qed.
Print Assumptions C16_forking_some_ok.

(* while some goroutine is still running no error can have been returned *)
Theorem C16_forking_no_early_error : forall outs order,
  NoDup order -> (forall j, In j order -> (j < length outs)%nat) ->
  (length order < length outs)%nat ->
  forking outs order = None \/ exists r, forking outs order = Some (RResp r).
Proof. exact forking_no_early_error. Qed.
Print Assumptions C16_forking_no_early_error.

(* the goroutine-level LTS, every schedule: no server is invoked twice, only configured
   servers are invoked, and the decision is the one of the completion-order model *)
Theorem C16_forking_lts : forall outs sched s,
  fork_lts outs sched = Some s ->
  (forall i, (count_occ Nat.eq_dec (invoked s) i <= 1)%nat) /\
  (forall i, In i (invoked s) -> (i < length outs)%nat) /\
  NoDup (completed s) /\ incl (completed s) (invoked s) /\
  f_done (sh s) = forking outs (completed s) /\
  (all_done (pcs s) = true -> Permutation (invoked s) (seq 0 (length outs)) /\
                              Permutation (completed s) (seq 0 (length outs))).
Proof. exact fork_lts_facts. Qed.
Print Assumptions C16_forking_lts.

(* degenerate sizes, stated explicitly.  ONE server: Forking returns exactly that server's
   outcome — a response, its error, or its panic recovered into a PanicError (never a raw
   panic); the goroutine LTS agrees and invokes it once; Broadcast likewise. *)
Theorem C16_forking_single_server : forall o, forking [o] [0%nat] = Some (result_of o).
Proof. exact forking_single. Qed.
Print Assumptions C16_forking_single_server.

Theorem C16_forking_single_server_lts : forall o,
  exists s, fork_lts [o] [0%nat; 0%nat] = Some s /\ all_done (pcs s) = true /\
            invoked s = [0%nat] /\ f_done (sh s) = Some (result_of o).
Proof. exact fork_lts_single. Qed.
Print Assumptions C16_forking_single_server_lts.

Theorem C16_broadcast_single_server : forall o,
  bcast_run [o] [0%nat] =
  {| b_slots := [slot_of o]; b_err := if is_ok o then None else Some (result_of o) |}.
Proof. exact bcast_single. Qed.
Print Assumptions C16_broadcast_single_server.

(* one server under the retry configs: every attempt goes to it (all other theorems hold
   for n = 1 and retry = 0 as they quantify over every n and every budget) *)
Theorem C16_single_server_all_attempts_there : forall c ix cl,
  ix_ok 1 ix -> Forall (fun u => u = 0) (attempts (handle c 1 ix cl)).
Proof. exact handle_single_server. Qed.
Print Assumptions C16_single_server_all_attempts_there.

(* ------------------------------------------------------------------ *)
(* Broadcast: every schedule of the goroutines *)

(* when Broadcast returns (all goroutines done) every configured server has been invoked
   exactly once and nothing else was invoked; slot i holds server i's response (nil when
   it failed); err is nil iff every server succeeded *)
Theorem C16_broadcast_each_once : forall outs sched s,
  bcast_lts outs sched = Some s -> all_done (pcs s) = true ->
  (forall i, (i < length outs)%nat -> count_occ Nat.eq_dec (invoked s) i = 1%nat) /\
  (forall i, (length outs <= i)%nat -> count_occ Nat.eq_dec (invoked s) i = 0%nat) /\
  b_slots (sh s) = map slot_of outs /\
  (b_err (sh s) = None <-> Forall (fun o => is_ok o = true) outs) /\
  sh s = bcast_run outs (completed s).
Proof. exact bcast_each_once. Qed.
Print Assumptions C16_broadcast_each_once.

(* the error kept is the one of the first failing completion *)
Theorem C16_broadcast_first_error : forall outs order pre i post o,
  order = pre ++ i :: post -> Forall (fun j => okb outs j = true) pre ->
  nth_error outs i = Some o -> is_ok o = false ->
  b_err (bcast_run outs order) = Some (result_of o).
Proof. exact bcast_first_error. Qed.
Print Assumptions C16_broadcast_first_error.

(* ---- non-vacuity: the hypotheses are met by ordinary configurations ---- *)

Definition mk_call (i : option bool) (r : option Z) (l : list outcome) : call :=
  {| it_idem := i; it_retry := r; it_retried := 0; script := script_of l |}.

(* failover, 3 servers, retry 3, idempotent: error, panic, success -> servers 0,1,2 *)
Example failover_error_panic_success :
  let c := new (failover_config 3 true 0 0) in
  let o := handle c 3 0 (mk_call None None [Err 1; Panic 2; Ok 3; Ok 4]) in
  attempts o = [0; 1; 2] /\ res o = RResp 3 /\ retried (fin o) = 2 /\ index (fin o) = 2 /\
  no_crash c 3 /\ has_retry c = true /\ on_failure c = FRotate /\ ix_ok 3 0 /\ 0 <> 3 - 1.
Proof. vm_compute. repeat split; try reflexivity; try discriminate; try lia; right; discriminate. Qed.

(* success after exactly retry failures; and one failure more: the last error *)
Example budget_boundary :
  let c := new (failtry_config 2 true 0 0) in
  res (handle c 1 0 (mk_call None None [Err 1; Panic 2; Ok 3])) = RResp 3 /\
  res (handle c 1 0 (mk_call None None [Err 1; Panic 2; Panic 3; Ok 4])) = RPanicErr 3 /\
  attempts (handle c 1 0 (mk_call None None [Err 1; Panic 2; Panic 3; Ok 4])) = [0; 0; 0] /\
  budget_of c (mk_call None None []) = 2%nat.
Proof. vm_compute. repeat split; reflexivity. Qed.

(* per-call override: plugin says idempotent, the call says no -> one attempt *)
Example override_not_idempotent :
  let c := new (failover_config 3 true 0 0) in
  let cl := mk_call (Some false) None [Panic 1; Ok 2] in
  eff_idem c cl = false /\ attempts (handle c 2 0 cl) = [0] /\ res (handle c 2 0 cl) = RPanicErr 1.
Proof. vm_compute. repeat split; reflexivity. Qed.

(* negative Retry -> 10 in New; a per-call negative retry item -> no retry *)
Example negative_retry :
  retry (new (failtry_config (-1) true 0 0)) = 10 /\
  nattempts (handle (new (failtry_config (-1) true 0 0)) 1 0 (mk_call None None [])) = 11%nat /\
  nattempts (handle (new (failtry_config 3 true 0 0)) 1 0 (mk_call None (Some (-1)) [])) = 1%nat.
Proof. vm_compute. repeat split; reflexivity. Qed.

(* failfast with the fields set to "retry": still once, OnFailure called once *)
Example failfast_example :
  let c := new (failfast_config 3 true) in
  let o := handle c 2 0 (mk_call (Some true) (Some 5) [Err 1; Ok 2]) in
  has_retry c = false /\ attempts o = [0] /\ res o = RErr 1 /\ nfail (fin o) = 1%nat.
Proof. vm_compute. repeat split; reflexivity. Qed.

(* the guard of the partial theorem fails exactly in the witness situation *)
Example failover_wrap_witness :
  let c := new (failover_config 3 true 0 0) in
  map attempts (run_calls c 2 false 0 None
                  [mk_call None None [Err 1; Ok 2]; mk_call None None [Err 3; Ok 4]])
  = [[0; 1]; [0; 0]].
Proof. vm_compute. reflexivity. Qed.

(* the crash exists: failover on a client without URLs *)
Example failover_without_urls :
  res (handle (new (failover_config 3 true 0 0)) 0 0 (mk_call None None [Err 1])) = RCrash.
Proof. vm_compute. reflexivity. Qed.

(* forking: error, success, panic; completion order 2,0,1 -> server 1's response;
   all failing -> the error of the last completion; not decided before the last one *)
Example forking_examples :
  forking [Err 10; Ok 11; Panic 12] [2; 0; 1]%nat = Some (RResp 11) /\
  forking [Err 10; Err 11; Panic 12] [1; 0; 2]%nat = Some (RPanicErr 12) /\
  forking [Err 10; Err 11; Panic 12] [1; 0]%nat = None /\
  Permutation [2; 0; 1]%nat (seq 0 3) /\ NoDup [2; 0; 1]%nat.
Proof.
  vm_compute. repeat split; try reflexivity.
  - change (Permutation (2 :: [0; 1]) ([0; 1] ++ 2 :: []))%nat. apply Permutation_cons_app. reflexivity.
  - repeat constructor; cbn; intuition discriminate.
Qed.

(* an interleaved schedule of the goroutine LTS reaching "all done" *)
Example fork_lts_example :
  match fork_lts [Err 10; Ok 11] [1; 0; 0; 1]%nat with
  | Some s => all_done (pcs s) = true /\ invoked s = [1; 0]%nat /\ completed s = [0; 1]%nat /\
              f_done (sh s) = Some (RResp 11)
  | None => False
  end.
Proof. vm_compute. repeat split; reflexivity. Qed.

Example bcast_lts_example :
  match bcast_lts [Ok 10; Panic 11; Err 12] [2; 0; 1; 2; 1; 0]%nat with
  | Some s => all_done (pcs s) = true /\ b_slots (sh s) = [Some 10; None; None] /\
              b_err (sh s) = Some (RErr 12)
  | None => False
  end.
Proof. vm_compute. repeat split; reflexivity. Qed.

(* back-off above the cap with a budget beyond max/min: the counter still advances and the
   budget still ends the call (min 10, max 25, retry 6: intervals 10 20 25 25 25 25) *)
Example backoff_above_cap :
  let c := new (failtry_config 6 true 10 25) in
  let o := handle c 1 0 (mk_call None None []) in
  nattempts o = 7%nat /\ retried (fin o) = 6 /\ rev (ivs (fin o)) = [10; 20; 25; 25; 25; 25] /\
  cfg_core c = cfg_core (new (failtry_config 6 true 0 0)).
Proof. vm_compute. repeat split; reflexivity. Qed.

(* failover: negative while retried < len(urls), zero at it, then growing to the cap *)
Example backoff_failover :
  let o := handle (new (failover_config 5 true 10 15)) 2 0 (mk_call None None []) in
  rev (ivs (fin o)) = [-10; 0; 10; 15; 15] /\ attempts o = [0; 1; 0; 1; 0; 1].
Proof. vm_compute. repeat split; reflexivity. Qed.

(* two failures racing at the wrap boundary: the index overshoots to n+1 while two callers
   owe their Store, and is back at 0 when both have stored *)
Example get_index_race :
  (match gi_run 2 (gi_init 3) [0; 1; 2]%nat with
   | Some s => g_index s = 3 /\ pending (g_pcs s) = 2%nat | None => False end) /\
  (match gi_run 2 (gi_init 3) [0; 1; 2; 1; 2]%nat with
   | Some s => g_index s = 0 /\ pending (g_pcs s) = 0%nat | None => False end).
Proof. vm_compute. repeat split; reflexivity. Qed.

(* T2: cluster.getIndex as regenerated from the source on every run (Gen/GoFuncs.v; sequential meaning of AddInt64 /
   StoreInt64, the cell threaded through) is the hand model get_index, and one call by one thread is exactly the
   composition of the atomic steps of the concurrent LTS (gi_step) that C16_get_index_concurrent is about: one
   step when the incremented cursor is below n (or n <= 1), AddInt64 then StoreInt64 otherwise. *)
From HV Require Import Lib.GoLite Gen.GoFuncs Proofs.GoFuncsAtomicProofs.
Theorem C16_source_getIndex_is_the_model : forall index n,
  cluster_getIndex index n = GRet (snd (get_index index n), fst (get_index index n)).
Proof. exact cluster_getIndex_refines. Qed.
Print Assumptions C16_source_getIndex_is_the_model.

Theorem C16_source_getIndex_steps_of_the_lts : forall n s t last r cell,
  nth_error (g_pcs s) t = Some (GIdle last) ->
  cluster_getIndex (g_index s) n = GRet (r, cell) ->
  exists s', (gi_run n s [t] = Some s' \/ gi_run n s [t; t] = Some s') /\
             nth_error (g_pcs s') t = Some (GIdle (Some r)) /\ g_index s' = cell.
Proof. exact gi_steps_are_the_source. Qed.
Print Assumptions C16_source_getIndex_steps_of_the_lts.
