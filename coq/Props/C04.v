(* C04 -- Decoding untrusted bytes never crashes, hangs or over-allocates.
   Only statements, each closed by [exact lemma], with Print Assumptions.

   Reading guide.  Model/DecBytes.v decodes ANY byte string into a destination shape (interface{},
   numbers, string, []byte, *big.X, time, uuid, slices, arrays, maps, structs, pointers), through
   io.Unmarshal ([unmarshal]), the service codec ([service_decode]) and the client codec
   ([client_decode]); the input is in memory (reader == nil).  A result is a tree [out]: [ROk v s],
   or [RHaz h s k] = "the code of the pinned tree panics at site h in state s; code that checks first
   continues with k".  [interp checked r] is what a tree with the checks [checked] does:
   [VPanic h s] at the first hazard it does not check.  The state carries the rest of the input,
   the sticky error, the reference and class tables, and the counters [alloc] (bytes allocated
   because the wire said so), [steps], [spin] (loop iterations run after the input was exhausted),
   [excess] (announced counts/lengths the input did not deliver).  [fixes] switches the
   behavioural repairs (count checks, loops that stop on error, no speculative allocation);
   [pinned] has none of them.  The theorems quantify over every oracle for the library parsers. *)
From Coq Require Import List ZArith NArith Bool Init.Byte Lia Strings.String.
From HV Require Import Model.DecStream Model.DecBytes Proofs.DecBytesProofs Proofs.DecBytesCost.
Import ListNotations.
Open Scope string_scope.
Local Notation length := List.length.

(* ---- C04_no_panic: refuted on the pinned tree, one witness per site ---- *)

Theorem C04_no_panic_refuted_ref_index : panics_at (U (B "r5;") false SIface) HRefIndex.
Proof. exact w_ref_index. Qed.
Print Assumptions C04_no_panic_refuted_ref_index.
Theorem C04_no_panic_refuted_ref_in_simple_mode : panics_at (U (B "r0;") true SIface) HRefIndex.
Proof. exact w_ref_index_simple. Qed.
Print Assumptions C04_no_panic_refuted_ref_in_simple_mode.
Theorem C04_no_panic_refuted_class_index : panics_at (U (B "o5{}") true SIface) HClassIndex.
Proof. exact w_class_index. Qed.
Print Assumptions C04_no_panic_refuted_class_index.
Theorem C04_no_panic_refuted_class_names_negative : panics_at (U (B "c1""A""-1{}") true SIface) (HMakeNeg MNames).
Proof. exact w_names_neg. Qed.
Print Assumptions C04_no_panic_refuted_class_names_negative.
Theorem C04_no_panic_refuted_uint8_slice_negative : panics_at (U (B "a-1{}") true SBytes) (HMakeNeg MUint8).
Proof. exact w_uint8_neg. Qed.
Print Assumptions C04_no_panic_refuted_uint8_slice_negative.
Theorem C04_no_panic_refuted_arguments_negative : panics_at (Sv (B "Cs3""add""a-1{}z")) (HMakeNeg MArgs).
Proof. exact w_args_neg. Qed.
Print Assumptions C04_no_panic_refuted_arguments_negative.
Theorem C04_no_panic_refuted_string_make_negative : panics_at (U [x75; xf0] true SIface) (HMakeNeg MStr).
Proof. exact w_str_neg. Qed.
Print Assumptions C04_no_panic_refuted_string_make_negative.
Theorem C04_no_panic_refuted_class_names_range : panics_at (U (B "c1""A""100000000000000{") true SIface) (HAllocRange MNames).
Proof. exact w_names_range. Qed.
Print Assumptions C04_no_panic_refuted_class_names_range.
Theorem C04_no_panic_refuted_uint8_slice_range : panics_at (U (B "a1000000000000000{") true SBytes) (HAllocRange MUint8).
Proof. exact w_uint8_range. Qed.
Print Assumptions C04_no_panic_refuted_uint8_slice_range.
Theorem C04_no_panic_refuted_arguments_range : panics_at (Sv (B "Cs3""add""a100000000000000{")) (HAllocRange MArgs).
Proof. exact w_args_range. Qed.
Print Assumptions C04_no_panic_refuted_arguments_range.
Theorem C04_no_panic_refuted_slice_range : panics_at (U (B "a100000000000000{") true SIface) (HAllocRange MSlice).
Proof. exact w_slice_range. Qed.
Print Assumptions C04_no_panic_refuted_slice_range.
Theorem C04_no_panic_refuted_next_range : panics_at (U (B "b1000000000000000""ab") true SIface) (HAllocRange MNext).
Proof. exact w_next_range. Qed.
Print Assumptions C04_no_panic_refuted_next_range.
Theorem C04_no_panic_refuted_string_range : panics_at (U (B "s100000000000000""a") true SIface) (HAllocRange MStr).
Proof. exact w_str_range. Qed.
Print Assumptions C04_no_panic_refuted_string_range.
Theorem C04_no_panic_refuted_bytes_negative_length : panics_at (U (B "b-5""abc") true SIface) HNextNeg.
Proof. exact w_next_neg. Qed.
Print Assumptions C04_no_panic_refuted_bytes_negative_length.
Theorem C04_no_panic_refuted_string_length_overflow : panics_at (U (B "s4611686018427387904""abc""") true SIface) HStrIndex.
Proof. exact w_str_index. Qed.
Print Assumptions C04_no_panic_refuted_string_length_overflow.
Theorem C04_no_panic_refuted_four_byte_char : panics_at (U [x75; xf0; x61; x62] true SIface) HStrSlice.
Proof. exact w_str_slice. Qed.
Print Assumptions C04_no_panic_refuted_four_byte_char.
Theorem C04_no_panic_refuted_bigrat_nil : panics_at (U (B "lxyz;") true (SBig BRat)) HBigRatNil.
Proof. exact w_bigrat_nil. Qed.
Print Assumptions C04_no_panic_refuted_bigrat_nil.
Theorem C04_no_panic_refuted_unhashable_key : panics_at (U (B "m1{a{}1}") true SIface) HUnhashable.
Proof. exact w_unhashable. Qed.
Print Assumptions C04_no_panic_refuted_unhashable_key.
Theorem C04_no_panic_refuted_nil_reference_iface : panics_at (Cl (B "Ra2{1r0;}z") [int_; SIface]) HRefNilSet.
Proof. exact w_ref_nil_set. Qed.
Print Assumptions C04_no_panic_refuted_nil_reference_iface.
Theorem C04_no_panic_refuted_nil_reference_typed : panics_at (Cl (B "Ra2{1r0;}z") [int_; int_]) HRefNilKind.
Proof. exact w_ref_nil_kind. Qed.
Print Assumptions C04_no_panic_refuted_nil_reference_typed.
Theorem C04_no_panic_refuted_object_as_map_field :
  panics_at (U (B "c2""Pt""1{s1""q""}o0{1}") true (SMap SString SIface)) HObjMapField.
Proof. exact w_objmap_field. Qed.
Print Assumptions C04_no_panic_refuted_object_as_map_field.
Theorem C04_no_panic_refuted_object_as_map_key :
  panics_at (U (B "c2""Pt""1{s1""x""}o0{1}") true (SMap SIface SIface)) HObjMapKey.
Proof. exact w_objmap_key. Qed.
Print Assumptions C04_no_panic_refuted_object_as_map_key.
(* A number written with an exponent is built in full: 13 bytes, a 332-million-bit integer.  The node is a cost
   failure, not a panic: [interp] stops there when the tree lacks the bound, like at any other unchecked hazard. *)
Theorem C04_alloc_linear_refuted_exponent_into_bigint : panics_at (Uy (B "d1e100000000;") true (SBig BInt)) HBigExp.
Proof. exact w_big_exp_int. Qed.
Print Assumptions C04_alloc_linear_refuted_exponent_into_bigint.
Theorem C04_alloc_linear_refuted_exponent_into_bigrat : panics_at (Uy (B "s11""1e100000000""") true (SBig BRat)) HBigExp.
Proof. exact w_big_exp_rat. Qed.
Print Assumptions C04_alloc_linear_refuted_exponent_into_bigrat.

Theorem C04_no_panic_refuted_array_negative_count : panics_at (U (B "a-3{}") true (SArray 2 int_)) HArrayNeg.
Proof. exact w_array_neg. Qed.
Print Assumptions C04_no_panic_refuted_array_negative_count.
Theorem C04_no_panic_refuted_client_negative_count : panics_at (Cl (B "Ra-1{}z") [int_; int_]) HClientCount.
Proof. exact w_client_count. Qed.
Print Assumptions C04_no_panic_refuted_client_negative_count.

(* ---- C04_no_panic, what holds for ALL byte strings, shapes, modes, entries, oracles ---- *)

(* a panic happens only at a hazard node whose check the tree lacks *)
Theorem C04_panic_only_at_unchecked_hazard : forall (A : Type) (checked : site -> bool) (r : out A) h s,
  interp checked r = VPanic h s -> In h (hazards r) /\ checked h = false.
Proof. exact interp_panic_hazard. Qed.
Print Assumptions C04_panic_only_at_unchecked_hazard.

(* with every check in place nothing panics: Unmarshal, service request, client response *)
Theorem C04_no_panic_checked_unmarshal : forall orc reg fx fuel bs smp sh h s,
  interp all_checks (unmarshal orc reg fx fuel bs smp sh) <> VPanic h s.
Proof. intros. apply interp_all_checks_no_panic. Qed.
Print Assumptions C04_no_panic_checked_unmarshal.
Theorem C04_no_panic_checked_service : forall orc reg fx fuel ms missing bs h s,
  interp all_checks (service_decode orc reg fx fuel ms missing bs) <> VPanic h s.
Proof. intros. apply interp_all_checks_no_panic. Qed.
Print Assumptions C04_no_panic_checked_service.
Theorem C04_no_panic_checked_client : forall orc reg fx fuel rts bs h s,
  interp all_checks (client_decode orc reg fx fuel rts bs) <> VPanic h s.
Proof. intros. apply interp_all_checks_no_panic. Qed.
Print Assumptions C04_no_panic_checked_client.

(* the exact guard: the run meets no hazard (every reference and class index in range, no negative
   or out-of-range count feeding make, no negative length, no 4-byte character where one unit is
   left, no overflowing string length, no unparsable long into *big.Rat, no unhashable key, no nil
   reference, no negative array / client count).  Then the tree without any check does exactly
   what the fully checked one does, and in particular does not panic. *)
Theorem C04_no_panic_partial : forall (A : Type) (r : out A),
  hazards r = [] ->
  (forall checked h s, interp checked r <> VPanic h s) /\
  (forall c1 c2, interp c1 r = interp c2 r).
Proof. intros A r H. split; [intros; apply no_hazard_no_panic; exact H|intros; apply no_hazard_same; exact H]. Qed.
Print Assumptions C04_no_panic_partial.

(* ---- C04_error_sticky ---- *)

(* through every decode, in every state the result mentions (also the ones at which the pinned
   tree panics): the input never grows back and an error, once set, stays set *)
Theorem C04_error_sticky : forall orc reg fx fuel sh s,
  all_states (R s) (dec_val orc reg fx fuel sh s).
Proof. intros. apply allR_all_states. apply allR_dec_val. Qed.
Print Assumptions C04_error_sticky.
Theorem C04_error_sticky_service : forall orc reg fx fuel ms missing bs,
  all_states (R (start fx bs false)) (service_decode orc reg fx fuel ms missing bs).
Proof. intros. apply allR_all_states. apply allR_service_decode. Qed.
Print Assumptions C04_error_sticky_service.
Theorem C04_error_sticky_client : forall orc reg fx fuel rts bs,
  all_states (R (start fx bs false)) (client_decode orc reg fx fuel rts bs).
Proof. intros. apply allR_all_states. apply allR_client_decode. Qed.
Print Assumptions C04_error_sticky_client.

(* "malformed input is reported through the decoder's error": refuted on the pinned tree *)
Theorem C04_malformed_reported_refuted_negative_count :
  done_with (U (B "a-1{}") true (SSlice int_)) (fun s => err s = None /\ corrupt s = true).
Proof. exact w_neg_slice. Qed.
Print Assumptions C04_malformed_reported_refuted_negative_count.
Theorem C04_malformed_reported_refuted_empty_integer : done_with (U (B "i;") true SIface) (fun s => err s = None).
Proof. exact w_lenient_int. Qed.
Print Assumptions C04_malformed_reported_refuted_empty_integer.
Theorem C04_malformed_reported_refuted_list_body : done_with (U (B "a{1}") true SIface) (fun s => err s = None).
Proof. exact w_lenient_list. Qed.
Print Assumptions C04_malformed_reported_refuted_list_body.

(* ---- C04_terminates_linear ---- *)

(* The evaluator itself always terminates: with fuel 3*(|bs|+1)+3 (fuel_for gives more) no run of
   Unmarshal / service request / client response decoding ends in OutOfFuel, whatever the bytes,
   shape, mode, oracle, fixes and checks. *)
Theorem C04_fuel_suffices : forall orc reg fx bs smp sh checked,
  interp checked (unmarshal orc reg fx (fuel_for reg bs (depth sh)) bs smp sh) <> VFuel.
Proof. intros. apply unmarshal_bounds. apply fuel_for_is_enough. Qed.
Print Assumptions C04_fuel_suffices.
Theorem C04_fuel_suffices_service : forall orc reg fx ms missing bs d checked,
  interp checked (service_decode orc reg fx (fuel_for reg bs d) ms missing bs) <> VFuel.
Proof. intros. apply service_bounds. apply fuel_for_is_enough. Qed.
Print Assumptions C04_fuel_suffices_service.
Theorem C04_fuel_suffices_client : forall orc reg fx rts bs d checked,
  interp checked (client_decode orc reg fx (fuel_for reg bs d) rts bs) <> VFuel.
Proof. intros. apply client_bounds. apply fuel_for_is_enough. Qed.
Print Assumptions C04_fuel_suffices_client.

(* The step count, for ALL inputs: in every state of every run
     steps <= 400*(|bs|+1) + c + spin     and     spin <= excess
   (c = 1 for Unmarshal, 320 for a service request, 330 + twice the number of return types for a
   client response).  All the super-linear time there is, is iterations run after the input ended. *)
Theorem C04_steps_bound : forall orc reg fx fuel bs smp sh, enough fuel bs ->
  all_states (within 1 bs) (unmarshal orc reg fx fuel bs smp sh).
Proof. intros. apply unmarshal_bounds. assumption. Qed.
Print Assumptions C04_steps_bound.
Theorem C04_steps_bound_service : forall orc reg fx fuel ms missing bs, enough fuel bs ->
  all_states (within (3 * c0 + 20) bs) (service_decode orc reg fx fuel ms missing bs).
Proof. intros. apply service_bounds. assumption. Qed.
Print Assumptions C04_steps_bound_service.
Theorem C04_steps_bound_client : forall orc reg fx fuel rts bs, enough fuel bs ->
  all_states (within (3 * c0 + 30 + 2 * Z.of_nat (length rts)) bs) (client_decode orc reg fx fuel rts bs).
Proof. intros. apply client_bounds. assumption. Qed.
Print Assumptions C04_steps_bound_client.

(* the exact guard under which time is linear: every count and length the wire announced was
   delivered by the input (excess = 0; with the repaired loops, fx_loop, spin is 0 regardless) *)
Theorem C04_terminates_linear_partial : forall c bs s', within c bs s' -> excess s' = 0%N ->
  (Z.of_N (steps s') <= K * (Z.of_nat (length bs) + 1) + c)%Z.
Proof. exact within_no_excess. Qed.
Print Assumptions C04_terminates_linear_partial.

(* With element loops that stop at the first decode error (fx_loop: the repaired decoder) nothing ever
   spins, for ANY input: time is linear in the input without any guard, and the cost that nested
   containers could build up after the input ended (depth x count iterations) is gone. *)
Theorem C04_no_spin_when_loops_stop : forall orc reg fx fuel bs smp sh, fx_loop fx = true ->
  all_states (fun s' => spin s' = 0%N) (unmarshal orc reg fx fuel bs smp sh).
Proof. exact unmarshal_no_spin. Qed.
Print Assumptions C04_no_spin_when_loops_stop.
Theorem C04_no_spin_when_loops_stop_service : forall orc reg fx fuel ms missing bs, fx_loop fx = true ->
  all_states (fun s' => spin s' = 0%N) (service_decode orc reg fx fuel ms missing bs).
Proof. exact service_no_spin. Qed.
Print Assumptions C04_no_spin_when_loops_stop_service.
Theorem C04_no_spin_when_loops_stop_client : forall orc reg fx fuel rts bs, fx_loop fx = true ->
  all_states (fun s' => spin s' = 0%N) (client_decode orc reg fx fuel rts bs).
Proof. exact client_no_spin. Qed.
Print Assumptions C04_no_spin_when_loops_stop_client.
Theorem C04_terminates_linear_repaired : forall orc reg fx fuel bs smp sh, fx_loop fx = true -> enough fuel bs ->
  all_states (fun s' => (Z.of_N (steps s') <= K * (Z.of_nat (length bs) + 1) + 1)%Z) (unmarshal orc reg fx fuel bs smp sh).
Proof. exact unmarshal_linear_when_loops_stop. Qed.
Print Assumptions C04_terminates_linear_repaired.

(* ---- C04_alloc_linear ---- *)

(* For ALL inputs, in every state of every run: the bytes allocated on the word of the wire are at most
     um * (steps + excess + |bs|),
   um = the largest single unit used in the run (the size of one element / pointer target / map entry
   of a shape in play, 48 per field of an object read as a map, 32 per argument, 16 per field name,
   3 per UTF-16 unit): allocation is paid for by steps, or it is excess. *)
Theorem C04_alloc_bound : forall orc reg fx fuel bs smp sh,
  all_states (alloc_ok bs) (unmarshal orc reg fx fuel bs smp sh).
Proof. exact unmarshal_alloc. Qed.
Print Assumptions C04_alloc_bound.
Theorem C04_alloc_bound_service : forall orc reg fx fuel ms missing bs,
  all_states (alloc_ok bs) (service_decode orc reg fx fuel ms missing bs).
Proof. exact service_alloc. Qed.
Print Assumptions C04_alloc_bound_service.
Theorem C04_alloc_bound_client : forall orc reg fx fuel rts bs,
  all_states (alloc_ok bs) (client_decode orc reg fx fuel rts bs).
Proof. exact client_alloc. Qed.
Print Assumptions C04_alloc_bound_client.

(* hence, with the step bound: alloc <= um * (401*(|bs|+1) + c + 2*excess); under the exact guard
   excess = 0 (every announced count and length is delivered by the input) memory is linear *)
Theorem C04_alloc_linear_partial : forall c bs s', alloc_ok bs s' -> within c bs s' -> (0 <= c)%Z ->
  (Z.of_N (alloc s') <= Z.of_N (um s') * ((K + 1) * (Z.of_nat (length bs) + 1) + c + 2 * Z.of_N (excess s')))%Z.
Proof. exact alloc_linear. Qed.
Print Assumptions C04_alloc_linear_partial.

(* ---- C04_terminates_linear / C04_alloc_linear: refuted on the pinned tree ---- *)

Theorem C04_terminates_linear_refuted :
  done_with (U (B "a99999999999{") true (SArray 1 int_))
    (fun s => (1000 * N.of_nat (length (B "a99999999999{")) + 1000000 < work (B "a99999999999{") s)%N).
Proof. exact w_steps. Qed.
Print Assumptions C04_terminates_linear_refuted.
Theorem C04_alloc_linear_refuted :
  done_with (U (B "a99999999999{") true SIface)
    (fun s => (1000000 * N.of_nat (length (B "a99999999999{")) + 1000000000 < alloc s)%N).
Proof. exact w_alloc. Qed.
Print Assumptions C04_alloc_linear_refuted.

(* ---- non-vacuity ---- *)

(* an ordinary stream meets no hazard, whatever the checks: a list of an int, a string and a reference to it *)
Example guard_satisfiable :
  hazards (unmarshal orc_no reg0 pinned 40 (B "a3{1s2""ab""r1;}") false SIface) = [] /\
  exists s, interp no_checks (unmarshal orc_no reg0 pinned 40 (B "a3{1s2""ab""r1;}") false SIface) = VDone (AOther false) s
            /\ err s = None /\ rest s = [].
Proof. split; [vm_compute; reflexivity|]. eexists. split; [vm_compute; reflexivity|]. vm_compute. split; reflexivity. Qed.

Example request_decodes :
  exists s, interp no_checks (service_decode orc_no reg0 pinned 60 methods0 false (B "Cs3""add""a2{12}z")) = VDone false s.
Proof. eexists. vm_compute. reflexivity. Qed.
