(* C11 — Faults are contained to the call that caused them.
   Only statements, each closed by [exact lemma], with Print Assumptions.

   Model: Model/Panic.v.  [table] is Gen/RecoverTable.v, regenerated from the tree under check
   by tools/gotables on every run: every function, `go` statement, `defer` statement (with
   whether the deferred function calls recover() DIRECTLY) and call of the anchor files.
   [verdict_of table c] places the fault of cell c on its goroutine (hand-written skeleton,
   every link checked against the table), unwinds the stack by Go's rule, and reports
   CallError | ConnClosed | ServerStops | ProcessDies | Broken.

   The full claim

     C11_contained : forall c : cell, applicable c = true -> contained (verdict_of table c) = true

   over all 7 transports x 2 sides x pool off/on x 13 fault classes is FALSE for the tree as
   pinned: see the C11_contained_refuted_* theorems (one per escaping cell) and
   C11_contained_refuted.  C11_contained_partial proves it for every other cell, and
   C11_escapes_exact shows the guard excludes nothing else. *)
From Coq Require Import String List Bool.
From HV Require Import Gen.RecoverTable Model.Panic Proofs.PanicProofs.
Import ListNotations.
Open Scope string_scope.

(* ------------------------------------------------------------------ Go's rule, generic *)

(* A panic is stopped on its goroutine iff some frame of that goroutine has a deferred
   function whose own body calls recover(). *)
Theorem C11_unwind_contained_iff : forall stack : list frame,
  (exists f, unwind stack = Some f) <->
  (exists fr d, In fr stack /\ In d (fdefers fr) /\ In IRecover d).
Proof. exact unwind_contained_iff. Qed.
Print Assumptions C11_unwind_contained_iff.

(* Otherwise it leaves the goroutine (and the process dies). *)
Theorem C11_unwind_escapes_iff : forall stack : list frame,
  unwind stack = None <->
  (forall fr d, In fr stack -> In d (fdefers fr) -> ~ In IRecover d).
Proof. exact unwind_escapes_iff. Qed.
Print Assumptions C11_unwind_escapes_iff.

(* It is stopped at the innermost such frame. *)
Theorem C11_unwind_innermost : forall inner fr outer,
  forallb (fun f => negb (frame_recovers f)) inner = true -> frame_recovers fr = true ->
  unwind (inner ++ fr :: outer) = Some (fname fr).
Proof. exact unwind_innermost. Qed.
Print Assumptions C11_unwind_innermost.

(* A recover() inside a helper called by the deferred function (defer func(){ c.Exit(..) }())
   stops nothing, however the helper is written. *)
Theorem C11_helper_recover_ineffective : forall body rest,
  ~ In IRecover rest -> dfn_recovers (ICall body :: rest) = false.
Proof. exact helper_recover_ineffective. Qed.
Print Assumptions C11_helper_recover_ineffective.

Theorem C11_recover_depth : forall i d, instr_recovers (S d) i = false.
Proof. exact instr_recovers_deep. Qed.
Print Assumptions C11_recover_depth.

(* ------------------------------------------------------------------ the cell space *)

(* the bound: every cell of the type is in the enumerated product of 7 x 2 x 2 x 13 *)
Theorem C11_cells_bound :
  length all_cells = (7 * 2 * 2 * 13)%nat /\ (forall c : cell, In c all_cells) /\
  (forall c, In c cells <-> applicable c = true).
Proof. exact (conj all_cells_length (conj all_cells_complete cells_spec)). Qed.
Print Assumptions C11_cells_bound.

(* ------------------------------------------------------------------ the regenerated table *)

(* Nothing in the table is unknown to the model: no Unresolved entry; every `go` statement
   of the anchor files is one of the model's goroutines and every goroutine of the model is
   still started where the model says; every deferred function that contains a recover
   (effective or not) sits at the top level of a function whose recovery action is modelled. *)
Theorem C11_table_accounted :
  table_accounted table = true /\ goroutines_present table = true /\ unresolved_entries table = [].
Proof. exact table_accounted_ok. Qed.
Print Assumptions C11_table_accounted.

(* Beyond the named fault classes: every goroutine the library starts in the anchor files
   has an effective recover on its entry function — except the listed ones, for which the
   table shows there is none (C11_goroutine_entries_refuted is exact).  The six client loops
   and the mock goroutine are the ones a fault class reaches (refuted cells below). *)
Theorem C11_goroutine_entries_partial : forall g, In g known_goroutines -> unprotected g = false ->
  entry_protected table (snd g) = true.
Proof. exact goroutine_entries_partial. Qed.
Print Assumptions C11_goroutine_entries_partial.

Theorem C11_goroutine_entries_refuted : forall g, In g unprotected_goroutines ->
  existsb (goroutine_eqb g) known_goroutines = true /\ entry_protected table (snd g) = false.
Proof. exact goroutine_entries_refuted. Qed.
Print Assumptions C11_goroutine_entries_refuted.

(* ------------------------------------------------------------------ the property *)

(* Every fault cell other than the refuted ones below: the effect is an error for that call
   or the loss of that one connection. *)
Theorem C11_contained_partial : forall c : cell,
  applicable c = true -> escaped c = false -> contained (verdict_of table c) = true.
Proof. exact contained_partial. Qed.
Print Assumptions C11_contained_partial.

(* ... and then calls on other connections and later calls are unaffected; calls in flight
   on the same connection are affected only when the verdict is ConnClosed. *)
Theorem C11_contained_spares_others : forall v, contained v = true ->
  affects v POtherConn = false /\ affects v PLater = false /\
  (affects v PSameConnInFlight = true -> v = ConnClosed).
Proof. exact contained_spares_others. Qed.
Print Assumptions C11_contained_spares_others.

(* The guard is exact: each excluded cell is applicable and is not contained. *)
Theorem C11_escapes_exact : forall c, escaped c = true ->
  applicable c = true /\ contained (verdict_of table c) = false.
Proof. exact escapes_exact. Qed.
Print Assumptions C11_escapes_exact.

(* REFUTED cells (tree as pinned).  Argument decoding and IO plugins run outside the recover
   of Service.Process; the panic reaches the goroutine that called Service.Handle, which has
   no recover in the mock transport and under fasthttp. *)
Theorem C11_contained_refuted_mock_server_decode_panic :
  verdict_of table (mk TMock Server false FDecodePanic) = ProcessDies.
Proof. exact refuted_mock_decode. Qed.
Print Assumptions C11_contained_refuted_mock_server_decode_panic.

Theorem C11_contained_refuted_mock_server_io_plugin_panic :
  verdict_of table (mk TMock Server false FIOPluginPanic) = ProcessDies.
Proof. exact refuted_mock_ioplugin. Qed.
Print Assumptions C11_contained_refuted_mock_server_io_plugin_panic.

Theorem C11_contained_refuted_fasthttp_server_decode_panic :
  verdict_of table (mk TFastHttp Server false FDecodePanic) = ProcessDies.
Proof. exact refuted_fasthttp_decode. Qed.
Print Assumptions C11_contained_refuted_fasthttp_server_decode_panic.

Theorem C11_contained_refuted_fasthttp_server_io_plugin_panic :
  verdict_of table (mk TFastHttp Server false FIOPluginPanic) = ProcessDies.
Proof. exact refuted_fasthttp_ioplugin. Qed.
Print Assumptions C11_contained_refuted_fasthttp_server_io_plugin_panic.

(* conn.Exit calls recover() one frame below the deferred function in the three multiplexing
   clients; a panic in their Send/Receive goroutines kills the process.  Triggers: a
   websocket message shorter than 4 bytes; a UDP request longer than 65,499 bytes. *)
Theorem C11_contained_refuted_websocket_client_frame_short :
  verdict_of table (mk TWebsocket Client false FFrameShort) = ProcessDies.
Proof. exact refuted_websocket_client_short. Qed.
Print Assumptions C11_contained_refuted_websocket_client_frame_short.

Theorem C11_contained_refuted_udp_client_oversize_request :
  verdict_of table (mk TUdp Client false FOversizeRequest) = ProcessDies.
Proof. exact refuted_udp_client_oversize. Qed.
Print Assumptions C11_contained_refuted_udp_client_oversize_request.

(* the six client loops all have exactly that shape: one deferred function, no direct
   recover, a call of a helper that recovers *)
Theorem C11_client_loops_recover_one_frame_too_deep :
  forallb (fun f => match defers_before table f 1 with
                    | [d] => negb (dfn_recovers d) && existsb (fun i => match i with ICall _ => true | _ => false end) d
                    | _ => false
                    end)
          ["socket.conn.Send"; "socket.conn.Receive"; "udp.conn.Send"; "udp.conn.Receive";
           "websocket.conn.Send"; "websocket.conn.Receive"] = true.
Proof. exact client_loop_defer_is_indirect. Qed.
Print Assumptions C11_client_loops_recover_one_frame_too_deep.

(* A result larger than 65,499 bytes panics in the UDP server's send goroutine; the panic is
   recovered, but the recovery reports it to Serve, which closes the server's only socket. *)
Theorem C11_contained_refuted_udp_server_oversize_response : forall pool,
  verdict_of table (mk TUdp Server pool FOversizeResponse) = ServerStops.
Proof. exact refuted_udp_server_oversize_response. Qed.
Print Assumptions C11_contained_refuted_udp_server_oversize_response.

(* hence the unguarded claim is false for this tree *)
Theorem C11_contained_refuted :
  ~ (forall c : cell, applicable c = true -> contained (verdict_of table c) = true).
Proof. exact contained_refuted. Qed.
Print Assumptions C11_contained_refuted.

(* ------------------------------------------------------------------ non-vacuity *)

(* the rule distinguishes the two placements *)
Example direct_recover_stops :
  unwind [ {| fname := "send"; fdefers := [] |};
           {| fname := "Send"; fdefers := [[IRecover; ICall [IOther]]] |} ] = Some "Send".
Proof. reflexivity. Qed.

Example helper_recover_does_not :
  unwind [ {| fname := "send"; fdefers := [] |};
           {| fname := "Send"; fdefers := [[ICall [IOther; IRecover]; IOther]] |} ] = None.
Proof. reflexivity. Qed.

(* typical cells meet the guard of C11_contained_partial, with both contained verdicts *)
Example partial_guard_met_call_error :
  let c := mk TTcp Server true FServicePanic in
  applicable c = true /\ escaped c = false /\ verdict_of table c = CallError /\
  recovering_frame table c = Some "core.Service.Process$1".
Proof. vm_compute. repeat split; reflexivity. Qed.

Example partial_guard_met_conn_closed :
  let c := mk TWebsocket Server false FFrameShort in
  applicable c = true /\ escaped c = false /\ verdict_of table c = ConnClosed /\
  recovering_frame table c = Some "websocket.Handler.receive".
Proof. vm_compute. repeat split; reflexivity. Qed.

(* the decode panic is caught one level further out than a service panic, by the handler's
   per-request goroutine — and by nothing where that goroutine has no recover *)
Example decode_panic_stack :
  stack_names table (mk TTcp Server false FDecodePanic)
  = ["core.Service.Process"; "core.Service.Handle"; "socket.Handler.run"] /\
  stack_names table (mk TMock Server false FDecodePanic)
  = ["core.Service.Process"; "core.Service.Handle"; "mock.Handler.Handler"; "mock.agent.Handler";
     "mock.Transport.Transport$1"].
Proof. vm_compute. split; reflexivity. Qed.

Example cell_counts : length cells = 130%nat /\ length known_escapes = 8%nat.
Proof. vm_compute. split; reflexivity. Qed.

(* the guard of C11_goroutine_entries_partial is met by the goroutines that face the peers *)
Example protected_goroutines_exist :
  let g := ("socket.Handler.Serve", "socket.Handler.receive") in
  In g known_goroutines /\ unprotected g = false /\ entry_protected table (snd g) = true /\
  length known_goroutines = 21%nat /\ length unprotected_goroutines = 10%nat.
Proof. vm_compute. repeat split; try reflexivity. do 2 right. left. reflexivity. Qed.
