(* C11 — Faults are contained to the call that caused them.
   Only statements, each closed by [exact lemma], with Print Assumptions.

   Model: Model/Panic.v.  [table] is Gen/RecoverTable.v, regenerated from the tree under check
   by tools/gotables on every run: every function, `go` statement, `defer` statement (with
   whether the deferred function calls recover() DIRECTLY) and call of the anchor files.
   [verdict_of table c] places the fault of cell c on its goroutine (hand-written skeleton,
   every link checked against the table), unwinds the stack by Go's rule, and reports
   CallError | ConnClosed | ServerStops | ProcessDies | Broken.

   The full claim C11_contained is proved below for every applicable cell of 7 transports x
   2 sides x pool off/on x 17 fault classes.  (Cells refuted on earlier trees — decode and
   IO-plugin panics under mock and fasthttp, conn.Exit's recover one frame too deep, UDP
   oversize, nested-hostile values, the ExecuteTimeout plugin's goroutine, push subscriber
   callbacks — were repaired in /repo; their replays are kept in corpus/C11-*.json and must
   show a contained fault.) *)
From Coq Require Import String List Bool NArith.
From HV Require Import Gen.RecoverTable Model.Panic Proofs.PanicProofs.
Import ListNotations.
Open Scope string_scope.

(* ------------------------------------------------------------------ Go's rule, generic *)

(* A panic is stopped on its goroutine iff some frame of that goroutine has a deferred
   function whose own body calls recover(). *)
Theorem C11_unwind_contained_iff : forall stack : list frame,
  (exists f, unwind stack = Some f) <->
  (exists fr d, In fr stack /\ In d (fdefers fr) /\ In IRecover d).
Proof. exact unwind_contained_iff. Qed.
Print Assumptions C11_unwind_contained_iff.

(* Otherwise it leaves the goroutine (and the process dies). *)
Theorem C11_unwind_escapes_iff : forall stack : list frame,
  unwind stack = None <->
  (forall fr d, In fr stack -> In d (fdefers fr) -> ~ In IRecover d).
Proof. exact unwind_escapes_iff. Qed.
Print Assumptions C11_unwind_escapes_iff.

(* It is stopped at the innermost such frame. *)
Theorem C11_unwind_innermost : forall inner fr outer,
  forallb (fun f => negb (frame_recovers f)) inner = true -> frame_recovers fr = true ->
  unwind (inner ++ fr :: outer) = Some (fname fr).
Proof. exact unwind_innermost. Qed.
Print Assumptions C11_unwind_innermost.

(* A recover() inside a helper called by the deferred function (defer func(){ c.Exit(..) }())
   stops nothing, however the helper is written. *)
Theorem C11_helper_recover_ineffective : forall body rest,
  ~ In IRecover rest -> dfn_recovers (ICall body :: rest) = false.
Proof. exact helper_recover_ineffective. Qed.
Print Assumptions C11_helper_recover_ineffective.

Theorem C11_recover_depth : forall i d, instr_recovers (S d) i = false.
Proof. exact instr_recovers_deep. Qed.
Print Assumptions C11_recover_depth.

(* ------------------------------------------------------------------ the cell space *)

(* the bound: every cell of the type is in the enumerated product of 7 x 2 x 2 x 17 *)
Theorem C11_cells_bound :
  length all_cells = (7 * 2 * 2 * 17)%nat /\ (forall c : cell, In c all_cells) /\
  (forall c, In c cells <-> applicable c = true).
Proof. exact (conj all_cells_length (conj all_cells_complete cells_spec)). Qed.
Print Assumptions C11_cells_bound.

(* ------------------------------------------------------------------ the regenerated table *)

(* Nothing in the table is unknown to the model: no Unresolved entry; every `go` statement
   of the anchor files is one of the model's goroutines and every goroutine of the model is
   still started where the model says; every deferred function that contains a recover
   (effective or not) sits at the top level of a function whose recovery action is modelled. *)
Theorem C11_table_accounted :
  table_accounted table = true /\ goroutines_present table = true /\ unresolved_entries table = [].
Proof. exact table_accounted_ok. Qed.
Print Assumptions C11_table_accounted.

(* A goroutine from which a user-supplied function can be reached (the table's Runs entries:
   next(ctx, ...) of a plugin, provided functions, subscriber callbacks, service functions) is
   never taken as harmless: it has an effective recover on its entry, or it is the goroutine of
   some fault cell of the model (whose verdict the theorems below state), or it runs the rest
   of a CLIENT's invoke chain, for which the property names no panicking fault class (Oneway). *)
Theorem C11_user_code_goroutines_accounted : user_goroutines_accounted table = true.
Proof. exact user_goroutines_accounted_ok. Qed.
Print Assumptions C11_user_code_goroutines_accounted.

(* Beyond the named fault classes: every goroutine the library starts in the anchor files
   has an effective recover on its entry function (since 6fc72b7 also the six client
   send/receive loops) — except thirteen, for which the table shows there is none
   (C11_goroutine_entries_refuted is exact): the socket accept loop, the mock transport's
   goroutine, the reverse provider's dispatch goroutines, and (since 4b1f091) the two
   goroutines in which the fasthttp client transport runs the third-party client and releases
   an abandoned request — no hprose code, no fault class of the property raises a panic there;
   timers, the push long-poll loop and Client.Abort (no user function reachable); and the two
   that DO run user functions: Oneway's detached client chain and Prosumer.dispatch (stopped in Prosumer.call).  C11_unprotected_entries_covered
   shows that every fault cell raised on one of them is stopped by a frame further in. *)
Theorem C11_goroutine_entries_partial : forall g, In g known_goroutines -> unprotected g = false ->
  entry_protected table (snd g) = true.
Proof. exact goroutine_entries_partial. Qed.
Print Assumptions C11_goroutine_entries_partial.

Theorem C11_goroutine_entries_refuted : forall g, In g unprotected_goroutines ->
  existsb (goroutine_eqb g) known_goroutines = true /\ entry_protected table (snd g) = false.
Proof. exact goroutine_entries_refuted. Qed.
Print Assumptions C11_goroutine_entries_refuted.

(* Fault cells that surface on a goroutine whose entry is unprotected (the mock transport's
   goroutine for every server-side panic class, the provider's dispatch goroutine) are
   recovered by an inner frame: Service.Handle's or Service.Process' closure, Provider.process. *)
Theorem C11_unprotected_entries_covered : forall c : cell,
  applicable c = true -> escaped c = false -> on_unprotected_goroutine c = true ->
  exists f, recovering_frame table c = Some f.
Proof. exact covered_all. Qed.
Print Assumptions C11_unprotected_entries_covered.

(* the six client loops recover in the deferred function itself *)
Theorem C11_client_loops_recover_directly :
  forallb (fun f => match defers_before table f 1 with
                    | [d] => dfn_recovers d
                    | _ => false
                    end)
          ["socket.conn.Send"; "socket.conn.Receive"; "udp.conn.Send"; "udp.conn.Receive";
           "websocket.conn.Send"; "websocket.conn.Receive"] = true.
Proof. exact client_loop_defer_is_direct. Qed.
Print Assumptions C11_client_loops_recover_directly.

(* Panics of the service function (hostile values included), of an invoke plugin and of the
   missing-method handler are
   stopped by Service.Process' own closure on every transport and pool setting: they become
   the call's error before the IO plugins and the transport handler see anything unusual. *)
Theorem C11_invoke_level_panics_stop_in_process : forall c : cell,
  applicable c = true -> c_side c = Server -> invoke_level (c_fault c) = true ->
  recovering_frame table c = Some "core.Service.Process$1" /\ verdict_of table c = CallError.
Proof. exact invoke_level_in_process. Qed.
Print Assumptions C11_invoke_level_panics_stop_in_process.

(* ---- the recovered value still has to be formatted ---------------------------------- *)
(* PanicError.Error and .String call fmt.Sprintf and nothing else (or are themselves under a
   recover): a panic value whose own Error()/String() method panics — a typed nil pointer, a
   method that panics — is rendered as a placeholder instead of raising a second panic. *)
Theorem C11_panic_error_formatting_shielded : format_shielded table = true.
Proof. exact format_shielded_ok. Qed.
Print Assumptions C11_panic_error_formatting_shielded.

(* That shielding is what the containment of such values rests on, because the formatting
   runs where no recover of the library reaches: Service.Handle encodes the error AFTER its
   recovering closure has returned, Provider.process formats inside its deferred function.
   A panic there would end the process under the mock transport, under fasthttp and in a
   reverse provider, and cost the connection elsewhere. *)
Theorem C11_error_formatting_runs_outside_recover :
  (forall g, format_phase (mk TMock Server false FHostilePanic) = Some g -> panic_verdict table g = ProcessDies) /\
  (forall g, format_phase (mk TFastHttp Server false FHostilePanic) = Some g -> panic_verdict table g = ProcessDies) /\
  (forall g, format_phase (mk TTcp Server false FHostilePanic) = Some g -> panic_verdict table g = ConnClosed) /\
  (forall g, format_phase (mk TTcp Client false FHostilePanic) = Some g -> panic_verdict table g = ProcessDies).
Proof. exact format_phase_unprotected. Qed.
Print Assumptions C11_error_formatting_runs_outside_recover.

(* Since 5f07f22 PanicError.Error and .String run under a deferred recover of their own: the
   formatting is total for EVERY value, also for one whose Error() panics with a value whose
   Error() panics again (fmt re-panics on those; net/http itself dies of them). *)
Theorem C11_panic_error_formatting_total :
  format_total table = true /\ (forall t f, format_total t = true -> format_safe t f = true).
Proof. exact (conj format_total_ok format_total_safe). Qed.
Print Assumptions C11_panic_error_formatting_total.

Theorem C11_hostile_value_verdict : forall t c g1 g2,
  behaviour_of c = Panics g1 -> format_phase c = Some g2 ->
  contained (panic_verdict t g1) = true ->
  verdict_of t c = if format_safe t (c_fault c) then panic_verdict t g1 else panic_verdict t g2.
Proof. exact hostile_rests_on_shielding. Qed.
Print Assumptions C11_hostile_value_verdict.

(* ---- tearing down a faulty client connection ---------------------------------------- *)
(* In all three multiplexing clients conn.Exit unregisters the connection (onExit) BEFORE it
   closes it (Close: OnClose hook, socket, pending calls): a call issued while the faulty
   connection is being torn down is given a fresh connection. *)
Theorem C11_teardown_unregisters_before_close :
  forallb (teardown_unregisters_first table) mux_packages = true.
Proof. exact teardown_order_ok. Qed.
Print Assumptions C11_teardown_unregisters_before_close.

Theorem C11_calls_during_teardown_unaffected : forall c : cell, during_teardown_ok table c = true.
Proof. exact during_teardown_all. Qed.
Print Assumptions C11_calls_during_teardown_unaffected.

(* the size limit of the one transport that has one of its own *)
Theorem C11_udp_limit :
  udp_max_body = 65499%N /\ forall n, refused udp_max_body n = true <-> (65499 < n)%N.
Proof. exact udp_limit. Qed.
Print Assumptions C11_udp_limit.

(* ------------------------------------------------------------------ the property *)

(* EVERY fault cell — 7 transports x {server, client} x pool off/on x 17 fault classes, as far
   as the combination exists — has the effect of an error for that call or the loss of that
   one connection: never the end of a serve loop, never the end of the process. *)
Theorem C11_contained : forall c : cell,
  applicable c = true -> contained (verdict_of table c) = true.
Proof. exact contained_all. Qed.
Print Assumptions C11_contained.

(* ... and then calls on other connections and later calls are unaffected; calls in flight
   on the same connection are affected only when the verdict is ConnClosed. *)
Theorem C11_contained_spares_others : forall v, contained v = true ->
  affects v POtherConn = false /\ affects v PLater = false /\
  (affects v PSameConnInFlight = true -> v = ConnClosed).
Proof. exact contained_spares_others. Qed.
Print Assumptions C11_contained_spares_others.

(* ------------------------------------------------------------------ non-vacuity *)

(* the rule distinguishes the two placements *)
Example direct_recover_stops :
  unwind [ {| fname := "send"; fdefers := [] |};
           {| fname := "Send"; fdefers := [[IRecover; ICall [IOther]]] |} ] = Some "Send".
Proof. reflexivity. Qed.

Example helper_recover_does_not :
  unwind [ {| fname := "send"; fdefers := [] |};
           {| fname := "Send"; fdefers := [[ICall [IOther; IRecover]; IOther]] |} ] = None.
Proof. reflexivity. Qed.

(* typical cells, with both contained verdicts *)
Example contained_call_error :
  let c := mk TTcp Server true FServicePanic in
  applicable c = true /\ escaped c = false /\ verdict_of table c = CallError /\
  recovering_frame table c = Some "core.Service.Process$1".
Proof. vm_compute. repeat split; reflexivity. Qed.

Example contained_conn_closed :
  let c := mk TWebsocket Server false FFrameShort in
  applicable c = true /\ verdict_of table c = ConnClosed /\
  recovering_frame table c = Some "websocket.Handler.receive".
Proof. vm_compute. repeat split; reflexivity. Qed.

(* the cells repaired by 6fc72b7 / 363c1a3: where the panic is stopped now *)
Example repaired_cells :
  recovering_frame table (mk TWebsocket Client false FFrameShort) = Some "websocket.conn.Receive" /\
  verdict_of table (mk TWebsocket Client false FFrameShort) = ConnClosed /\
  recovering_frame table (mk TMock Server false FDecodePanic) = Some "core.Service.Handle$1" /\
  recovering_frame table (mk TFastHttp Server false FIOPluginPanic) = Some "core.Service.Handle$1" /\
  verdict_of table (mk TFastHttp Server false FIOPluginPanic) = CallError.
Proof. vm_compute. repeat split; reflexivity. Qed.

(* a decoding panic is stopped by Service.Handle's closure on every transport; the frames
   below it on the mock transport's goroutine have no recover of their own *)
Example decode_panic_stack :
  stack_names table (mk TTcp Server false FDecodePanic)
  = ["core.Service.Process"; "core.Service.Handle$1"; "core.Service.Handle"; "socket.Handler.run"] /\
  stack_names table (mk TMock Server false FDecodePanic)
  = ["core.Service.Process"; "core.Service.Handle$1"; "core.Service.Handle"; "mock.Handler.Handler";
     "mock.agent.Handler"; "mock.Transport.Transport$1"] /\
  on_unprotected_goroutine (mk TMock Server false FDecodePanic) = true.
Proof. vm_compute. repeat split; reflexivity. Qed.

(* the hostile classes are real cells, stopped where an ordinary service panic is *)
Example hostile_cells :
  applicable (mk TMock Server false FNestedHostilePanic) = true /\
  verdict_of table (mk TMock Server false FNestedHostilePanic) = CallError /\
  verdict_of table (mk TUdp Server true FNestedHostilePanic) = CallError /\
  verdict_of table (mk TFastHttp Client false FNestedHostilePanic) = CallError /\
  format_safe table FNestedHostilePanic = true.
Proof. vm_compute. repeat split; reflexivity. Qed.

Example cell_counts : length cells = 184%nat /\ length known_escapes = 0%nat.
Proof. vm_compute. split; reflexivity. Qed.

(* the guard of C11_goroutine_entries_partial is met by the goroutines that face the peers *)
Example protected_goroutines_exist :
  let g := ("socket.Handler.Serve", "socket.Handler.receive") in
  In g known_goroutines /\ unprotected g = false /\ entry_protected table (snd g) = true /\
  length known_goroutines = 33%nat /\ length unprotected_goroutines = 13%nat.
Proof. vm_compute. repeat split; try reflexivity. do 2 right. left. reflexivity. Qed.
