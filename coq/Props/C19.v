(* C19 — Push delivers each accepted message to its subscriber exactly once, in order.
   Only statements, each closed by [exact lemma], with Print Assumptions.

   Model/Push.v is a transition system of the Broker at the granularity of its own atomic
   sections (one sync.Map / cmap / MessageCache method or one channel operation per step).
   A schedule is any list of events: client requests arriving (subscribe, unsubscribe,
   unicast, multicast, broadcast, poll — one poll at a time per client id), steps of the
   goroutines they start, poll time-outs and heartbeat expiries at any moment.  Every theorem
   below quantifies over ALL schedules.

   Vocabulary: [caches s] are all MessageCaches ever installed by a subscription; [cown ca] is
   the (client id, topic) whose subscribe installed it; [cacc ca] is everything ever appended
   to it (= every publish that reported success for that subscription), in Append order;
   [dmsgs c (delivered s)] is what polls have handed to the client from cache c, in hand-over
   order; [live s c] is what is on its way to a poll that is still going to read it;
   [cmsgs ca] is what is still in the cache. *)
From Coq Require Import List ZArith Bool Arith Permutation.
From HV Require Import Model.Push Proofs.PushBase Proofs.PushSub Proofs.PushProofs.
Import ListNotations.

(* A poll only ever returns, under topic t, messages that were appended to a cache installed
   by this client's own subscription to t; each of them was accepted by a publish addressed
   to exactly (this client, t). *)
Theorem C19_only_subscribers : forall sched s, run init sched = Some s ->
  forall id e, In (id, e) (delivered s) ->
  exists ca, nth_error (caches s) (e_cache e) = Some ca /\ cown ca = (id, e_topic e) /\
             forall m, In m (e_msgs e) -> In m (cacc ca) /\ In (id, e_topic e, m) (accepted s).
Proof. exact (only_subscribers false). Qed.
Print Assumptions C19_only_subscribers.

(* Per subscription: what the client was handed is a subsequence of what was accepted —
   never out of order, in every schedule (time-outs, unsubscribes and heartbeats included). *)
Theorem C19_order_preserved : forall sched s, run init sched = Some s ->
  forall c ca, nth_error (caches s) c = Some ca -> Subseq (dmsgs c (delivered s)) (cacc ca).
Proof. exact (order_preserved false). Qed.
Print Assumptions C19_order_preserved.

(* ... and never more often than it was accepted, in every schedule. *)
Theorem C19_no_duplicates : forall sched s, run init sched = Some s ->
  forall c ca, nth_error (caches s) c = Some ca ->
  forall m, count_occ Z.eq_dec (dmsgs c (delivered s)) m <= count_occ Z.eq_dec (cacc ca) m.
Proof. exact (no_duplicates false). Qed.
Print Assumptions C19_no_duplicates.

Theorem C19_no_duplicates_distinct_payloads : forall sched s, run init sched = Some s ->
  forall c ca, nth_error (caches s) c = Some ca -> NoDup (cacc ca) -> NoDup (dmsgs c (delivered s)).
Proof. exact (no_duplicates_nodup false). Qed.
Print Assumptions C19_no_duplicates_distinct_payloads.

(* The topics of one poll result are pairwise distinct (the model's list is the Go map). *)
Theorem C19_batch_topics_distinct : forall sched s, run init sched = Some s ->
  forall p pl b, nth_error (polls s) p = Some pl -> nth_error (chans s) p = Some (VBatch b) ->
  NoDup (map e_topic b).
Proof. exact (batch_topics_distinct false). Qed.
Print Assumptions C19_batch_topics_distinct.

(* The full-strength property: in every schedule, for every subscription, what was handed to
   the client is a PREFIX of what was accepted (no hole, no repetition, no reordering), and
   every accepted message is delivered, on its way to a poll that will read it, or still in
   the cache.  It is FALSE of the faithful model: *)
Definition C19_exactly_once_in_order : Prop := exactly_once_in_order_statement.

Theorem C19_exactly_once_in_order_refuted : ~ C19_exactly_once_in_order.
Proof. exact exactly_once_in_order_refuted. Qed.
Print Assumptions C19_exactly_once_in_order_refuted.

(* The witness needs no race: subscribe; poll — times out and returns {} but leaves its
   responder in b.responders; Unicast pops that stale responder, hands it the batch and
   reports success; the next poll finds nothing.  The message sits in a channel nobody reads. *)
Theorem C19_refuted_timeout_window :
  exists s ca, run init witness = Some s /\
    nth_error (caches s) 0 = Some ca /\ cown ca = (1, 7) /\
    pub_result s 2 = Some [(1, true)] /\
    cacc ca = [42%Z] /\
    poll_result s 0 = Some RTimeout /\ poll_result s 1 = Some RTimeout /\
    delivered s = [] /\ live s 0 = [] /\ cmsgs ca = [] /\
    nth_error (chans s) 0 = Some (VBatch [(7, 0, 0, [42%Z])]).
Proof. exact refuted_timeout_window. Qed.
Print Assumptions C19_refuted_timeout_window.

(* The exact guard.  A step is hazardous ([hazard]) iff it is
     - a poll time-out firing while the poll's responder is not in b.responders (a worker has
       popped it and is about to answer, or has answered), or
     - a b.response (publish / unsubscribe / heartbeat) popping the responder of a poll that
       has already timed out.
   In every schedule without such a step the full-strength property holds. *)
Theorem C19_exactly_once_partial : forall sched s, run_avoiding hazard init sched = Some s ->
  forall c ca, nth_error (caches s) c = Some ca ->
  dmsgs c (delivered s) = firstn (length (dmsgs c (delivered s))) (cacc ca) /\
  Permutation (cacc ca) (dmsgs c (delivered s) ++ live s c ++ cmsgs ca).
Proof. exact exactly_once_partial. Qed.
Print Assumptions C19_exactly_once_partial.

(* with nothing in flight the equation is on sequences: accepted = delivered ++ cached *)
Theorem C19_exactly_once_partial_quiescent : forall sched s, run_avoiding hazard init sched = Some s ->
  forall c ca, nth_error (caches s) c = Some ca -> live s c = [] ->
  cacc ca = dmsgs c (delivered s) ++ cmsgs ca.
Proof. exact exactly_once_quiescent. Qed.
Print Assumptions C19_exactly_once_partial_quiescent.

(* the simple guard of the design note: no poll time-out fires at all *)
Theorem C19_exactly_once_no_timeout_partial : forall sched s, run_avoiding is_timeout init sched = Some s ->
  forall c ca, nth_error (caches s) c = Some ca ->
  dmsgs c (delivered s) = firstn (length (dmsgs c (delivered s))) (cacc ca) /\
  Permutation (cacc ca) (dmsgs c (delivered s) ++ live s c ++ cmsgs ca).
Proof. exact exactly_once_no_timeout. Qed.
Print Assumptions C19_exactly_once_no_timeout_partial.

(* the witness has exactly one hazardous step, its 18th: the publisher's Pop of the stale responder *)
Theorem C19_witness_has_one_hazard : run_avoiding hazard init witness = None /\
  run_avoiding hazard init (firstn 17 witness) <> None /\ run_avoiding hazard init (firstn 18 witness) = None.
Proof. exact witness_hazard. Qed.
Print Assumptions C19_witness_has_one_hazard.

(* ---- the variant with the repaired message() (hooks/c19-fix-proposal.patch) ----
   [init_fixed]: a poll whose timer has fired withdraws its responder from b.responders under
   the map's lock (RemoveCb); if a publisher has taken it meanwhile, the poll waits for the
   answer.  For this variant the full-strength property holds in EVERY schedule. *)

Theorem C19_fixed_exactly_once_in_order : forall sched s, run init_fixed sched = Some s ->
  forall c ca, nth_error (caches s) c = Some ca ->
  dmsgs c (delivered s) = firstn (length (dmsgs c (delivered s))) (cacc ca) /\
  Permutation (cacc ca) (dmsgs c (delivered s) ++ live s c ++ cmsgs ca).
Proof. exact fixed_exactly_once_in_order. Qed.
Print Assumptions C19_fixed_exactly_once_in_order.

Theorem C19_fixed_quiescent : forall sched s, run init_fixed sched = Some s ->
  forall c ca, nth_error (caches s) c = Some ca -> live s c = [] ->
  cacc ca = dmsgs c (delivered s) ++ cmsgs ca.
Proof. exact fixed_quiescent. Qed.
Print Assumptions C19_fixed_quiescent.

Theorem C19_fixed_never_hazardous : forall sched s, run init_fixed sched = Some s ->
  run_avoiding hazard init_fixed sched = Some s.
Proof. exact fixed_never_hazardous. Qed.
Print Assumptions C19_fixed_never_hazardous.

Theorem C19_fixed_only_subscribers : forall sched s, run init_fixed sched = Some s ->
  forall id e, In (id, e) (delivered s) ->
  exists ca, nth_error (caches s) (e_cache e) = Some ca /\ cown ca = (id, e_topic e) /\
             forall m, In m (e_msgs e) -> In m (cacc ca) /\ In (id, e_topic e, m) (accepted s).
Proof. exact (only_subscribers true). Qed.
Print Assumptions C19_fixed_only_subscribers.

(* the history of the finding, on the repaired variant: the message arrives with the next poll *)
Theorem C19_fixed_witness_delivers :
  exists s ca, run init_fixed witness_fixed = Some s /\
    nth_error (caches s) 0 = Some ca /\ cacc ca = [42%Z] /\ pub_result s 2 = Some [(1, true)] /\
    poll_result s 0 = Some RTimeout /\ poll_result s 1 = Some (RBatch [(7, 0, 0, [42%Z])]) /\
    dmsgs 0 (delivered s) = [42%Z].
Proof. exact witness_fixed_delivers. Qed.
Print Assumptions C19_fixed_witness_delivers.

(* ---- concurrent subscribes and unsubscribes of one (client, topic) ----
   subscribe is modelled as its three atomic steps (LoadOrStore on b.messages; topics.Load;
   topics.LoadOrStore), unsubscribe / offline as Load, Delete, response; any number of them for
   the same client and topic may be in flight at once (two connections of one id, the Prosumer's
   re-subscribe loop racing with Subscribe), interleaved with publishes and polls.  All theorems
   above quantify over these schedules too.  In addition: the cache a subscription installed
   remains the cache of its (client, topic) along every run from every reachable state, until an
   unsubscribe / heartbeat-offline of exactly that pair reaches its Delete; no racing subscribe
   replaces it.  So a message accepted into it stays where the client's polls look for it
   (C19_fixed_exactly_once_in_order then says it is handed over exactly once, in order). *)
Theorem C19_subscription_cache_stable : forall b pre s sched s',
  run (init_of b) pre = Some s -> run s sched = Some s' ->
  forall id k c, tget id k (table s) = Some c ->
  tget id k (table s') = Some c \/
  exists mid s1, run s mid = Some s1 /\ (exists post, sched = mid ++ post) /\ deleting s1 id k.
Proof. exact subscription_cache_stable. Qed.
Print Assumptions C19_subscription_cache_stable.

(* the racing run on the code as it is (LoadOrStore): second subscribe false, message delivered *)
Theorem C19_subscribe_race_delivers :
  exists s, run init_fixed sub_race = Some s /\ run_avoiding hazard init_fixed sub_race = Some s /\
    sub_result s 0 = Some true /\ sub_result s 1 = Some false /\ pub_result s 2 = Some [(1, true)] /\
    tget 1 7 (table s) = Some 0 /\ poll_result s 0 = Some (RBatch [(7, 0, 0, [42%Z])]) /\
    dmsgs 0 (delivered s) = [42%Z].
Proof. exact sub_race_atomic_delivers. Qed.
Print Assumptions C19_subscribe_race_delivers.

(* the same run when the insert is topics.Store (existence check and insert not one atomic step,
   [run_nonatomic]): the second subscribe replaces the cache that holds the accepted message; the
   message is in no cache of the table, in no batch, delivered to nobody; the client's poll waits *)
Theorem C19_refuted_subscribe_store :
  exists s ca, run_nonatomic init_fixed sub_race = Some s /\
    sub_result s 0 = Some true /\ sub_result s 1 = Some true /\ pub_result s 2 = Some [(1, true)] /\
    nth_error (caches s) 0 = Some ca /\ cacc ca = [42%Z] /\ cmsgs ca = [42%Z] /\
    tget 1 7 (table s) = Some 1 /\
    (forall id k, tget id k (table s) <> Some 0) /\
    delivered s = [] /\ poll_result s 0 = None /\
    nth_error (chans s) 0 = Some VEmpty.
Proof. exact sub_race_store_refuted. Qed.
Print Assumptions C19_refuted_subscribe_store.

(* ---- non-vacuity ---- *)

(* a hazard-free schedule with traffic: subscribe, poll blocks, publish wakes it up, the poll
   returns the message; a second publish is cached and taken by the next poll *)
Definition good : list event :=
  [ESpawn (OSub 1 7)] ++ rep 3 (EWork 0 0) ++
  [ESpawn (OPoll 1)] ++ rep 8 (EPoll 0 0) ++
  [ESpawn (OUni 7 42%Z 1)] ++ rep 7 (EWork 1 0) ++
  [EPoll 0 0] ++
  [ESpawn (OUni 7 43%Z 1)] ++ rep 3 (EWork 3 0) ++
  [ESpawn (OPoll 1)] ++ rep 8 (EPoll 1 0).

Example good_is_guarded_and_delivers :
  exists s ca, run_avoiding hazard init good = Some s /\ run_avoiding is_timeout init good = Some s /\
    nth_error (caches s) 0 = Some ca /\ cacc ca = [42%Z; 43%Z] /\
    dmsgs 0 (delivered s) = [42%Z; 43%Z] /\
    poll_result s 0 = Some (RBatch [(7, 0, 0, [42%Z])]) /\ poll_result s 1 = Some (RBatch [(7, 0, 1, [43%Z])]).
Proof. eexists. eexists. vm_compute. repeat split; reflexivity. Qed.

(* time-outs as such are harmless: poll times out, re-poll clears the stale responder, then a
   publish reaches the waiting poll — no hazard, nothing lost *)
Definition timeout_then_repoll : list event :=
  [ESpawn (OSub 1 7)] ++ rep 3 (EWork 0 0) ++
  [ESpawn (OPoll 1)] ++ rep 8 (EPoll 0 0) ++ [EPoll 0 1] ++
  [ESpawn (OPoll 1)] ++ rep 8 (EPoll 1 0) ++
  [ESpawn (OUni 7 42%Z 1)] ++ rep 7 (EWork 2 0) ++
  [EPoll 1 0].

Example timeout_then_repoll_is_guarded :
  exists s, run_avoiding hazard init timeout_then_repoll = Some s /\
    run_avoiding is_timeout init timeout_then_repoll = None /\
    dmsgs 0 (delivered s) = [42%Z] /\ poll_result s 0 = Some RTimeout.
Proof. eexists. vm_compute. repeat split; reflexivity. Qed.
