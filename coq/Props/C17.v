(* C17 — Limiters bound concurrency and rate and never lose permits.
   Only statements, each closed by [exact lemma], with Print Assumptions. *)
From Coq Require Import List ZArith Bool Lia QArith.
From HV Require Import Model.Sem Model.Rate Proofs.SemProofs Proofs.RateProofs.
Import ListNotations.
Open Scope Z_scope.

(* ======================= concurrent limiter (Model/Sem.v) ======================= *)

(* every interleaving of n requests, whatever next does and whenever timers fire: never
   more than [cap] requests are executing beyond the limiter (nor hold a permit) *)
Theorem C17_bounded : forall c n sched s,
  0 <= cap c -> run c (sem_init n) sched = Some s ->
  running s <= cap c /\ holders s <= cap c /\ 0 <= chan s <= cap c.
Proof. exact bounded. Qed.
Print Assumptions C17_bounded.

(* permits in the channel = requests between acquire-success and release; once every
   request has finished (normally, with an error, by panic, or timed out) the channel is
   empty *)
Theorem C17_permits_conserved : forall c n sched s,
  0 <= cap c -> run c (sem_init n) sched = Some s ->
  chan s = holders s /\ (all_done s = true -> chan s = 0).
Proof. exact permits_conserved. Qed.
Print Assumptions C17_permits_conserved.

(* a request that ended with ErrTimeout never completed the send: no acquire step of that
   request occurs anywhere in the schedule (from any state) *)
Theorem C17_timeout_no_permit : forall c sched s s' i,
  run c s sched = Some s' -> nth_error (threads s') i = Some (PDone RTimeout) ->
  ~ In (i, LAcquire) sched.
Proof. exact timeout_no_permit. Qed.
Print Assumptions C17_timeout_no_permit.

(* and the time-out step itself leaves the channel as it is *)
Theorem C17_timeout_step_keeps_permits : forall c s i s',
  step c s i LTimeout = Some s' ->
  chan s' = chan s /\ nth_error (threads s) i = Some PWaiting /\
  nth_error (threads s') i = Some (PDone RTimeout).
Proof. exact timeout_step_keeps_chan. Qed.
Print Assumptions C17_timeout_step_keeps_permits.

(* in every reachable state: a waiting request can take a permit whenever fewer than [cap]
   are held (held = running or about to run the deferred release); a running request can always finish in any of the three ways; its deferred
   release is always enabled (the receive never blocks) and gives the permit back *)
Theorem C17_never_wedges : forall c n sched s,
  0 <= cap c -> run c (sem_init n) sched = Some s ->
  (forall i, holders s < cap c -> nth_error (threads s) i = Some PWaiting ->
             exists s', step c s i LAcquire = Some s' /\ nth_error (threads s') i = Some PRunning) /\
  (forall i o, nth_error (threads s) i = Some PRunning ->
             exists s', step c s i (LEnd o) = Some s' /\ nth_error (threads s') i = Some (PReleasing o)) /\
  (forall i o, nth_error (threads s) i = Some (PReleasing o) ->
             exists s', step c s i LRelease = Some s' /\ nth_error (threads s') i = Some (PDone (ROut o)) /\
                        chan s' = chan s - 1).
Proof. exact never_wedges_enabled. Qed.
Print Assumptions C17_never_wedges.

(* stated on the number of requests executing beyond the limiter: if fewer than [cap] are
   running, a waiting request can go at once, or after the (enabled) deferred release of a
   request that has already left next *)
Theorem C17_never_wedges_running : forall c n sched s i,
  0 <= cap c -> run c (sem_init n) sched = Some s ->
  running s < cap c -> nth_error (threads s) i = Some PWaiting ->
  (exists s', step c s i LAcquire = Some s') \/
  (exists j o s1 s2, nth_error (threads s) j = Some (PReleasing o) /\
                     step c s j LRelease = Some s1 /\ step c s1 i LAcquire = Some s2).
Proof. exact waiter_gets_in. Qed.
Print Assumptions C17_never_wedges_running.

(* no reachable state is stuck while a request is unfinished, and progress never depends on
   a timer or on a caller giving up: some step other than a time-out or a cancellation is
   enabled *)
Theorem C17_never_wedges_progress : forall c n sched s,
  0 < cap c -> run c (sem_init n) sched = Some s -> all_done s = false ->
  exists i l s', l <> LTimeout /\ l <> LCancel /\ step c s i l = Some s'.
Proof. exact deadlock_free. Qed.
Print Assumptions C17_never_wedges_progress.

(* apart from cancellations of callers' contexts (which can be repeated at will and change
   nothing once a request is past the queue) every schedule is finite: at most four steps
   per request, so with the theorem above
   every maximal run ends with all requests finished and, by C17_permits_conserved, an
   empty channel *)
Theorem C17_schedules_terminate : forall c n sched s,
  run c (sem_init n) sched = Some s -> Z.of_nat (length (own_steps sched)) <= 4 * Z.of_nat n.
Proof. exact schedules_terminate. Qed.
Print Assumptions C17_schedules_terminate.

(* ---- the caller's own context; limiters built WITHOUT a timeout ---- *)

(* timeout = none, stated on its own: for every number of requests and every schedule,
   including cancellation or expiry of any caller's context at any moment (before it queues,
   while it is queued on a full limiter, afterwards):
     - never more than [cap] requests execute beyond the limiter; permits are conserved;
     - no request is ever turned away (no ErrTimeout), and
     - a request is past Acquire (running, releasing or finished) only if its own send on
       the channel occurred: Acquire returned nil => it holds / held a permit of its own;
     - the deferred Release of a request that got through is always enabled (never blocks) *)
Theorem C17_no_timeout : forall c n sched s,
  0 <= cap c -> tmo c <= 0 -> run c (sem_init n) sched = Some s ->
  running s <= cap c /\ chan s = holders s /\
  (forall i p, nth_error (threads s) i = Some p ->
     p <> PDone RTimeout /\ (ran p = true -> In (i, LAcquire) sched)) /\
  (forall i o, nth_error (threads s) i = Some (PReleasing o) -> exists s', step c s i LRelease = Some s').
Proof. exact no_timeout_contract. Qed.
Print Assumptions C17_no_timeout.

(* timeout = none: the cancellation of a caller's context is not even noticed *)
Theorem C17_no_timeout_cancel_ignored : forall c s i s',
  tmo c <= 0 -> step c s i LCancel = Some s' -> s' = s.
Proof. exact cancel_ignored_without_timeout. Qed.
Print Assumptions C17_no_timeout_cancel_ignored.

(* any timeout: a cancellation never touches the channel; at most it sends a queued request
   away with ErrTimeout, and only when a timeout is configured *)
Theorem C17_cancel_keeps_permits : forall c s i s',
  step c s i LCancel = Some s' ->
  chan s' = chan s /\
  (threads s' = threads s \/
   (nth_error (threads s) i = Some PWaiting /\ tmo c > 0 /\ nth_error (threads s') i = Some (PDone RTimeout))).
Proof. exact cancel_step_keeps_chan. Qed.
Print Assumptions C17_cancel_keeps_permits.

(* any timeout, from any state: nil from Acquire <=> a permit of its own.  "=>" here (a request
   that had not got through and now has, has an acquire step in between); "<=" is
   C17_timeout_no_permit *)
Theorem C17_through_only_with_permit : forall c sched s s' i p p',
  run c s sched = Some s' -> nth_error (threads s) i = Some p -> ran p = false ->
  nth_error (threads s') i = Some p' -> ran p' = true -> In (i, LAcquire) sched.
Proof. exact ran_then_acquired. Qed.
Print Assumptions C17_through_only_with_permit.

(* the replay function the model runner uses on logged histories accepts exactly the runs
   of the LTS (and otherwise reports the first step that is not enabled) *)
Theorem C17_replay_is_run : forall c sched s k,
  match run c s sched with
  | Some s' => run_upto c s sched k = (s', None)
  | None => exists s' j, run_upto c s sched k = (s', Some j)
  end.
Proof. exact run_upto_run. Qed.
Print Assumptions C17_replay_is_run.

(* ============================ rate limiter (Model/Rate.v) ============================ *)

(* sequential callers, any state, any clock readings: if the calls that were let through
   in a run all went on inside [lo, hi] and none asked for more than tmax tokens, then
       granted tokens * interval <= (hi - lo) + (maxPermits + 2*tmax) * interval
   i.e. permits over the interval <= burst + rate * elapsed, with burst = maxPermits plus
   the two end requests (the bucket lets a call through as soon as it is not in debt, so
   the first call of the window may ride on a full bucket and the last may run into debt) *)
Theorem C17_rate_bound : forall c m lo hi tmax,
  0 < interval c -> max_permits c = Some m -> 0 <= m -> 0 <= tmax -> lo <= hi ->
  forall reqs s, tokens_nonneg reqs = true ->
  granted_in_window lo hi tmax (trace c s reqs) = true ->
  interval c * granted_tokens (trace c s reqs) <= (hi - lo) + (m + 2 * tmax) * interval c.
Proof. exact rate_window. Qed.
Print Assumptions C17_rate_bound.

(* the same between two calls i < j with the exact end terms: burst = maxPermits + t_i + t_j *)
Theorem C17_rate_bound_between : forall c s ni ti mid nj tj m w,
  0 < interval c -> max_permits c = Some m -> 0 <= m -> 0 <= ti -> 0 <= tj ->
  tokens_nonneg mid = true ->
  decide c (final c s ((ni, ti) :: mid)) nj = Granted w ->
  interval c * granted_tokens (trace c s ((ni, ti) :: mid ++ [(nj, tj)]))
    <= ((nj + w) - Z.max ni s) + (m + ti + tj) * interval c.
Proof. exact rate_between_closed. Qed.
Print Assumptions C17_rate_bound_between.

(* with the default maxPermits = +Inf the burst is whatever piled up while idle; what
   remains true for every configuration: all tokens asked for (also by rejected callers)
   since the bucket was free at [s] are paid for when a later caller is let through *)
Theorem C17_rate_debt : forall c s reqs nj w,
  decide c (final c s reqs) nj = Granted w ->
  interval c * sum_tokens reqs <= (nj + w) - s.
Proof. exact rate_debt. Qed.
Print Assumptions C17_rate_debt.

(* ErrTimeout exactly when a timeout is configured and the wait needed exceeds it *)
Theorem C17_timeout_only_if_needed : forall c last now,
  decide c last now = TimedOut <-> (rtimeout c > 0 /\ required_wait last now > rtimeout c).
Proof. exact timeout_iff. Qed.
Print Assumptions C17_timeout_only_if_needed.

(* a caller that is let through sleeps exactly the wait needed and goes on at max now last *)
Theorem C17_granted_waits_required : forall c last now w,
  decide c last now = Granted w -> w = required_wait last now /\ now + w = Z.max now last.
Proof. exact granted_wait. Qed.
Print Assumptions C17_granted_waits_required.

(* ---- any rate: the interval is the rational 1e9 / permitsPerSecond ---- *)

(* interval * rate = one second exactly, whatever the rate (also when it does not divide
   1e9: at 600,000,000/s a permit is worth 5/3 ns, not 1 ns) *)
Theorem C17_interval_exact : forall c : qcfg, 0 < pps c ->
  Qeq (Qmult (Qmake (q_interval_num c) (Z.to_pos (q_interval_den c))) (inject_Z (pps c)))
      (inject_Z nanos_per_second).
Proof. exact q_interval_exact. Qed.
Print Assumptions C17_interval_exact.

(* every call, let through or not, of any size, pushes the next free time by its tokens'
   worth at that interval; the int64 truncation loses less than one nanosecond *)
Theorem C17_rate_debit_exact : forall c last now tokens, 0 < pps c ->
  last * pps c + tokens * nanos_per_second - (pps c - 1) <= q_stored c last now tokens * pps c.
Proof. exact q_stored_ge_debit. Qed.
Print Assumptions C17_rate_debit_exact.

(* hence, for every rate and every sequence of calls from any state: tokens asked for
   since the bucket was free at [s], times one second, <= rate * elapsed, plus less than
   one nanosecond's worth of permits per call *)
Theorem C17_rate_debt_any_rate : forall c s reqs nj w, 0 < pps c ->
  decide (q_rcfg c) (q_final c s reqs) nj = Granted w ->
  nanos_per_second * sum_tokens reqs <= ((nj + w) - s) * pps c + Z.of_nat (length reqs) * (pps c - 1).
Proof. exact q_rate_debt. Qed.
Print Assumptions C17_rate_debt_any_rate.

(* and with a burst cap, between two calls i < j: burst + rate * elapsed *)
Theorem C17_rate_bound_any_rate : forall c s ni ti (mid : list req) nj m w,
  0 < pps c -> qmax c = Some m -> 0 <= m -> 0 <= ti ->
  decide (q_rcfg c) (q_final c s ((ni, ti) :: mid)) nj = Granted w ->
  nanos_per_second * sum_tokens mid
    <= ((nj + w) - Z.max ni s) * pps c + m * nanos_per_second + Z.of_nat (S (length mid)) * (pps c - 1).
Proof. exact q_rate_between. Qed.
Print Assumptions C17_rate_bound_any_rate.

(* for a rate that divides 1e9 this is the integer-interval model the theorems above are about *)
Theorem C17_rate_models_agree : forall c last now tokens,
  0 < pps c -> nanos_per_second mod pps c = 0 ->
  q_stored c last now tokens = stored (q_to_rcfg c) last now tokens.
Proof. exact q_stored_integer. Qed.
Print Assumptions C17_rate_models_agree.

(* concurrent callers, load and store of l.next being separate atomic steps: the bound of
   C17_rate_bound fails.  Witness: two callers, two rounds, both loads before both stores. *)
Theorem C17_rate_concurrent_refuted :
  exists c m sched s lo hi tmax,
    0 < interval c /\ max_permits c = Some m /\ 0 <= m /\ 0 <= tmax /\ lo <= hi /\
    rrun c (rinit 0 2) sched = Some s /\ all_idle s = true /\
    all_granted (rlog s) = true /\ in_window lo hi tmax (rlog s) = true /\
    (hi - lo) + (m + 2 * tmax) * interval c < interval c * log_granted_tokens (rlog s) /\
    rnext s < 0 + interval c * log_granted_tokens (rlog s).
Proof. exact rate_concurrent_refuted. Qed.
Print Assumptions C17_rate_concurrent_refuted.

(* guard that excludes the finding: no step separates a load from its store.  Then the run
   is the sequential run of the same calls (same state, same log, clock readings sorted),
   so C17_rate_bound and the other sequential theorems apply to it *)
Theorem C17_rate_concurrent_partial : forall c calls s s',
  all_idle s = true -> rrun c s (atomic_sched calls) = Some s' ->
  rnext s' = final c (rnext s) (reqs_of calls) /\
  map entry_of (rlog s') = rev (trace c (rnext s) (reqs_of calls)) ++ map entry_of (rlog s) /\
  times_sorted (rclock s) (reqs_of calls) = true /\
  all_idle s' = true.
Proof. exact atomic_is_sequential. Qed.
Print Assumptions C17_rate_concurrent_partial.

(* ---- non-vacuity ---- *)

(* cap 1, three requests: 0 runs and panics, 1 times out while 0 holds the permit, 2 waits
   and is let in after the deferred release; at the end everything is done, channel empty *)
Example sem_history_with_panic_and_timeout :
  let c := {| cap := 1; tmo := 20 |} in
  let sched := [ (0%nat, LEnter); (0%nat, LAcquire); (1%nat, LEnter); (2%nat, LEnter);
                 (1%nat, LTimeout); (0%nat, LEnd OPanic); (0%nat, LRelease);
                 (2%nat, LAcquire); (2%nat, LEnd OErr); (2%nat, LRelease) ] in
  run c (sem_init 3) sched =
    Some {| chan := 0; threads := [PDone (ROut OPanic); PDone RTimeout; PDone (ROut OErr)] |}.
Proof. vm_compute. reflexivity. Qed.

(* a reachable state meeting the hypotheses of C17_never_wedges: one holder, one waiter, cap 2 *)
Example sem_waiter_below_cap :
  let c := {| cap := 2; tmo := 0 |} in
  exists s, run c (sem_init 2) [(0%nat, LEnter); (0%nat, LAcquire); (1%nat, LEnter)] = Some s /\
            running s < cap c /\ holders s < cap c /\ nth_error (threads s) 1 = Some PWaiting /\
            all_done s = false.
Proof. eexists. vm_compute. repeat split; try reflexivity; discriminate. Qed.

(* no timeout, cap 1: request 1 queues behind request 0 and its caller's context is cancelled
   (twice, and once more before request 2 even queues): nothing moves until the release *)
Example sem_no_timeout_cancel_while_queued :
  let c := {| cap := 1; tmo := 0 |} in
  run c (sem_init 3) [ (0%nat, LEnter); (0%nat, LAcquire); (1%nat, LEnter); (1%nat, LCancel); (1%nat, LCancel);
                       (2%nat, LCancel); (2%nat, LEnter) ]
    = Some {| chan := 1; threads := [PRunning; PWaiting; PWaiting] |} /\
  run c (sem_init 3) [ (0%nat, LEnter); (0%nat, LAcquire); (1%nat, LEnter); (1%nat, LCancel); (1%nat, LAcquire) ] = None /\
  run c (sem_init 3) [ (0%nat, LEnter); (0%nat, LAcquire); (1%nat, LEnter); (1%nat, LCancel);
                       (0%nat, LEnd OOk); (0%nat, LRelease); (1%nat, LAcquire) ]
    = Some {| chan := 1; threads := [PDone (ROut OOk); PRunning; PIdle] |}.
Proof. vm_compute. repeat split; reflexivity. Qed.

(* with a timeout the same cancellation sends the queued request away, without a permit *)
Example sem_timeout_cancel_while_queued :
  let c := {| cap := 1; tmo := 20 |} in
  run c (sem_init 2) [ (0%nat, LEnter); (0%nat, LAcquire); (1%nat, LEnter); (1%nat, LCancel) ]
    = Some {| chan := 1; threads := [PRunning; PDone RTimeout] |}.
Proof. vm_compute. reflexivity. Qed.

(* a full channel does block: the acquire step is not enabled *)
Example sem_full_blocks :
  let c := {| cap := 1; tmo := 0 |} in
  run c (sem_init 2) [(0%nat, LEnter); (0%nat, LAcquire); (1%nat, LEnter); (1%nat, LAcquire)] = None.
Proof. vm_compute. reflexivity. Qed.

(* rate: 1000 ns per permit, burst 2, timeout 1500 ns.  Six single-token calls at time 5000
   from a bucket free since 0: four go at once (one on the idle bucket, two on the burst, one
   into debt), the fifth waits 1000, the sixth would need 2000 > 1500 and is rejected (and
   still debited: the seventh, at 9000, finds the bucket free only since 8000). *)
Example rate_history :
  let c := {| interval := 1000; max_permits := Some 2; rtimeout := 1500 |} in
  map e_verdict (trace c 0 [(5000,1); (5000,1); (5000,1); (5000,1); (5000,1); (5000,1); (9000,1)])
  = [Granted 0; Granted 0; Granted 0; Granted 0; Granted 1000; TimedOut; Granted 0].
Proof. vm_compute. reflexivity. Qed.

Example rate_bound_hypotheses_met :
  let c := {| interval := 1000; max_permits := Some 2; rtimeout := 1500 |} in
  let reqs := [(5000,1); (5000,1); (5000,1); (5000,1); (5000,1); (5000,1); (9000,1)] in
  0 < interval c /\ max_permits c = Some 2 /\ tokens_nonneg reqs = true /\
  granted_in_window 5000 9000 1 (trace c 0 reqs) = true /\
  interval c * granted_tokens (trace c 0 reqs) = 6000 /\
  (9000 - 5000) + (2 + 2 * 1) * interval c = 8000.
Proof. vm_compute. repeat split; reflexivity. Qed.

(* 600,000,000 permits per second: a call of 3,000,000 tokens on an empty bucket pushes the next
   free time by 5,000,000 ns (not 3,000,000); 7 per second: 7 tokens are worth exactly one second *)
Example rate_non_dividing :
  q_stored {| pps := 600000000; qmax := None; qtimeout := 0 |} 1000 1000 3000000 = 5001000 /\
  q_stored {| pps := 7; qmax := None; qtimeout := 0 |} 0 0 7 = 1000000000 /\
  q_stored {| pps := 7; qmax := None; qtimeout := 0 |} 0 0 1 = 142857142 /\
  nanos_per_second mod 7 <> 0.
Proof. vm_compute. repeat split; try reflexivity. discriminate. Qed.

(* the witness calls run one after the other are not all let through at once: the guard
   of C17_rate_concurrent_partial is met by the schedule that does not interleave *)
Example rate_atomic_schedule_runs :
  let calls := [(0%nat, 0, 1); (1%nat, 0, 1); (0%nat, 1000, 1); (1%nat, 1000, 1)] in
  match rrun wit_cfg (rinit 0 2) (atomic_sched calls) with
  | Some s => map g_verdict (rev (rlog s)) = [Granted 0; Granted 1000; Granted 1000; Granted 2000] /\ rnext s = 4000
  | None => False
  end.
Proof. vm_compute. split; reflexivity. Qed.
