(* C10 — Every call terminates: response, error, timeout, cancellation or abort.
   Only statements, each closed by [exact lemma], with Print Assumptions.
   Model: Model/CallLife.v (callers, Send, Receive, Exit/Close, Transport.Abort, Client.Abort, the
   peer and the timers as environment).  The configuration says which transports are meant:
   g with fix_store g = true / fix_cancel g = true is the code since 8ffdf9e / 576bf91 (g31, g15);
   g31_old is the code before (kept for the *_old_refuted theorems, the record of the repaired defects). *)
From Coq Require Import List ZArith Bool Lia PeanoNat.
From HV Require Import Model.Mux.
From HV Require Import Model.CallLife Proofs.CallLifeBase Proofs.CallLifeProofs Proofs.CallLifeFixed.
Import ListNotations.
Open Scope Z_scope.

(* ---------------------------------------------------------------- no stuck caller *)
(* Every schedule in which no index is drawn while a call that drew it on that connection is still inside
   conn.Transport: every waiting caller can complete at once (its channel is full or its context is done), or
   its entry is in the table of a connection that somebody is still going to clean or on which Receive is still
   reading.  No condition on when callers register any more. *)
Theorem C10_no_stuck_caller : forall g ts tr st, fix_store g = true ->
  run g (init ts) tr = Some st -> guarded (no_reuse_step g) g (init ts) tr = true ->
  forall k cl c i, nth_error (callers st) k = Some cl -> waiting_at (pc cl) = Some (c, i) ->
    box cl <> None \/ cancelled cl = true \/
    exists cn, nth_error (conns st) c = Some cn /\ In (i, k) (ktab cn) /\
               (closer_pending st c cn = true \/ listening cn = true).
Proof. exact no_stuck_caller. Qed.
Print Assumptions C10_no_stuck_caller.

(* ... and each of the two is a real way out by non-timer steps: whoever is going to run
   rangeAndClean gets there by its own steps and fails the caller; *)
Theorem C10_closer_rescues : forall g st w e c cn i k cl,
  who_pc st w = Some e -> is_closer e = true -> (forall j, w = WA j -> past_onexit e = true) ->
  who_conn st w = Some c -> nth_error (conns st) c = Some cn ->
  In (i, k) (ktab cn) -> nth_error (callers st) k = Some cl ->
  exists st', run g st (closer_path w e) = Some st' /\
              exists cl', nth_error (callers st') k = Some cl' /\ box cl' = Some RErr /\ pc cl' = pc cl.
Proof. exact closer_rescues. Qed.
Print Assumptions C10_closer_rescues.

(* while Receive is reading, losing the connection fails the caller *)
Theorem C10_listener_rescues : forall g st c cn i k cl,
  nth_error (conns st) c = Some cn -> listening cn = true ->
  In (i, k) (ktab cn) -> nth_error (callers st) k = Some cl ->
  exists path st', run g st (LPeerGone c :: path) = Some st' /\
                   exists cl', nth_error (callers st') k = Some cl' /\ box cl' = Some RErr /\ pc cl' = pc cl.
Proof. exact listener_rescues. Qed.
Print Assumptions C10_listener_rescues.

(* a caller whose channel holds a result takes it from either select: request still queued (registered, not yet handed
   to Send) or already sent *)
Theorem C10_failed_call_can_return : forall g st k cl r,
  nth_error (callers st) k = Some cl -> box cl = Some r ->
  (forall c i, pc cl = CStored c i \/ pc cl = CEnq c i ->
     exists st', step g st (LTake k) = Some st' /\
                 exists cl', nth_error (callers st') k = Some cl' /\ pc cl' = CRet r).
Proof. exact failed_call_can_return. Qed.
Print Assumptions C10_failed_call_can_return.

(* rangeAndClean fails every registered caller of the connection, queued behind a blocked write or sent, and each of
   them can return the error at once *)
Theorem C10_clean_fails_queued_and_sent : forall g st w c cn i k cl,
  who_pc st w = Some EClean -> who_conn st w = Some c -> nth_error (conns st) c = Some cn ->
  In (i, k) (ktab cn) -> nth_error (callers st) k = Some cl -> (pc cl = CStored c i \/ pc cl = CEnq c i) ->
  exists st1 st2, step g st (LCleanTake w) = Some st1 /\ step g st1 (LTake k) = Some st2 /\
                  exists cl2, nth_error (callers st2) k = Some cl2 /\ pc cl2 = CRet RErr.
Proof. exact clean_fails_queued_and_sent. Qed.
Print Assumptions C10_clean_fails_queued_and_sent.

(* ---------------------------------------------------------------- prompt on close *)
(* every schedule, no guard: once a rangeAndClean on a connection has returned nobody is registered on it *)
Theorem C10_prompt_on_close : forall g ts tr st, fix_store g = true ->
  run g (init ts) tr = Some st ->
  forall c cn, nth_error (conns st) c = Some cn -> kcleaned cn = true -> ktab cn = [].
Proof. exact prompt_on_close. Qed.
Print Assumptions C10_prompt_on_close.

(* ---------------------------------------------------------------- no leak *)
(* all schedules, no guard (index reuse included), old and repaired transports alike *)
Theorem C10_no_leak : forall g ts tr st, run g (init ts) tr = Some st -> all_done st = true ->
  (forall c cn, nth_error (conns st) c = Some cn -> ktab cn = []) /\ cancels st = [].
Proof. exact no_leak. Qed.
Print Assumptions C10_no_leak.

(* goroutines: once Receive is past onExit the context of both goroutines is cancelled, otherwise Receive is still
   there to run onExit; no Send is parked for ever; a Send in its select with a cancelled context can leave *)
Theorem C10_threads_exit : forall g ts tr st, fix_cancel g = true -> run g (init ts) tr = Some st ->
  forall c cn, nth_error (conns st) c = Some cn ->
    (kcancel cn = true \/ kreceiver cn = RHead \/ kreceiver cn = RRead \/ exists b, kreceiver cn = RExit (EOnExit b)) /\
    sender_parked_forever st c = false /\
    (kcancel cn = true -> ksender cn = SIdle -> exists st', step g st (LSendCtx c) = Some st').
Proof. exact threads_exit. Qed.
Print Assumptions C10_threads_exit.

(* ---------------------------------------------------------------- usable after failure *)
Theorem C10_usable_after_failure : forall g ts tr st, run g (init ts) tr = Some st ->
  forall c cn, nth_error (conns st) c = Some cn -> failed_conn st c cn ->
  pool st <> Some c /\
  (forall k st', step g st (LGetConn k) = Some st' ->
     exists cl c' i, nth_error (callers st') k = Some cl /\ pc cl = CAlloc c' i /\ c' <> c) /\
  (forall k st', step g st (LDial k) = Some st' ->
     exists cl i, nth_error (callers st') k = Some cl /\ pc cl = CAlloc (length (conns st)) i /\
                  length (conns st) <> c /\
                  nth_error (conns st') (length (conns st)) = Some (with_counter 1 new_conn) /\
                  pool st' = Some (length (conns st))).
Proof. exact usable_after_failure. Qed.
Print Assumptions C10_usable_after_failure.

(* ---------------------------------------------------------------- Client.Abort *)
(* every schedule, every kind of transport: right after the first half of Client.Abort the context of EVERY call that
   is between Client.Transport's registration and its deferred removal is done, and the list is empty *)
Theorem C10_abort_cancels_every_pending_call : forall g ts tr st st',
  run g (init ts) tr = Some st -> step g st LAbortCancel = Some st' ->
  cancels st' = [] /\
  forall k cl, nth_error (callers st') k = Some cl -> started (pc cl) = true -> cancelled cl = true.
Proof. exact abort_cancels_every_pending_call. Qed.
Print Assumptions C10_abort_cancels_every_pending_call.

(* a call whose context is done has a completing step enabled: inside rpc/http, fasthttp, mock (CDirect; the model takes
   the transport to honour its context) as well as in either select of a multiplexed transport *)
Theorem C10_cancelled_call_can_return : forall g st k cl,
  refs_ok st -> nth_error (callers st) k = Some cl -> cancelled cl = true ->
  (pc cl = CDirect -> exists st', step g st (LDirectCancel k) = Some st') /\
  (forall c i, waiting_at (pc cl) = Some (c, i) -> exists st', step g st (LCancelDel k) = Some st').
Proof. exact cancelled_call_can_return. Qed.
Print Assumptions C10_cancelled_call_can_return.

(* ---------------------------------------------------------------- the pool *)
(* the exit handler of connection c removes c and nothing else from the pool *)
Theorem C10_onexit_spares_other_connections : forall g st w c c' st',
  step g st (LOnExit w) = Some st' -> who_conn st w = Some c -> pool st = Some c' -> c' <> c -> pool st' = Some c'.
Proof. exact onexit_spares_other_connections. Qed.
Print Assumptions C10_onexit_spares_other_connections.

Theorem C10_pooled_connection_is_intact : forall g ts tr st c cn,
  run g (init ts) tr = Some st -> pool st = Some c -> nth_error (conns st) c = Some cn ->
  kunpooled cn = false /\ ksock cn = false /\ kcancel cn = false.
Proof. exact pooled_connection_is_intact. Qed.
Print Assumptions C10_pooled_connection_is_intact.

(* nothing that left the pool stays open: its socket is closed, or somebody is on the way to closing it *)
Theorem C10_unpooled_gets_closed : forall g ts tr st,
  run g (init ts) tr = Some st ->
  forall c cn, nth_error (conns st) c = Some cn -> kunpooled cn = true -> ksock cn = true \/ closer_pending st c cn = true.
Proof. exact unpooled_gets_closed. Qed.
Print Assumptions C10_unpooled_gets_closed.

(* ================================================================ THE TRANSPORTS BEFORE THE REPAIRS (g31_old) *)
(* kept as the record of the defects: the same statements were false *)
Theorem C10_no_stuck_caller_old_refuted :
  exists st, run g31_old (init [false]) late_store_witness = Some st /\
    nth_error (callers st) 0 = Some parked /\
    forall tr st', forallb (fun l => negb (outside_cancel l)) tr = true -> run g31_old st tr = Some st' ->
      nth_error (callers st') 0 = Some parked.
Proof. exact no_stuck_caller_old_refuted. Qed.
Print Assumptions C10_no_stuck_caller_old_refuted.

Theorem C10_prompt_on_close_old_refuted :
  exists st, run g31_old (init [false]) late_store_witness = Some st /\
    (exists cn, nth_error (conns st) 0 = Some cn /\ kcleaned cn = true /\ ksock cn = true /\ ktab cn = [(1, 0%nat)]) /\
    stuck_b st 0 = true.
Proof. exact prompt_on_close_old_refuted. Qed.
Print Assumptions C10_prompt_on_close_old_refuted.

(* what held of the old code: under the extra guard no_late_store (exact: C10_prompt_guard_exact_old) *)
Theorem C10_prompt_on_close_partial_old : forall g ts tr st,
  run g (init ts) tr = Some st -> guarded (fun s l => no_late_store_step s l) g (init ts) tr = true ->
  forall c cn, nth_error (conns st) c = Some cn -> kcleaned cn = true -> ktab cn = [].
Proof. exact prompt_on_close_partial. Qed.
Print Assumptions C10_prompt_on_close_partial_old.

Theorem C10_prompt_guard_exact_old : forall g st k cl c i cn st',
  fix_store g = false ->
  nth_error (callers st) k = Some cl -> pc cl = CAlloc c i -> nth_error (conns st) c = Some cn ->
  kcleaned cn = true -> step g st (LStore k) = Some st' ->
  exists cn', nth_error (conns st') c = Some cn' /\ kcleaned cn' = true /\ ktab cn' <> [].
Proof. exact late_store_breaks. Qed.
Print Assumptions C10_prompt_guard_exact_old.

Theorem C10_no_stuck_caller_partial_old : forall g ts tr st,
  run g (init ts) tr = Some st -> guarded (guard_step g) g (init ts) tr = true ->
  forall k cl c i, nth_error (callers st) k = Some cl -> waiting_at (pc cl) = Some (c, i) ->
    box cl <> None \/ cancelled cl = true \/
    exists cn, nth_error (conns st) c = Some cn /\ In (i, k) (ktab cn) /\
               (closer_pending st c cn = true \/ listening cn = true).
Proof. exact no_stuck_caller_partial. Qed.
Print Assumptions C10_no_stuck_caller_partial_old.

(* after Transport.Abort the Send goroutine of the closed connection stayed parked for ever *)
Theorem C10_threads_exit_old_refuted :
  exists st, run g31_old (init [false]) abort_leak_witness = Some st /\
    all_done st = true /\ pending_total st = 0%nat /\ sender_parked_forever st 0 = true /\
    forall tr st', run g31_old st tr = Some st' ->
      exists cn, nth_error (conns st') 0 = Some cn /\ ksender cn = SIdle /\ ksock cn = true.
Proof. exact threads_exit_old_refuted. Qed.
Print Assumptions C10_threads_exit_old_refuted.

Theorem C10_threads_exit_partial_old : forall g ts tr st,
  run g (init ts) tr = Some st -> forallb not_abort tr = true ->
  forall c cn, nth_error (conns st) c = Some cn -> ksock cn = true ->
    kcancel cn = true /\ (ksender cn = SIdle -> exists st', step g st (LSendCtx c) = Some st').
Proof. exact threads_exit_partial. Qed.
Print Assumptions C10_threads_exit_partial_old.

(* ---- non-vacuity ---- *)
(* the guard holds on ordinary schedules: two callers on one connection, one answered, the peer
   goes away, Receive fails and cleans, the second caller is failed, everybody returns, the next
   call dials afresh *)
Example guards_satisfiable :
  let tr := [LBegin 0; LBegin 1; LDial 0; LGetConn 1; LStore 0; LStore 1; LEnqueue 0; LSendOk 0; LEnqueue 1; LSendOk 0;
             LRecvPoll 0; LPeerReply 0 1; LRecvReply 0 0; LTake 0; LEnd 0;
             LPeerGone 0; LRecvPoll 0; LRecvFail 0; LOnExit (WR 0); LCloseSock (WR 0); LCleanTake (WR 0); LCleanDone (WR 0);
             LSendCtx 0; LOnExit (WS 0); LTake 1; LEnd 1; LBegin 2; LDial 2] in
  guarded (guard_step g31) g31 (init [false; true; false]) tr = true /\
  guarded (no_reuse_step g31) g31 (init [false; true; false]) tr = true /\
  match run g31 (init [false; true; false]) tr with
  | Some st => map pc (callers st) = [CDone RResp; CDone RErr; CAlloc 1 1] /\ pool st = Some 1%nat /\
               pending_total st = 0%nat
  | None => False
  end.
Proof. vm_compute. repeat split; reflexivity. Qed.

Example configurations : fix_store g31 = true /\ fix_cancel g31 = true /\ fix_store g15 = true /\ fix_cancel g15 = true /\
                         fix_store g31_old = false /\ fix_cancel g31_old = false.
Proof. repeat split; reflexivity. Qed.

(* the old witnesses on the repaired transports: the late store hands the close error to the caller, which returns;
   after Abort Receive's onExit cancels the context and Send leaves *)
Example late_store_schedule_repaired :
  match run g31 (init [false]) (late_store_witness ++ [LTake 0; LEnd 0]) with
  | Some st => map pc (callers st) = [CDone RErr] /\ pending_total st = 0%nat /\ stuck_b st 0 = false /\ cancels st = []
  | None => False
  end.
Proof. exact late_store_witness_repaired. Qed.

Example abort_schedule_repaired :
  match run g31 (init [false]) (abort_leak_witness ++ [LSendCtx 0; LOnExit (WS 0)]) with
  | Some st => sender_parked_forever st 0 = false /\
               match nth_error (conns st) 0 with Some cn => ksender cn = SExit EDone /\ kreceiver cn = RExit EDone | None => False end
  | None => False
  end.
Proof. exact abort_leak_witness_repaired. Qed.

(* the old witness violated exactly the late-store guard, at its last step *)
Example witness_breaks_guard :
  guarded (fun s l => no_late_store_step s l) g31_old (init [false]) late_store_witness = false /\
  guarded (fun s l => no_late_store_step s l) g31_old (init [false]) (removelast late_store_witness) = true.
Proof. vm_compute. split; reflexivity. Qed.

(* the hypotheses of C10_closer_rescues and C10_listener_rescues are met in ordinary states *)
Example rescues_nonvacuous :
  match run g31 (init [false]) [LBegin 0; LDial 0; LStore 0; LEnqueue 0; LSendOk 0] with
  | Some st => match nth_error (conns st) 0 with
               | Some cn => listening cn = true /\ In (1, 0%nat) (ktab cn)
               | None => False end
  | None => False
  end.
Proof. vm_compute. split; [reflexivity|left; reflexivity]. Qed.

(* three calls pending inside a transport without a pending table (http, fasthttp, mock), Client.Abort, all three return *)
Example abort_with_three_direct_calls :
  let tr := [LBegin 0; LBegin 1; LBegin 2; LDirectBegin 0; LDirectBegin 1; LDirectBegin 2; LAbortCancel; LAbortSwap;
             LDirectCancel 1; LDirectCancel 0; LDirectCancel 2; LEnd 0; LEnd 1; LEnd 2] in
  match run g31 (init [false; true; false]) tr with
  | Some st => map pc (callers st) = [CDone RCancel; CDone RCancel; CDone RCancel] /\ cancels st = []
  | None => False
  end.
Proof. vm_compute. split; reflexivity. Qed.

(* the late exit of a dead connection's Send after a replacement has been pooled: the replacement stays pooled *)
Example late_exit_keeps_replacement :
  let tr := [LBegin 0; LDial 0; LStore 0; LEnqueue 0; LPeerGone 0; LRecvPoll 0; LRecvFail 0; LOnExit (WR 0); LCloseSock (WR 0);
             LCleanTake (WR 0); LCleanDone (WR 0); LTake 0; LEnd 0;
             LBegin 1; LDial 1; LStore 1; LEnqueue 1; LSendOk 1;
             LSendFail 0; LOnExit (WS 0); LCloseSock (WS 0); LCleanDone (WS 0);
             LBegin 2; LGetConn 2] in
  match run g31 (init [false; false; false]) tr with
  | Some st => pool st = Some 1%nat /\ map pc (callers st) = [CDone RErr; CEnq 1 1; CAlloc 1 2]
  | None => False
  end.
Proof. vm_compute. split; reflexivity. Qed.

(* Send holds caller 0's request in a blocked write, caller 1 is queued behind it in its first select; the connection
   dies: both are failed and both return the error *)
Example queued_behind_blocked_write :
  let tr := [LBegin 0; LBegin 1; LDial 0; LGetConn 1; LStore 0; LEnqueue 0; LStore 1;
             LPeerGone 0; LRecvPoll 0; LRecvFail 0; LOnExit (WR 0); LCloseSock (WR 0); LCleanTake (WR 0); LCleanDone (WR 0);
             LTake 1; LTake 0; LEnd 0; LEnd 1; LSendFail 0; LOnExit (WS 0); LCloseSock (WS 0); LCleanDone (WS 0)] in
  match run g31 (init [false; false]) tr with
  | Some st => map pc (callers st) = [CDone RErr; CDone RErr] /\ pending_total st = 0%nat
  | None => False
  end.
Proof. vm_compute. split; reflexivity. Qed.
