(* C18 -- Load balancers always pick a valid server and honour their policy.
   Only statements, each closed by [exact lemma], with Print Assumptions.

   Vocabulary (Model/Balance.v): a history is a list of events [EStart r] (a Handler runs up
   to its call of next, drawing r if it asks rand) and [EFinish k o] (call number k returns from
   next with outcome o in {OOk, OErr, OPanic} and the deferred part runs).  Every interleaving
   of concurrent callers at the granularity of the plugins' critical sections is such a history.
   [run m s0 [] h] is Ok (picks, (final state, call table)), or Panic / OutOfFuel, or BadScript
   when the history itself is ill-formed (rand value outside the range asked for, finishing a
   call that is not in flight).  [cnt j calls] is the number of calls in flight on server j. *)
From Coq Require Import List ZArith Bool Lia.
From HV Require Import Model.Balance Proofs.BalanceProofs.
Import ListNotations.
Open Scope Z_scope.

(* ================= every pick is one of the configured servers ================= *)

(* RoundRobin, every history *)
Theorem C18_index_valid_rr : forall n, (1 <= n)%nat -> forall h,
  match run (rr_machine n) rr_init [] h with
  | Ok (ps, (idx, _)) => Forall (fun i => (i < n)%nat) ps /\ -1 <= idx < Z.of_nat n
  | BadScript => True
  | _ => False
  end.
Proof. exact rr_history_valid. Qed.
Print Assumptions C18_index_valid_rr.

(* RoundRobin, concurrent callers: every interleaving of the separate AddInt64 / StoreInt64
   steps of any number of callers; nobody panics, every finished caller holds an index < n *)
Theorem C18_index_valid_rr_concurrent : forall n, (1 <= n)%nat -> forall sched cs cs',
  -1 <= rr_shared cs /\ Forall (rr_pc_ok n) (rr_threads cs) ->
  rr_crun n cs sched = Some cs' ->
  -1 <= rr_shared cs' /\ Forall (rr_pc_ok n) (rr_threads cs').
Proof. exact rr_crun_inv. Qed.
Print Assumptions C18_index_valid_rr_concurrent.

(* the two-step LTS run without interleaving is the sequential getIndex *)
Theorem C18_rr_lts_refines_sequential : forall n idx, (1 <= n)%nat -> -1 <= idx < Z.of_nat n ->
  exists k idx', rr_pick n idx = Ok (k, idx') /\
    ((rr_tstep n idx RStart = Some (idx', RDone k)) \/
     (exists mid, rr_tstep n idx RStart = Some (mid, RStore) /\
                  rr_tstep n mid RStore = Some (idx', RDone k))).
Proof. exact rr_solo. Qed.
Print Assumptions C18_rr_lts_refines_sequential.

(* Random *)
Theorem C18_index_valid_random : forall n, (1 <= n)%nat -> forall h,
  match run (rnd_machine n) tt [] h with
  | Ok (ps, _) => Forall (fun i => (i < n)%nat) ps
  | BadScript => True
  | _ => False
  end.
Proof. exact rnd_history_valid. Qed.
Print Assumptions C18_index_valid_random.

(* LeastActive *)
Theorem C18_index_valid_la : forall n, (1 <= n)%nat -> forall h,
  match run (la_machine n) [] [] h with
  | Ok (ps, _) => Forall (fun i => (i < n)%nat) ps
  | BadScript => True
  | _ => False
  end.
Proof. exact la_valid. Qed.
Print Assumptions C18_index_valid_la.

(* ... and from any counter vector whatsoever (finer interleavings included) *)
Theorem C18_index_valid_la_any_state : forall n a r, (1 <= n)%nat ->
  match la_select n (la_prepare n a) r with
  | Ok i => (i < n)%nat
  | BadScript => True
  | _ => False
  end.
Proof. exact la_select_any_state. Qed.
Print Assumptions C18_index_valid_la_any_state.

(* WeightedRoundRobin: for every positive weight vector the loop returns within its budget
   (never OutOfFuel), never panics, and returns an index < n *)
Theorem C18_index_valid_wrr : forall ws c s0, ws <> [] -> wrr_new ws = Ok (c, s0) -> forall h,
  match run (wrr_machine c) s0 [] h with
  | Ok (ps, _) => Forall (fun i => (i < length ws)%nat) ps
  | BadScript => True
  | _ => False
  end.
Proof. exact wrr_history_valid. Qed.
Print Assumptions C18_index_valid_wrr.

(* NginxRoundRobin, with 0 <= eff <= w at the end of every history *)
Theorem C18_index_valid_nginx : forall ws s0, ws <> [] -> ng_new ws = Ok s0 -> forall h,
  match run (ng_machine ws) s0 [] h with
  | Ok (ps, (s, _)) => Forall (fun i => (i < length ws)%nat) ps /\ eff_ok ws (ng_eff s)
  | BadScript => True
  | _ => False
  end.
Proof. exact ng_history_valid. Qed.
Print Assumptions C18_index_valid_nginx.

(* WeightedRandom *)
Theorem C18_index_valid_wrandom : forall ws, ws <> [] -> Forall (fun w => 0 < w) ws -> forall h,
  match run (wrand_machine ws) ws [] h with
  | Ok (ps, (eff, _)) => Forall (fun i => (i < length ws)%nat) ps /\ eff_ok ws eff
  | BadScript => True
  | _ => False
  end.
Proof. exact wrand_history_valid. Qed.
Print Assumptions C18_index_valid_wrandom.

(* WeightedLeastActive *)
Theorem C18_index_valid_wla : forall ws s0, ws <> [] -> wla_new ws = Ok s0 -> forall h,
  match run (wla_machine ws) s0 [] h with
  | Ok (ps, (s, _)) => Forall (fun i => (i < length ws)%nat) ps /\ eff_ok ws (wl_eff s)
  | BadScript => True
  | _ => False
  end.
Proof. exact wla_valid. Qed.
Print Assumptions C18_index_valid_wla.

(* ... whatever the two read-locked sections of getIndex see of the effective weights *)
Theorem C18_index_valid_wla_any_state : forall W act eff1 eff2 r,
  (1 <= length W)%nat -> length act = length W -> eff_ok W eff1 -> eff_ok W eff2 ->
  match wla_get (length W) act eff1 eff2 r with
  | Ok i => (i < length W)%nat
  | BadScript => True
  | _ => False
  end.
Proof. exact wla_get_any_state. Qed.
Print Assumptions C18_index_valid_wla_any_state.

(* a weight <= 0 makes every weighted constructor panic *)
Theorem C18_nonpositive_weight_rejected : forall ws, Exists (fun x => x <= 0) ws -> mk_weighted ws = Panic.
Proof. exact mk_weighted_panics. Qed.
Print Assumptions C18_nonpositive_weight_rejected.

(* ================= round robin: every server once per n picks ================= *)
(* from every reachable state (-1 <= index < n): the next n picks contain every server exactly
   once; from a state reached by at least one pick the balancer is back in that state *)
Theorem C18_rr_cycle : forall n idx, (1 <= n)%nat -> -1 <= idx < Z.of_nat n ->
  exists l idx', rr_run n n idx = Ok (l, idx') /\
    (forall i, (i < n)%nat -> count i l = 1) /\ (0 <= idx -> idx' = idx).
Proof. exact rr_cycle. Qed.
Print Assumptions C18_rr_cycle.

(* ================= weighted round robin ================= *)
(* Go's gcd loop terminates within its budget and computes the gcd *)
Theorem C18_gcd_correct : forall x y, 0 <= x -> 0 <= y -> go_gcd x y = Ok (Z.gcd x y).
Proof. exact go_gcd_spec. Qed.
Print Assumptions C18_gcd_correct.

(* what the constructor stores: the maximum and the greatest common divisor of the weights *)
Theorem C18_wrr_new : forall ws c s0, wrr_new ws = Ok (c, s0) ->
  wr_weights c = ws /\ wr_max c = zmax ws /\
  (forall w, In w ws -> (wr_gcd c | w)) /\
  (forall d, (forall w, In w ws -> (d | w)) -> (d | wr_gcd c)) /\
  s0 = {| wr_index := -1; wr_cw := 0 |}.
Proof. exact wrr_new_gcd. Qed.
Print Assumptions C18_wrr_new.

(* For EVERY non-empty positive weight vector and every number a of earlier calls: the next
   sum(w)/gcd calls go to server i exactly w_i/gcd times (full statement, no bound); after the
   first call the balancer is moreover back in the same state at the end of the window. *)
Theorem C18_wrr_cycle : forall ws c s0, ws <> [] -> wrr_new ws = Ok (c, s0) -> forall a,
  exists l1 s1 l2 s2,
    wrr_run a c s0 = Ok (l1, s1) /\
    wrr_run (Z.to_nat (lsum ws / wr_gcd c)) c s1 = Ok (l2, s2) /\
    (forall i w, nth_error ws i = Some w -> count i l2 = w / wr_gcd c) /\
    ((1 <= a)%nat -> s2 = s1).
Proof. exact wrr_cycle. Qed.
Print Assumptions C18_wrr_cycle.

(* ================= smooth weighted round robin (Nginx) ================= *)
(* While no call fails: over T = sum(w) calls from the initial state server j is chosen exactly
   w_j times and the state is the initial state again; hence every window of T consecutive
   calls, at any offset a, has exactly w_j calls of server j.  The int64 sentinel
   math.MinInt64 of the code requires sum(w) <= 2^63. *)
Theorem C18_swrr_cycle : forall ws s0, ws <> [] -> ng_new ws = Ok s0 ->
  lsum ws <= 9223372036854775808 ->
  (exists lp, ng_run_ok (Z.to_nat (lsum ws)) ws s0 = Ok (lp, s0) /\
              forall j y, nth_error ws j = Some y -> count j lp = y) /\
  forall a, exists l1 s1 l2,
    ng_run_ok a ws s0 = Ok (l1, s1) /\
    ng_run_ok (Z.to_nat (lsum ws)) ws s1 = Ok (l2, s1) /\
    forall j y, nth_error ws j = Some y -> count j l2 = y.
Proof. exact swrr_cycle. Qed.
Print Assumptions C18_swrr_cycle.

(* ================= least active ================= *)
(* after every history, whatever rand returns, the server picked next has the fewest calls in
   flight among all servers *)
Theorem C18_least_active_min : forall n h ps a calls r i a', (1 <= n)%nat ->
  run (la_machine n) [] [] h = Ok (ps, (a, calls)) -> la_start n a r = Ok (i, a') ->
  forall j, (j < n)%nat -> (cnt i calls <= cnt j calls)%nat.
Proof. exact la_min. Qed.
Print Assumptions C18_least_active_min.

(* the counters are exactly the in-flight counts; so when every call has finished -- with a
   result, an error or a panic -- they are all zero *)
Theorem C18_actives_conserved : forall n h ps a calls, (1 <= n)%nat ->
  run (la_machine n) [] [] h = Ok (ps, (a, calls)) ->
  (forall j, (j < n)%nat -> nth j a 0 = Z.of_nat (cnt j calls)) /\
  (all_finished calls -> Forall (fun x => x = 0) a).
Proof. exact la_counters. Qed.
Print Assumptions C18_actives_conserved.

Theorem C18_least_active_min_weighted : forall ws s0 h ps s calls r i s',
  ws <> [] -> wla_new ws = Ok s0 ->
  run (wla_machine ws) s0 [] h = Ok (ps, (s, calls)) -> wla_pick s r = Ok (i, s') ->
  forall j, (j < length ws)%nat -> (cnt i calls <= cnt j calls)%nat.
Proof. exact wla_min. Qed.
Print Assumptions C18_least_active_min_weighted.

Theorem C18_actives_conserved_weighted : forall ws s0 h ps s calls, ws <> [] -> wla_new ws = Ok s0 ->
  run (wla_machine ws) s0 [] h = Ok (ps, (s, calls)) ->
  (forall j, (j < length ws)%nat -> nth_error (wl_act s) j = Some (Z.of_nat (cnt j calls))) /\
  (all_finished calls -> Forall (fun x => x = 0) (wl_act s)) /\
  eff_ok ws (wl_eff s).
Proof. exact wla_counters. Qed.
Print Assumptions C18_actives_conserved_weighted.

(* The two theorems above take the part of Handler before next() as one step, which is exact
   when the Handler prefixes of concurrent callers do not overlap (the select and the increment
   are two separate critical sections in the code).  With overlap the statement is false of the
   model: a second caller can read the counters before the first one has incremented them and
   join it on the same server while another server is idle.  C18_least_active_min is therefore
   the _partial theorem under the guard "prefixes do not overlap". *)
Theorem C18_least_active_min_overlap_refuted :
  exists (a : list Z) (r1 r2 : Z) (i : nat),
    la_select 2 a r1 = Ok i /\ la_select 2 a r2 = Ok i /\
    exists j, (j < 2)%nat /\ j <> i /\ nth_error a j = nth_error a i.
Proof. exact la_overlap_witness. Qed.
Print Assumptions C18_least_active_min_overlap_refuted.

(* ================= failure-aware policies: effective weights ================= *)
(* one settled call on a valid index never panics, keeps 0 <= eff <= w, changes only the called
   server's entry: min(eff+1, w) after a success, max(eff-1, 0) after an error or a panic *)
Theorem C18_effective_weight : forall W eff i o, eff_ok W eff -> (i < length W)%nat ->
  exists e w eff', nth_error eff i = Some e /\ nth_error W i = Some w /\
    eff_update W eff i o = Ok eff' /\ eff_ok W eff' /\
    nth_error eff' i = Some (eff_next o e w) /\
    (forall j, j <> i -> nth_error eff' j = nth_error eff j).
Proof. exact eff_update_ok. Qed.
Print Assumptions C18_effective_weight.

(* k failures (errors and panics alike): eff_i = max(eff_i - k, 0) *)
Theorem C18_failures_reduce : forall W os eff i e w, eff_ok W eff -> (i < length W)%nat ->
  nth_error eff i = Some e -> nth_error W i = Some w -> Forall (fun o => o <> OOk) os ->
  settle_many W eff i os = Ok (upd_nth i (Z.max (e - Z.of_nat (length os)) 0) eff).
Proof. exact settle_failures. Qed.
Print Assumptions C18_failures_reduce.

(* k successes: eff_i = min(eff_i + k, w_i); once k >= w_i - eff_i the weight is regained *)
Theorem C18_successes_restore : forall W k eff i e w, eff_ok W eff -> (i < length W)%nat ->
  nth_error eff i = Some e -> nth_error W i = Some w ->
  settle_many W eff i (repeat OOk k) = Ok (upd_nth i (Z.min (e + Z.of_nat k) w) eff).
Proof. exact settle_successes. Qed.
Print Assumptions C18_successes_restore.

Theorem C18_recovered : forall W k eff i e w eff', eff_ok W eff -> (i < length W)%nat ->
  nth_error eff i = Some e -> nth_error W i = Some w -> w - e <= Z.of_nat k ->
  settle_many W eff i (repeat OOk k) = Ok eff' -> nth_error eff' i = Some w.
Proof. exact recovered. Qed.
Print Assumptions C18_recovered.

(* a failure never increases the failing server's share eff_i / sum(eff) (cross-multiplied) *)
Theorem C18_share_not_increased_by_failure : forall W eff i o eff' e e',
  eff_ok W eff -> (i < length W)%nat -> o <> OOk ->
  eff_update W eff i o = Ok eff' -> nth_error eff i = Some e -> nth_error eff' i = Some e' ->
  e' <= e /\ e' * lsum eff <= e * lsum eff'.
Proof. exact share_after_failure. Qed.
Print Assumptions C18_share_not_increased_by_failure.

(* WeightedRandom: with a positive total the rand value r selects server i exactly when it
   falls in i's interval of length eff_i -- the share of server i is eff_i / sum(eff) *)
Theorem C18_wrandom_share : forall eff r, Forall (fun x => 0 <= x) eff -> 0 < lsum eff -> 0 <= r < lsum eff ->
  exists i e, wr_get eff r = Ok i /\ nth_error eff i = Some e /\
              lsum (firstn i eff) <= r < lsum (firstn i eff) + e.
Proof. exact wr_get_interval. Qed.
Print Assumptions C18_wrandom_share.

Theorem C18_wrandom_share_converse : forall eff r i e, Forall (fun x => 0 <= x) eff ->
  nth_error eff i = Some e -> lsum (firstn i eff) <= r < lsum (firstn i eff) + e -> wr_get eff r = Ok i.
Proof. exact wr_get_of_interval. Qed.
Print Assumptions C18_wrandom_share_converse.

(* ================= admissible sets used by the correspondence run ================= *)
(* For the policies that ask rand, the check compares the implementation's choice with the
   model's admissible set.  That set is exactly the set of indices the model can return. *)
Theorem C18_admissible_wrandom_sound : forall eff r, Forall (fun x => 0 <= x) eff -> (1 <= length eff)%nat ->
  match wr_pick eff r with
  | Ok (i, eff') => eff' = eff /\ (i < length eff)%nat /\
                    exists adm, wr_admissible eff = Ok adm /\ In i adm
  | BadScript => True
  | _ => False
  end.
Proof. exact wr_pick_sound. Qed.
Print Assumptions C18_admissible_wrandom_sound.

Theorem C18_admissible_wrandom_complete : forall eff adm i, Forall (fun x => 0 <= x) eff ->
  wr_admissible eff = Ok adm -> In i adm -> wr_pick eff (wr_oracle eff i) = Ok (i, eff).
Proof. exact wr_pick_complete. Qed.
Print Assumptions C18_admissible_wrandom_complete.

Theorem C18_admissible_la_complete : forall n a cands c, la_candidates n a = Ok cands -> In c cands ->
  la_select n a (Z.of_nat (pos_of c cands)) = Ok c.
Proof. exact la_select_complete. Qed.
Print Assumptions C18_admissible_la_complete.

Theorem C18_admissible_wla_sound : forall W s calls r, (1 <= length W)%nat -> wla_inv W s calls ->
  match wla_pick s r with
  | Ok (i, _) => exists adm, wla_admissible s = Ok adm /\ In i adm
  | _ => True
  end.
Proof. exact wla_pick_sound. Qed.
Print Assumptions C18_admissible_wla_sound.

Theorem C18_admissible_wla_complete : forall W s calls adm i, (1 <= length W)%nat -> wla_inv W s calls ->
  wla_admissible s = Ok adm -> In i adm -> exists s', wla_pick s (wla_oracle s i) = Ok (i, s').
Proof. exact wla_pick_complete. Qed.
Print Assumptions C18_admissible_wla_complete.

(* ================= the client's URL list changes between calls ================= *)
(* Histories with [CConfig n] events (from now on len(urls) = n: the list shrank, grew or was
   reordered); picks are recorded with the n in force.  [cfg_pos h]: every n is >= 1. *)

(* RoundRobin: after any change, whatever the cursor was (e.g. resting past the new end): the
   next call selects a configured server, with >= 2 servers the cursor is back in [0,n) after
   that single call, and the n calls after it serve every server exactly once *)
Theorem C18_rr_reconfigured : forall n idx, (1 <= n)%nat -> -1 <= idx ->
  exists i idx', rr_pick n idx = Ok (i, idx') /\ (i < n)%nat /\ -1 <= idx' /\
    ((2 <= n)%nat -> 0 <= idx' < Z.of_nat n) /\
    exists l idx'', rr_run n n idx' = Ok (l, idx'') /\ forall j, (j < n)%nat -> count j l = 1.
Proof. exact rr_reconfigured. Qed.
Print Assumptions C18_rr_reconfigured.

Theorem C18_index_valid_rr_reconfigured : forall h n, (1 <= n)%nat -> cfg_pos h ->
  match run_cfg rr_machine n rr_init [] h with
  | Ok (ps, (idx, _)) => Forall (fun p => (fst p < snd p)%nat) ps /\ -1 <= idx
  | BadScript => True
  | _ => False
  end.
Proof. exact rr_cfg_history_valid. Qed.
Print Assumptions C18_index_valid_rr_reconfigured.

Theorem C18_index_valid_random_reconfigured : forall h n, (1 <= n)%nat -> cfg_pos h ->
  match run_cfg rnd_machine n tt [] h with
  | Ok (ps, _) => Forall (fun p => (fst p < snd p)%nat) ps
  | BadScript => True
  | _ => False
  end.
Proof. exact rnd_cfg_history_valid. Qed.
Print Assumptions C18_index_valid_random_reconfigured.

(* LeastActive (with the make+copy growth of /repo 905f441): every pick is a current slot, the
   counters are the in-flight counts of their slots throughout (calls started under an older,
   longer or shorter list included), zero at quiescence, and the pick is least active *)
Theorem C18_index_valid_la_reconfigured : forall h n, (1 <= n)%nat -> cfg_pos h ->
  match run_cfg la_machine n [] [] h with
  | Ok (ps, (a, calls)) => Forall (fun p => (fst p < snd p)%nat) ps /\ la_G a calls
  | BadScript => True
  | _ => False
  end.
Proof. exact la_cfg_history_G. Qed.
Print Assumptions C18_index_valid_la_reconfigured.

Theorem C18_actives_conserved_reconfigured : forall h n ps a calls, (1 <= n)%nat -> cfg_pos h ->
  run_cfg la_machine n [] [] h = Ok (ps, (a, calls)) ->
  (forall j, (j < length a)%nat -> nth_error a j = Some (Z.of_nat (cnt j calls))) /\
  (all_finished calls -> Forall (fun x => x = 0) a).
Proof. exact la_cfg_conserved. Qed.
Print Assumptions C18_actives_conserved_reconfigured.

Theorem C18_least_active_min_reconfigured : forall h n ps a calls m r i a',
  (1 <= n)%nat -> cfg_pos h -> (1 <= m)%nat ->
  run_cfg la_machine n [] [] h = Ok (ps, (a, calls)) -> la_start m a r = Ok (i, a') ->
  forall j, (j < m)%nat -> (cnt i calls <= cnt j calls)%nat.
Proof. exact la_cfg_min. Qed.
Print Assumptions C18_least_active_min_reconfigured.

(* The code before /repo 905f441 grew the counter slice with make alone: with one call in
   flight on slot 0 and the list growing from 2 to 3 the counters were dropped, and when the
   call finished its counter stayed at -1 although nothing was in flight (every later call then
   went to that server).  The repaired growth keeps [1;0] as [1;0;0]. *)
Theorem C18_actives_conserved_grow_old_refuted :
  la_G [1; 0] [Some O] /\ la_prepare_old 3 [1; 0] = [0; 0; 0] /\
  add_at (la_prepare_old 3 [1; 0]) 0 (-1) = Ok [-1; 0; 0] /\ all_finished (upd_nth 0 None [Some O]) /\
  la_prepare 3 [1; 0] = [1; 0; 0].
Proof. exact la_grow_old_witness. Qed.
Print Assumptions C18_actives_conserved_grow_old_refuted.

(* The four weighted balancers keep the server list they were built with: for a machine that
   does not depend on n, configuration changes are no-ops *)
Theorem C18_weighted_ignore_reconfiguration : forall S (m : machine S) h n s calls,
  forget_n (run_cfg (fun _ => m) n s calls h) = run m s calls (strip_cfg h).
Proof. exact @run_cfg_const. Qed.
Print Assumptions C18_weighted_ignore_reconfiguration.

(* ================= RoundRobin's cursor under concurrent callers ================= *)
(* The true invariant of the two-step LTS, for every schedule of any number of callers:
   -1 <= cursor <= n-1 + (number of callers between their AddInt64 and their StoreInt64). *)
Theorem C18_rr_cursor_invariant : forall n, (1 <= n)%nat -> forall sched cs cs',
  (-1 <= rr_shared cs <= Z.of_nat n - 1 + Z.of_nat (owing (rr_threads cs)) /\
   Forall (rr_pc_ok n) (rr_threads cs)) ->
  rr_crun n cs sched = Some cs' ->
  -1 <= rr_shared cs' <= Z.of_nat n - 1 + Z.of_nat (owing (rr_threads cs')) /\
  Forall (rr_pc_ok n) (rr_threads cs').
Proof. exact rr_crun_cursor. Qed.
Print Assumptions C18_rr_cursor_invariant.

(* Hence after any burst, once nobody is inside getIndex, the cursor rests in [-1,n) and the
   next n sequential calls serve every server exactly once. *)
Theorem C18_rr_fair_after_burst : forall n, (1 <= n)%nat -> forall sched cs cs',
  rr_cursor_inv n cs -> rr_crun n cs sched = Some cs' -> rr_quiescent cs' ->
  -1 <= rr_shared cs' < Z.of_nat n /\
  exists l idx', rr_run n n (rr_shared cs') = Ok (l, idx') /\ forall i, (i < n)%nat -> count i l = 1.
Proof. exact rr_fair_after_burst. Qed.
Print Assumptions C18_rr_fair_after_burst.

(* ================= non-vacuity ================= *)
Example wrr_two_cycles :
  exists c s0, wrr_new [4; 2; 6] = Ok (c, s0) /\ wr_gcd c = 2 /\
  exists s, wrr_run 12 c s0 = Ok ([2; 0; 2; 0; 1; 2; 2; 0; 2; 0; 1; 2]%nat, s).
Proof. eexists _, _. split; [reflexivity|]. split; [reflexivity|]. eexists. vm_compute. reflexivity. Qed.

Example wrr_equal_weights :
  exists c s0, wrr_new [3; 3] = Ok (c, s0) /\ wr_gcd c = 3 /\
  exists s, wrr_run 4 c s0 = Ok ([0; 1; 0; 1]%nat, s).
Proof. eexists _, _. split; [reflexivity|]. split; [reflexivity|]. eexists. vm_compute. reflexivity. Qed.

Example swrr_one_cycle :
  exists s0, ng_new [5; 1; 1] = Ok s0 /\
  ng_run_ok 7 [5; 1; 1] s0 = Ok ([0; 0; 1; 0; 2; 0; 0]%nat, s0) /\ lsum [5; 1; 1] <= 9223372036854775808.
Proof. eexists. split; [reflexivity|]. split; [vm_compute; reflexivity|vm_compute; discriminate]. Qed.

Example rr_cycle_from_the_middle :
  rr_run 3 3 1 = Ok ([2; 0; 1]%nat, 1) /\ (1 <= 3)%nat /\ -1 <= 1 < Z.of_nat 3.
Proof. split; [vm_compute; reflexivity|lia]. Qed.

Example rr_two_callers_interleaved :
  (* both callers add before either stores: indices 2 (ok) and wrap, wrap *)
  rr_crun 2 {| rr_shared := 0; rr_threads := [RStart; RStart; RStart] |} [0; 1; 2; 1; 2]%nat
  = Some {| rr_shared := 0; rr_threads := [RDone 1; RDone 0; RDone 0] |}.
Proof. vm_compute. reflexivity. Qed.

Example la_history_with_failures :
  (* three calls held in flight, finished by a result, an error and a panic *)
  run (la_machine 2) [] []
      [EStart 0; EStart 0; EStart 1; EFinish 1 OErr; EFinish 0 OPanic; EStart 0; EFinish 2 OOk; EFinish 3 OOk]
  = Ok ([0; 1; 1; 0]%nat, ([0; 0], [None; None; None; None])).
Proof. vm_compute. reflexivity. Qed.

Example nginx_failures_then_recovery :
  exists s0, ng_new [2; 1] = Ok s0 /\
  run (ng_machine [2; 1]) s0 []
      [EStart 0; EFinish 0 OErr; EStart 0; EFinish 1 OPanic; EStart 0; EFinish 2 OOk; EStart 0; EFinish 3 OOk]
  = Ok ([0; 1; 0; 0]%nat, ({| ng_eff := [2; 0]; ng_cur := [0; 0] |}, [None; None; None; None])).
Proof. eexists. split; [reflexivity|]. vm_compute. reflexivity. Qed.

Example eff_ok_nonvacuous : eff_ok [3; 2] [1; 0] /\ (1 < length [3; 2])%nat.
Proof.
  split; [|cbn; lia]. split; [reflexivity|]. intros j e w He Hw.
  destruct j as [|[|[|j]]]; cbn in He, Hw; try discriminate; inversion He; inversion Hw; subst; lia.
Qed.

Example wrandom_interval_example :
  wr_get [2; 0; 3] 0 = Ok 0%nat /\ wr_get [2; 0; 3] 1 = Ok 0%nat /\ wr_get [2; 0; 3] 2 = Ok 2%nat /\
  wr_get [2; 0; 3] 4 = Ok 2%nat /\ wr_admissible [2; 0; 3] = Ok [0; 2]%nat.
Proof. vm_compute. repeat split; reflexivity. Qed.

Example wla_weighted_tie :
  exists s0, wla_new [1; 3] = Ok s0 /\ wla_admissible s0 = Ok [0; 1]%nat /\
  wla_pick s0 0 = Ok (0%nat, {| wl_act := [1; 0]; wl_eff := [1; 3] |}) /\
  wla_pick s0 1 = Ok (1%nat, {| wl_act := [0; 1]; wl_eff := [1; 3] |}).
Proof. eexists. split; [reflexivity|]. vm_compute. repeat split; reflexivity. Qed.

Example rr_shrinks_with_cursor_past_the_end :
  (* four servers, one full cycle (the cursor rests on 3), the list shrinks to three *)
  run_cfg rr_machine 4 rr_init []
    [CEv (EStart 0); CEv (EStart 0); CEv (EStart 0); CEv (EStart 0); CConfig 3;
     CEv (EStart 0); CEv (EStart 0); CEv (EStart 0); CEv (EStart 0); CEv (EStart 0)]
  = Ok ([(0, 4); (1, 4); (2, 4); (3, 4); (0, 3); (1, 3); (2, 3); (0, 3); (1, 3)]%nat,
        (1, [Some 0; Some 1; Some 2; Some 3; Some 0; Some 1; Some 2; Some 0; Some 1]%nat)).
Proof. vm_compute. reflexivity. Qed.

Example rr_two_callers_past_the_end :
  (* n = 3, cursor on 2: callers 0 and 1 both add (3, then 4) before either stores *)
  rr_cursor_inv 3 {| rr_shared := 2; rr_threads := [RStart; RStart] |} /\
  rr_crun 3 {| rr_shared := 2; rr_threads := [RStart; RStart] |} [0; 1]%nat
    = Some {| rr_shared := 4; rr_threads := [RStore; RStore] |} /\
  rr_crun 3 {| rr_shared := 2; rr_threads := [RStart; RStart] |} [0; 1; 0; 1]%nat
    = Some {| rr_shared := 0; rr_threads := [RDone 0; RDone 0] |}.
Proof.
  split; [|split; vm_compute; reflexivity].
  split; [cbn; lia|repeat constructor].
Qed.

Example la_grows_with_a_call_in_flight :
  run_cfg la_machine 2 [] []
    [CEv (EStart 0); CConfig 3; CEv (EStart 0); CEv (EFinish 1 OOk); CEv (EFinish 0 OErr)]
  = Ok ([(0, 2); (1, 3)]%nat, ([0; 0; 0], [None; None])).
Proof. vm_compute. reflexivity. Qed.

(* T2: loadbalance/int_slice.go gcd as regenerated from the source on every run (Gen/GoFuncs.v):
   with a loop budget of min(x,y) iterations it returns (never runs out of fuel, never panics) and the
   value is the mathematical gcd. *)
From HV Require Import Lib.GoLite Gen.GoFuncs Proofs.GoFuncsProofs.
Theorem C18_source_gcd_correct : forall x y, 0 <= x -> 0 <= y ->
  lb_gcd (Z.to_nat (if x <? y then x else y)) x y = GRet (Z.gcd x y).
Proof. exact lb_gcd_source_spec. Qed.
Print Assumptions C18_source_gcd_correct.

Example source_gcd_nonvacuous : lb_gcd 4 12 18 = GRet 6 /\ lb_gcd 0 0 5 = GRet 5 /\ lb_gcd 1 7 0 = GRet 7.
Proof. vm_compute. repeat split. Qed.

(* T2: RoundRobinLoadBalance.getIndex as regenerated from the source (sequential meaning of the atomics) is rr_get *)
From HV Require Import Proofs.GoFuncsAtomicProofs.
Theorem C18_source_rr_getIndex_is_the_model : forall n idx, rr_getIndex n idx = GRet (rr_get n idx).
Proof. exact rr_getIndex_refines. Qed.
Print Assumptions C18_source_rr_getIndex_is_the_model.
