(* C06 - the decoder accepts every well-formed stream and converts losslessly across types.
   Property theorems only; proofs in Proofs/DecValProofs.v (model against specification) and
   Proofs/DecTablesProofs.v (tables regenerated from io/*.go against the model).
   Model: Model/DecVal.v ([dec_top]: decode one wire tree into a zero-initialised destination);
   specification: Model/DecSpec.v ([representable] on the denotation [WireSem.denote_top]). *)
From Coq Require Import List NArith ZArith Strings.Byte Bool.
From HV Require Import Lib.Dec Model.Wire Model.WireSem Model.Enc Model.DecAct Model.DecVal Model.DecSpec
                       Gen.DecTables Proofs.DecTablesProofs Proofs.DecValProofs.
Import ListNotations.
Open Scope Z_scope.
Local Open Scope bstr_scope.

(* ============================================================ tables regenerated from the Go sources *)

(* For every one of the 27 reflect.Kinds the six dispatch tables (fastDecode, fastDecodePtr,
   valueDecoderFactories, ptrDecoderFactories, decodeHandlers, decodePtrHandlers) reach the same
   routine (pointer tables the ...Ptr routine of the same type), and it is the routine the model
   uses on every route. *)
Theorem C06_routes_agree :
  (forall row, In row all_kinds -> route_row_ok row = true) /\
  (forall row, In row extra_fast -> extra_row_ok row = true) /\
  length gen_dec_handler = 27%nat /\ length gen_dec_ptr_handler = 27%nat /\
  length gen_dec_factory = 27%nat /\ length gen_dec_ptr_factory = 27%nat /\
  length gen_dec_fast = 24%nat /\ length gen_dec_fast_ptr = 24%nat.
Proof. exact routes_agree. Qed.
Print Assumptions C06_routes_agree.

(* no case arm, wrapper, reader or converter body that the extractor does not recognise *)
Theorem C06_switch_total : tables_total = true.
Proof. exact switch_total. Qed.
Print Assumptions C06_switch_total.

(* for each of the 32 routines and each of the 256 tag bytes: the arm in the Go source is the arm of the
   model; and the leaf readers and string parsers the arms call are the ones the model assumes
   (ReadIntN = intN(ReadInt64()), ReadFloat32/64 = strconv.ParseFloat with bit size 32/64 - one rounding -,
   stringToX = strconv.ParseInt/ParseUint(s, 10, bitSize), ParseBool, ParseFloat(s, 32/64),
   complexconv.ParseComplex(s, 64/128), big.X.SetString); and every value that outlives the call is read
   through the COPYING readers (Until, Next, readSafeString, ReadString, ReadBytes ...): an arm or reader that
   returns a window of the read buffer instead (UnsafeUntil, readUnsafeString, readUnsafeBytes ...) is a
   recognised, different catalogue entry (R...Unsafe, RdOwn false) and breaks this equality *)
Theorem C06_switch_matches_model :
  (forall r, In r all_routines -> forall t, (t < 256)%N ->
     sw_lookup (gen_switch (routine_name r)) t = sw_lookup (model_switch r) t) /\
  gen_dec_readers = expected_readers /\
  gen_dec_parsers = expected_parsers.
Proof. split; [exact switch_matches_model | split; [exact readers_match_model | exact parsers_match_model]]. Qed.
Print Assumptions C06_switch_matches_model.

Theorem C06_optswitch_matches_model :
  (forall l, opt_lookup "decodeLongAsInterface" (long_name l) = long_action l) /\
  (forall r, opt_lookup "decodeNaNAsInterface" (real_name r) = nan_action r) /\
  (forall r, opt_lookup "decodeInfinityAsInterface" (real_name r) = inf_action r) /\
  (forall r, opt_lookup "decodeDoubleAsInterface" (real_name r) = double_action r).
Proof. exact optswitch_matches_model. Qed.
Print Assumptions C06_optswitch_matches_model.

Theorem C06_wrappers_match_model : forall n w, In (n, w) expected_wrappers -> assoc gen_dec_wrappers n = Some w.
Proof. exact wrappers_match_model. Qed.
Print Assumptions C06_wrappers_match_model.

Theorem C06_readers_match_model : gen_dec_readers = expected_readers.
Proof. exact readers_match_model. Qed.
Print Assumptions C06_readers_match_model.

Theorem C06_ref_sites_match_model : gen_ref_effects = expected_ref_effects.
Proof. exact ref_sites_match_model. Qed.
Print Assumptions C06_ref_sites_match_model.

Theorem C06_converters_match_model :
  (forall k r, In (k, r) kind_routines ->
     assoc gen_conv_fast (conv_key k) = Some (sw_lookup (model_switch r) (tg "s"))) /\
  length gen_conv_fast = length kind_routines /\
  gen_conv_registered =
    [("stringType", "bigIntValueType"); ("stringType", "bigIntType"); ("stringType", "bigFloatValueType");
     ("stringType", "bigFloatType"); ("stringType", "bigRatValueType"); ("stringType", "bigRatType");
     ("stringType", "bytesType"); ("bytesType", "stringType"); ("stringType", "timeType"); ("stringType", "uuidType")].
Proof. exact converters_match_model. Qed.
Print Assumptions C06_converters_match_model.

Theorem C06_tags_match_model : forall n b, In (n, b) model_tags -> assoc gen_tags n = Some (tg b).
Proof. exact tags_match_model. Qed.
Print Assumptions C06_tags_match_model.

(* ============================================================ the model against the specification *)

(* C06_accepts, proved part.  Guard: the destination is a top-level variable of one of the types
   [proved_scalar] (all 13 scalar types: bool, the 11 integer kinds, float32/64, complex64/128,
   string, []byte, time.Time, uuid.UUID, big.Int, big.Float, big.Rat) and the stream is one scalar token (every tag except a, m, c, o, r, E) with real
   calendar fields, a hexadecimal uuid and 'i' within 32 bits.
   Premises about the oracles (standard library / hardware, supplied as a table): [oracle_total] -
   the table has the entries asked for; [oracle_laws] - converting an integral in-range double to an
   integer is exact for every width; uuid.Parse of the canonical 36-character form is its lower-case
   form; a single digit parses to the float whose text is that digit (strconv and big.Float);
   big.NewFloat(float64(i)) and big.Float.SetString agree on 32-bit integers.
   Not proved here (covered by the correspondence run on every check): interface{}, pointers beyond
   one level and containers, references. *)
Theorem C06_accepts_partial :
  forall orc opts te f t w d v,
    oracle_total orc -> oracle_laws orc ->
    proved_scalar t = true -> scalar_tok w = true -> wf_tok w = true ->
    denote_top w = Some d ->
    representable orc opts te (S f) t d = RSome v ->
    exists v', dec_top orc opts te (S (S f)) t w = OOk v' /\ xeqv spec_fuel v' v = true.
Proof.
  intros orc opts te f t w d v Ho Hl Ht Hs Hw Hd Hr.
  rewrite (denote_top_scalar w Hs) in Hd. inversion Hd; subst d.
  rewrite (representable_scalar orc opts te f t w (proved_scalar_is_scalar t Ht) Hs) in Hr.
  exact (accepts_scalar orc opts te f t w v Ho Hl Ht Hs Hw Hr).
Qed.
Print Assumptions C06_accepts_partial.

(* C06_refuses, proved part: same guard, plus [fits] - the exact boolean condition that excludes
   the refuted classes below: an integer token lies in the destination's range, a double into an
   integer or big.Int destination is integral (and in range). *)
Theorem C06_refuses_partial :
  forall orc opts te f t w d,
    oracle_total orc -> oracle_laws orc ->
    proved_scalar t = true -> scalar_tok w = true -> wf_tok w = true ->
    denote_top w = Some d ->
    representable orc opts te (S f) t d = RNone ->
    fits orc t w = true ->
    exists e, dec_top orc opts te (S (S f)) t w = OErr e.
Proof.
  intros orc opts te f t w d Ho Hl Ht Hs Hw Hd Hr Hf.
  rewrite (denote_top_scalar w Hs) in Hd. inversion Hd; subst d.
  rewrite (representable_scalar orc opts te f t w (proved_scalar_is_scalar t Ht) Hs) in Hr.
  exact (refuses_scalar_partial orc opts te f t w Ho Hl Ht Hs Hw Hr Hf).
Qed.
Print Assumptions C06_refuses_partial.

(* the same behind a pointer: destinations *T for T in bool, the 11 integer kinds, float32/64, complex64/128,
   string, []byte, time.Time, uuid.UUID ([proved_ptr]); a null token gives a nil pointer, anything else a pointer to
   the value a T destination would receive - or the same error *)
Theorem C06_accepts_behind_pointer_partial :
  forall orc opts te f t w d v,
    oracle_total orc -> oracle_laws orc ->
    proved_ptr t = true -> scalar_tok w = true -> wf_tok w = true ->
    denote_top w = Some d ->
    representable orc opts te (S (S f)) (TPtr t) d = RSome v ->
    exists v', dec_top orc opts te (S (S f)) (TPtr t) w = OOk v' /\ xeqv spec_fuel v' v = true.
Proof.
  intros orc opts te f t w d v Ho Hl Ht Hs Hw Hd Hr.
  rewrite (denote_top_scalar w Hs) in Hd. inversion Hd; subst d.
  exact (accepts_ptr_scalar orc opts te f t w v Ho Hl Ht Hs Hw Hr).
Qed.
Print Assumptions C06_accepts_behind_pointer_partial.

Theorem C06_refuses_behind_pointer_partial :
  forall orc opts te f t w d,
    oracle_total orc -> oracle_laws orc ->
    proved_ptr t = true -> scalar_tok w = true -> wf_tok w = true ->
    denote_top w = Some d ->
    representable orc opts te (S (S f)) (TPtr t) d = RNone ->
    fits orc t w = true ->
    exists e, dec_top orc opts te (S (S f)) (TPtr t) w = OErr e.
Proof.
  intros orc opts te f t w d Ho Hl Ht Hs Hw Hd Hr Hf.
  rewrite (denote_top_scalar w Hs) in Hd. inversion Hd; subst d.
  exact (refuses_ptr_scalar_partial orc opts te f t w Ho Hl Ht Hs Hw Hr Hf).
Qed.
Print Assumptions C06_refuses_behind_pointer_partial.

(* what happens outside [fits]: the integer is stored modulo 2^n, for every kind and every value *)
Theorem C06_narrowing_is_wraparound :
  forall orc opts te f k z,
    dec_top orc opts te (S f) (TInt k) (WLong z) = OOk (XInt k (wrap_k k z)) /\
    (wrap_k k z = z <-> in_range_k k z = true).
Proof.
  intros orc opts te f k z. split; [|apply wrap_k_fixed_iff].
  apply (dec_top_scalar_value orc opts te f (TInt k) (WLong z) (SInt k) (XInt k (wrap_k k z)) eq_refl eq_refl).
  - apply int_arm_wraps.
  - reflexivity.
Qed.
Print Assumptions C06_narrowing_is_wraparound.

(* no panic on scalar destinations: all 13 scalar types (floats, complex and big.Float included),
   every scalar token, every option setting *)
Theorem C06_no_panic_on_wellformed_partial :
  forall orc opts te f t w,
    oracle_total orc -> is_scalar_type t = true -> scalar_tok w = true -> wf_tok w = true ->
    (exists v, dec_top orc opts te (S (S f)) t w = OOk v) \/ (exists e, dec_top orc opts te (S (S f)) t w = OErr e).
Proof. exact scalar_no_panic. Qed.
Print Assumptions C06_no_panic_on_wellformed_partial.

(* one decoder for every position: a scalar destination is decoded by the same routine whether it is
   reached from Decode (top level), from a pointer's element decoder or from a field / element /
   key / value handler; with C06_routes_agree this is what the Go tables implement *)
Theorem C06_position_independent :
  forall orc opts te fuel t w pl st r1 r2,
    is_scalar_type t = true -> dec orc opts te fuel r1 t w pl st = dec orc opts te fuel r2 t w pl st.
Proof. exact route_independent_scalar. Qed.
Print Assumptions C06_position_independent.

(* ============================================================ refuted: C06_refuses and no-panic are false of the faithful model *)

Definition opts0 : dopts :=
  {| o_simple := true; o_long := LtInt; o_real := RlF64; o_simap := false; o_structval := false; o_listslice := false;
     o_registered := [] |}.
Definition no_oracle : bytes -> bytes -> option bytes := fun _ _ => None.

(* the full statement fails: a stream, a type the denoted value does not fit in, and a value instead of an error *)
Definition refuses_fails (orc : bytes -> bytes -> option bytes) (opts : dopts) (te : tenv) (t : gtype) (w : wire) (got : xval) : Prop :=
  tok_ok w = true /\
  (exists d, denote_top w = Some d /\ representable orc opts te spec_fuel t d = RNone) /\
  dec_top orc opts te 100 t w = OOk got.

Theorem C06_refuses_refuted_narrowing_int_overflow :    (* i300; into int8 gives 44 *)
  refuses_fails no_oracle opts0 [] (TInt KInt8) (WInt 300) (XInt KInt8 44).
Proof.
  split; [vm_compute; reflexivity|]. split; [|vm_compute; reflexivity].
  eexists. split; [vm_compute; reflexivity | vm_compute; reflexivity].
Qed.
Print Assumptions C06_refuses_refuted_narrowing_int_overflow.

Theorem C06_refuses_refuted_negative_into_unsigned :    (* i-1; into uint8 gives 255 *)
  refuses_fails no_oracle opts0 [] (TInt KUint8) (WInt (-1)) (XInt KUint8 255).
Proof.
  split; [vm_compute; reflexivity|]. split; [|vm_compute; reflexivity].
  eexists. split; [vm_compute; reflexivity | vm_compute; reflexivity].
Qed.
Print Assumptions C06_refuses_refuted_negative_into_unsigned.

Theorem C06_refuses_refuted_uint64_digits_wrap :        (* l18446744073709551617; into uint64 gives 1 *)
  refuses_fails no_oracle opts0 [] (TInt KUint64) (WLong 18446744073709551617) (XInt KUint64 1).
Proof.
  split; [vm_compute; reflexivity|]. split; [|vm_compute; reflexivity].
  eexists. split; [vm_compute; reflexivity | vm_compute; reflexivity].
Qed.
Print Assumptions C06_refuses_refuted_uint64_digits_wrap.

Theorem C06_refuses_refuted_long_into_interface :       (* l9223372036854775808; into interface{} (LongTypeInt) gives the least int *)
  refuses_fails no_oracle opts0 [] TIface (WLong 9223372036854775808)
                (XIface (TInt KInt) (XInt KInt (-9223372036854775808))).
Proof.
  split; [vm_compute; reflexivity|]. split; [|vm_compute; reflexivity].
  eexists. split; [vm_compute; reflexivity | vm_compute; reflexivity].
Qed.
Print Assumptions C06_refuses_refuted_long_into_interface.

(* the oracle entries strconv and the hardware give for the text 1.5 *)
Definition orc_1_5 : bytes -> bytes -> option bytes := fun fn arg =>
  if bytes_eqb arg (bs "1.5") then
    if bytes_eqb fn (bs "pf64") then Some (bs "+F1.5")
    else if bytes_eqb fn (bs "f2i:int") || bytes_eqb fn (bs "f2i:int64") then Some (bs "+1") else None
  else if bytes_eqb arg (bs "1") && bytes_eqb fn (bs "pf64") then Some (bs "+F1") else None.

Theorem C06_refuses_refuted_float_truncates :           (* d1.5; into int gives 1 *)
  refuses_fails orc_1_5 opts0 [] (TInt KInt) (WDouble (bs "1.5")) (XInt KInt 1).
Proof.
  split; [vm_compute; reflexivity|]. split; [|vm_compute; reflexivity].
  eexists. split; [vm_compute; reflexivity | vm_compute; reflexivity].
Qed.
Print Assumptions C06_refuses_refuted_float_truncates.

(* ---- repaired by 62cfe3a (were panics / memory corruption of the faithful model before the fix;
        the four streams are corpus cases of checks/C06.py) ---- *)

Definition inner_env : tenv :=
  [(bs "Inner", [(bs "x", TInt KInt); (bs "y", TString)]); (bs "SM", [(bs "a", TIface); (bs "b", TMap TString TIface)])].
Definition opts_reg (simple : bool) : dopts :=
  {| o_simple := simple; o_long := LtInt; o_real := RlF64; o_simap := false; o_structval := false; o_listslice := false;
     o_registered := [bs "Inner"] |}.

(* m1{a{}1} into interface{}: a list as key of map[interface{}]interface{} is a decode error *)
Theorem C06_repaired_unhashable_key_is_an_error :
  tok_ok (WMap [WList []; WDigit 1]) = true /\
  dec_top no_oracle opts0 [] 100 TIface (WMap [WList []; WDigit 1]) = OErr EOther /\
  dec_top no_oracle opts0 [] 100 (TMap TIface (TInt KInt)) (WMap [WBytes (bs "k"); WDigit 1]) = OErr EOther /\
  (exists d, denote_top (WMap [WList []; WDigit 1]) = Some d /\ representable no_oracle opts0 [] spec_fuel TIface d = RNone).
Proof.
  split; [vm_compute; reflexivity|]. split; [vm_compute; reflexivity|]. split; [vm_compute; reflexivity|].
  eexists. split; [vm_compute; reflexivity | vm_compute; reflexivity].
Qed.
Print Assumptions C06_repaired_unhashable_key_is_an_error.

(* c5"Inner"1{s1"z"}o0{1} into map[string]interface{}: a class field the registered type lacks is decoded as interface{} *)
Theorem C06_repaired_unknown_class_field_is_kept :
  let w := WClass (bs "Inner") [bs "z"; bs "x"] (WObj 0 [WDigit 1; WDigit 2]) in
  tok_ok w = true /\
  dec_top no_oracle (opts_reg true) inner_env 100 (TMap TString TIface) w =
    OOk (XMap [(XStr (bs "z"), XIface (TInt KInt) (XInt KInt 1)); (XStr (bs "x"), XIface (TInt KInt) (XInt KInt 2))]).
Proof. split; [vm_compute; reflexivity | vm_compute; reflexivity]. Qed.
Print Assumptions C06_repaired_unknown_class_field_is_kept.

(* c5"Inner"1{s1"x"}o0{1} into map[interface{}]interface{}: the field names are boxed as interface{} keys *)
Theorem C06_repaired_object_into_interface_keyed_map :
  let w := WClass (bs "Inner") [bs "x"] (WObj 0 [WDigit 1]) in
  tok_ok w = true /\
  dec_top no_oracle (opts_reg true) inner_env 100 (TMap TIface TIface) w =
    OOk (XMap [(XIface TString (XStr (bs "x")), XIface (TInt KInt) (XInt KInt 1))]).
Proof. split; [vm_compute; reflexivity | vm_compute; reflexivity]. Qed.
Print Assumptions C06_repaired_object_into_interface_keyed_map.

(* m2{ua c3"Zzz"1{s1"x"} o0{1} ub r2;} into struct{A interface{}; B map[string]interface{}}: the referenced
   object-as-map is shared by value (the same map), not read as a pointer to a map *)
Theorem C06_repaired_reference_to_object_map :
  let w := WMap [WChar (bs "a"); WClass (bs "Zzz") [bs "x"] (WObj 0 [WDigit 1]); WChar (bs "b"); WRef 2] in
  let m := XMap [(XStr (bs "x"), XIface (TInt KInt) (XInt KInt 1))] in
  tok_ok w = true /\
  dec_top no_oracle (opts_reg false) inner_env 100 (TStruct (bs "SM")) w =
    OOk (XStruct (bs "SM") [XIface (TMap TString TIface) m; m]).
Proof. split; [vm_compute; reflexivity | vm_compute; reflexivity]. Qed.
Print Assumptions C06_repaired_reference_to_object_map.

(* ============================================================ the hypotheses are satisfiable *)

(* a complete oracle table that satisfies the laws (single digits parse to themselves, canonical uuids to
   their lower-case form, every other request reports failure), so the guarded theorems are not vacuous *)
Definition single_digit (a : bytes) : bool := match a with [x] => is_digit x | _ => false end.
Definition fn_is (fn : bytes) (names : list bytes) : bool := existsb (bytes_eqb fn) names.
Definition failing_oracle : bytes -> bytes -> option bytes := fun fn arg =>
  if fn_is fn [bs "pf32"; bs "pf64"] && single_digit arg then Some (b_plus :: "F"%byte :: arg)
  else if fn_is fn [bs "bf"; bs "nf"] && single_digit arg then Some (b_plus :: arg)
  else if bytes_eqb fn (bs "uuid") && uuid_syntax arg then Some (b_plus :: uuid_lower arg)
  else Some (bs "!").

Lemma failing_oracle_other fn arg :
  fn_is fn [bs "pf32"; bs "pf64"; bs "bf"; bs "nf"; bs "uuid"] = false -> o_call failing_oracle fn arg = OFail.
Proof.
  unfold fn_is. cbn [existsb]. intros H. repeat (apply orb_false_elim in H; destruct H as [? H]).
  unfold o_call, failing_oracle, fn_is. cbn [existsb].
  repeat match goal with E : bytes_eqb fn _ = false |- _ => rewrite E; clear E end. reflexivity.
Qed.

Lemma digit_text d : (d < 10)%N -> single_digit (to_decZ (Z.of_N d)) = true.
Proof. intros H. apply N.ltb_lt in H. split_digit d H; reflexivity. Qed.

Example oracle_premises_satisfiable : oracle_total failing_oracle /\ oracle_laws failing_oracle.
Proof.
  split.
  - constructor.
    + intros b t. unfold o_float, o_call, failing_oracle. destruct b; cbn [fn_is existsb bytes_eqb Byte.eqb andb orb];
        destruct (single_digit t); cbn; exact I.
    + intros k t. unfold o_f2i, o_int. rewrite failing_oracle_other by (destruct k; reflexivity). exact I.
    + intros t. unfold o_int. rewrite failing_oracle_other by reflexivity. exact I.
    + intros t. unfold o_int. rewrite failing_oracle_other by reflexivity. exact I.
    + intros fn a. unfold o_text, o_call, failing_oracle.
      destruct (fn_is fn [bs "pf32"; bs "pf64"] && single_digit a); [cbn; exact I|].
      destruct (fn_is fn [bs "bf"; bs "nf"] && single_digit a); [cbn; exact I|].
      destruct (bytes_eqb fn (bs "uuid") && uuid_syntax a); cbn; exact I.
    + intros b s. unfold o_complex. destruct b; rewrite failing_oracle_other by reflexivity; exact I.
    + intros a. unfold o_time. rewrite failing_oracle_other by reflexivity. exact I.
    + intros a. unfold o_time. rewrite failing_oracle_other by reflexivity. exact I.
  - constructor.
    + intros k txt z H. unfold o_f2i, o_int in H. rewrite failing_oracle_other in H by (destruct k; reflexivity). discriminate.
    + intros s Hs. unfold o_text, o_call, failing_oracle. cbn [fn_is existsb bytes_eqb Byte.eqb andb orb]. rewrite Hs. reflexivity.
    + intros b d Hd. pose proof (digit_text d Hd) as E. unfold o_float, o_call, failing_oracle.
      destruct b; cbn [fn_is existsb bytes_eqb Byte.eqb andb orb]; rewrite E; reflexivity.
    + intros d Hd. pose proof (digit_text d Hd) as E. unfold o_text, o_call, failing_oracle.
      cbn [fn_is existsb bytes_eqb Byte.eqb andb orb]. rewrite E. reflexivity.
    + intros z Hz. unfold o_text, o_call, failing_oracle. cbn [fn_is existsb bytes_eqb Byte.eqb andb orb].
      destruct (single_digit (to_decZ z)); reflexivity.
Qed.

Example accepts_instance :   (* l5; into int64, s1"7" into uint8, g{...} into uuid are inside the guards *)
  proved_scalar (TInt KInt64) = true /\ scalar_tok (WLong 5) = true /\ wf_tok (WLong 5) = true /\
  representable failing_oracle opts0 [] 3 (TInt KInt64) (DInt 5) = RSome (XInt KInt64 5) /\
  representable failing_oracle opts0 [] 3 (TInt KUint8) (DStr (bs "7")) = RSome (XInt KUint8 7).
Proof. split; [vm_compute; reflexivity|]. split; [vm_compute; reflexivity|]. split; [vm_compute; reflexivity|].
  split; vm_compute; reflexivity. Qed.

Example refuses_instance :   (* s3"abc" into int, b2"ab" into int64 are refused and inside [fits] *)
  representable failing_oracle opts0 [] 3 (TInt KInt) (DStr (bs "abc")) = RNone /\
  fits failing_oracle (TInt KInt) (WStr (bs "abc")) = true /\
  representable failing_oracle opts0 [] 3 (TInt KInt64) (DBytes (bs "ab")) = RNone /\
  fits failing_oracle (TInt KInt64) (WBytes (bs "ab")) = true /\
  fits failing_oracle (TInt KInt8) (WInt 127) = true /\ fits failing_oracle (TInt KInt8) (WInt 128) = false.
Proof. do 5 (split; [vm_compute; reflexivity|]). vm_compute; reflexivity. Qed.
