(* C06 — property theorems (under construction: statements are added as their proofs land). *)
From Coq Require Import List NArith ZArith Strings.Byte Bool.
From HV Require Import Model.DecVal.
Theorem C06_placeholder : True. Proof. exact I. Qed.
Print Assumptions C06_placeholder.
