(* C02 — Reference mode: every back-reference in the stream resolves, on the decoding side, to the
   very item the encoder meant, and the stream denotes the value (shared pointers, cycles, repeated
   strings, class definitions).  Statements only; proofs in Proofs/RefProofs.v. *)
From Coq Require Import List NArith ZArith Strings.Byte Bool.
From HV Require Import Lib.Dec Lib.Utf8 Model.Wire Model.WireSem Model.Enc Model.Abs
                       Proofs.EncProofs Proofs.RefProofs.
Import ListNotations.

(* For every heap and every value (DAGs, cycles through structs/slices/maps, repeated strings,
   class definitions, [][]byte rows, complex numbers, rationals, errors, anonymous structs, times
   and uuids by pointer): what the stream means once all back-references are resolved
   ([denote_top], written from the format description) is what the value means independently of
   any reference numbering ([abs_top]).  Premises: the oracle premises of C03 ([heap_ok], [gval_ok])
   and [ref_wf]: a struct type name stands for one field list, one value per field, uint8/uint16
   values are not negative. *)
Theorem C02_backrefs_resolve : forall hp fuel v st' w,
  heap_ok hp = true -> gval_ok v = true -> ref_wf hp v = true ->
  enc false hp fuel einit v = EOk st' w ->
  exists d, denote_top w = Some d /\ abs_top hp fuel v = Some d.
Proof. exact enc_denotes_abs. Qed.
Print Assumptions C02_backrefs_resolve.

(* The tables behind it: at the end of the stream the slot number the encoder holds for a pointer
   contains, on the reading side, the value of that pointer's pointee, and the slot number it holds
   for a string contains that string; the two counters agree. *)
Theorem C02_tables_resolve : forall hp fuel v st' w,
  heap_ok hp = true -> gval_ok v = true -> ref_wf hp v = true ->
  enc false hp fuel einit v = EOk st' w ->
  exists d rst' ast',
    denote (wsize w) rinit w = Some (d, rst') /\ abs hp fuel ainit v = Some (d, ast') /\
    rlast st' = N.of_nat (length (refs rst')) /\
    (forall a k, find_ptr (prefs st') a = Some k ->
       exists dv, find_done (adone ast') a = Some dv /\
                  nth_error (refs rst') (N.to_nat k) = Some (RDone dv)) /\
    (forall s k, find_str (srefs st') s = Some k ->
       nth_error (refs rst') (N.to_nat k) = Some (RDone (abs_string s))).
Proof. exact enc_tables_resolve. Qed.
Print Assumptions C02_tables_resolve.

(* The same for an arbitrary assignment [sg] of field lists to type names, with the full invariant
   linking encoder state, reader state and specification state at the end of the stream. *)
Theorem C02_simulation : forall sg hp fuel v st' w,
  heap_ok hp = true -> gval_ok v = true -> heap_wf sg hp = true -> gwf sg v = true ->
  enc false hp fuel einit v = EOk st' w ->
  exists fd d rst' ast',
    denote fd rinit w = Some (d, rst') /\ abs hp fuel ainit v = Some (d, ast') /\
    Inv sg st' rst' ast' /\ aopen ast' = [] /\ adepth ast' = 0%nat.
Proof. exact enc_denotes_abs_sg. Qed.
Print Assumptions C02_simulation.

(* The fuel of [denote_top] is enough whenever any fuel is. *)
Theorem C02_denote_fuel : forall f st w r, denote f st w = Some r -> denote (wsize w) st w = Some r.
Proof. exact denote_wsize. Qed.
Print Assumptions C02_denote_fuel.

(* A tracked pointer that is already in the table is written as a back-reference to its slot and
   nothing else: its body is never written a second time. *)
Theorem C02_seen_pointer_is_backref : forall hp f st a k pv,
  hlookup hp a = Some pv -> tracked pv = true -> find_ptr (prefs st) a = Some k ->
  enc false hp (S f) st (GPtr a) = EOk st (WRef k).
Proof. exact seen_pointer_is_backref. Qed.
Print Assumptions C02_seen_pointer_is_backref.

Theorem C02_seen_string_is_backref : forall st s k,
  (go_utf16Length s =? 0)%Z = false -> (go_utf16Length s =? 1)%Z = false ->
  find_str (srefs st) s = Some k -> enc_string false st s = (st, WRef k).
Proof. exact seen_string_is_backref. Qed.
Print Assumptions C02_seen_string_is_backref.

(* The body of a tracked pointer is written exactly when the pointer is entered in the table
   (Enc.enc_step: the body goes through [enc_body rec (ByPtr a)], which starts with [set_ptr]); the
   table never holds a pointer twice, so each body is written at most once in a stream, and every
   other occurrence of the pointer is the back-reference of [C02_seen_pointer_is_backref]. *)
Theorem C02_each_tracked_pointer_written_once : forall hp fuel v st' w,
  enc false hp fuel einit v = EOk st' w -> NoDup (map fst (prefs st')).
Proof. exact enc_pointer_written_once. Qed.
Print Assumptions C02_each_tracked_pointer_written_once.

(* "Encoded in finite time": in reference mode the traversal ends on every finite heap, cyclic or
   not: with the fuel [term_fuel hp v] (nesting depth of the value plus, for each heap cell, the
   largest nesting depth of a cell) the model never runs out of fuel, from any encoder state.
   Guard: chains of pointers to pointers are not circular (such a chain is not registered in the
   reference table by the library either; see [C02_pointer_chain_guard_needed]). *)
Theorem C02_encode_terminates : forall hp v st fuel,
  ptr_chains_ok hp = true -> (term_fuel hp v <= fuel)%nat -> enc false hp fuel st v <> EFuel.
Proof. exact enc_terminates. Qed.
Print Assumptions C02_encode_terminates.

Theorem C02_pointer_chain_guard_needed : forall f st,
  enc false [(1%N, GPtr 1%N)] f st (GPtr 1%N) = EFuel.
Proof. exact pointer_to_itself_never_ends. Qed.
Print Assumptions C02_pointer_chain_guard_needed.

(* ---- non-vacuity -------------------------------------------------------------------------------- *)

(* a self-loop: n := &Node{Next: n, V: 5} *)
Definition ex_loop_heap : heap :=
  [(1%N, GStruct ["N"; "o"; "d"; "e"]%byte [["n"; "e"; "x"; "t"]%byte; ["v"]%byte] [GPtr 1%N; GInt KInt 5])].

Example ex_self_loop :
  let hp := ex_loop_heap in let v := GPtr 1%N in
  let w := WClass ["N"; "o"; "d"; "e"]%byte [["n"; "e"; "x"; "t"]%byte; ["v"]%byte] (WObj 0 [WRef 2; WDigit 5]) in
  let d := DObj ["N"; "o"; "d"; "e"]%byte [["n"; "e"; "x"; "t"]%byte; ["v"]%byte] [DCycle 1; DInt 5] in
  heap_ok hp = true /\ gval_ok v = true /\ ref_wf hp v = true /\
  (exists st', enc false hp 3 einit v = EOk st' w) /\
  denote_top w = Some d /\ abs_top hp 3 v = Some d.
Proof. vm_compute. repeat split; try reflexivity. eexists; reflexivity. Qed.

(* a DAG: Outer{A: p, B: p} with p := &Inner{X: 7} *)
Definition ex_dag_heap : heap := [(1%N, GStruct ["I"; "n"; "n"; "e"; "r"]%byte [["x"]%byte] [GInt KInt 7])].

Example ex_shared_pointer :
  let hp := ex_dag_heap in
  let v := GStruct ["O"; "u"; "t"; "e"; "r"]%byte [["a"]%byte; ["b"]%byte] [GPtr 1%N; GPtr 1%N] in
  let w := WClass ["O"; "u"; "t"; "e"; "r"]%byte [["a"]%byte; ["b"]%byte]
             (WObj 0 [WClass ["I"; "n"; "n"; "e"; "r"]%byte [["x"]%byte] (WObj 1 [WDigit 7]); WRef 4]) in
  let i := DObj ["I"; "n"; "n"; "e"; "r"]%byte [["x"]%byte] [DInt 7] in
  let d := DObj ["O"; "u"; "t"; "e"; "r"]%byte [["a"]%byte; ["b"]%byte] [i; i] in
  heap_ok hp = true /\ gval_ok v = true /\ ref_wf hp v = true /\
  (exists st', enc false hp 3 einit v = EOk st' w) /\
  denote_top w = Some d /\ abs_top hp 3 v = Some d.
Proof. vm_compute. repeat split; try reflexivity. eexists; reflexivity. Qed.

(* a repeated string: []string{"hello", "hello"} *)
Example ex_repeated_string :
  let v := GSlice [GString ["h"; "e"; "l"; "l"; "o"]%byte; GString ["h"; "e"; "l"; "l"; "o"]%byte] in
  let w := WList [WStr ["h"; "e"; "l"; "l"; "o"]%byte; WRef 1] in
  let d := DList [DStr ["h"; "e"; "l"; "l"; "o"]%byte; DStr ["h"; "e"; "l"; "l"; "o"]%byte] in
  heap_ok [] = true /\ gval_ok v = true /\ ref_wf [] v = true /\
  (exists st', enc false [] 2 einit v = EOk st' w) /\
  denote_top w = Some d /\ abs_top [] 2 v = Some d.
Proof. vm_compute. repeat split; try reflexivity. eexists; reflexivity. Qed.

(* the extra premise is needed: WriteUint16 has no sign test, so a (mis-described) negative uint8
   would be written as the digit 0 *)
Example ex_ref_wf_needed :
  ref_wf [] (GInt KUint8 (-1)) = false /\
  (exists st', enc false [] 1 einit (GInt KUint8 (-1)) = EOk st' (WDigit 0)) /\
  abs_top [] 1 (GInt KUint8 (-1)) = Some (DInt (-1)).
Proof. vm_compute. repeat split; try reflexivity. eexists; reflexivity. Qed.

(* the cyclic heap of [ex_self_loop] satisfies the guard of [C02_encode_terminates]; fuel 5 is enough *)
Example ex_cycle_terminates :
  ptr_chains_ok ex_loop_heap = true /\ term_fuel ex_loop_heap (GPtr 1%N) = 5%nat /\
  ptr_chains_ok ex_dag_heap = true /\ ptr_chains_ok [(1%N, GPtr 1%N)] = false.
Proof. vm_compute. repeat split; reflexivity. Qed.

(* ... and so is the other half of [ref_wf]: the class table is looked up by type name, so one name
   must stand for one field list (in the library the table is keyed by the Go type) *)
Example ex_ref_wf_needed_shapes :
  let v := GSlice [GStruct ["P"]%byte [["a"]%byte] [GInt KInt 1]; GStruct ["P"]%byte [["b"]%byte] [GInt KInt 2]] in
  ref_wf [] v = false /\ gval_ok v = true /\
  (exists st' w, enc false [] 3 einit v = EOk st' w /\
     denote_top w = Some (DList [DObj ["P"]%byte [["a"]%byte] [DInt 1]; DObj ["P"]%byte [["a"]%byte] [DInt 2]])) /\
  abs_top [] 3 v = Some (DList [DObj ["P"]%byte [["a"]%byte] [DInt 1]; DObj ["P"]%byte [["b"]%byte] [DInt 2]]).
Proof. vm_compute. repeat split; try reflexivity. do 2 eexists; split; reflexivity. Qed.
