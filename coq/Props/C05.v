(* C05 — Streaming decode equals in-memory decode for every fragmentation and buffer size.
   Only statements, each closed by [exact lemma], with Print Assumptions.

   Reading guide.  [dst] is the Decoder (buf with stale content kept beyond tail, head, tail,
   the chunks the scripted reader will still hand out, reader-or-slice mode, sticky Error).
   [wf d] holds of every state reachable from NewDecoder / NewDecoderFromReader with a buffer
   of capacity >= 1 (each theorem re-establishes it).  [abs d = (remaining d, err d)] with
   [remaining d = buf[head:tail] ++ concat pending]: the contiguous rest of the stream and the
   sticky error.  The [s_*] functions are plain functions on that pair.  Every theorem
   quantifies over ALL states, hence over every chunking (short, empty and over-long reads)
   and every buffer capacity; [rel r s] says: r = Ok (v, d') (so neither a Go panic nor
   running out of fuel), wf d', and (v, abs d') = s. *)
From Coq Require Import List ZArith NArith Bool Lia Init.Byte.
From HV Require Import Model.DecStream Proofs.DecStreamProofs.
Import ListNotations.

(* ---- the refill itself ---- *)

Theorem C05_loadMore_refines : forall d, wf d ->
  match loadMore d with
  | Ok (true, d') =>
      wf d' /\ head d' = 0 /\ 0 < tail d' /\ remaining d' = concat (pending d) /\
      err d' = err d /\ mu (pending d') < mu (pending d) /\ isreader d' = isreader d /\
      length (buf d') = length (buf d) /\ concat (pending d) <> [] /\
      deliver (length (buf d)) (pending d) = Some (window d', pending d')
  | Ok (false, d') =>
      wf d' /\ head d' = tail d' /\ remaining d' = [] /\ concat (pending d) = [] /\
      err d' = or_err (err d) EEOF /\ pending d' = [] /\ isreader d' = isreader d /\
      length (buf d') = length (buf d)
  | _ => False
  end.
Proof. exact loadMore_spec. Qed.
Print Assumptions C05_loadMore_refines.

(* ---- one theorem per primitive ---- *)

Theorem C05_NextByte_refines : forall d, wf d -> rel (nextByte d) (s_nextByte (abs d)).
Proof. exact nextByte_refines. Qed.
Print Assumptions C05_NextByte_refines.

Theorem C05_Skip_refines : forall d, wf d -> rel1 (skip d) (s_skip (abs d)).
Proof. exact skip_refines. Qed.
Print Assumptions C05_Skip_refines.

(* next(n): also "both panic" for n < 0 on a non-empty stream (relr) *)
Theorem C05_next_refines : forall n d, wf d -> relr (nosafe (next n d)) (s_next n (abs d)).
Proof. exact next_refines. Qed.
Print Assumptions C05_next_refines.

Theorem C05_until_refines : forall c d, wf d -> rel (nosafe (until c d)) (s_until c (abs d)).
Proof. exact until_refines. Qed.
Print Assumptions C05_until_refines.

Theorem C05_Remains_refines : forall d, wf d -> rel (remains d) (s_remains (abs d)).
Proof. exact remains_refines. Qed.
Print Assumptions C05_Remains_refines.

Theorem C05_readUint64_refines : forall c d, wf d -> rel (readUint64 c d) (s_readUint64 c (abs d)).
Proof. exact readUint64_refines. Qed.
Print Assumptions C05_readUint64_refines.

Theorem C05_ReadInt64_refines : forall d, wf d -> rel (readInt64 d) (s_readInt64 (abs d)).
Proof. exact readInt64_refines. Qed.
Print Assumptions C05_ReadInt64_refines.

Theorem C05_ReadUint64_refines : forall d, wf d -> rel (readUint64Top d) (s_readUint64Top (abs d)).
Proof. exact readUint64Top_refines. Qed.
Print Assumptions C05_ReadUint64_refines.

(* read2Digit, read3Digit, read4Digit are readDigits 2/3/4 0 *)
Theorem C05_readDigits_refines : forall k acc d, wf d ->
  rel (readDigits k acc d) (s_readDigits k acc (abs d)).
Proof. exact readDigits_refines. Qed.
Print Assumptions C05_readDigits_refines.

Theorem C05_readTime_refines : forall d, wf d -> rel (readTime d) (s_readHMS (abs d)).
Proof. exact readHMS_refines. Qed.
Print Assumptions C05_readTime_refines.

Theorem C05_readDateTime_refines : forall d, wf d -> rel (readDateTime d) (s_readDateTime (abs d)).
Proof. exact readDateTime_refines. Qed.
Print Assumptions C05_readDateTime_refines.

Theorem C05_ReadBytes_refines : forall d, wf d -> relr (readBytes d) (s_readBytes (abs d)).
Proof. exact readBytes_refines. Qed.
Print Assumptions C05_ReadBytes_refines.

(* ---- readStringAsBytes ---- *)

(* REFUTED (1): a 3-byte character delivered by the reader in three reads makes the slow
   path slice dec.buf[head:tail] with head > tail (Go: panic "slice bounds out of range
   [2:1]"), while the same bytes decode from a contiguous slice. *)
Theorem C05_readStringAsBytes_refuted :
  exists cap chunks,
    readStringAsSafeBytes 1 (reader_mode cap chunks) = Panic PStrWindow /\
    readStringAsSafeBytes 1 (bytes_mode (concat chunks)) =
      Ok (Some euro, mk (concat chunks) 3 4 [] false None).
Proof. exact str_split3_panics. Qed.
Print Assumptions C05_readStringAsBytes_refuted.

(* REFUTED (2): a 3-byte character that ends the input, split by the reader, is returned
   with Error = io.EOF; the contiguous run (fast path) returns it without error.  Every
   refill was long enough here (str_why = 3, not 2): a second, independent defect. *)
Theorem C05_readStringAsBytes_eof_refuted :
  exists cap chunks d1 d2,
    readStringAsSafeBytes 1 (reader_mode cap chunks) = Ok (Some euro, d1) /\
    readStringAsSafeBytes 1 (bytes_mode (concat chunks)) = Ok (Some euro, d2) /\
    err d1 = Some EEOF /\ err d2 = None /\ remaining d1 = [] /\ remaining d2 = [] /\
    str_why 1 (reader_mode cap chunks) = 3.
Proof. exact str_end_eof_differs. Qed.
Print Assumptions C05_readStringAsBytes_eof_refuted.

(* PARTIAL: under the guard
     - the bytes are a prefix-closed well-formed string for n units (acceptable lead bytes,
       no 4-byte character when one unit is left) -- true of encoder output and truncations;
     - fast path, or: every refill that happens inside a character brings the rest of that
       character (refill_ok), and the string does not end exactly where the input ends
   readStringAsBytes returns the string, leaves the rest, and sets EOF iff the input ends
   early -- for every chunking, every capacity, in reader mode and in slice mode alike. *)
Theorem C05_readStringAsBytes_partial : forall n d, wf d -> str_guard n d = true ->
  rel (readStringAsSafeBytes n d) (s_str n (abs d)).
Proof. exact str_refines. Qed.
Print Assumptions C05_readStringAsBytes_partial.

Theorem C05_ReadStringAsBytes_partial : forall d, wf d -> cmd_guard CReadStringAsBytes d = true ->
  rel (readStringAsBytesTop d) (s_readStringAsBytesTop (abs d)).
Proof. exact readStringAsBytesTop_refines. Qed.
Print Assumptions C05_ReadStringAsBytes_partial.

(* the guard is exact on its refill part: whenever the input is well formed and the slow
   path meets a refill that is too short, the model (and the Go code) panics *)
Theorem C05_readStringAsBytes_short_refill_panics : forall n d, wf d -> str_why n d = 2 ->
  exists site, readStringAsSafeBytes n d = Panic site.
Proof. exact str_short_refill_panics. Qed.
Print Assumptions C05_readStringAsBytes_short_refill_panics.

(* ---- every decoder written over the primitives ---- *)

Theorem C05_exec_refines : forall c d, wf d -> cmd_guard c d = true ->
  relr (exec c d) (s_exec c (abs d)).
Proof. exact exec_refines. Qed.
Print Assumptions C05_exec_refines.

(* programs whose next call may depend on every value returned so far *)
Theorem C05_run_refines : forall p d, wf d -> guarded p d ->
  obs_run (run p d) = obs_srun (s_run p (abs d)) /\ snd (obs_run (run p d)) <> None.
Proof. exact run_refines. Qed.
Print Assumptions C05_run_refines.

(* same values, same error, same rest of the stream from any fragmenting reader with any
   buffer capacity as from the contiguous slice; and the run never exhausts its fuel.
   [guarded] only constrains the string-reading calls (the _partial guard above). *)
Theorem C05_fragmentation_independent : forall p cap chunks, 1 <= cap ->
  guarded p (reader_mode cap chunks) -> guarded p (bytes_mode (concat chunks)) ->
  obs_run (run p (reader_mode cap chunks)) = obs_run (run p (bytes_mode (concat chunks))) /\
  snd (obs_run (run p (reader_mode cap chunks))) <> None.
Proof. exact fragmentation_independent. Qed.
Print Assumptions C05_fragmentation_independent.

(* unconditional for programs that do not call the string reader *)
Theorem C05_fragmentation_independent_nostr : forall p cap chunks, 1 <= cap -> nostr p ->
  obs_run (run p (reader_mode cap chunks)) = obs_run (run p (bytes_mode (concat chunks))) /\
  snd (obs_run (run p (reader_mode cap chunks))) <> None.
Proof. exact fragmentation_independent_nostr. Qed.
Print Assumptions C05_fragmentation_independent_nostr.

(* ---- non-vacuity ---- *)

Definition b (s : list nat) : list byte :=
  map (fun n => match Byte.of_N (N.of_nat n) with Some x => x | None => x00 end) s.

(* "i-123;abcdef;xyz" handed over in pieces of 2 through a 2-byte buffer, with empty reads *)
Example stream1 : list (list byte) :=
  [b [105; 45]; []; b [49; 50; 51; 59; 97]; []; []; b [98; 99; 100; 101; 102; 59; 120; 121; 122]].

Example wf_reachable : wf (reader_mode 2 stream1) /\ wf (bytes_mode (concat stream1)).
Proof. split; [apply wf_reader_mode; lia|apply wf_bytes_mode]. Qed.

Example run_list_example :
  fst (run_list [CNextByte; CReadInt64; CNext 3; CUntil x3b; CRemains] (reader_mode 2 stream1)) =
  fst (run_list [CNextByte; CReadInt64; CNext 3; CUntil x3b; CRemains] (bytes_mode (concat stream1))) /\
  map fst (fst (run_list [CNextByte; CReadInt64; CNext 3; CUntil x3b; CRemains] (reader_mode 2 stream1))) =
  [VByte x69; VNum (-123); VBytes (Some (b [97; 98; 99])); VBytes (Some (b [100; 101; 102]));
   VBytes (Some (b [120; 121; 122]))].
Proof. vm_compute. split; reflexivity. Qed.

(* a program that branches on what it reads *)
Definition branching : prog :=
  Step CNextByte (fun v =>
    match v with
    | VByte x69 => Step CReadInt64 (fun _ => Step CRemains (fun _ => Done))
    | _ => Step (CUntil x3b) (fun _ => Done)
    end).

Example branching_nostr : nostr branching.
Proof.
  unfold branching. constructor; [reflexivity|]. intros v.
  destruct v as [|x| | |]; try (constructor; [reflexivity|intros; constructor]).
  destruct x; repeat (constructor; [reflexivity|intros]); constructor.
Qed.

(* the guard is met by ordinary splits of ordinary strings: "s"-less body  2"ß€"  read 3+2+2 *)
Example guard_satisfiable :
  cmd_guard CReadStringAsBytes (reader_mode 4 [b [50; 34; 195]; b [159; 226]; b [130; 172; 34]]) = true /\
  fst (run_list [CReadStringAsBytes] (reader_mode 4 [b [50; 34; 195]; b [159; 226]; b [130; 172; 34]])) =
  [(VBytes (Some (b [195; 159; 226; 130; 172])), None)].
Proof. vm_compute. split; reflexivity. Qed.

Example guarded_program :
  guarded (Step CReadStringAsBytes (fun _ => Step CRemains (fun _ => Done)))
          (reader_mode 4 [b [50; 34; 195]; b [159; 226]; b [130; 172; 34]]).
Proof. cbn [guarded]. split; [vm_compute; reflexivity|]. vm_compute. auto. Qed.

(* the short-refill situation exists (the witness of _refuted) *)
Example short_refill_exists : str_why 1 (reader_mode 8 [[xe2]; [x82]; [xac]; [x22]]) = 2.
Proof. vm_compute. reflexivity. Qed.
