(* C05 — Streaming decode equals in-memory decode for every fragmentation and buffer size.
   Only statements, each closed by [exact lemma], with Print Assumptions.

   Reading guide.  [dst] is the Decoder (buf with stale content kept beyond tail, head, tail,
   the chunks the scripted reader will still hand out, reader-or-slice mode, sticky Error).
   [wf d] holds of every state reachable from NewDecoder / NewDecoderFromReader with a buffer
   of capacity >= 1 (each theorem re-establishes it).  [abs d = (remaining d, err d)] with
   [remaining d = buf[head:tail] ++ concat pending]: the contiguous rest of the stream and the
   sticky error.  The [s_*] functions are plain functions on that pair.  Every theorem
   quantifies over ALL states, hence over every chunking (short, empty and over-long reads)
   and every buffer capacity; [rel r s] says: r = Ok (v, d') (so neither a Go panic nor
   running out of fuel), wf d', and (v, abs d') = s. *)
From Coq Require Import List ZArith NArith Bool Lia Init.Byte.
From HV Require Import Model.DecStream Proofs.DecStreamProofs.
Import ListNotations.

(* ---- the refill itself ---- *)

Theorem C05_loadMore_refines : forall d, wf d ->
  match loadMore d with
  | Ok (true, d') =>
      wf d' /\ head d' = 0 /\ 0 < tail d' /\ remaining d' = concat (pending d) /\
      err d' = err d /\ mu (pending d') < mu (pending d) /\ isreader d' = isreader d /\
      length (buf d') = length (buf d) /\ concat (pending d) <> [] /\
      deliver (length (buf d)) (pending d) = Some (window d', pending d')
  | Ok (false, d') =>
      wf d' /\ head d' = tail d' /\ remaining d' = [] /\ concat (pending d) = [] /\
      err d' = or_err (err d) EEOF /\ pending d' = [] /\ isreader d' = isreader d /\
      length (buf d') = length (buf d)
  | _ => False
  end.
Proof. exact loadMore_spec. Qed.
Print Assumptions C05_loadMore_refines.

(* ---- one theorem per primitive ---- *)

Theorem C05_NextByte_refines : forall d, wf d -> rel (nextByte d) (s_nextByte (abs d)).
Proof. exact nextByte_refines. Qed.
Print Assumptions C05_NextByte_refines.

Theorem C05_Skip_refines : forall d, wf d -> rel1 (skip d) (s_skip (abs d)).
Proof. exact skip_refines. Qed.
Print Assumptions C05_Skip_refines.

(* next(n): n < 0 on a non-empty stream is the decode error "negative length" on both sides (relr would also accept "both panic") *)
Theorem C05_next_refines : forall n d, wf d -> relr (nosafe (next n d)) (s_next n (abs d)).
Proof. exact next_refines. Qed.
Print Assumptions C05_next_refines.

Theorem C05_until_refines : forall c d, wf d -> rel (nosafe (until c d)) (s_until c (abs d)).
Proof. exact until_refines. Qed.
Print Assumptions C05_until_refines.

Theorem C05_Remains_refines : forall d, wf d -> rel (remains d) (s_remains (abs d)).
Proof. exact remains_refines. Qed.
Print Assumptions C05_Remains_refines.

Theorem C05_readUint64_refines : forall c d, wf d -> rel (readUint64 c d) (s_readUint64 c (abs d)).
Proof. exact readUint64_refines. Qed.
Print Assumptions C05_readUint64_refines.

Theorem C05_ReadInt64_refines : forall d, wf d -> rel (readInt64 d) (s_readInt64 (abs d)).
Proof. exact readInt64_refines. Qed.
Print Assumptions C05_ReadInt64_refines.

Theorem C05_ReadUint64_refines : forall d, wf d -> rel (readUint64Top d) (s_readUint64Top (abs d)).
Proof. exact readUint64Top_refines. Qed.
Print Assumptions C05_ReadUint64_refines.

(* read2Digit, read3Digit, read4Digit are readDigits 2/3/4 0 *)
Theorem C05_readDigits_refines : forall k acc d, wf d ->
  rel (readDigits k acc d) (s_readDigits k acc (abs d)).
Proof. exact readDigits_refines. Qed.
Print Assumptions C05_readDigits_refines.

Theorem C05_readTime_refines : forall d, wf d -> rel (readTime d) (s_readHMS (abs d)).
Proof. exact readHMS_refines. Qed.
Print Assumptions C05_readTime_refines.

Theorem C05_readDateTime_refines : forall d, wf d -> rel (readDateTime d) (s_readDateTime (abs d)).
Proof. exact readDateTime_refines. Qed.
Print Assumptions C05_readDateTime_refines.

Theorem C05_ReadBytes_refines : forall d, wf d -> relr (readBytes d) (s_readBytes (abs d)).
Proof. exact readBytes_refines. Qed.
Print Assumptions C05_ReadBytes_refines.

(* ---- readStringAsBytes (as repaired in /repo commit 8eb4ed7) ---- *)

(* For every chunking and every capacity, in reader mode and in slice mode alike,
   readStringAsBytes returns the string of n UTF-16 units, leaves the rest, and sets EOF
   exactly when the input ends before the string does.  The only premise, [str_ok], is a
   condition on the BYTES (never on how they are delivered): every lead byte is one
   checkUTF8String accepts and no 4-byte character stands where one unit is left -- true of
   every encoder output and of every truncation of one; malformed strings are outside the
   property's quantifier. *)
Theorem C05_readStringAsBytes_refines : forall n d, wf d -> str_ok n (remaining d) = true ->
  rel (readStringAsSafeBytes n d) (s_str n (abs d)).
Proof. exact str_refines. Qed.
Print Assumptions C05_readStringAsBytes_refines.

Theorem C05_ReadStringAsBytes_refines : forall d, wf d -> cmd_guard CReadStringAsBytes d = true ->
  rel (readStringAsBytesTop d) (s_readStringAsBytesTop (abs d)).
Proof. exact readStringAsBytesTop_refines. Qed.
Print Assumptions C05_ReadStringAsBytes_refines.

(* ---- every decoder written over the primitives ---- *)

Theorem C05_exec_refines : forall c d, wf d -> cmd_guard c d = true ->
  relr (exec c d) (s_exec c (abs d)).
Proof. exact exec_refines. Qed.
Print Assumptions C05_exec_refines.

(* programs whose next call may depend on every value returned so far; [s_guarded p s]:
   wherever p reads a string from the contiguous bytes s, that string is well formed *)
Theorem C05_run_refines : forall p d, wf d -> s_guarded p (abs d) ->
  obs_run (run p d) = obs_srun (s_run p (abs d)) /\ snd (obs_run (run p d)) <> None.
Proof. exact run_refines. Qed.
Print Assumptions C05_run_refines.

(* same values, same error, same rest of the stream from any fragmenting reader with any
   buffer capacity as from the contiguous slice; and the run never exhausts its fuel.
   The premise speaks about the bytes only, not about the fragmentation. *)
Theorem C05_fragmentation_independent : forall p cap chunks, 1 <= cap ->
  s_guarded p (concat chunks, None) ->
  obs_run (run p (reader_mode cap chunks)) = obs_run (run p (bytes_mode (concat chunks))) /\
  snd (obs_run (run p (reader_mode cap chunks))) <> None.
Proof. exact fragmentation_independent. Qed.
Print Assumptions C05_fragmentation_independent.

(* unconditional for programs that do not call the string reader *)
Theorem C05_fragmentation_independent_nostr : forall p cap chunks, 1 <= cap -> nostr p ->
  obs_run (run p (reader_mode cap chunks)) = obs_run (run p (bytes_mode (concat chunks))) /\
  snd (obs_run (run p (reader_mode cap chunks))) <> None.
Proof. exact fragmentation_independent_nostr. Qed.
Print Assumptions C05_fragmentation_independent_nostr.

(* ---- non-vacuity ---- *)

Definition b (s : list nat) : list byte :=
  map (fun n => match Byte.of_N (N.of_nat n) with Some x => x | None => x00 end) s.

(* "i-123;abcdef;xyz" handed over in pieces of 2 through a 2-byte buffer, with empty reads *)
Example stream1 : list (list byte) :=
  [b [105; 45]; []; b [49; 50; 51; 59; 97]; []; []; b [98; 99; 100; 101; 102; 59; 120; 121; 122]].

Example wf_reachable : wf (reader_mode 2 stream1) /\ wf (bytes_mode (concat stream1)).
Proof. split; [apply wf_reader_mode; lia|apply wf_bytes_mode]. Qed.

Example run_list_example :
  fst (run_list [CNextByte; CReadInt64; CNext 3; CUntil x3b; CRemains] (reader_mode 2 stream1)) =
  fst (run_list [CNextByte; CReadInt64; CNext 3; CUntil x3b; CRemains] (bytes_mode (concat stream1))) /\
  map fst (fst (run_list [CNextByte; CReadInt64; CNext 3; CUntil x3b; CRemains] (reader_mode 2 stream1))) =
  [VByte x69; VNum (-123); VBytes (Some (b [97; 98; 99])); VBytes (Some (b [100; 101; 102]));
   VBytes (Some (b [120; 121; 122]))].
Proof. vm_compute. split; reflexivity. Qed.

(* a program that branches on what it reads *)
Definition branching : prog :=
  Step CNextByte (fun v =>
    match v with
    | VByte x69 => Step CReadInt64 (fun _ => Step CRemains (fun _ => Done))
    | _ => Step (CUntil x3b) (fun _ => Done)
    end).

Example branching_nostr : nostr branching.
Proof.
  unfold branching. constructor; [reflexivity|]. intros v.
  destruct v as [|x| | |]; try (constructor; [reflexivity|intros; constructor]).
  destruct x; repeat (constructor; [reflexivity|intros]); constructor.
Qed.

(* the premise is met by ordinary strings, and the repaired code handles a character
   delivered one byte at a time:  2"ß€"  read 1+1+1+1+1+1+1+1 through a 2-byte buffer *)
Example one_byte_reads : list (list byte) :=
  [b [50]; b [34]; b [195]; []; b [159]; b [226]; b [130]; []; b [172]; b [34]].

Example guard_satisfiable :
  cmd_guard CReadStringAsBytes (reader_mode 2 one_byte_reads) = true /\
  fst (run_list [CReadStringAsBytes; CRemains] (reader_mode 2 one_byte_reads)) =
  [(VBytes (Some (b [195; 159; 226; 130; 172])), None); (VBytes None, Some EEOF)] /\
  fst (run_list [CReadStringAsBytes; CRemains] (bytes_mode (concat one_byte_reads))) =
  [(VBytes (Some (b [195; 159; 226; 130; 172])), None); (VBytes None, Some EEOF)].
Proof. vm_compute. repeat split; reflexivity. Qed.

Example guarded_program :
  s_guarded (Step CReadStringAsBytes (fun _ => Step CRemains (fun _ => Done)))
            (concat one_byte_reads, None).
Proof. cbn [s_guarded]. split; [vm_compute; reflexivity|]. vm_compute. auto. Qed.

(* a string ending exactly where the input ends: value, no error (u-tagged "€" split 2+1) *)
Example end_of_input_no_eof :
  fst (run_list [CStr 1] (reader_mode 8 [[xe2; x82]; [xac]])) = [(VBytes (Some euro), None)] /\
  fst (run_list [CStr 1] (bytes_mode [x61])) = [(VBytes (Some [x61]), None)].
Proof. vm_compute. split; reflexivity. Qed.

(* a truncated character is an early end of input, in every fragmentation *)
Example truncated_char_is_eof :
  fst (run_list [CStr 1] (reader_mode 8 [[xe2]; [x82]])) = [(VBytes (Some [xe2; x82]), Some EEOF)] /\
  fst (run_list [CStr 1] (bytes_mode [xe2; x82])) = [(VBytes (Some [xe2; x82]), Some EEOF)].
Proof. vm_compute. split; reflexivity. Qed.

(* historical: what readStringAsBytes did before the repair (the function text of the pinned
   tree is kept as readStringAsBytes_pinned in Proofs/DecStreamProofs.v) *)
Example before_fix_split_char_panicked :
  readStringAsSafeBytes_pinned 1 (reader_mode 8 [[xe2]; [x82]; [xac]; [quote]]) = Panic PStrWindow /\
  fst (run_list [CStr 1] (reader_mode 8 [[xe2]; [x82]; [xac]; [quote]])) = [(VBytes (Some euro), None)].
Proof. exact pinned_split3_panicked. Qed.

Example before_fix_spurious_eof :
  (exists d1, readStringAsSafeBytes_pinned 1 (reader_mode 8 [[xe2; x82]; [xac]]) = Ok (Some euro, d1) /\
              err d1 = Some EEOF) /\
  fst (run_list [CStr 1] (reader_mode 8 [[xe2; x82]; [xac]])) = [(VBytes (Some euro), None)].
Proof. exact pinned_end_eof. Qed.
