(* C15 — Plugins run as an ordered onion around the core handler.
   Only statements, each closed by [exact lemma], with Print Assumptions.

   Vocabulary (Model/Onion.v): a pool of plugin values; histories [ops] of Use / Unuse /
   Call over pool indices, where handlers may themselves Use/Unuse while a call is inside
   them; [run] is the model of pluginManager + Client/Service as written, [spec_run] the
   four plain lists of the property text ([spec_use l hs = l ++ hs], [spec_unuse] = filter
   by handler identity {code; inst}, [chain l core = fold_right wrap core l]).

   The pinned code identifies a handler in Unuse by its CODE pointer.  The property
   ("a pool of distinct handlers") therefore holds under [guard] (pairwise distinct code
   pointers per side) and fails for distinct handlers sharing code:
   the theorems marked (guarded) are the _partial statements, C15_same_code_refuted is
   the witness outside the guard. *)
From Coq Require Import List NArith Bool.
From HV Require Import Model.Onion Proofs.OnionProofs.
Import ListNotations.

(* (guarded) after any history the closure installed in each of the four managers is the
   right fold of the specification list, and running it is running [chain] of that list *)
Theorem C15_chain_is_fold : forall pool, guard pool -> forall ops L,
  let s := snd (run pool ops sys_init) in
  let t := snd (spec_run pool ops ssys_init) in
  read_handler L s = fold_right CWrap CDefault (spec_list L t) /\
  (forall (S : Type) (mid : list mop -> S -> option S) (core : @kont S),
      apply mid L core (read_handler L s) = chain mid L (spec_list L t) core).
Proof. exact chain_is_fold. Qed.
Print Assumptions C15_chain_is_fold.

(* (guarded) the full statement: every history of Use/Unuse/Call, including Use/Unuse issued
   by handlers while a call is inside them, invalid plugin values (panic, nothing changed),
   repeated, absent and already removed handlers: every status, every call's trace and
   result, and the final lists are those of the list specification *)
Theorem C15_refines_spec_partial : forall pool, guard pool -> forall ops,
  spec_run pool ops ssys_init = (fst (run pool ops sys_init), abs (snd (run pool ops sys_init))) /\
  coherent (snd (run pool ops sys_init)).
Proof. exact refines_spec. Qed.
Print Assumptions C15_refines_spec_partial.

(* (no guard) whatever the code pointers: after every history every installed closure is the
   chain of its manager's own list, and rebuildHandler never indexes out of range *)
Theorem C15_never_corrupts : forall pool ops,
  coherent (snd (run pool ops sys_init)) /\ Forall no_index_panic (fst (run pool ops sys_init)).
Proof. exact never_corrupts. Qed.
Print Assumptions C15_never_corrupts.

(* (guarded) pass-through handlers: after any history a call's trace is
   enter h1 .. enter hn of the client invoke list, then of the client IO list, the service IO
   list, the service invoke list, the core, and the exits in exactly the reverse order; every
   installed handler once per time it was added, in order of addition *)
Theorem C15_trace_onion : forall pool, guard pool -> pool_plain pool -> forall ops r,
  plain_req r ->   (* the call's context is live and the method called is echo *)
  let s := snd (run pool ops sys_init) in
  let t := snd (spec_run pool ops ssys_init) in
  call pool r s = (s, onion_trace layers (fun L => spec_list L t) r (ROk (r ++ [99%N])),
                   ROk (r ++ [99%N])).
Proof. exact trace_onion. Qed.
Print Assumptions C15_trace_onion.

(* (guarded) every outcome at once: whatever the state of the call's context and whether the
   method returns, fails or panics, the call's trace and result are [onion_tr]: on the way in
   every layer's handlers see the request in order of addition; on the way back every layer's
   handlers see, in reverse order, the (value, error) their built-in handler produced from the
   layer below ([back]): Execute's error, Process' recovered panic as an error RETURNED up the
   service IO chain, Handle's error bytes with nil error over the wire and through the client
   IO chain, the decoded error through the client invoke chain *)
Theorem C15_onion_all_outcomes : forall pool, guard pool -> pool_plain pool -> forall ops r,
  let s := snd (run pool ops sys_init) in
  let t := snd (spec_run pool ops ssys_init) in
  call pool r s = (s, fst (onion_tr layers (fun L => spec_list L t) r),
                   snd (onion_tr layers (fun L => spec_list L t) r)).
Proof. exact call_plain_any. Qed.
Print Assumptions C15_onion_all_outcomes.

(* (guarded) spelled out for a failing method (8001: returns error 77; 8002: panics, code 78):
   the error travels back through EVERY outer handler: as an error through the service invoke
   handlers (none for a panic: it unwinds through them) and the service IO handlers, as error
   bytes through the client IO handlers, as an error again through the client invoke handlers *)
Theorem C15_errors_travel_back : forall pool, guard pool -> pool_plain pool -> forall ops r,
  ctx_mark r = None -> fault_mark r = None ->
  let s := snd (run pool ops sys_init) in
  let lst := fun L => spec_list L (snd (spec_run pool ops ssys_init)) in
  (meth_mark r = Some 8001%N ->
   call pool r s =
   (s, enters LCI (lst LCI) r ++ (enters LCO (lst LCO) r ++ (enters LSO (lst LSO) r ++
      (enters LSI (lst LSI) r ++ [ECore r] ++ exits LSI (rev (lst LSI)) (RErr 77))
      ++ exits LSO (rev (lst LSO)) (RErr 77))
      ++ exits LCO (rev (lst LCO)) (RWire 77))
      ++ exits LCI (rev (lst LCI)) (RErr 77), RErr 77)) /\
  (meth_mark r = Some 8002%N ->
   call pool r s =
   (s, enters LCI (lst LCI) r ++ (enters LCO (lst LCO) r ++ (enters LSO (lst LSO) r ++
      (enters LSI (lst LSI) r ++ [ECore r] ++ [])
      ++ exits LSO (rev (lst LSO)) (RErr 78))
      ++ exits LCO (rev (lst LCO)) (RWire 78))
      ++ exits LCI (rev (lst LCI)) (RErr 78), RErr 78)).
Proof. exact trace_fails. Qed.
Print Assumptions C15_errors_travel_back.

(* (guarded) the innermost client layer fails: the transport answers one of the library's sentinel
   errors (ErrClosed 9101, ErrTimeout 9102, context errors 9001/9002 with the call's context live,
   InvalidResponseError 9103, a plain error 55) or panics.  After any history every client invoke
   and IO handler is entered EXACTLY ONCE, in order, and what the transport answered travels back
   UNCHANGED through every one of them to the caller: no built-in layer (Client.Call,
   Client.Request, Client.Transport) retries the request or swallows the error *)
Theorem C15_no_builtin_retry_or_swallow : forall pool, guard pool -> pool_plain pool -> forall ops r f,
  fault_mark r = Some f ->
  let s := snd (run pool ops sys_init) in
  let lst := fun L => spec_list L (snd (spec_run pool ops ssys_init)) in
  call pool r s =
  (s, enters LCI (lst LCI) r ++ (enters LCO (lst LCO) r ++ [] ++ exits_if LCO (lst LCO) (fault_res f))
      ++ exits_if LCI (lst LCI) (fault_res f), fault_res f).
Proof. exact trace_fault. Qed.
Print Assumptions C15_no_builtin_retry_or_swallow.

(* what the built-in handlers do to a result on its way back is the identity on errors (and on
   panics and ok results) wherever error and value keep their form: Client.Call, Service.Process,
   Service.Execute; only Service.Handle changes the FORM of an error (bytes for the wire) *)
Theorem C15_builtin_layers_pass_errors : forall e,
  back LCI (RErr e) = RErr e /\ back LSO (RErr e) = RErr e /\ back LSI (RErr e) = RErr e /\
  back LCI RPanic = RPanic /\ (forall L t, back L (ROk t) = ROk t).
Proof. exact back_errors. Qed.
Print Assumptions C15_builtin_layers_pass_errors.

(* (guarded) the chain is looked up at each call: a call leaves nothing behind in the managers
   (no per-context copy of a chain exists in the model), so the state -- and with it what every
   later call runs -- is the same whether or not earlier calls were made, with whatever context *)
Theorem C15_chain_looked_up_per_call : forall pool, guard pool -> pool_plain pool -> forall ops q,
  snd (run pool (ops ++ [OCall q]) sys_init) = snd (run pool ops sys_init).
Proof. exact calls_leave_no_state. Qed.
Print Assumptions C15_chain_looked_up_per_call.

(* (guarded) a call whose context is ALREADY done (cancelled, deadline passed) on entry: every
   installed client handler is still entered and left exactly once, in order; nothing in the
   managers looks at the context; the transport answers ctx.Err() and that error travels back
   through all of them (so a handler could still short-circuit or repair such a call:
   C15_short_circuit_trace and C15_trace_onion_layer hold whatever the context) *)
Theorem C15_done_context_onion : forall pool, guard pool -> pool_plain pool -> forall ops r m,
  fault_mark r = None -> ctx_mark r = Some m ->
  let s := snd (run pool ops sys_init) in
  let t := snd (spec_run pool ops ssys_init) in
  call pool r s =
  (s, enters LCI (spec_list LCI t) r ++
      (enters LCO (spec_list LCO t) r ++ [] ++ exits LCO (rev (spec_list LCO t)) (RErr m)) ++
      exits LCI (rev (spec_list LCI t)) (RErr m), RErr m).
Proof. exact trace_done. Qed.
Print Assumptions C15_done_context_onion.

(* one layer, any core, results and errors alike travel back through every handler in
   reverse order *)
Theorem C15_trace_onion_layer : forall (S : Type) (mid : list mop -> S -> option S),
  (forall s, mid [] s = Some s) ->
  forall L l core r s s' tc x,
  Forall plain l -> core r s = (s', tc, x) -> returns x = true ->
  chain mid L l core r s = (s', enters L l r ++ tc ++ exits L (rev l) x, x).
Proof. exact @chain_plain. Qed.
Print Assumptions C15_trace_onion_layer.

(* handlers compose as nested application *)
Theorem C15_nested_application : forall (S : Type) (mid : list mop -> S -> option S) L l1 l2 core,
  chain mid L (l1 ++ l2) core = chain mid L l1 (chain mid L l2 core).
Proof. exact @chain_app. Qed.
Print Assumptions C15_nested_application.

(* a short-circuiting handler: the handlers inside it and the core are not run (they can
   be replaced by anything) ... *)
Theorem C15_short_circuit : forall (S : Type) (mid : list mop -> S -> option S)
  L l1 h l2 core core', is_short h ->
  forall r s, chain mid L (l1 ++ h :: l2) core r s = chain mid L (l1 ++ [h]) core' r s.
Proof. exact @chain_short. Qed.
Print Assumptions C15_short_circuit.

(* ... and the outer ones still see its result on the way back *)
Theorem C15_short_circuit_trace : forall (S : Type) (mid : list mop -> S -> option S),
  (forall s, mid [] s = Some s) ->
  forall L l1 h l2 core r s x,
  Forall plain l1 -> hmid h = [] -> pre h r = inr x -> returns x = true ->
  chain mid L (l1 ++ h :: l2) core r s =
  (s, enters L l1 r ++ [EEnter L (inst h) r; EExit L (inst h) x] ++ exits L (rev l1) x, x).
Proof. exact @chain_plain_short. Qed.
Print Assumptions C15_short_circuit_trace.

(* altering handlers: the core receives the request extended by h1 .. hn in order of
   addition, the caller the result extended by hn .. h1 *)
Theorem C15_alter : forall (S : Type) (mid : list mop -> S -> option S),
  (forall s, mid [] s = Some s) ->
  forall L l core r s s' tc y,
  Forall altering l -> core (r ++ map inst l) s = (s', tc, ROk y) ->
  chain mid L l core r s = (s', alter_trace L l r tc y, ROk (y ++ map out_tok (rev l))).
Proof. exact @chain_alter. Qed.
Print Assumptions C15_alter.

(* Use/Unuse concurrent with calls, every schedule of atomic manager operations and
   Handler() reads: the managers stay coherent, and every call that has returned ran
   exactly the onion of the lists that were current at its own Handler() reads *)
Theorem C15_snapshot : forall sched cs cs',
  coherent (shared cs) -> Forall thread_ok (threads cs) ->
  crun cs sched = Some cs' -> coherent (shared cs') /\ Forall thread_ok (threads cs').
Proof. exact crun_ok. Qed.
Print Assumptions C15_snapshot.

(* any number of mutator and caller threads, every schedule: the installed closure of every
   manager is the chain of that manager's CURRENT list (a Use/Unuse is one critical section:
   list update and rebuild together), so once all mutators have returned a call runs exactly
   the onion of the final lists *)
Theorem C15_concurrent_mutators_coherent : forall sched cs cs',
  coherent (shared cs) -> crun cs sched = Some cs' -> coherent (shared cs').
Proof. exact crun_coherent. Qed.
Print Assumptions C15_concurrent_mutators_coherent.

(* several mutators on one manager run as one merged sequence of critical sections; a mutator
   whose handlers have code pointers nobody else uses finds them installed exactly as if it had
   run alone, whatever the interleaving (what the multi-mutator check computes the expected
   final chain from) *)
Theorem C15_disjoint_mutators_independent : forall own ops p, coherent_pm p ->
  Forall (fun o => is_mine own o = true \/ is_other own o = true) ops ->
  exists p', pm_run ops p = Some p' /\ coherent_pm p' /\
    owned own (handlers p') = hrun (filter (is_mine own) ops) (owned own (handlers p)).
Proof. exact pm_run_disjoint. Qed.
Print Assumptions C15_disjoint_mutators_independent.

(* what a call has read is never changed by later steps of anybody (closures are
   immutable once built); a call that has returned stays as it is *)
Theorem C15_snapshot_stable : forall sched cs cs' j c, crun cs sched = Some cs' ->
  nth_error (threads cs) j = Some (TCall c) ->
  exists c', nth_error (threads cs') j = Some (TCall c') /\ extends c c'.
Proof. exact crun_stable. Qed.
Print Assumptions C15_snapshot_stable.

(* a Use/Unuse step of a mutator is always enabled and never panics *)
Theorem C15_mutation_total : forall a s, coherent s -> exists s', aop_step a s = Some s'.
Proof. exact aop_step_total. Qed.
Print Assumptions C15_mutation_total.

(* SeparatePluginHandlers: each value contributes its invoke part to the invoke list and its
   IO part to the IO list, in argument order; a two-sided plugin contributes to both; an
   invalid value panics before anything is installed *)
Theorem C15_classification : forall vs,
  separate vs = (if forallb pval_valid vs
                 then Some (flat_map (part SInv) vs, flat_map (part SIO) vs) else None) /\
  (forall hi ho m, part SInv (VStruct (Some (hi, ho)) m) = [hi] /\
                   part SIO (VStruct (Some (hi, ho)) m) = [ho]).
Proof. intros vs. split; [exact (separate_spec vs) | exact two_sided_parts]. Qed.
Print Assumptions C15_classification.

Theorem C15_classification_use : forall vs p, forallb pval_valid vs = true ->
  exists p', node_use vs p = (p', SOk) /\
    handlers (pinv p') = handlers (pinv p) ++ flat_map (part SInv) vs /\
    handlers (pio p') = handlers (pio p) ++ flat_map (part SIO) vs.
Proof. exact node_use_classified. Qed.
Print Assumptions C15_classification_use.

Theorem C15_invalid_plugin_changes_nothing : forall vs p, forallb pval_valid vs = false ->
  node_use vs p = (p, SPanicInvalid) /\ node_unuse vs p = (p, SPanicInvalid).
Proof. exact node_op_invalid. Qed.
Print Assumptions C15_invalid_plugin_changes_nothing.

(* unusing handlers that are not installed (never used, or already removed) changes nothing,
   not even the closure *)
Theorem C15_unuse_absent_noop : forall args p,
  (forall h, In h (handlers p) -> code_in args h = false) -> pm_unuse args p = Some p.
Proof. exact pm_unuse_absent. Qed.
Print Assumptions C15_unuse_absent_noop.

Theorem C15_unuse_removed_noop : forall args p p1, coherent_pm p ->
  pm_unuse args p = Some p1 -> pm_unuse args p1 = Some p1.
Proof. exact pm_unuse_twice. Qed.
Print Assumptions C15_unuse_removed_noop.

(* a handler used twice is installed twice (and by C15_trace_onion runs twice);
   one Unuse removes every occurrence *)
Theorem C15_repeated : forall p h p1 p2 p3,
  pm_use [h] p = Some p1 -> pm_use [h] p1 = Some p2 -> pm_unuse [h] p2 = Some p3 ->
  handlers p2 = handlers p ++ [h; h] /\ built p2 = chain_clo (handlers p ++ [h; h]) /\
  handlers p3 = filter (fun x => negb (N.eqb (code x) (code h))) (handlers p) /\
  built p3 = chain_clo (handlers p3).
Proof. exact repeated_use_unuse. Qed.
Print Assumptions C15_repeated.

(* ---- outside the guard: distinct handlers sharing a code pointer ---- *)

Definition hA (i : N) : handler := {| code := 7; inst := i; hb := BPass; hmid := [] |}.
Definition pool_shared : list pval := [VInvokeFn (hA 1); VInvokeFn (hA 2)].
Definition ops_shared : list op :=
  [OM (MUse NClient [0; 1]%nat); OM (MUnuse NClient [0]%nat); OCall [5%N]].

(* two distinct handlers (closures of one func literal / method values of two receivers),
   Use(h1, h2); Unuse(h1): the next call no longer passes through h2 *)
Theorem C15_same_code_refuted : exists pool ops,
  NoDup (map (fun h => (code h, inst h)) (pool_side SInv pool)) /\
  fst (spec_run pool ops ssys_init) =
    [OutStatus SOk; OutStatus SOk;
     OutCall [EEnter LCI 2 [5%N]; ECore [5%N]; EExit LCI 2 (ROk [5%N; 99%N])] (ROk [5%N; 99%N])] /\
  fst (run pool ops sys_init) =
    [OutStatus SOk; OutStatus SOk; OutCall [ECore [5%N]] (ROk [5%N; 99%N])].
Proof.
  exists pool_shared, ops_shared. split; [|split; vm_compute; reflexivity].
  cbn. constructor; [|constructor; [|constructor]].
  - intros [H|[]]. discriminate H.
  - intros [].
Qed.
Print Assumptions C15_same_code_refuted.

(* ---- an observation about "in flight": the four managers are read at four moments ---- *)

Definition hT (c i : N) : handler := {| code := c; inst := i; hb := BPass; hmid := [] |}.
Definition two_sided : pval := VStruct (Some (hT 1 1, hT 2 1)) None.
Definition torn_start : option cstate :=
  match atomize true NClient [two_sided] with
  | None => None
  | Some script =>
      Some {| shared := sys_init;
              threads := [TMut script;
                          TCall {| creq := []; snaps := []; slists := []; cdone := None |}] |}
  end.

(* one Client.Use(p) of a two-sided plugin is two critical sections; a call that read the
   invoke manager before and the IO manager after it passes through p's IO half only *)
Theorem C15_two_sided_half_seen_witness : exists cs sched cs' c,
  torn_start = Some cs /\ crun cs sched = Some cs' /\
  nth_error (threads cs') 1 = Some (TCall c) /\
  cdone c = Some ([EEnter LCO 1 []; ECore []; EExit LCO 1 (ROk [99%N])], ROk [99%N]).
Proof.
  eexists. exists [1; 0; 0; 1; 1; 1]%nat. eexists. eexists.
  split; [reflexivity|]. split; [vm_compute; reflexivity|]. split; reflexivity.
Qed.
Print Assumptions C15_two_sided_half_seen_witness.

(* ---- non-vacuity ---- *)

Definition hB (c i : N) (b : beh) (m : list mop) : handler :=
  {| code := c; inst := i; hb := b; hmid := m |}.

(* a pool with a function handler, a two-sided plugin, an io plugin, an invoke plugin that
   also has both halves (classified two-sided): distinct codes per side, all pass-through *)
Definition pool_ex : list pval :=
  [VInvokeFn (hB 10 1 BPass []); VStruct (Some (hB 11 2 BPass [], hB 21 2 BPass [])) None;
   VStruct None (Some (SIO, hB 22 3 BPass []));
   VStruct (Some (hB 12 4 BPass [], hB 23 4 BPass [])) (Some (SInv, hB 13 4 BPass []))].

Example guard_satisfiable : guard pool_ex /\ pool_plain pool_ex.
Proof.
  split; split; cbn.
  - repeat constructor; cbn; intuition discriminate.
  - repeat constructor; cbn; intuition discriminate.
  - repeat constructor.
  - repeat constructor.
Qed.

Example history_trace :
  fst (run pool_ex [OM (MUse NClient [0; 1; 2]%nat); OM (MUse NService [1; 3; 1]%nat);
                    OM (MUnuse NClient [0; 0]%nat); OM (MUnuse NService [0]%nat);
                    OCall [7%N]] sys_init) =
  [OutStatus SOk; OutStatus SOk; OutStatus SOk; OutStatus SOk;
   OutCall [EEnter LCI 2 [7%N]; EEnter LCO 2 [7%N]; EEnter LCO 3 [7%N];
            EEnter LSO 2 [7%N]; EEnter LSO 4 [7%N]; EEnter LSO 2 [7%N];
            EEnter LSI 2 [7%N]; EEnter LSI 4 [7%N]; EEnter LSI 2 [7%N];
            ECore [7%N];
            EExit LSI 2 (ROk [7%N; 99%N]); EExit LSI 4 (ROk [7%N; 99%N]); EExit LSI 2 (ROk [7%N; 99%N]);
            EExit LSO 2 (ROk [7%N; 99%N]); EExit LSO 4 (ROk [7%N; 99%N]); EExit LSO 2 (ROk [7%N; 99%N]);
            EExit LCO 3 (ROk [7%N; 99%N]); EExit LCO 2 (ROk [7%N; 99%N]);
            EExit LCI 2 (ROk [7%N; 99%N])] (ROk [7%N; 99%N])].
Proof. vm_compute. reflexivity. Qed.

(* short-circuit, alter, error-after and a Use issued in flight, in one call: handler 1
   (client invoke) installs IO handlers 3, 4 and invoke handler 5 while the call is inside it; the call, which has
   not yet reached the client IO manager, passes through 3 and 4; the invoke handler 5 does
   not see this call, only the next one *)
Definition pool_mix : list pval :=
  [VInvokeFn (hB 10 1 BPass [MUse NClient [2; 3; 4]%nat]); VInvokeFn (hB 11 2 BAlter []);
   VIOFn (hB 20 3 BErrAfter []); VIOFn (hB 21 4 BShortOk []); VInvokeFn (hB 12 5 BPass [])].

Example mixed_history :
  guard pool_mix /\
  fst (run pool_mix [OM (MUse NClient [0; 1]%nat); OCall [7%N]; OCall [8%N]] sys_init) =
  [OutStatus SOk;
   OutCall [EEnter LCI 1 [7%N]; EEnter LCI 2 [7%N]; EEnter LCO 3 [7%N; 2%N]; EEnter LCO 4 [7%N; 2%N];
            EExit LCO 4 (ROk [204%N]); EExit LCO 3 (RErr 3); EExit LCI 2 (RErr 3); EExit LCI 1 (RErr 3)]
           (RErr 3);
   OutCall [EEnter LCI 1 [8%N]; EEnter LCI 2 [8%N]; EEnter LCI 5 [8%N; 2%N]; EEnter LCO 3 [8%N; 2%N];
            EEnter LCO 4 [8%N; 2%N]; EExit LCO 4 (ROk [204%N]); EExit LCO 3 (RErr 3);
            EExit LCI 5 (RErr 3); EExit LCI 2 (RErr 3); EExit LCI 1 (RErr 3)]
           (RErr 3)].
Proof.
  split; [split; cbn; repeat constructor; cbn; intuition discriminate | vm_compute; reflexivity].
Qed.

(* done contexts: a call issued with a cancelled context, and a handler (service side) that
   cancels the context before calling next: everything still runs *)
Example done_context_history :
  fst (run [VInvokeFn (hB 10 1 BPass []); VIOFn (hB 20 2 BAlter []); VInvokeFn (hB 11 3 BCancel [])]
           [OM (MUse NClient [0; 1]%nat); OM (MUse NService [2; 0]%nat); OCall [9001%N; 5%N]; OCall [5%N]]
           sys_init) =
  [OutStatus SOk; OutStatus SOk;
   OutCall [EEnter LCI 1 [9001%N; 5%N]; EEnter LCO 2 [9001%N; 5%N];
            EExit LCO 2 (RErr 9001); EExit LCI 1 (RErr 9001)] (RErr 9001);
   OutCall [EEnter LCI 1 [5%N]; EEnter LCO 2 [5%N]; EEnter LSI 3 [5%N; 2%N]; EEnter LSI 1 [9001%N; 5%N; 2%N];
            ECore [9001%N; 5%N; 2%N];
            EExit LSI 1 (ROk [5%N; 2%N; 99%N]); EExit LSI 3 (ROk [5%N; 2%N; 99%N]);
            EExit LCO 2 (ROk [5%N; 2%N; 99%N; 102%N]); EExit LCI 1 (ROk [5%N; 2%N; 99%N; 102%N])]
           (ROk [5%N; 2%N; 99%N; 102%N])].
Proof. vm_compute. reflexivity. Qed.

(* a failing method and a short-circuiting service invoke handler: (value, error) at every layer *)
Example failing_history :
  fst (run [VInvokeFn (hB 10 1 BPass []); VIOFn (hB 20 2 BPass []); VInvokeFn (hB 11 3 BShortErr [])]
           [OM (MUse NClient [0; 1]%nat); OM (MUse NService [1; 0]%nat); OCall [8001%N; 5%N]; OCall [8002%N];
            OM (MUse NService [2]%nat); OCall [5%N]]
           sys_init) =
  [OutStatus SOk; OutStatus SOk;
   OutCall [EEnter LCI 1 [8001%N; 5%N]; EEnter LCO 2 [8001%N; 5%N]; EEnter LSO 2 [8001%N; 5%N];
            EEnter LSI 1 [8001%N; 5%N]; ECore [8001%N; 5%N];
            EExit LSI 1 (RErr 77); EExit LSO 2 (RErr 77); EExit LCO 2 (RWire 77); EExit LCI 1 (RErr 77)] (RErr 77);
   OutCall [EEnter LCI 1 [8002%N]; EEnter LCO 2 [8002%N]; EEnter LSO 2 [8002%N];
            EEnter LSI 1 [8002%N]; ECore [8002%N];
            EExit LSO 2 (RErr 78); EExit LCO 2 (RWire 78); EExit LCI 1 (RErr 78)] (RErr 78);
   OutStatus SOk;
   OutCall [EEnter LCI 1 [5%N]; EEnter LCO 2 [5%N]; EEnter LSO 2 [5%N];
            EEnter LSI 1 [5%N]; EEnter LSI 3 [5%N]; EExit LSI 3 (RErr 3); EExit LSI 1 (RErr 3);
            EExit LSO 2 (RErr 3); EExit LCO 2 (RWire 3); EExit LCI 1 (RErr 3)] (RErr 3)].
Proof. vm_compute. reflexivity. Qed.

Example transport_fault_history :
  fst (run [VInvokeFn (hB 10 1 BPass []); VIOFn (hB 20 2 BPass []); VIOFn (hB 21 3 BShortClosed [])]
           [OM (MUse NClient [0; 1]%nat); OCall [7001%N; 5%N]; OCall [8001%N; 7007%N];
            OM (MUse NClient [2]%nat); OCall [5%N]] sys_init) =
  [OutStatus SOk;
   OutCall [EEnter LCI 1 [7001%N; 5%N]; EEnter LCO 2 [7001%N; 5%N];
            EExit LCO 2 (RErr 9101); EExit LCI 1 (RErr 9101)] (RErr 9101);
   OutCall [EEnter LCI 1 [8001%N; 7007%N]; EEnter LCO 2 [8001%N; 7007%N]] RPanic;
   OutStatus SOk;
   OutCall [EEnter LCI 1 [5%N]; EEnter LCO 2 [5%N]; EEnter LCO 3 [5%N]; EExit LCO 3 (RErr 9101);
            EExit LCO 2 (RErr 9101); EExit LCI 1 (RErr 9101)] (RErr 9101)].
Proof. vm_compute. reflexivity. Qed.

Example plain_req_nonvacuous : plain_req [5%N; 7%N] /\ fault_mark [9001%N; 8001%N; 7003%N; 4%N] = Some 7003%N /\ meth_mark [8001%N; 5%N] = Some 8001%N /\
  ctx_mark [9002%N; 8002%N] = Some 9002%N /\ meth_mark [9002%N; 8002%N] = Some 8002%N.
Proof. repeat split. Qed.

Example disjoint_mutators_nonvacuous :
  let a := hB 1 1 BPass [] in let b := hB 2 2 BPass [] in
  let ops := [PUse [a]; PUse [b; b]; PUnuse [a]; PUse [a]; PUnuse [b]; PUse [a]] in
  Forall (fun o => is_mine (N.eqb 1) o = true \/ is_other (N.eqb 1) o = true) ops /\
  hrun ops [] = [a; a] /\ hrun (filter (is_mine (N.eqb 1)) ops) [] = [a; a].
Proof.
  cbn. split; [|split; reflexivity].
  repeat (apply Forall_cons; [cbn; auto|]). apply Forall_nil.
Qed.

Example classification_example :
  separate [VIOFn (hB 20 3 BPass []); two_sided; VInvokeFn (hB 10 9 BPass [])] =
  Some ([hT 1 1; hB 10 9 BPass []], [hB 20 3 BPass []; hT 2 1]) /\
  separate [two_sided; VStruct None None] = None.
Proof. split; reflexivity. Qed.

Example snapshot_nonvacuous :
  match torn_start with
  | Some cs => coherent (shared cs) /\ Forall thread_ok (threads cs)
  | None => False
  end.
Proof.
  cbn. split.
  - intros [| | |]; reflexivity.
  - constructor; [exact I | constructor; [|constructor]].
    split; [reflexivity | intros o H; discriminate H].
Qed.

Example alter_nonvacuous :
  let l := [hB 1 1 BAlter []; hB 2 2 BAlter []] in
  Forall altering l /\
  chain nomid LCI l execute [5%N] tt =
  (tt, [EEnter LCI 1 [5%N]; EEnter LCI 2 [5%N; 1%N]; ECore [5%N; 1%N; 2%N];
        EExit LCI 2 (ROk [5%N; 1%N; 2%N; 99%N; 102%N]);
        EExit LCI 1 (ROk [5%N; 1%N; 2%N; 99%N; 102%N; 101%N])],
   ROk [5%N; 1%N; 2%N; 99%N; 102%N; 101%N]).
Proof. split; [repeat constructor | vm_compute; reflexivity]. Qed.
