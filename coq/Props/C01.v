(* C01 — Typed round trip: Unmarshal(Marshal(v)) reproduces v.
   Statements only; proofs in Proofs/.  This file holds the ENCODER half (encoding is total and
   produces one well-formed value that denotes v); the decoder half (DecVal model: the decoded
   value equals v up to the three normalisations) is appended below by the C06 development. *)
From Coq Require Import List NArith ZArith Strings.Byte Bool.
From HV Require Import Lib.Dec Lib.Utf8 Model.Wire Model.WireSem Model.Enc Model.Abs
                       Proofs.WireProofs Proofs.EncProofs.
Import ListNotations.

(* "encoding succeeds without panicking": on every closed heap, for every value, in both modes, the
   encoder model never reaches an internal failure; the only non-success besides fuel is site 1 =
   a time whose year is outside 0..9999 (not expressible in the format; Encoder.Error since the fix). *)
Theorem C01_encode_total : forall simple hp fuel st v s,
  heap_closed hp = true -> ptrs_ok hp v = true ->
  enc simple hp fuel st v = EPanic s -> s = 1%N.
Proof. exact enc_total. Qed.
Print Assumptions C01_encode_total.

(* what is decoded is exactly one well-formed value (premise of every decoder theorem) *)
Theorem C01_encoded_bytes_are_one_value : forall simple hp fuel st v st' w,
  gval_ok v = true -> heap_ok hp = true ->
  enc simple hp fuel st v = EOk st' w -> parse_all (emit w) = Some w.
Proof. exact enc_parse_all. Qed.
Print Assumptions C01_encoded_bytes_are_one_value.

(* non-vacuity: a closed heap with a shared pointer and a cycle, and an out-of-range year *)
Example closed_heap_example :
  let hp := [(1%N, GStruct ["N"%byte] [["n"%byte]; ["v"%byte]] [GPtr 1; GInt KInt 5])] in
  heap_closed hp = true /\ ptrs_ok hp (GPtr 1) = true /\
  (exists st w, enc false hp 10 einit (GPtr 1) = EOk st w) /\
  enc true [] 5 einit (GTime 10000 1 1 0 0 0 0 true) = EPanic 1.
Proof. vm_compute. repeat split; try reflexivity. eexists. eexists. reflexivity. Qed.
