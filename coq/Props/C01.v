(* C01 — Typed round trip: Unmarshal(Marshal(v)) reproduces v.
   Statements only; proofs in Proofs/.  This file holds the ENCODER half (encoding is total and
   produces one well-formed value that denotes v); the decoder half (DecVal model: the decoded
   value equals v up to the three normalisations) is appended below by the C06 development. *)
From Coq Require Import List NArith ZArith Strings.Byte Bool.
From HV Require Import Lib.Dec Lib.Utf8 Model.Wire Model.WireSem Model.Enc Model.Abs
                       Proofs.WireProofs Proofs.EncProofs.
From HV Require Import Model.DecAct Model.DecVal Model.DecSpec Proofs.DecValProofs Proofs.RoundTripProofs.
Import ListNotations.

(* "encoding succeeds without panicking": on every closed heap, for every value, in both modes, the
   encoder model never reaches an internal failure; the only non-success besides fuel is site 1 =
   a time whose year is outside 0..9999 (not expressible in the format; Encoder.Error since the fix). *)
Theorem C01_encode_total : forall simple hp fuel st v s,
  heap_closed hp = true -> ptrs_ok hp v = true ->
  enc simple hp fuel st v = EPanic s -> s = 1%N.
Proof. exact enc_total. Qed.
Print Assumptions C01_encode_total.

(* what is decoded is exactly one well-formed value (premise of every decoder theorem) *)
Theorem C01_encoded_bytes_are_one_value : forall simple hp fuel st v st' w,
  gval_ok v = true -> heap_ok hp = true ->
  enc simple hp fuel st v = EOk st' w -> parse_all (emit w) = Some w.
Proof. exact enc_parse_all. Qed.
Print Assumptions C01_encoded_bytes_are_one_value.

(* non-vacuity: a closed heap with a shared pointer and a cycle, and an out-of-range year *)
Example closed_heap_example :
  let hp := [(1%N, GStruct ["N"%byte] [["n"%byte]; ["v"%byte]] [GPtr 1; GInt KInt 5])] in
  heap_closed hp = true /\ ptrs_ok hp (GPtr 1) = true /\
  (exists st w, enc false hp 10 einit (GPtr 1) = EOk st w) /\
  enc true [] 5 einit (GTime 10000 1 1 0 0 0 0 true) = EPanic 1.
Proof. vm_compute. repeat split; try reflexivity. eexists. eexists. reflexivity. Qed.

(* ============================================================ decoder half (C06 development) *)

(* C01_roundtrip, proved part.  For every Go value v of a scalar type t ([has_type]: bool, the 11
   integer kinds with every value of their range, float32/64 and complex64/128 with zero imaginary
   part, string - any byte string, valid UTF-8 or not -, []byte, time.Time with calendar fields of
   years 0..9999, uuid.UUID, big.Int, big.Float, big.Rat), in both modes, with any decoder options:
   the token the encoder model writes decodes, with the decoder model, into a zero-initialised
   variable of type t as exactly that value ([same]: equality; a time keeps its fields and its
   UTC-versus-local flag).
   Oracle premises are part of [has_type]: a float / big.Float / non-integral big.Rat is given by the
   text the standard library formats it to, and that text parses back to itself (strconv and math/big
   round trip, checked against the real library by the correspondence run).
   Guard / what is missing: top-level scalar destinations only.  Pointers, interface{} positions,
   slices, arrays, maps and structs (the tree fragment) and shared or cyclic graphs are not proved
   here: the decoder model is a store-passing interpreter (Model/DecVal.v) and the frame reasoning for
   containers has not been done; those cells are covered on every run by the correspondence of the
   decoder model with io.Decoder (checks/C06.py: ~27,000 cases, all container positions) and by the
   direct Unmarshal(Marshal(v)) oracle of checks/C01.py. *)
Theorem C01_roundtrip_partial :
  forall orc opts te simple t v fuel st' w f,
    has_type orc t v = true ->
    enc simple [] fuel einit v = EOk st' w ->
    exists y, dec_top orc opts te (S (S f)) t w = OOk y /\ same y v = true.
Proof. exact roundtrip_scalar. Qed.
Print Assumptions C01_roundtrip_partial.

(* the typed fragment is inhabited at the boundaries: extreme integers, the empty and a non-UTF-8
   string, a leap day, the last representable instant *)
Example roundtrip_instances :
  let orc := fun (_ _ : bytes) => @None bytes in
  has_type orc (TInt KInt8) (GInt KInt8 (-128)) = true /\ has_type orc (TInt KUint64) (GInt KUint64 18446744073709551615) = true /\
  has_type orc (TInt KInt8) (GInt KInt8 128) = false /\
  has_type orc TString (GString []) = true /\ has_type orc TString (GString ["255"%byte]) = true /\
  has_type orc TTime (GTime 2020 2 29 0 0 0 0 true) = true /\ has_type orc TTime (GTime 9999 12 31 23 59 59 999999999 false) = true /\
  enc false [] 5 einit (GInt KUint64 18446744073709551615) = EOk einit (WLong 18446744073709551615) /\
  dec_top orc {| o_simple := false; o_long := LtInt; o_real := RlF64; o_simap := false; o_structval := false;
                 o_listslice := false; o_registered := [] |} [] 5 (TInt KUint64) (WLong 18446744073709551615)
    = OOk (XInt KUint64 18446744073709551615).
Proof. cbv zeta. do 8 (split; [vm_compute; reflexivity|]). vm_compute; reflexivity. Qed.
