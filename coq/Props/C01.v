(* C01 — Typed round trip: Unmarshal(Marshal(v)) reproduces v.
   Statements only; proofs in Proofs/.  This file holds the ENCODER half (encoding is total and
   produces one well-formed value that denotes v); the decoder half (DecVal model: the decoded
   value equals v up to the three normalisations) is appended below by the C06 development. *)
From Coq Require Import List NArith ZArith Strings.Byte Bool.
From HV Require Import Lib.Dec Lib.Utf8 Model.Wire Model.WireSem Model.Enc Model.Abs
                       Proofs.WireProofs Proofs.EncProofs.
From HV Require Import Model.DecAct Model.DecVal Model.DecSpec Proofs.DecValProofs Proofs.RoundTripProofs.
Import ListNotations.

(* "encoding succeeds without panicking": on every closed heap, for every value, in both modes, the
   encoder model never reaches an internal failure; the only non-success besides fuel is site 1 =
   a time whose year is outside 0..9999 (not expressible in the format; Encoder.Error since the fix). *)
Theorem C01_encode_total : forall simple hp fuel st v s,
  heap_closed hp = true -> ptrs_ok hp v = true ->
  enc simple hp fuel st v = EPanic s -> s = 1%N.
Proof. exact enc_total. Qed.
Print Assumptions C01_encode_total.

(* what is decoded is exactly one well-formed value (premise of every decoder theorem) *)
Theorem C01_encoded_bytes_are_one_value : forall simple hp fuel st v st' w,
  gval_ok v = true -> heap_ok hp = true ->
  enc simple hp fuel st v = EOk st' w -> parse_all (emit w) = Some w.
Proof. exact enc_parse_all. Qed.
Print Assumptions C01_encoded_bytes_are_one_value.

(* non-vacuity: a closed heap with a shared pointer and a cycle, and an out-of-range year *)
Example closed_heap_example :
  let hp := [(1%N, GStruct ["N"%byte] [["n"%byte]; ["v"%byte]] [GPtr 1; GInt KInt 5])] in
  heap_closed hp = true /\ ptrs_ok hp (GPtr 1) = true /\
  (exists st w, enc false hp 10 einit (GPtr 1) = EOk st w) /\
  enc true [] 5 einit (GTime 10000 1 1 0 0 0 0 true) = EPanic 1.
Proof. vm_compute. repeat split; try reflexivity. eexists. eexists. reflexivity. Qed.

(* ============================================================ decoder half (C06 development) *)

(* C01_roundtrip, proved part.  For every Go value v of a scalar type t ([has_type]: bool, the 11
   integer kinds with every value of their range, float32/64 and complex64/128 with zero imaginary
   part, string - any byte string, valid UTF-8 or not -, []byte, time.Time with calendar fields of
   years 0..9999, uuid.UUID, big.Int, big.Float, big.Rat), in both modes, with any decoder options:
   the token the encoder model writes decodes, with the decoder model, into a zero-initialised
   variable of type t as exactly that value ([same]: equality; a time keeps its fields and its
   UTC-versus-local flag).
   Oracle premises are part of [has_type]: a float / big.Float / non-integral big.Rat is given by the
   text the standard library formats it to, and that text parses back to itself (strconv and math/big
   round trip, checked against the real library by the correspondence run).
   Guard / what is missing: top-level scalar destinations only.  Slices, arrays, maps and structs of
   scalars in simple mode are proved further down (C01_roundtrip_slices_partial, _maps_partial,
   _structs_partial).  Pointers, interface{} positions, nested containers, reference mode for containers
   and shared or cyclic graphs are not proved: the decoder model is a store-passing interpreter
   (Model/DecVal.v) and that frame reasoning has not been done; those cells are covered on every run by the correspondence of the
   decoder model with io.Decoder (checks/C06.py: ~27,000 cases, all container positions) and by the
   direct Unmarshal(Marshal(v)) oracle of checks/C01.py. *)
Theorem C01_roundtrip_partial :
  forall orc opts te simple t v fuel st' w f,
    has_type orc t v = true ->
    enc simple [] fuel einit v = EOk st' w ->
    exists y, dec_top orc opts te (S (S f)) t w = OOk y /\ same y v = true.
Proof. exact roundtrip_scalar. Qed.
Print Assumptions C01_roundtrip_partial.

(* the typed fragment is inhabited at the boundaries: extreme integers, the empty and a non-UTF-8
   string, a leap day, the last representable instant *)
Example roundtrip_instances :
  let orc := fun (_ _ : bytes) => @None bytes in
  has_type orc (TInt KInt8) (GInt KInt8 (-128)) = true /\ has_type orc (TInt KUint64) (GInt KUint64 18446744073709551615) = true /\
  has_type orc (TInt KInt8) (GInt KInt8 128) = false /\
  has_type orc TString (GString []) = true /\ has_type orc TString (GString ["255"%byte]) = true /\
  has_type orc TTime (GTime 2020 2 29 0 0 0 0 true) = true /\ has_type orc TTime (GTime 9999 12 31 23 59 59 999999999 false) = true /\
  enc false [] 5 einit (GInt KUint64 18446744073709551615) = EOk einit (WLong 18446744073709551615) /\
  dec_top orc {| o_simple := false; o_long := LtInt; o_real := RlF64; o_simap := false; o_structval := false;
                 o_listslice := false; o_registered := [] |} [] 5 (TInt KUint64) (WLong 18446744073709551615)
    = OOk (XInt KUint64 18446744073709551615).
Proof. cbv zeta. do 8 (split; [vm_compute; reflexivity|]). vm_compute; reflexivity. Qed.

(* ============================================================ decoder half, containers (C06 development) *)
From HV Require Import Proofs.RoundTripSeq.

(* C01_roundtrip for sequences, proved part.  e is any scalar type of [has_type] except uint8
   ([elem_type]; []uint8 and [n]uint8 are the bytes routines, covered by C01_roundtrip_partial as []byte
   resp. not proved for byte arrays).  For every list vs of Go values of type e, of ANY length:
   the token the encoder model writes for the slice (or array) in simple mode decodes with the decoder
   model, under any decoder options, into a nil []e variable as a slice of exactly those elements in
   order; into a [len vs]e array variable as exactly those elements.  The slice proof follows the real
   allocation scheme (min(count,16) elements reserved, then UnsafeGrow one element at a time with
   reflect2's capacity doubling, a new backing array per reallocation, Len set at the end).
   [same_seq]: the model decodes the empty list 'a{}' into the untouched (nil) header, so for vs = []
   the result is XNil; the spec of C06 identifies nil and empty slices ([xeqv]).
   Guard / what is missing: simple mode only (in reference mode the encoder state changes with every
   string element and the decoder's reference list would have to be shown to stay aligned - not done);
   element types are scalars: no nested containers, pointers or interface{} elements; a top-level
   destination only. *)
Theorem C01_roundtrip_slices_partial :
  forall orc opts te e vs fuel st' w f,
    elem_type e = true ->
    forallb (has_type orc e) vs = true ->
    enc true [] fuel einit (GSlice vs) = EOk st' w ->
    (exists y, dec_top orc opts te (S (S f)) (TSlice e) w = OOk y /\ same_seq y vs) /\
    (exists ys, dec_top orc opts te (S (S f)) (TArray (length vs) e) w = OOk (XArr ys) /\
                Forall2 (fun a v => same a v = true) ys vs).
Proof.
  intros orc opts te e vs fuel st' w f He Hall Henc. split.
  - exact (roundtrip_slice orc opts te e vs fuel st' w f He Hall Henc).
  - exact (roundtrip_array orc opts te e vs fuel st' w f He Hall Henc).
Qed.
Print Assumptions C01_roundtrip_slices_partial.

(* Maps.  k is a comparable scalar type ([key_type]: bool, integers, floats, complex, string, time.Time,
   uuid.UUID), v any scalar type of [has_type]; ps the entries in the order the encoder visits them.
   In simple mode the written token decodes into a nil map[k]v variable as the map obtained by
   inserting the decoded entries one after another with Go's key equality ([kv_fold]/[kv_set]: an equal
   key - e.g. +0 and -0 - overwrites).  When the decoded keys are pairwise different, which is the case
   for the entries of a real Go map, that is exactly the entries themselves, in order
   (second statement).  Same guards as above. *)
Theorem C01_roundtrip_maps_partial :
  forall orc opts te k v ps fuel st' w f,
    key_type k = true ->
    forallb (pair_typed orc k v) ps = true ->
    enc true [] fuel einit (GMap (flat_pairs ps)) = EOk st' w ->
    exists xps, dec_top orc opts te (S (S f)) (TMap k v) w = OOk (XMap (kv_fold [] xps)) /\
                Forall2 (fun xp p => same (fst xp) (fst p) = true /\ same (snd xp) (snd p) = true) xps ps /\
                (distinct_keys xps = true -> kv_fold [] xps = xps).
Proof.
  intros orc opts te k v ps fuel st' w f Hk Hall Henc.
  destruct (roundtrip_map orc opts te k v ps fuel st' w f Hk Hall Henc) as (xps & Hd & Hs).
  exists xps. split; [exact Hd|]. split; [exact Hs|]. intros Hdist. apply (kv_fold_distinct xps [] Hdist).
Qed.
Print Assumptions C01_roundtrip_maps_partial.

(* Structs.  A registered struct type [name] whose fields (d: alias and type, in field order) all have
   scalar types and pairwise different aliases; vs the field values.  In simple mode the class
   definition and the object the encoder writes decode into a zero struct variable as exactly those
   field values.  Same guards as above; struct values only (no pointers to structs, no embedded or
   nested structs, no anonymous structs, no field skipped or missing on the wire). *)
Theorem C01_roundtrip_structs_partial :
  forall orc opts te name d vs fuel st' w f,
    find_struct te name = Some d ->
    distinct_aliases (map fst d) = true ->
    fields_typed orc d vs = true ->
    enc true [] fuel einit (GStruct name (map fst d) vs) = EOk st' w ->
    exists xs, dec_top orc opts te (S (S (S f))) (TStruct name) w = OOk (XStruct name xs) /\
               Forall2 (fun a v => same a v = true) xs vs.
Proof. exact roundtrip_struct. Qed.
Print Assumptions C01_roundtrip_structs_partial.

(* the container fragment is inhabited: 20 ints (past the 16 preallocated elements, so the backing
   array is reallocated), a map and a struct, through the encoder and the decoder models *)
Example roundtrip_container_instances :
  let orc := fun (_ _ : bytes) => @None bytes in
  let opts := {| o_simple := true; o_long := LtInt; o_real := RlF64; o_simap := false; o_structval := false;
                 o_listslice := false; o_registered := [] |} in
  let vs := map (fun z => GInt KInt z) [0; 1; 2; 3; 4; 5; 6; 7; 8; 9; 10; 11; 12; 13; 14; 15; 16; 17; 18; 19]%Z in
  let ps := [(GString (bs "a"), GInt KInt8 (-128)); (GString (bs "bc"), GInt KInt8 127)]%Z in
  let te := [(bs "P", [(bs "x", TInt KInt); (bs "s", TString)])] in
  (elem_type (TInt KInt) = true /\ forallb (has_type orc (TInt KInt)) vs = true) /\
  (match enc true [] 5 einit (GSlice vs) with
   | EOk _ w => match dec_top orc opts [] 5 (TSlice (TInt KInt)) w with
                | OOk (XSlice ys) => Nat.eqb (length ys) 20 && forallb (fun p => same (fst p) (snd p)) (combine ys vs)
                | _ => false end
   | _ => false end = true) /\
  (key_type TString = true /\ forallb (pair_typed orc TString (TInt KInt8)) ps = true) /\
  (match enc true [] 5 einit (GMap (flat_pairs ps)) with
   | EOk _ w => match dec_top orc opts [] 5 (TMap TString (TInt KInt8)) w with
                | OOk (XMap [(XStr _, XInt KInt8 a); (XStr _, XInt KInt8 b)]) => Z.eqb a (-128) && Z.eqb b 127
                | _ => false end
   | _ => false end = true) /\
  (fields_typed orc [(bs "x", TInt KInt); (bs "s", TString)] [GInt KInt 7%Z; GString (bs "hi")] = true) /\
  (match enc true [] 5 einit (GStruct (bs "P") [bs "x"; bs "s"] [GInt KInt 7%Z; GString (bs "hi")]) with
   | EOk _ w => match dec_top orc opts te 5 (TStruct (bs "P")) w with
                | OOk (XStruct _ [XInt KInt a; XStr s]) => Z.eqb a 7 && bytes_eqb s (bs "hi")
                | _ => false end
   | _ => false end = true).
Proof.
  cbv zeta.
  split; [split; vm_compute; reflexivity|].
  split; [vm_compute; reflexivity|].
  split; [split; vm_compute; reflexivity|].
  split; [vm_compute; reflexivity|].
  split; [vm_compute; reflexivity|].
  vm_compute; reflexivity.
Qed.

(* the Write entry point never fails internally either (same single exception: an out-of-range year) *)
Theorem C01_write_entry_total : forall simple hp fuel st v s,
  heap_closed hp = true -> ptrs_ok hp v = true ->
  enc_write simple hp fuel st v = EPanic s -> s = 1%N.
Proof. exact enc_write_total. Qed.
Print Assumptions C01_write_entry_total.
