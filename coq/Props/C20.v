(* C20 — The circuit breaker stops forwarding while open and recovers afterwards.
   Only statements, each closed by [exact lemma], with Print Assumptions. *)
From Coq Require Import List ZArith Bool Lia.
From HV Require Import Model.Breaker Proofs.BreakerProofs.
Import ListNotations.
Open Scope Z_scope.

(* While open (more than [threshold] counted failures, recovery time not elapsed since
   the last failure) the call is rejected, the state is untouched, downstream not invoked. *)
Theorem C20_open_rejects : forall c s n0 n1 o,
  fail s > threshold c -> n0 - last s < recover c ->
  io_step c s n0 n1 o = (s, Rejected).
Proof. exact open_rejects. Qed.
Print Assumptions C20_open_rejects.

Theorem C20_closed_forwards : forall c s n0 n1 o,
  fail s <= threshold c -> snd (io_step c s n0 n1 o) = Forwarded o.
Proof. exact closed_forwards. Qed.
Print Assumptions C20_closed_forwards.

Theorem C20_recovers : forall c s n0 n1 o,
  fail s > threshold c -> recover c <= n0 - last s ->
  snd (io_step c s n0 n1 o) = Forwarded o.
Proof. exact recovers. Qed.
Print Assumptions C20_recovers.

(* rejection happens in exactly that situation and in no other *)
Theorem C20_rejected_iff : forall c s n0 n1 o,
  snd (io_step c s n0 n1 o) = Rejected <->
  (fail s > threshold c /\ n0 - last s < recover c).
Proof. exact rejected_iff. Qed.
Print Assumptions C20_rejected_iff.

Theorem C20_success_resets : forall c s n0 n1,
  snd (io_step c s n0 n1 OOk) = Forwarded OOk -> fail (fst (io_step c s n0 n1 OOk)) = 0.
Proof. exact success_resets. Qed.
Print Assumptions C20_success_resets.

(* k consecutive failures (errors and panics alike) from a fresh breaker are all
   forwarded and counted; the breaker is open afterwards iff k > threshold *)
Theorem C20_opens_after : forall c (h : list event),
  0 <= threshold c -> Forall fail_event h ->
  Z.of_nat (length h) <= threshold c + 1 ->
  let '(ds, s') := run_dec c init h in
  ds = map (fun e => Forwarded (snd e)) h /\
  fail s' = Z.of_nat (length h) /\
  ((fail s' >? threshold c) = (Z.of_nat (length h) >? threshold c)).
Proof. exact opens_after. Qed.
Print Assumptions C20_opens_after.

(* every history of clock readings and outcomes: the plugin takes exactly the
   decisions of the Closed/Open specification machine, from any state *)
Theorem C20_refines_spec : forall c, 0 <= threshold c -> forall h s,
  let '(ds, s') := run_dec c s h in
  spec_run c (abs c s) h = (ds, abs c s').
Proof. exact run_refines. Qed.
Print Assumptions C20_refines_spec.

(* mock service is used exactly for rejected calls, ErrBreaker exactly when there is none *)
Theorem C20_mock_iff_break : forall c s n0 n1 o,
  let r := snd (call c s n0 n1 o) in
  (r = RMock <-> has_mock c = true /\ snd (io_step c s n0 n1 o) = Rejected) /\
  (r = RBreak <-> has_mock c = false /\ snd (io_step c s n0 n1 o) = Rejected) /\
  (forall o', r = RDown o' <-> snd (io_step c s n0 n1 o) = Forwarded o').
Proof. exact mock_iff_break. Qed.
Print Assumptions C20_mock_iff_break.

(* concurrent callers: in every interleaving of the plugin's atomic operations, a call
   that was forwarded reports the outcome of its own downstream invocation, and the
   failure counter never goes negative (so it cannot wrap to "open") *)
Theorem C20_concurrent_own_outcome : forall c sched cs cs',
  Forall (pc_ok c) (threads cs) -> crun c cs sched = Some cs' ->
  Forall (pc_ok c) (threads cs').
Proof. exact crun_preserves. Qed.
Print Assumptions C20_concurrent_own_outcome.

Theorem C20_concurrent_counter_nonneg : forall c, 0 <= threshold c -> forall sched cs cs',
  0 <= fail (shared cs) -> crun c cs sched = Some cs' -> 0 <= fail (shared cs').
Proof. exact crun_fail_nonneg. Qed.
Print Assumptions C20_concurrent_counter_nonneg.

(* the LTS run without interleaving is the sequential step the theorems above talk about *)
Theorem C20_lts_refines_sequential : forall c s n0 n1 o,
  let '(s', t') := trun c s {| tpc := PStart; tout := o |} n0 n1 7 in
  let '(s2, d) := io_step c s n0 n1 o in
  tpc t' = PDone d /\ s' = s2.
Proof. exact solo_is_sequential. Qed.
Print Assumptions C20_lts_refines_sequential.

(* ---- non-vacuity: the hypotheses are met by ordinary states ---- *)
Example open_state_exists :
  let c := {| threshold := 2; recover := 1000; has_mock := false |} in
  let s := {| fail := 3; last := 50 |} in
  fail s > threshold c /\ 60 - last s < recover c /\ io_step c s 60 61 OErr = (s, Rejected).
Proof. cbn. repeat split; lia. Qed.

Example history_trips_and_recovers :
  let c := {| threshold := 1; recover := 100; has_mock := true |} in
  fst (run c init [(1,2,OErr); (3,4,OPanic); (5,6,OOk); (7,8,OOk); (200,201,OOk); (202,203,OErr)])
  = [RDown OErr; RDown OPanic; RMock; RMock; RDown OOk; RDown OErr].
Proof. vm_compute. reflexivity. Qed.

Example opens_after_nonvacuous :
  let c := {| threshold := 2; recover := 100; has_mock := false |} in
  0 <= threshold c /\ Forall fail_event [(1,2,OErr); (3,4,OPanic); (5,6,OErr)] /\
  Z.of_nat 3 <= threshold c + 1.
Proof. cbn. repeat split; try lia. repeat constructor; unfold fail_event; cbn; discriminate. Qed.

(* Clock arithmetic: the model is over Z, the code over int64.  The code's form of the test,
   [now - lastFailTime < recoverTime], cannot wrap for clock readings of one clock; the
   "absolute deadline" form [now < lastFailTime + recoverTime] can (witness: an effectively
   infinite recovery time), so the model's Z arithmetic is the code's only for the former. *)
Theorem C20_interval_is_exact_in_int64 : forall now lastf,
  0 <= lastf <= now -> now < 2^63 -> wrap64 (now - lastf) = now - lastf.
Proof. exact interval_does_not_wrap. Qed.
Print Assumptions C20_interval_is_exact_in_int64.

Theorem C20_deadline_form_refuted : exists now lastf rec,
  0 <= lastf <= now /\ now < 2^63 /\ 0 <= rec < 2^63 /\
  (now - lastf <? rec) = true /\ (now <? wrap64 (lastf + rec)) = false.
Proof. exact deadline_form_wraps. Qed.
Print Assumptions C20_deadline_form_refuted.
