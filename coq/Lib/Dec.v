(* Decimal text <-> numbers, over bytes.  Definitions and proofs (library file). *)
From Coq Require Import List NArith ZArith Lia Strings.Byte Bool.
From Coq Require Import ZifyN ZifyNat ZifyBool.
Import ListNotations.
Open Scope N_scope.

Definition bytes := list byte.

Definition digit_of (d : N) : byte :=
  match Byte.of_N (48 + d mod 10) with Some b => b | None => "0"%byte end.

Definition digit_val (b : byte) : option N :=
  let n := Byte.to_N b in if (48 <=? n) && (n <=? 57) then Some (n - 48) else None.

Definition is_digit (b : byte) : bool := match digit_val b with Some _ => true | None => false end.

Lemma digit_val_of d : d < 10 -> digit_val (digit_of d) = Some d.
Proof.
  intros H.
  assert (d = 0 \/ d = 1 \/ d = 2 \/ d = 3 \/ d = 4 \/ d = 5 \/ d = 6 \/ d = 7 \/ d = 8 \/ d = 9) as C by lia.
  repeat (destruct C as [->|C]; [reflexivity|]). subst; reflexivity.
Qed.

Lemma digit_val_lt b d : digit_val b = Some d -> d < 10.
Proof.
  unfold digit_val. destruct ((48 <=? Byte.to_N b) && (Byte.to_N b <=? 57)) eqn:E; [|discriminate].
  intros H; inversion H; subst. lia.
Qed.

Lemma digit_of_val b d : digit_val b = Some d -> digit_of d = b.
Proof. destruct b; cbn; intros H; inversion H; reflexivity. Qed.

Fixpoint digits_aux (fuel : nat) (n : N) (acc : list N) : list N :=
  match fuel with
  | O => acc
  | S f => let acc' := (n mod 10) :: acc in
           if n <? 10 then acc' else digits_aux f (n / 10) acc'
  end.

Definition digits (n : N) : list N := digits_aux (S (N.to_nat (N.log2 n))) n [].
Definition to_dec (n : N) : bytes := map digit_of (digits n).
Definition val (ds : list N) (a : N) : N := fold_left (fun a d => a * 10 + d) ds a.

Lemma log2_div10 n : 10 <= n -> N.log2 (n / 10) < N.log2 n.
Proof.
  intros H. assert (n / 10 <= n / 2) by (apply N.div_le_compat_l; lia).
  assert (N.log2 (n / 2) < N.log2 n).
  { rewrite <- N.div2_div, N.div2_spec, N.log2_shiftr.
    assert (0 < N.log2 n) by (apply N.log2_pos; lia). lia. }
  assert (N.log2 (n / 10) <= N.log2 (n / 2)) by (apply N.log2_le_mono; auto). lia.
Qed.

Lemma digits_aux_spec : forall fuel n acc, (N.to_nat (N.log2 n) < fuel)%nat ->
  exists ds, digits_aux fuel n acc = ds ++ acc /\ ds <> [] /\ Forall (fun d => d < 10) ds /\
             (forall a, val ds a = a * 10 ^ N.of_nat (length ds) + n) /\
             (n <> 0 -> hd 0 ds <> 0).
Proof.
  induction fuel as [|f IH]; intros n acc Hf; [lia|]. cbn [digits_aux].
  destruct (n <? 10) eqn:Hlt.
  - exists [n mod 10]. split; [reflexivity|]. split; [discriminate|]. split.
    + constructor; [apply N.mod_lt; lia|constructor].
    + split.
      * intros a. cbn. rewrite N.mod_small by lia. lia.
      * intros Hn. cbn. rewrite N.mod_small by lia. exact Hn.
  - assert (10 <= n) by lia. pose proof (log2_div10 n H).
    destruct (IH (n / 10) ((n mod 10) :: acc)) as (ds & E & Hne & Hd & P & Hh); [lia|].
    exists (ds ++ [n mod 10]). split; [rewrite E, <- app_assoc; reflexivity|].
    split; [destruct ds; discriminate|]. split.
    + apply Forall_app. split; auto. constructor; [apply N.mod_lt; lia|constructor].
    + split.
      * intros a. unfold val in *. rewrite fold_left_app, P. cbn. rewrite app_length. cbn [length].
        replace (N.of_nat (length ds + 1)) with (N.succ (N.of_nat (length ds))) by lia.
        rewrite N.pow_succ_r'. pose proof (N.div_mod n 10). lia.
      * intros _. destruct ds as [|d ds]; [congruence|]. cbn. apply Hh.
        assert (1 <= n / 10) by (apply N.div_le_lower_bound; lia). lia.
Qed.

Lemma digits_spec n :
  digits n <> [] /\ Forall (fun d => d < 10) (digits n) /\ val (digits n) 0 = n /\ (n <> 0 -> hd 0 (digits n) <> 0).
Proof.
  unfold digits.
  destruct (digits_aux_spec (S (N.to_nat (N.log2 n))) n []) as (ds & E & Hne & Hd & P & Hh); [lia|].
  rewrite E, app_nil_r. split; auto. split; auto. split; [rewrite P; lia | exact Hh].
Qed.

(* scan: read a maximal run of decimal digits *)
Fixpoint scan (l : bytes) (acc : N) : N * bytes :=
  match l with
  | [] => (acc, [])
  | b :: r => match digit_val b with Some d => scan r (acc * 10 + d) | None => (acc, l) end
  end.

Lemma scan_digits ds : forall acc c rest, Forall (fun d => d < 10) ds -> digit_val c = None ->
  scan (map digit_of ds ++ c :: rest) acc = (val ds acc, c :: rest).
Proof.
  induction ds as [|d ds IH]; intros acc c rest Hd Hc; cbn.
  - rewrite Hc. reflexivity.
  - inversion Hd; subst. rewrite digit_val_of by auto. apply IH; auto.
Qed.

Lemma scan_to_dec n c rest : digit_val c = None -> scan (to_dec n ++ c :: rest) 0 = (n, c :: rest).
Proof.
  intros Hc. destruct (digits_spec n) as (_ & Hd & Hv & _). unfold to_dec.
  rewrite scan_digits by auto. rewrite Hv. reflexivity.
Qed.

Lemma to_dec_nonempty n : to_dec n <> [].
Proof. unfold to_dec. destruct (digits_spec n) as (Hne & _). destruct (digits n); [congruence|discriminate]. Qed.

Lemma to_dec_hd_digit n : exists b r, to_dec n = b :: r /\ is_digit b = true.
Proof.
  unfold to_dec. destruct (digits_spec n) as (Hne & Hd & _).
  destruct (digits n) as [|d ds]; [congruence|]. inversion Hd; subst.
  exists (digit_of d), (map digit_of ds). split; [reflexivity|]. unfold is_digit. rewrite digit_val_of; auto.
Qed.

(* fixed-width fields (dates, times): exactly k digits, most significant first *)
Fixpoint fixed_digits (k : nat) (n : N) : list N :=
  match k with O => [] | S k' => fixed_digits k' (n / 10) ++ [n mod 10] end.
Definition to_fixed (k : nat) (n : N) : bytes := map digit_of (fixed_digits k n).

Fixpoint read_fixed (k : nat) (l : bytes) (acc : N) : option (N * bytes) :=
  match k with
  | O => Some (acc, l)
  | S k' => match l with
            | b :: r => match digit_val b with Some d => read_fixed k' r (acc * 10 + d) | None => None end
            | [] => None
            end
  end.

Lemma fixed_digits_spec k : forall n, n < 10 ^ N.of_nat k ->
  Forall (fun d => d < 10) (fixed_digits k n) /\ length (fixed_digits k n) = k /\
  forall a, val (fixed_digits k n) a = a * 10 ^ N.of_nat k + n.
Proof.
  induction k as [|k IH]; intros n Hn.
  - cbn in *. split; [constructor|]. split; [reflexivity|]. intros a. cbn. lia.
  - cbn [fixed_digits].
    assert (Hk : 10 ^ N.of_nat (S k) = 10 * 10 ^ N.of_nat k).
    { replace (N.of_nat (S k)) with (N.succ (N.of_nat k)) by lia. apply N.pow_succ_r'. }
    assert (n / 10 < 10 ^ N.of_nat k) by (apply N.div_lt_upper_bound; lia).
    destruct (IH (n / 10) H) as (Hd & Hl & Hv). split; [|split].
    + apply Forall_app. split; auto. constructor; [apply N.mod_lt; lia|constructor].
    + rewrite app_length, Hl. cbn. lia.
    + intros a. unfold val in *. rewrite fold_left_app, Hv. cbn [fold_left]. rewrite Hk.
      pose proof (N.div_mod n 10). lia.
Qed.

Lemma read_fixed_digits ds : forall acc rest, Forall (fun d => d < 10) ds ->
  read_fixed (length ds) (map digit_of ds ++ rest) acc = Some (val ds acc, rest).
Proof.
  induction ds as [|d ds IH]; intros acc rest Hd; cbn; [reflexivity|].
  inversion Hd; subst. rewrite digit_val_of by auto. apply IH; auto.
Qed.

Lemma read_to_fixed k n rest : n < 10 ^ N.of_nat k ->
  read_fixed k (to_fixed k n ++ rest) 0 = Some (n, rest).
Proof.
  intros Hn. destruct (fixed_digits_spec k n Hn) as (Hd & Hl & Hv). unfold to_fixed.
  rewrite <- Hl at 1. rewrite read_fixed_digits by auto. rewrite Hv. f_equal.
Qed.

Lemma to_fixed_length k n : length (to_fixed k n) = k.
Proof.
  unfold to_fixed. rewrite map_length. revert n. induction k as [|k IH]; intros n; cbn; [reflexivity|].
  rewrite app_length, IH. cbn. lia.
Qed.

(* signed *)
Open Scope Z_scope.
Definition minus : byte := "-"%byte.
Definition plus : byte := "+"%byte.

Definition to_decZ (z : Z) : bytes :=
  match z with
  | Zneg p => minus :: to_dec (Npos p)
  | _ => to_dec (Z.to_N z)
  end.

(* reads an optional sign and a maximal run of digits; at least one digit required *)
Definition scanZ (l : bytes) : option (Z * bytes) :=
  match l with
  | [] => None
  | b :: r =>
      if Byte.eqb b minus then
        match r with
        | d :: _ => if is_digit d then let '(n, r') := scan r 0%N in Some (- Z.of_N n, r') else None
        | [] => None
        end
      else if Byte.eqb b plus then
        match r with
        | d :: _ => if is_digit d then let '(n, r') := scan r 0%N in Some (Z.of_N n, r') else None
        | [] => None
        end
      else if is_digit b then let '(n, r') := scan l 0%N in Some (Z.of_N n, r') else None
  end.

Lemma is_digit_not_sign b : is_digit b = true -> Byte.eqb b minus = false /\ Byte.eqb b plus = false.
Proof. destruct b; cbn; intros H; try discriminate; split; reflexivity. Qed.

Lemma scanZ_to_decZ z c rest : digit_val c = None ->
  scanZ (to_decZ z ++ c :: rest) = Some (z, c :: rest).
Proof.
  intros Hc. destruct z as [|p|p]; cbn [to_decZ].
  - destruct (to_dec_hd_digit (Z.to_N 0)) as (b & r & E & Hb).
    pose proof (scan_to_dec (Z.to_N 0) c rest Hc) as Hs. rewrite E in *. cbn [app scanZ].
    destruct (is_digit_not_sign b Hb) as [-> ->]. rewrite Hb. cbn [app] in Hs. rewrite Hs. reflexivity.
  - destruct (to_dec_hd_digit (Z.to_N (Zpos p))) as (b & r & E & Hb).
    pose proof (scan_to_dec (Z.to_N (Zpos p)) c rest Hc) as Hs. rewrite E in *. cbn [app scanZ].
    destruct (is_digit_not_sign b Hb) as [-> ->]. rewrite Hb. cbn [app] in Hs. rewrite Hs.
    reflexivity.
  - cbn [app scanZ]. change (Byte.eqb minus minus) with true. cbn iota.
    destruct (to_dec_hd_digit (Npos p)) as (b & r & E & Hb).
    pose proof (scan_to_dec (Npos p) c rest Hc) as Hs. rewrite E in *. cbn [app].
    rewrite Hb. cbn [app] in Hs. rewrite Hs. reflexivity.
Qed.
