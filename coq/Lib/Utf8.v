(* UTF-8 / UTF-16 length: strict RFC 3629 character reader, Go's structural
   utf16Length scan (io/encode.go), and their relation.  Library file. *)
From Coq Require Import List NArith ZArith Lia Strings.Byte Bool.
From Coq Require Import ZifyN ZifyNat ZifyBool.
From HV Require Import Lib.Dec.
Import ListNotations.
Open Scope N_scope.

Definition bN (b : byte) : N := Byte.to_N b.

Definition in_range (lo hi : N) (b : byte) : bool := (lo <=? bN b) && (bN b <=? hi).
Definition is_cont (b : byte) : bool := in_range 128 191 b.

(* strict reader of one UTF-8 encoded scalar value: (its bytes, UTF-16 units, rest) *)
Definition next_char (l : bytes) : option (bytes * N * bytes) :=
  match l with
  | [] => None
  | b0 :: r =>
      let n0 := bN b0 in
      if n0 <? 128 then Some ([b0], 1, r)
      else if in_range 194 223 b0 then
        match r with
        | b1 :: r1 => if is_cont b1 then Some ([b0; b1], 1, r1) else None
        | _ => None
        end
      else if in_range 224 239 b0 then
        match r with
        | b1 :: b2 :: r2 =>
            let lo := if n0 =? 224 then 160 else 128 in
            let hi := if n0 =? 237 then 159 else 191 in
            if in_range lo hi b1 && is_cont b2 then Some ([b0; b1; b2], 1, r2) else None
        | _ => None
        end
      else if in_range 240 244 b0 then
        match r with
        | b1 :: b2 :: b3 :: r3 =>
            let lo := if n0 =? 240 then 144 else 128 in
            let hi := if n0 =? 244 then 143 else 191 in
            if in_range lo hi b1 && is_cont b2 && is_cont b3 then Some ([b0; b1; b2; b3], 2, r3) else None
        | _ => None
        end
      else None
  end.

(* a byte string that is exactly one valid character with u UTF-16 units *)
Definition one_char (c : bytes) (u : N) : Prop := next_char c = Some (c, u, []).

(* decomposition of a whole string into characters; None when not strict UTF-8 *)
Fixpoint chars (fuel : nat) (l : bytes) : option (list (bytes * N)) :=
  match l with
  | [] => Some []
  | _ =>
      match fuel with
      | O => None
      | S f =>
          match next_char l with
          | Some (c, u, r) =>
              match chars f r with Some cs => Some ((c, u) :: cs) | None => None end
          | None => None
          end
      end
  end.

Definition str_chars (l : bytes) : option (list (bytes * N)) := chars (length l) l.
Definition units (cs : list (bytes * N)) : N := fold_right (fun cu a => snd cu + a) 0 cs.
Definition strict_utf8 (l : bytes) : bool := match str_chars l with Some _ => true | None => false end.
Definition utf16len (l : bytes) : option N := match str_chars l with Some cs => Some (units cs) | None => None end.

(* read characters worth exactly n UTF-16 units *)
Fixpoint take_units (fuel : nat) (n : N) (l : bytes) : option (bytes * bytes) :=
  if n =? 0 then Some ([], l)
  else match fuel with
       | O => None
       | S f =>
           match next_char l with
           | Some (c, u, r) =>
               if u <=? n then
                 match take_units f (n - u) r with Some (a, b) => Some (c ++ a, b) | None => None end
               else None
           | None => None
           end
       end.

(* ---- Go's utf16Length (io/encode.go, after the strictness fix) ----------------
   n starts as len(str); c is the number of continuation bytes still expected;
   the second byte of a 3- or 4-byte sequence is inspected when the lead byte is seen. *)
Fixpoint go_scan (l : bytes) (c : N) (n : Z) : Z :=
  match l with
  | [] => if c =? 0 then n else (-1)%Z
  | a :: r =>
      if c =? 0 then
        if N.land (bN a) 224 =? 192 then                              (* (a & 0xe0) == 0xc0 *)
          if bN a <? 194 then (-1)%Z else go_scan r 1 (n - 1)%Z      (* a < 0xc2: overlong *)
        else if N.land (bN a) 240 =? 224 then                         (* (a & 0xf0) == 0xe0 *)
          match r with
          | b :: _ =>
              if ((bN a =? 224) && (bN b <? 160)) || ((bN a =? 237) && (159 <? bN b)) then (-1)%Z
              else go_scan r 2 (n - 2)%Z
          | [] => go_scan r 2 (n - 2)%Z
          end
        else if N.land (bN a) 248 =? 240 then                         (* (a & 0xf8) == 0xf0 *)
          if 244 <? bN a then (-1)%Z                                  (* a > 0xf4 *)
          else
            match r with
            | b :: _ =>
                if ((bN a =? 240) && (bN b <? 144)) || ((bN a =? 244) && (143 <? bN b)) then (-1)%Z
                else go_scan r 3 (n - 2)%Z
            | [] => go_scan r 3 (n - 2)%Z
            end
        else if N.land (bN a) 128 =? 128 then (-1)%Z                  (* (a & 0x80) == 0x80 *)
        else go_scan r 0 n
      else if negb (N.land (bN a) 192 =? 128) then (-1)%Z             (* (a & 0xc0) != 0x80 *)
      else go_scan r (c - 1) n
  end.

Definition go_utf16Length (l : bytes) : Z := go_scan l 0 (Z.of_nat (length l)).

(* ---- lemmas ---------------------------------------------------------------- *)

Lemma next_char_app l c u r : next_char l = Some (c, u, r) ->
  forall rest, next_char (l ++ rest) = Some (c, u, r ++ rest).
Proof.
  unfold next_char. destruct l as [|b0 l]; [discriminate|]. cbn [app].
  destruct (bN b0 <? 128); [intros H; inversion H; reflexivity|].
  destruct (in_range 194 223 b0).
  { destruct l as [|b1 l]; [discriminate|]. cbn [app].
    destruct (is_cont b1); [|discriminate]. intros H; inversion H; reflexivity. }
  destruct (in_range 224 239 b0).
  { destruct l as [|b1 [|b2 l]]; try discriminate. cbn [app].
    destruct (_ && _); [|discriminate]. intros H; inversion H; reflexivity. }
  destruct (in_range 240 244 b0); [|discriminate].
  destruct l as [|b1 [|b2 [|b3 l]]]; try discriminate. cbn [app].
  destruct (_ && _); [|discriminate]. intros H; inversion H; reflexivity.
Qed.

Lemma next_char_shape l c u r : next_char l = Some (c, u, r) ->
  l = c ++ r /\ c <> [] /\ (u = 1 \/ u = 2) /\ next_char c = Some (c, u, []).
Proof.
  unfold next_char. destruct l as [|b0 l]; [discriminate|].
  destruct (bN b0 <? 128) eqn:E0.
  { intros H; inversion H; subst. cbn. rewrite E0. repeat split; try discriminate; auto. }
  destruct (in_range 194 223 b0) eqn:E1.
  { destruct l as [|b1 l]; [discriminate|]. destruct (is_cont b1) eqn:C1; [|discriminate].
    intros H; inversion H; subst. cbn. rewrite E0, E1, C1. repeat split; try discriminate; auto. }
  destruct (in_range 224 239 b0) eqn:E2.
  { destruct l as [|b1 [|b2 l]]; try discriminate.
    destruct (_ && _) eqn:C; [|discriminate].
    intros H; inversion H; subst. cbn. rewrite E0, E1, E2, C. repeat split; try discriminate; auto. }
  destruct (in_range 240 244 b0) eqn:E3; [|discriminate].
  destruct l as [|b1 [|b2 [|b3 l]]]; try discriminate.
  destruct (_ && _) eqn:C; [|discriminate].
  intros H; inversion H; subst. cbn. rewrite E0, E1, E2, E3, C. repeat split; try discriminate; auto.
Qed.

Lemma chars_mono : forall f l cs, chars f l = Some cs -> forall f', (f <= f')%nat -> chars f' l = Some cs.
Proof.
  induction f as [|f IH]; intros l cs H f' Hle.
  - destruct l; cbn in H; [|discriminate]. destruct f'; exact H.
  - destruct l as [|b l]; [destruct f'; exact H|].
    destruct f' as [|f']; [lia|]. cbn [chars] in *.
    destruct (next_char (b :: l)) as [[[c u] r]|]; [|discriminate].
    destruct (chars f r) as [cs'|] eqn:E; [|discriminate].
    rewrite (IH _ _ E f') by lia. exact H.
Qed.

(* a string given as a concatenation of valid characters *)
Definition cat (cs : list (bytes * N)) : bytes := concat (map fst cs).
Definition valid_chars (cs : list (bytes * N)) : Prop := Forall (fun cu => one_char (fst cu) (snd cu)) cs.

Lemma one_char_nonempty c u : one_char c u -> c <> [].
Proof. unfold one_char. intros H. destruct c; [discriminate|discriminate]. Qed.

Lemma chars_cat cs : valid_chars cs -> chars (length (cat cs)) (cat cs) = Some cs.
Proof.
  induction cs as [|[c u] cs IH]; intros Hv; [reflexivity|].
  inversion Hv as [|x l Hc Hcs]; subst. cbn [fst snd] in Hc.
  unfold cat in *. cbn [map concat fst].
  pose proof (one_char_nonempty _ _ Hc) as Hne.
  destruct c as [|b c]; [congruence|]. cbn [app length chars].
  change (b :: c ++ concat (map fst cs)) with ((b :: c) ++ concat (map fst cs)).
  rewrite (next_char_app _ _ _ _ Hc). cbn [app].
  rewrite (chars_mono _ _ _ (IH Hcs)); [reflexivity|]. rewrite app_length. lia.
Qed.

Lemma str_chars_cat cs : valid_chars cs -> str_chars (cat cs) = Some cs.
Proof. apply chars_cat. Qed.

Lemma chars_sound : forall f l cs, chars f l = Some cs -> valid_chars cs /\ cat cs = l.
Proof.
  induction f as [|f IH]; intros l cs H.
  - destruct l; cbn in H; [|discriminate]. inversion H; subst. split; [constructor|reflexivity].
  - destruct l as [|b l]; [cbn in H; inversion H; subst; split; [constructor|reflexivity]|].
    cbn [chars] in H. destruct (next_char (b :: l)) as [[[c u] r]|] eqn:E; [|discriminate].
    destruct (chars f r) as [cs'|] eqn:E'; [|discriminate]. inversion H; subst.
    destruct (IH _ _ E') as [Hv Hc]. destruct (next_char_shape _ _ _ _ E) as (Hl & _ & _ & Hone).
    split; [constructor; [exact Hone|exact Hv]|]. unfold cat in *. cbn. rewrite Hc. symmetry. exact Hl.
Qed.

Lemma take_units_mono : forall f n l res, take_units f n l = Some res ->
  forall f', (f <= f')%nat -> take_units f' n l = Some res.
Proof.
  induction f as [|f IH]; intros n l res H f' Hle.
  - cbn in H. destruct (n =? 0) eqn:E; [|discriminate]. destruct f'; cbn; rewrite E; exact H.
  - destruct f' as [|f']; [lia|]. cbn [take_units] in *. destruct (n =? 0); [exact H|].
    destruct (next_char l) as [[[c u] r]|]; [|discriminate]. destruct (u <=? n); [|discriminate].
    destruct (take_units f (n - u) r) as [[a b]|] eqn:E; [|discriminate].
    rewrite (IH _ _ _ E f') by lia. exact H.
Qed.

Lemma units_pos cs : valid_chars cs -> cs <> [] -> 0 < units cs.
Proof.
  intros Hv Hne. destruct cs as [|[c u] cs]; [congruence|]. inversion Hv; subst. cbn [fst snd] in *.
  destruct (next_char_shape _ _ _ _ H1) as (_ & _ & Hu & _). cbn. lia.
Qed.

Lemma take_units_cat cs : valid_chars cs -> forall rest,
  take_units (length (cat cs ++ rest)) (units cs) (cat cs ++ rest) = Some (cat cs, rest).
Proof.
  induction cs as [|[c u] cs IH]; intros Hv rest.
  - cbn. destruct (length rest); reflexivity.
  - inversion Hv as [|x l Hc Hcs]; subst. cbn [fst snd] in Hc.
    destruct (next_char_shape _ _ _ _ Hc) as (_ & Hne & Hu & _).
    unfold cat in *. cbn [map concat fst units fold_right snd]. fold (units cs).
    destruct c as [|b c]; [congruence|].
    rewrite <- app_assoc. cbn [app length take_units].
    assert (Hz : (u + units cs =? 0) = false) by lia. rewrite Hz.
    change (b :: c ++ concat (map fst cs) ++ rest) with ((b :: c) ++ (concat (map fst cs) ++ rest)).
    rewrite (next_char_app _ _ _ _ Hc). cbn [app].
    assert (Hle : (u <=? u + units cs) = true) by lia. rewrite Hle.
    replace (u + units cs - u) with (units cs) by lia.
    rewrite (take_units_mono _ _ _ _ (IH Hcs rest)); [reflexivity|]. rewrite !app_length. lia.
Qed.

(* --- mask tests of the Go scan as ranges (256-case computation) ------------- *)
Lemma mask_c0 b : (N.land (bN b) 224 =? 192) = in_range 192 223 b. Proof. destruct b; reflexivity. Qed.
Lemma mask_e0 b : (N.land (bN b) 240 =? 224) = in_range 224 239 b. Proof. destruct b; reflexivity. Qed.
Lemma mask_f0 b : (N.land (bN b) 248 =? 240) = in_range 240 247 b. Proof. destruct b; reflexivity. Qed.
Lemma mask_80 b : (N.land (bN b) 128 =? 128) = (128 <=? bN b). Proof. destruct b; reflexivity. Qed.
Lemma mask_cont b : (N.land (bN b) 192 =? 128) = is_cont b. Proof. destruct b; reflexivity. Qed.

Lemma bN_lt b : bN b < 256.
Proof. unfold bN. pose proof (Byte.to_N_bounded b). lia. Qed.

Lemma go_scan_nil c n : go_scan [] c n = if c =? 0 then n else (-1)%Z.
Proof. reflexivity. Qed.

Lemma go_scan_lead1 a r n : (bN a <? 128) = true -> go_scan (a :: r) 0 n = go_scan r 0 n.
Proof.
  intros H. cbn [go_scan]. change (0 =? 0) with true. cbn iota.
  rewrite mask_c0, mask_e0, mask_f0, mask_80. unfold in_range.
  replace (192 <=? bN a) with false by lia. replace (224 <=? bN a) with false by lia.
  replace (240 <=? bN a) with false by lia. replace (128 <=? bN a) with false by lia. reflexivity.
Qed.

Lemma go_scan_bad_lead a r n :
  (in_range 128 193 a || in_range 245 255 a) = true -> go_scan (a :: r) 0 n = (-1)%Z.
Proof.
  intros H. cbn [go_scan]. change (0 =? 0) with true. cbn iota.
  rewrite mask_c0, mask_e0, mask_f0, mask_80. pose proof (bN_lt a). unfold in_range in *.
  destruct ((192 <=? bN a) && (bN a <=? 223)) eqn:E1.
  { replace (bN a <? 194) with true by lia. reflexivity. }
  destruct ((224 <=? bN a) && (bN a <=? 239)) eqn:E2; [lia|].
  destruct ((240 <=? bN a) && (bN a <=? 247)) eqn:E3.
  { replace (244 <? bN a) with true by lia. reflexivity. }
  replace (128 <=? bN a) with true by lia. reflexivity.
Qed.

Lemma go_scan_lead2 a r n : in_range 194 223 a = true -> go_scan (a :: r) 0 n = go_scan r 1 (n - 1)%Z.
Proof.
  intros H. cbn [go_scan]. change (0 =? 0) with true. cbn iota. rewrite mask_c0.
  unfold in_range in *. replace ((192 <=? bN a) && (bN a <=? 223)) with true by lia.
  replace (bN a <? 194) with false by lia. reflexivity.
Qed.

Definition bad3 (a b : byte) : bool := ((bN a =? 224) && (bN b <? 160)) || ((bN a =? 237) && (159 <? bN b)).
Definition bad4 (a b : byte) : bool := ((bN a =? 240) && (bN b <? 144)) || ((bN a =? 244) && (143 <? bN b)).

Lemma go_scan_lead3_gen a l n : in_range 224 239 a = true ->
  go_scan (a :: l) 0 n = match l with
                         | b :: _ => if bad3 a b then (-1)%Z else go_scan l 2 (n - 2)%Z
                         | [] => go_scan l 2 (n - 2)%Z
                         end.
Proof.
  intros H. cbn [go_scan]. change (0 =? 0) with true. cbn iota. rewrite mask_c0, mask_e0, H.
  replace (in_range 192 223 a) with false by (unfold in_range in *; lia). reflexivity.
Qed.

Lemma go_scan_lead3_nil a n : in_range 224 239 a = true -> go_scan [a] 0 n = (-1)%Z.
Proof. intros H. rewrite go_scan_lead3_gen by exact H. reflexivity. Qed.

Lemma go_scan_lead3 a b r n : in_range 224 239 a = true ->
  go_scan (a :: b :: r) 0 n = if bad3 a b then (-1)%Z else go_scan (b :: r) 2 (n - 2)%Z.
Proof. intros H. rewrite go_scan_lead3_gen by exact H. reflexivity. Qed.

Lemma go_scan_lead4_gen a l n : in_range 240 244 a = true ->
  go_scan (a :: l) 0 n = match l with
                         | b :: _ => if bad4 a b then (-1)%Z else go_scan l 3 (n - 2)%Z
                         | [] => go_scan l 3 (n - 2)%Z
                         end.
Proof.
  intros H. cbn [go_scan]. change (0 =? 0) with true. cbn iota. rewrite mask_c0, mask_e0, mask_f0.
  unfold in_range in *. replace ((192 <=? bN a) && (bN a <=? 223)) with false by lia.
  replace ((224 <=? bN a) && (bN a <=? 239)) with false by lia.
  replace ((240 <=? bN a) && (bN a <=? 247)) with true by lia.
  replace (244 <? bN a) with false by lia. reflexivity.
Qed.

Lemma go_scan_lead4_nil a n : in_range 240 244 a = true -> go_scan [a] 0 n = (-1)%Z.
Proof. intros H. rewrite go_scan_lead4_gen by exact H. reflexivity. Qed.

Lemma go_scan_lead4 a b r n : in_range 240 244 a = true ->
  go_scan (a :: b :: r) 0 n = if bad4 a b then (-1)%Z else go_scan (b :: r) 3 (n - 2)%Z.
Proof. intros H. rewrite go_scan_lead4_gen by exact H. reflexivity. Qed.

Lemma go_scan_cont a r c n : is_cont a = true -> c <> 0 -> go_scan (a :: r) c n = go_scan r (c - 1) n.
Proof.
  intros H Hc. cbn [go_scan]. replace (c =? 0) with false by lia. rewrite mask_cont, H. reflexivity.
Qed.

Lemma go_scan_notcont a r c n : is_cont a = false -> c <> 0 -> go_scan (a :: r) c n = (-1)%Z.
Proof.
  intros H Hc. cbn [go_scan]. replace (c =? 0) with false by lia. rewrite mask_cont, H. reflexivity.
Qed.

(* acceptance: a strictly valid character advances the scan by (bytes - units) *)
Lemma go_scan_next l c u r : next_char l = Some (c, u, r) -> forall n,
  go_scan l 0 n = go_scan r 0 (n - Z.of_nat (length c) + Z.of_N u)%Z.
Proof.
  unfold next_char. destruct l as [|b0 l]; [discriminate|]. intros H n.
  destruct (bN b0 <? 128) eqn:E0.
  { inversion H; subst. rewrite go_scan_lead1 by exact E0. cbn [length]. f_equal. lia. }
  destruct (in_range 194 223 b0) eqn:E1.
  { destruct l as [|b1 l]; [discriminate|]. destruct (is_cont b1) eqn:C1; [|discriminate].
    inversion H; subst. rewrite go_scan_lead2 by exact E1.
    rewrite go_scan_cont by (auto; lia). cbn [length]. change (1 - 1) with 0. f_equal. lia. }
  destruct (in_range 224 239 b0) eqn:E2.
  { destruct l as [|b1 [|b2 l]]; try discriminate.
    destruct (_ && _) eqn:C; [|discriminate]. inversion H; subst.
    apply andb_prop in C. destruct C as [C1 C2].
    assert (C1' : is_cont b1 = true).
    { unfold is_cont, in_range in *. destruct (bN b0 =? 224); destruct (bN b0 =? 237); lia. }
    rewrite go_scan_lead3 by exact E2.
    replace (bad3 b0 b1) with false
      by (unfold bad3, in_range in *; destruct (bN b0 =? 224) eqn:?; destruct (bN b0 =? 237) eqn:?; lia).
    rewrite go_scan_cont by (auto; lia). change (2 - 1) with 1.
    rewrite go_scan_cont by (auto; lia). change (1 - 1) with 0. cbn [length]. f_equal. lia. }
  destruct (in_range 240 244 b0) eqn:E3; [|discriminate].
  destruct l as [|b1 [|b2 [|b3 l]]]; try discriminate.
  destruct (_ && _) eqn:C; [|discriminate]. inversion H; subst.
  apply andb_prop in C. destruct C as [C C3]. apply andb_prop in C. destruct C as [C1 C2].
  assert (C1' : is_cont b1 = true).
  { unfold is_cont, in_range in *. destruct (bN b0 =? 240); destruct (bN b0 =? 244); lia. }
  rewrite go_scan_lead4 by exact E3.
  replace (bad4 b0 b1) with false
    by (unfold bad4, in_range in *; destruct (bN b0 =? 240) eqn:?; destruct (bN b0 =? 244) eqn:?; lia).
  rewrite go_scan_cont by (auto; lia). change (3 - 1) with 2.
  rewrite go_scan_cont by (auto; lia). change (2 - 1) with 1.
  rewrite go_scan_cont by (auto; lia). change (1 - 1) with 0. cbn [length]. f_equal. lia.
Qed.

(* a run of continuation bytes can only end in rejection when the scan owes bytes at the end *)
Lemma go_scan_owes_nil c n : c <> 0 -> go_scan [] c n = (-1)%Z.
Proof. intros H. cbn. replace (c =? 0) with false by lia. reflexivity. Qed.

(* rejection: where the strict reader fails, so does the scan *)
Lemma go_scan_reject l : l <> [] -> next_char l = None -> forall n, go_scan l 0 n = (-1)%Z.
Proof.
  unfold next_char. destruct l as [|b0 l]; [congruence|]. intros _ H n.
  pose proof (bN_lt b0) as Hlt.
  destruct (bN b0 <? 128) eqn:E0; [discriminate|].
  destruct (in_range 194 223 b0) eqn:E1.
  { rewrite go_scan_lead2 by exact E1.
    destruct l as [|b1 l]; [apply go_scan_owes_nil; lia|].
    destruct (is_cont b1) eqn:C1; [discriminate|]. apply go_scan_notcont; [exact C1|lia]. }
  destruct (in_range 224 239 b0) eqn:E2.
  { destruct l as [|b1 l]; [apply go_scan_lead3_nil; exact E2|].
    rewrite go_scan_lead3 by exact E2. destruct (bad3 b0 b1) eqn:B; [reflexivity|].
    destruct (is_cont b1) eqn:C1; [|apply go_scan_notcont; [exact C1|lia]].
    rewrite go_scan_cont by (auto; lia). change (2 - 1) with 1.
    destruct l as [|b2 l]; [apply go_scan_owes_nil; lia|].
    destruct (is_cont b2) eqn:C2; [|apply go_scan_notcont; [exact C2|lia]].
    exfalso. cbn beta iota zeta in H. rewrite andb_true_r in H.
    assert (R : in_range (if bN b0 =? 224 then 160 else 128) (if bN b0 =? 237 then 159 else 191) b1 = true).
    { unfold bad3, is_cont, in_range in *. destruct (bN b0 =? 224) eqn:?; destruct (bN b0 =? 237) eqn:?; lia. }
    rewrite R in H. discriminate. }
  destruct (in_range 240 244 b0) eqn:E3.
  { destruct l as [|b1 l]; [apply go_scan_lead4_nil; exact E3|].
    rewrite go_scan_lead4 by exact E3. destruct (bad4 b0 b1) eqn:B; [reflexivity|].
    destruct (is_cont b1) eqn:C1; [|apply go_scan_notcont; [exact C1|lia]].
    rewrite go_scan_cont by (auto; lia). change (3 - 1) with 2.
    destruct l as [|b2 l]; [apply go_scan_owes_nil; lia|].
    destruct (is_cont b2) eqn:C2; [|apply go_scan_notcont; [exact C2|lia]].
    rewrite go_scan_cont by (auto; lia). change (2 - 1) with 1.
    destruct l as [|b3 l]; [apply go_scan_owes_nil; lia|].
    destruct (is_cont b3) eqn:C3; [|apply go_scan_notcont; [exact C3|lia]].
    exfalso. cbn beta iota zeta in H. rewrite !andb_true_r in H.
    assert (R : in_range (if bN b0 =? 240 then 144 else 128) (if bN b0 =? 244 then 143 else 191) b1 = true).
    { unfold bad4, is_cont, in_range in *. destruct (bN b0 =? 240) eqn:?; destruct (bN b0 =? 244) eqn:?; lia. }
    rewrite R in H. discriminate. }
  apply go_scan_bad_lead. unfold in_range in *. lia.
Qed.

(* The scan decides strict UTF-8 and, on it, counts UTF-16 code units. *)
Lemma go_scan_spec : forall fuel l n, (length l <= fuel)%nat ->
  go_scan l 0 n = match chars fuel l with
                  | Some cs => (n - Z.of_nat (length l) + Z.of_N (units cs))%Z
                  | None => (-1)%Z
                  end.
Proof.
  induction fuel as [|f IH]; intros l n Hl.
  - destruct l; [cbn; lia | cbn in Hl; lia].
  - destruct l as [|b l]; [cbn; lia|]. cbn [chars].
    destruct (next_char (b :: l)) as [[[c u] r]|] eqn:E.
    + rewrite (go_scan_next _ _ _ _ E). destruct (next_char_shape _ _ _ _ E) as (Hsplit & Hne & _ & _).
      assert (Hlen : length (b :: l) = (length c + length r)%nat) by (rewrite Hsplit, app_length; reflexivity).
      assert (Hc : (1 <= length c)%nat) by (destruct c; [congruence | cbn; lia]).
      rewrite IH by lia. destruct (chars f r) as [cs|]; [|reflexivity].
      cbn [units fold_right snd]. fold (units cs). lia.
    + apply go_scan_reject; [discriminate | exact E].
Qed.

Theorem go_utf16Length_spec l :
  go_utf16Length l = match str_chars l with Some cs => Z.of_N (units cs) | None => (-1)%Z end.
Proof.
  unfold go_utf16Length, str_chars. rewrite (go_scan_spec (length l) l) by lia.
  destruct (chars (length l) l); lia.
Qed.

(* On strict UTF-8, Go's utf16Length is the number of UTF-16 code units. *)
Theorem go_utf16Length_strict l cs : str_chars l = Some cs -> go_utf16Length l = Z.of_N (units cs).
Proof. intros H. rewrite go_utf16Length_spec, H. reflexivity. Qed.

(* ... and everything else is rejected (and therefore written as bytes by the encoder). *)
Theorem go_utf16Length_nonstrict l : strict_utf8 l = false -> go_utf16Length l = (-1)%Z.
Proof.
  unfold strict_utf8. intros H. rewrite go_utf16Length_spec. destruct (str_chars l); [discriminate|reflexivity].
Qed.

Theorem go_utf16Length_nonneg_iff l : (0 <= go_utf16Length l)%Z <-> strict_utf8 l = true.
Proof.
  unfold strict_utf8. rewrite go_utf16Length_spec. destruct (str_chars l); split; intros; try lia; try discriminate; reflexivity.
Qed.

Example go_rejects_overlong : go_utf16Length [Byte.xc0; Byte.x80] = (-1)%Z /\ strict_utf8 [Byte.xc0; Byte.x80] = false.
Proof. split; reflexivity. Qed.
Example go_rejects_surrogate : go_utf16Length [Byte.xed; Byte.xa0; Byte.x80] = (-1)%Z.
Proof. reflexivity. Qed.
