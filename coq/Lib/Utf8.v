(* UTF-8 / UTF-16 length: strict RFC 3629 character reader, Go's structural
   utf16Length scan (io/encode.go), and their relation.  Library file. *)
From Coq Require Import List NArith ZArith Lia Strings.Byte Bool.
From Coq Require Import ZifyN ZifyNat ZifyBool.
From HV Require Import Lib.Dec.
Import ListNotations.
Open Scope N_scope.

Definition bN (b : byte) : N := Byte.to_N b.

Definition in_range (lo hi : N) (b : byte) : bool := (lo <=? bN b) && (bN b <=? hi).
Definition is_cont (b : byte) : bool := in_range 128 191 b.

(* strict reader of one UTF-8 encoded scalar value: (its bytes, UTF-16 units, rest) *)
Definition next_char (l : bytes) : option (bytes * N * bytes) :=
  match l with
  | [] => None
  | b0 :: r =>
      let n0 := bN b0 in
      if n0 <? 128 then Some ([b0], 1, r)
      else if in_range 194 223 b0 then
        match r with
        | b1 :: r1 => if is_cont b1 then Some ([b0; b1], 1, r1) else None
        | _ => None
        end
      else if in_range 224 239 b0 then
        match r with
        | b1 :: b2 :: r2 =>
            let lo := if n0 =? 224 then 160 else 128 in
            let hi := if n0 =? 237 then 159 else 191 in
            if in_range lo hi b1 && is_cont b2 then Some ([b0; b1; b2], 1, r2) else None
        | _ => None
        end
      else if in_range 240 244 b0 then
        match r with
        | b1 :: b2 :: b3 :: r3 =>
            let lo := if n0 =? 240 then 144 else 128 in
            let hi := if n0 =? 244 then 143 else 191 in
            if in_range lo hi b1 && is_cont b2 && is_cont b3 then Some ([b0; b1; b2; b3], 2, r3) else None
        | _ => None
        end
      else None
  end.

(* a byte string that is exactly one valid character with u UTF-16 units *)
Definition one_char (c : bytes) (u : N) : Prop := next_char c = Some (c, u, []).

(* decomposition of a whole string into characters; None when not strict UTF-8 *)
Fixpoint chars (fuel : nat) (l : bytes) : option (list (bytes * N)) :=
  match l with
  | [] => Some []
  | _ =>
      match fuel with
      | O => None
      | S f =>
          match next_char l with
          | Some (c, u, r) =>
              match chars f r with Some cs => Some ((c, u) :: cs) | None => None end
          | None => None
          end
      end
  end.

Definition str_chars (l : bytes) : option (list (bytes * N)) := chars (length l) l.
Definition units (cs : list (bytes * N)) : N := fold_right (fun cu a => snd cu + a) 0 cs.
Definition strict_utf8 (l : bytes) : bool := match str_chars l with Some _ => true | None => false end.
Definition utf16len (l : bytes) : option N := match str_chars l with Some cs => Some (units cs) | None => None end.

(* read characters worth exactly n UTF-16 units *)
Fixpoint take_units (fuel : nat) (n : N) (l : bytes) : option (bytes * bytes) :=
  if n =? 0 then Some ([], l)
  else match fuel with
       | O => None
       | S f =>
           match next_char l with
           | Some (c, u, r) =>
               if u <=? n then
                 match take_units f (n - u) r with Some (a, b) => Some (c ++ a, b) | None => None end
               else None
           | None => None
           end
       end.

(* ---- Go's utf16Length (structural scan, io/encode.go) ---------------------
   n starts as len(str); c is the number of continuation bytes still expected. *)
Fixpoint go_scan (l : bytes) (c : N) (n : Z) : Z :=
  match l with
  | [] => if c =? 0 then n else (-1)%Z
  | a :: r =>
      if c =? 0 then
        if N.land (bN a) 224 =? 192 then go_scan r 1 (n - 1)%Z       (* (a & 0xe0) == 0xc0 *)
        else if N.land (bN a) 240 =? 224 then go_scan r 2 (n - 2)%Z  (* (a & 0xf0) == 0xe0 *)
        else if N.land (bN a) 248 =? 240 then go_scan r 3 (n - 2)%Z  (* (a & 0xf8) == 0xf0 *)
        else if N.land (bN a) 128 =? 128 then (-1)%Z                 (* (a & 0x80) == 0x80 *)
        else go_scan r 0 n
      else if negb (N.land (bN a) 192 =? 128) then (-1)%Z            (* (a & 0xc0) != 0x80 *)
      else go_scan r (c - 1) n
  end.

Definition go_utf16Length (l : bytes) : Z := go_scan l 0 (Z.of_nat (length l)).

(* ---- lemmas ---------------------------------------------------------------- *)

Lemma next_char_app l c u r : next_char l = Some (c, u, r) ->
  forall rest, next_char (l ++ rest) = Some (c, u, r ++ rest).
Proof.
  unfold next_char. destruct l as [|b0 l]; [discriminate|]. cbn [app].
  destruct (bN b0 <? 128); [intros H; inversion H; reflexivity|].
  destruct (in_range 194 223 b0).
  { destruct l as [|b1 l]; [discriminate|]. cbn [app].
    destruct (is_cont b1); [|discriminate]. intros H; inversion H; reflexivity. }
  destruct (in_range 224 239 b0).
  { destruct l as [|b1 [|b2 l]]; try discriminate. cbn [app].
    destruct (_ && _); [|discriminate]. intros H; inversion H; reflexivity. }
  destruct (in_range 240 244 b0); [|discriminate].
  destruct l as [|b1 [|b2 [|b3 l]]]; try discriminate. cbn [app].
  destruct (_ && _); [|discriminate]. intros H; inversion H; reflexivity.
Qed.

Lemma next_char_shape l c u r : next_char l = Some (c, u, r) ->
  l = c ++ r /\ c <> [] /\ (u = 1 \/ u = 2) /\ next_char c = Some (c, u, []).
Proof.
  unfold next_char. destruct l as [|b0 l]; [discriminate|].
  destruct (bN b0 <? 128) eqn:E0.
  { intros H; inversion H; subst. cbn. rewrite E0. repeat split; try discriminate; auto. }
  destruct (in_range 194 223 b0) eqn:E1.
  { destruct l as [|b1 l]; [discriminate|]. destruct (is_cont b1) eqn:C1; [|discriminate].
    intros H; inversion H; subst. cbn. rewrite E0, E1, C1. repeat split; try discriminate; auto. }
  destruct (in_range 224 239 b0) eqn:E2.
  { destruct l as [|b1 [|b2 l]]; try discriminate.
    destruct (_ && _) eqn:C; [|discriminate].
    intros H; inversion H; subst. cbn. rewrite E0, E1, E2, C. repeat split; try discriminate; auto. }
  destruct (in_range 240 244 b0) eqn:E3; [|discriminate].
  destruct l as [|b1 [|b2 [|b3 l]]]; try discriminate.
  destruct (_ && _) eqn:C; [|discriminate].
  intros H; inversion H; subst. cbn. rewrite E0, E1, E2, E3, C. repeat split; try discriminate; auto.
Qed.

Lemma chars_mono : forall f l cs, chars f l = Some cs -> forall f', (f <= f')%nat -> chars f' l = Some cs.
Proof.
  induction f as [|f IH]; intros l cs H f' Hle.
  - destruct l; cbn in H; [|discriminate]. destruct f'; exact H.
  - destruct l as [|b l]; [destruct f'; exact H|].
    destruct f' as [|f']; [lia|]. cbn [chars] in *.
    destruct (next_char (b :: l)) as [[[c u] r]|]; [|discriminate].
    destruct (chars f r) as [cs'|] eqn:E; [|discriminate].
    rewrite (IH _ _ E f') by lia. exact H.
Qed.

(* a string given as a concatenation of valid characters *)
Definition cat (cs : list (bytes * N)) : bytes := concat (map fst cs).
Definition valid_chars (cs : list (bytes * N)) : Prop := Forall (fun cu => one_char (fst cu) (snd cu)) cs.

Lemma one_char_nonempty c u : one_char c u -> c <> [].
Proof. unfold one_char. intros H. destruct c; [discriminate|discriminate]. Qed.

Lemma chars_cat cs : valid_chars cs -> chars (length (cat cs)) (cat cs) = Some cs.
Proof.
  induction cs as [|[c u] cs IH]; intros Hv; [reflexivity|].
  inversion Hv as [|x l Hc Hcs]; subst. cbn [fst snd] in Hc.
  unfold cat in *. cbn [map concat fst].
  pose proof (one_char_nonempty _ _ Hc) as Hne.
  destruct c as [|b c]; [congruence|]. cbn [app length chars].
  change (b :: c ++ concat (map fst cs)) with ((b :: c) ++ concat (map fst cs)).
  rewrite (next_char_app _ _ _ _ Hc). cbn [app].
  rewrite (chars_mono _ _ _ (IH Hcs)); [reflexivity|]. rewrite app_length. lia.
Qed.

Lemma str_chars_cat cs : valid_chars cs -> str_chars (cat cs) = Some cs.
Proof. apply chars_cat. Qed.

Lemma chars_sound : forall f l cs, chars f l = Some cs -> valid_chars cs /\ cat cs = l.
Proof.
  induction f as [|f IH]; intros l cs H.
  - destruct l; cbn in H; [|discriminate]. inversion H; subst. split; [constructor|reflexivity].
  - destruct l as [|b l]; [cbn in H; inversion H; subst; split; [constructor|reflexivity]|].
    cbn [chars] in H. destruct (next_char (b :: l)) as [[[c u] r]|] eqn:E; [|discriminate].
    destruct (chars f r) as [cs'|] eqn:E'; [|discriminate]. inversion H; subst.
    destruct (IH _ _ E') as [Hv Hc]. destruct (next_char_shape _ _ _ _ E) as (Hl & _ & _ & Hone).
    split; [constructor; [exact Hone|exact Hv]|]. unfold cat in *. cbn. rewrite Hc. symmetry. exact Hl.
Qed.

Lemma take_units_mono : forall f n l res, take_units f n l = Some res ->
  forall f', (f <= f')%nat -> take_units f' n l = Some res.
Proof.
  induction f as [|f IH]; intros n l res H f' Hle.
  - cbn in H. destruct (n =? 0) eqn:E; [|discriminate]. destruct f'; cbn; rewrite E; exact H.
  - destruct f' as [|f']; [lia|]. cbn [take_units] in *. destruct (n =? 0); [exact H|].
    destruct (next_char l) as [[[c u] r]|]; [|discriminate]. destruct (u <=? n); [|discriminate].
    destruct (take_units f (n - u) r) as [[a b]|] eqn:E; [|discriminate].
    rewrite (IH _ _ _ E f') by lia. exact H.
Qed.

Lemma units_pos cs : valid_chars cs -> cs <> [] -> 0 < units cs.
Proof.
  intros Hv Hne. destruct cs as [|[c u] cs]; [congruence|]. inversion Hv; subst. cbn [fst snd] in *.
  destruct (next_char_shape _ _ _ _ H1) as (_ & _ & Hu & _). cbn. lia.
Qed.

Lemma take_units_cat cs : valid_chars cs -> forall rest,
  take_units (length (cat cs ++ rest)) (units cs) (cat cs ++ rest) = Some (cat cs, rest).
Proof.
  induction cs as [|[c u] cs IH]; intros Hv rest.
  - cbn. destruct (length rest); reflexivity.
  - inversion Hv as [|x l Hc Hcs]; subst. cbn [fst snd] in Hc.
    destruct (next_char_shape _ _ _ _ Hc) as (_ & Hne & Hu & _).
    unfold cat in *. cbn [map concat fst units fold_right snd]. fold (units cs).
    destruct c as [|b c]; [congruence|].
    rewrite <- app_assoc. cbn [app length take_units].
    assert (Hz : (u + units cs =? 0) = false) by lia. rewrite Hz.
    change (b :: c ++ concat (map fst cs) ++ rest) with ((b :: c) ++ (concat (map fst cs) ++ rest)).
    rewrite (next_char_app _ _ _ _ Hc). cbn [app].
    assert (Hle : (u <=? u + units cs) = true) by lia. rewrite Hle.
    replace (u + units cs - u) with (units cs) by lia.
    rewrite (take_units_mono _ _ _ _ (IH Hcs rest)); [reflexivity|]. rewrite !app_length. lia.
Qed.

(* --- mask tests of the Go scan as ranges (256-case computation) ------------- *)
Lemma mask_c0 b : (N.land (bN b) 224 =? 192) = in_range 192 223 b. Proof. destruct b; reflexivity. Qed.
Lemma mask_e0 b : (N.land (bN b) 240 =? 224) = in_range 224 239 b. Proof. destruct b; reflexivity. Qed.
Lemma mask_f0 b : (N.land (bN b) 248 =? 240) = in_range 240 247 b. Proof. destruct b; reflexivity. Qed.
Lemma mask_80 b : (N.land (bN b) 128 =? 128) = (128 <=? bN b). Proof. destruct b; reflexivity. Qed.
Lemma mask_cont b : (N.land (bN b) 192 =? 128) = is_cont b. Proof. destruct b; reflexivity. Qed.

Lemma bN_lt b : bN b < 256.
Proof. unfold bN. pose proof (Byte.to_N_bounded b). lia. Qed.

Lemma go_scan_lead1 a r n : (bN a <? 128) = true -> go_scan (a :: r) 0 n = go_scan r 0 n.
Proof.
  intros H. cbn [go_scan]. change (0 =? 0) with true. cbn iota.
  rewrite mask_c0, mask_e0, mask_f0, mask_80. unfold in_range.
  replace (192 <=? bN a) with false by lia. replace (224 <=? bN a) with false by lia.
  replace (240 <=? bN a) with false by lia. replace (128 <=? bN a) with false by lia. reflexivity.
Qed.
Lemma go_scan_lead2 a r n : in_range 192 223 a = true -> go_scan (a :: r) 0 n = go_scan r 1 (n - 1)%Z.
Proof. intros H. cbn [go_scan]. change (0 =? 0) with true. cbn iota. rewrite mask_c0, H. reflexivity. Qed.
Lemma go_scan_lead3 a r n : in_range 224 239 a = true -> go_scan (a :: r) 0 n = go_scan r 2 (n - 2)%Z.
Proof.
  intros H. cbn [go_scan]. change (0 =? 0) with true. cbn iota. rewrite mask_c0, mask_e0, H.
  replace (in_range 192 223 a) with false by (unfold in_range in *; lia). reflexivity.
Qed.
Lemma go_scan_lead4 a r n : in_range 240 247 a = true -> go_scan (a :: r) 0 n = go_scan r 3 (n - 2)%Z.
Proof.
  intros H. cbn [go_scan]. change (0 =? 0) with true. cbn iota. rewrite mask_c0, mask_e0, mask_f0, H.
  replace (in_range 192 223 a) with false by (unfold in_range in *; lia).
  replace (in_range 224 239 a) with false by (unfold in_range in *; lia). reflexivity.
Qed.
Lemma go_scan_cont a r c n : is_cont a = true -> c <> 0 -> go_scan (a :: r) c n = go_scan r (c - 1) n.
Proof.
  intros H Hc. cbn [go_scan]. replace (c =? 0) with false by lia. rewrite mask_cont, H. reflexivity.
Qed.

(* one strictly valid character advances the Go scan by (bytes - units) *)
Lemma go_scan_char c u : one_char c u -> forall r n,
  go_scan (c ++ r) 0 n = go_scan r 0 (n - Z.of_nat (length c) + Z.of_N u)%Z.
Proof.
  unfold one_char, next_char. intros H r n.
  destruct c as [|b0 c]; [discriminate|].
  destruct (bN b0 <? 128) eqn:E0.
  { inversion H; subst. cbn [app]. rewrite go_scan_lead1 by exact E0. cbn [length]. f_equal. lia. }
  destruct (in_range 194 223 b0) eqn:E1.
  { destruct c as [|b1 c]; [discriminate|]. destruct (is_cont b1) eqn:C1; [|discriminate].
    inversion H; subst. cbn [app].
    rewrite go_scan_lead2 by (unfold in_range in *; lia).
    rewrite go_scan_cont by (auto; lia). cbn [length]. change (1 - 1) with 0. f_equal. lia. }
  destruct (in_range 224 239 b0) eqn:E2.
  { destruct c as [|b1 [|b2 c]]; try discriminate.
    destruct (_ && _) eqn:C; [|discriminate]. inversion H; subst.
    apply andb_prop in C. destruct C as [C1 C2].
    assert (C1' : is_cont b1 = true).
    { unfold is_cont, in_range in *. destruct (bN b0 =? 224); destruct (bN b0 =? 237); lia. }
    cbn [app]. rewrite go_scan_lead3 by exact E2.
    rewrite go_scan_cont by (auto; lia). change (2 - 1) with 1.
    rewrite go_scan_cont by (auto; lia). change (1 - 1) with 0. cbn [length]. f_equal. lia. }
  destruct (in_range 240 244 b0) eqn:E3; [|discriminate].
  destruct c as [|b1 [|b2 [|b3 c]]]; try discriminate.
  destruct (_ && _) eqn:C; [|discriminate]. inversion H; subst.
  apply andb_prop in C. destruct C as [C C3]. apply andb_prop in C. destruct C as [C1 C2].
  assert (C1' : is_cont b1 = true).
  { unfold is_cont, in_range in *. destruct (bN b0 =? 240); destruct (bN b0 =? 244); lia. }
  cbn [app]. rewrite go_scan_lead4 by (unfold in_range in *; lia).
  rewrite go_scan_cont by (auto; lia). change (3 - 1) with 2.
  rewrite go_scan_cont by (auto; lia). change (2 - 1) with 1.
  rewrite go_scan_cont by (auto; lia). change (1 - 1) with 0. cbn [length]. f_equal. lia.
Qed.

Lemma go_scan_cat cs : valid_chars cs -> forall n,
  go_scan (cat cs) 0 n = (n - Z.of_nat (length (cat cs)) + Z.of_N (units cs))%Z.
Proof.
  induction cs as [|[c u] cs IH]; intros Hv n.
  - cbn. lia.
  - inversion Hv as [|x l Hc Hcs]; subst. cbn [fst snd] in Hc.
    unfold cat in *. cbn [map concat fst]. rewrite (go_scan_char _ _ Hc). rewrite (IH Hcs).
    rewrite app_length. cbn [units fold_right snd]. fold (units cs). lia.
Qed.

(* On strict UTF-8, Go's utf16Length is the number of UTF-16 code units. *)
Theorem go_utf16Length_strict l cs : str_chars l = Some cs -> go_utf16Length l = Z.of_N (units cs).
Proof.
  intros H. destruct (chars_sound _ _ _ H) as [Hv Hc]. subst l.
  unfold go_utf16Length. rewrite (go_scan_cat _ Hv). lia.
Qed.

(* The gap: strings Go's scan accepts although they are not UTF-8 (witnesses). *)
Example go_accepts_overlong : go_utf16Length [Byte.xc0; Byte.x80] = 1%Z /\ strict_utf8 [Byte.xc0; Byte.x80] = false.
Proof. split; reflexivity. Qed.
Example go_accepts_surrogate : go_utf16Length [Byte.xed; Byte.xa0; Byte.x80] = 1%Z /\ strict_utf8 [Byte.xed; Byte.xa0; Byte.x80] = false.
Proof. split; reflexivity. Qed.
