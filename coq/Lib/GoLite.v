(* Support library for the functions that tools/gotables (golite.go) translates from the Go
   sources into coq/Gen/GoFuncs.v.  Only definitions; the refinement proofs are in
   Proofs/GoFuncsProofs.v. *)
From Coq Require Import List ZArith Strings.Byte Bool.
From HV Require Import Lib.Crc32.
Import ListNotations.
Local Open Scope Z_scope.

Notation zb := byte_of_Z (only parsing).   (* Go: byte(x)              *)
Notation bz := Z_of_byte (only parsing).   (* Go: int(b), uint32(b)    *)

(* result of a translated function: its results, a run-time panic (index out of range), or the
   fuel of a condition-only loop ran out *)
Inductive gres (R : Type) : Type := GRet (r : R) | GPanic | GFuel.
Arguments GRet {R} r.
Arguments GPanic {R}.
Arguments GFuel {R}.

(* result of one loop iteration / of a whole loop *)
Inductive ctl (S R : Type) : Type := LNext (s : S) | LRet (r : R) | LPanic | LFuel.
Arguments LNext {S R} s.
Arguments LRet {S R} r.
Arguments LPanic {S R}.
Arguments LFuel {S R}.

(* x[k] for a constant k inside a fixed array [n]byte: Go refuses to compile k >= n, so the
   default is never taken on values of the array's type (lists of length n) *)
Definition ix (l : list byte) (k : Z) : byte := nth (Z.to_nat k) l x00.

(* x[k] on a string or slice: bounds-checked *)
Definition ixo (l : list byte) (k : Z) : option byte :=
  if k <? 0 then None else nth_error l (Z.to_nat k).

(* x[k] = v for a constant k inside a fixed array *)
Fixpoint upd (l : list byte) (k : nat) (v : byte) : list byte :=
  match l, k with
  | [], _ => []
  | _ :: r, O => v :: r
  | a :: r, S k' => a :: upd r k' v
  end.

(* for i := lo; i < hi; i++ { body }   (i and hi are not assigned in the body) *)
Fixpoint for_fuel {S R : Type} (f : nat) (i : Z) (st : S) (body : Z -> S -> ctl S R) : ctl S R :=
  match f with
  | O => LNext st
  | Datatypes.S f' =>
      match body i st with
      | LNext st' => for_fuel f' (i + 1) st' body
      | r => r
      end
  end.

Definition for_range {S R : Type} (lo hi : Z) (st : S) (body : Z -> S -> ctl S R) : ctl S R :=
  for_fuel (Z.to_nat (hi - lo)) lo st body.

(* for cond { body } *)
Fixpoint while_fuel {S R : Type} (f : nat) (st : S) (cond : S -> bool) (body : S -> ctl S R) : ctl S R :=
  if cond st then
    match f with
    | O => LFuel
    | Datatypes.S f' =>
        match body st with
        | LNext st' => while_fuel f' st' cond body
        | r => r
        end
    end
  else LNext st.
