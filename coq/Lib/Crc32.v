(* Lib/Crc32.v — bytes <-> bits <-> numbers, and the bitwise reference CRC-32/IEEE
   (reflected, polynomial 0xEDB88320, init 0xFFFFFFFF, xorout 0xFFFFFFFF), the
   function Go calls crc32.ChecksumIEEE.  Executable definitions only; the proofs are
   in Proofs/Crc32Proofs.v.  Tied to hash/crc32 by the correspondence run of C12
   (random inputs, oracle validation). *)
From Coq Require Import List NArith ZArith Bool Init.Byte Strings.Byte.
Import ListNotations.

(* ---- bytes and numbers ------------------------------------------------------- *)

(* Go's byte(x) conversion of a non-negative number: the low 8 bits.
   The [None] branch is unreachable (n mod 256 < 256), see byte_of_N_to_N. *)
Definition byte_of_N (n : N) : byte :=
  match Byte.of_N (n mod 256)%N with Some b => b | None => x00 end.

(* Go's byte(x) for an int (two's complement: Z.modulo is the floor modulus) *)
Definition byte_of_Z (z : Z) : byte := byte_of_N (Z.to_N (z mod 256)%Z).

(* Go's int(b) / uint32(b) *)
Definition Z_of_byte (b : byte) : Z := Z.of_N (Byte.to_N b).

(* ---- bytes and bits (least significant bit first, as a reflected CRC eats them) - *)

Definition bits_of_byte (b : byte) : list bool :=
  let '(b0, (b1, (b2, (b3, (b4, (b5, (b6, b7))))))) := Byte.to_bits b in
  [b0; b1; b2; b3; b4; b5; b6; b7].

Definition bits_of_bytes (l : list byte) : list bool := flat_map bits_of_byte l.

Fixpoint bytes_of_bits (bs : list bool) : list byte :=
  match bs with
  | b0 :: b1 :: b2 :: b3 :: b4 :: b5 :: b6 :: b7 :: r =>
      Byte.of_bits (b0, (b1, (b2, (b3, (b4, (b5, (b6, b7))))))) :: bytes_of_bits r
  | _ => []
  end.

(* flip bit number k of a bit string / of a byte string (bit k = bit (k mod 8),
   counted from the least significant, of byte (k / 8)) *)
Fixpoint flip_nth (k : nat) (bs : list bool) : list bool :=
  match bs with
  | [] => []
  | b :: r => match k with O => negb b :: r | S k' => b :: flip_nth k' r end
  end.

Definition flip_bit (k : nat) (l : list byte) : list byte :=
  bytes_of_bits (flip_nth k (bits_of_bytes l)).

(* ---- CRC-32 -------------------------------------------------------------------- *)

Definition POLY : N := 0xEDB88320%N.

(* one message bit into the 32-bit register *)
Definition step_bit (s : N) (b : bool) : N :=
  let x := xorb (N.odd s) b in
  N.lxor (N.shiftr s 1) (if x then POLY else 0%N).

Definition feed (s : N) (bits : list bool) : N := fold_left step_bit bits s.

Definition crc32 (l : list byte) : N :=
  N.lxor (feed 0xFFFFFFFF%N (bits_of_bytes l)) 0xFFFFFFFF%N.

(* error patterns used by the single-bit theorems *)
Fixpoint xor_bits (a b : list bool) : list bool :=
  match a, b with x :: a', y :: b' => xorb x y :: xor_bits a' b' | _, _ => [] end.

Definition unit_bits (n k : nat) : list bool := map (fun i => Nat.eqb i k) (seq 0 n).

(* the syndrome of a single-bit error at position k of an n-bit message *)
Definition syndrome (n k : nat) : N := feed 0%N (unit_bits n k).

Definition syndromes_nonzero (n : nat) : bool :=
  forallb (fun k => negb (N.eqb (syndrome n k) 0%N)) (seq 0 n).
