(* Extraction of the io models (wire grammar, encoder model, denotations).
   Run by extract/build.sh from build/extract/io.  ExtrOcamlBasic only. *)
From Coq Require Import ExtrOcamlBasic.
From Coq Require Import ZArith NArith List Strings.Byte.
From HV Require Import Lib.Dec Lib.Utf8 Model.Wire Model.WireSem Model.Enc Model.Abs.
Extraction Language OCaml.
Separate Extraction
  BinInt.Z.add BinInt.Z.mul BinInt.Z.opp BinInt.Z.div_eucl BinInt.Z.compare BinInt.Z.of_nat BinInt.Z.to_nat
  BinNat.N.add BinNat.N.mul BinNat.N.div_eucl BinInt.Z.of_N BinInt.Z.to_N
  Byte.of_N Byte.to_N
  Wire.emit Wire.parse_all Wire.parse_seq Wire.tok_ok Wire.wsize
  WireSem.denote_top WireSem.denote_seq WireSem.rinit
  Enc.enc Enc.enc_write Enc.einit Abs.abs_top
  Utf8.go_utf16Length Utf8.strict_utf8.
