(* Extraction of the C13 model (Model/Limit.v on top of Lib/Crc32.v, Model/Frame.v).  Run by
   extract/build.sh from build/extract/c13.  ExtrOcamlBasic only; N, Z, positive, nat, byte stay
   the extracted inductives. *)
From Coq Require Import ExtrOcamlBasic.
From Coq Require Import ZArith NArith List Init.Byte Strings.Byte.
From HV Require Import Lib.Crc32 Model.Frame Model.Limit.
Extraction Language OCaml.
Separate Extraction
  BinInt.Z.add BinInt.Z.mul BinInt.Z.opp BinInt.Z.div_eucl BinInt.Z.compare BinInt.Z.of_nat BinInt.Z.to_nat
  BinNat.N.add BinNat.N.mul BinNat.N.div_eucl BinInt.Z.of_N BinInt.Z.to_N
  Strings.Byte.of_N Strings.Byte.to_N
  Frame.sock_make_header Frame.udp_make_header Frame.ws_make_header
  Limit.all_transports Limit.plain Limit.pinned_sites Limit.original_sites Limit.covers Limit.framed
  Limit.admission Limit.serve Limit.truthful Limit.rejected
  Limit.reply_of Limit.client_decode Limit.caller_outcome Limit.too_large_text
  Limit.sock_reject_frame Limit.ws_reject_msg Limit.udp_reject_dgram
  Limit.sock_server_verdict Limit.ws_server_verdict Limit.udp_recv Limit.udp_server_verdict Limit.http_server_verdict
  Limit.sock_client Limit.udp_client Limit.ws_client.
