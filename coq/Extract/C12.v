(* Extraction of the C12 model (Lib/Crc32.v, Model/Frame.v).  Run by extract/build.sh from
   build/extract/c12.  ExtrOcamlBasic only; N, Z, positive, nat, byte stay the extracted
   inductives. *)
From Coq Require Import ExtrOcamlBasic.
From Coq Require Import ZArith NArith List Init.Byte Strings.Byte.
From HV Require Import Lib.Crc32 Model.Frame.
Extraction Language OCaml.
Separate Extraction
  BinInt.Z.add BinInt.Z.mul BinInt.Z.opp BinInt.Z.div_eucl BinInt.Z.compare BinInt.Z.of_nat BinInt.Z.to_nat
  BinNat.N.add BinNat.N.mul BinNat.N.div_eucl BinInt.Z.of_N BinInt.Z.to_N
  Strings.Byte.of_N Strings.Byte.to_N
  Crc32.crc32 Crc32.flip_bit Crc32.byte_of_N
  Frame.sock_make_header Frame.sock_parse_header Frame.sock_frame Frame.recv_frames
  Frame.udp_make_header Frame.udp_parse_header Frame.udp_send Frame.udp_server_run
  Frame.udp_client_recv Frame.udp_run Frame.udp_step_fixed Frame.udp_zero_buffer Frame.UDP_BUFFER
  Frame.ws_make_header Frame.ws_frame Frame.ws_recv
  Frame.http_server_recv Frame.http_client_recv Frame.http_server_recv_fixed
  Frame.http_server_recv_limited Frame.http_server_recv_lim Frame.udp_transport Frame.udp_reply
  Frame.client_index Frame.UDP_INDEX_MASK Frame.SOCK_INDEX_MASK.
