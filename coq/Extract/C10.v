(* Extraction of the C10 model.  Run by extract/build.sh from build/extract/c10.
   ExtrOcamlBasic only; N, Z, positive, nat stay the extracted inductives. *)
From Coq Require Import ExtrOcamlBasic.
From Coq Require Import ZArith NArith List.
From HV Require Import Model.Mux Model.CallLife.
Extraction Language OCaml.
Separate Extraction
  BinInt.Z.add BinInt.Z.mul BinInt.Z.opp BinInt.Z.div_eucl BinInt.Z.compare BinInt.Z.of_nat BinInt.Z.to_nat
  BinNat.N.add BinNat.N.mul BinNat.N.div_eucl BinInt.Z.of_N BinInt.Z.to_N
  Mux.mask31 Mux.mask15
  CallLife.init CallLife.step CallLife.run CallLife.guard_step CallLife.no_late_store_step CallLife.no_reuse_step
  CallLife.stuck_b CallLife.all_done CallLife.pending_total CallLife.closer_pending CallLife.listening
  CallLife.sender_parked_forever.
