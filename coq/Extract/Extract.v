(* Extraction of the executable models to OCaml.  Run by setup/check from
   build/extract (files land in the current directory).  ExtrOcamlBasic only:
   bool, option, list, prod, unit, sumbool map to OCaml natives; N, Z, positive,
   nat, byte stay the extracted inductives.  No Extract Constant. *)
From Coq Require Import ExtrOcamlBasic.
From Coq Require Import ZArith NArith List.
From HV Require Import Model.Breaker.
Extraction Language OCaml.
Set Extraction Output Directory ".".
Separate Extraction
  BinInt.Z.add BinInt.Z.mul BinInt.Z.opp BinInt.Z.div_eucl BinInt.Z.compare BinInt.Z.of_nat BinInt.Z.to_nat
  BinNat.N.add BinNat.N.mul BinNat.N.div_eucl BinInt.Z.of_N BinInt.Z.to_N
  Breaker.run Breaker.run_dec Breaker.spec_run Breaker.abs Breaker.init Breaker.crun.
