(* Extraction of the C08 models (call model on top of the codec model).
   Run by extract/build.sh from build/extract/c08.  ExtrOcamlBasic only. *)
From Coq Require Import ExtrOcamlBasic.
From Coq Require Import ZArith NArith List Strings.Byte.
From HV Require Import Lib.Dec Lib.Utf8 Model.Wire Model.WireSem Model.Enc Model.Codec Model.Call.
Extraction Language OCaml.
Separate Extraction
  BinInt.Z.add BinInt.Z.mul BinInt.Z.opp BinInt.Z.div_eucl BinInt.Z.compare BinInt.Z.of_nat BinInt.Z.to_nat
  BinNat.N.add BinNat.N.mul BinNat.N.div_eucl BinInt.Z.of_N BinInt.Z.to_N
  Byte.of_N Byte.to_N
  Wire.emit Wire.parse_all Wire.tok_ok
  Codec.emit_ops Codec.radd Codec.lookup Codec.param_types Codec.shape Codec.cant_find Codec.error_text
  Codec.client_encode Codec.service_decode Codec.service_encode Codec.client_decode
  Call.invoke Call.proxy_call Call.proxy_in Call.strip_ctx Call.plain Call.mangle Call.field_path Call.proxy_out
  Call.execute Call.handle.
