(* Extraction of the C07 models (codec model on top of the io models).
   Run by extract/build.sh from build/extract/c07.  ExtrOcamlBasic only. *)
From Coq Require Import ExtrOcamlBasic.
From Coq Require Import ZArith NArith List Strings.Byte.
From HV Require Import Lib.Dec Lib.Utf8 Model.Wire Model.WireSem Model.Enc Model.Codec.
Extraction Language OCaml.
Separate Extraction
  BinInt.Z.add BinInt.Z.mul BinInt.Z.opp BinInt.Z.div_eucl BinInt.Z.compare BinInt.Z.of_nat BinInt.Z.to_nat
  BinNat.N.add BinNat.N.mul BinNat.N.div_eucl BinInt.Z.of_N BinInt.Z.to_N
  Byte.of_N Byte.to_N
  Wire.emit Wire.parse_all Wire.tok_ok
  Codec.emit_ops Codec.strip Codec.parse_msg Codec.scopes Codec.dscopes Codec.scope_closed Codec.readable
  Codec.radd Codec.lookup Codec.param_types Codec.shape
  Codec.client_encode Codec.service_decode Codec.service_encode Codec.client_decode
  Codec.jrequest_of Codec.jclient_encode Codec.jservice_decode Codec.jresponse_of Codec.jservice_encode
  Codec.jclient_decode Codec.jerr_text Codec.cant_find Codec.error_text.
