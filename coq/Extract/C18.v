(* Extraction of the C18 model.  Run by extract/build.sh from build/extract/c18.
   ExtrOcamlBasic only; N, Z, positive, nat stay the extracted inductives. *)
From Coq Require Import ExtrOcamlBasic.
From Coq Require Import ZArith NArith List.
From HV Require Import Model.Balance.
Extraction Language OCaml.
Separate Extraction
  BinInt.Z.add BinInt.Z.mul BinInt.Z.opp BinInt.Z.div_eucl BinInt.Z.compare BinInt.Z.of_nat BinInt.Z.to_nat
  BinNat.N.add BinNat.N.mul BinNat.N.div_eucl BinInt.Z.of_N BinInt.Z.to_N
  Balance.run Balance.run_obs Balance.run_cfg
  Balance.rr_machine Balance.rnd_machine Balance.la_machine Balance.wrr_machine
  Balance.ng_machine Balance.wrand_machine Balance.wla_machine
  Balance.rr_init Balance.wrr_new Balance.ng_new Balance.wla_new Balance.mk_weighted
  Balance.rr_crun Balance.wrr_run Balance.ng_run_ok Balance.rr_run.
