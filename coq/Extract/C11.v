(* Extraction of the C11 model (Model/Panic.v over the regenerated Gen/RecoverTable.v).
   Run by extract/build.sh from build/extract/c11.  ExtrOcamlBasic only: Coq strings stay the
   extracted inductive (String0.string of Ascii.ascii), converted by hand in drv_c11.ml. *)
From Coq Require Import ExtrOcamlBasic.
From Coq Require Import ZArith NArith List String.
From HV Require Import Gen.RecoverTable Model.Panic.
Extraction Language OCaml.
(* module names only: keep Coq's String/List from shadowing OCaml's in the shared glue *)
Extraction Blacklist String List.
Separate Extraction
  BinInt.Z.add BinInt.Z.mul BinInt.Z.opp BinInt.Z.div_eucl BinInt.Z.compare BinInt.Z.of_nat BinInt.Z.to_nat
  BinNat.N.add BinNat.N.mul BinNat.N.div_eucl BinInt.Z.of_N BinInt.Z.to_N
  RecoverTable.table Panic.find_cell Panic.cells Panic.cell_name Panic.verdict_of Panic.verdict_name
  Panic.recovering_frame Panic.stack_names Panic.applicable Panic.escaped Panic.contained
  Panic.table_accounted Panic.goroutines_present Panic.unresolved_entries
  Panic.format_shielded Panic.format_total Panic.during_teardown_ok Panic.udp_max_body.
