(* Extraction of the C15 model.  Run by extract/build.sh from build/extract/c15.
   ExtrOcamlBasic only; N, Z, positive, nat stay the extracted inductives. *)
From Coq Require Import ExtrOcamlBasic.
From Coq Require Import ZArith NArith List.
From HV Require Import Model.Onion.
Extraction Language OCaml.
Separate Extraction
  BinInt.Z.add BinInt.Z.mul BinInt.Z.opp BinInt.Z.div_eucl BinInt.Z.compare BinInt.Z.of_nat BinInt.Z.to_nat
  BinNat.N.add BinNat.N.mul BinNat.N.div_eucl BinInt.Z.of_N BinInt.Z.to_N
  Onion.run Onion.spec_run Onion.abs Onion.sys_init Onion.ssys_init Onion.clo_insts
  Onion.read_handler Onion.layer_pm Onion.spec_list Onion.layers
  Onion.atomize Onion.script_states Onion.crun Onion.resolve.
