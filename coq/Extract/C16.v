(* Extraction of the C16 model.  Run by extract/build.sh from build/extract/c16.
   ExtrOcamlBasic only; N, Z, positive, nat stay the extracted inductives. *)
From Coq Require Import ExtrOcamlBasic.
From Coq Require Import ZArith NArith List.
From HV Require Import Model.Cluster.
Extraction Language OCaml.
Separate Extraction
  BinInt.Z.add BinInt.Z.mul BinInt.Z.opp BinInt.Z.div_eucl BinInt.Z.compare BinInt.Z.of_nat BinInt.Z.to_nat
  BinNat.N.add BinNat.N.mul BinNat.N.div_eucl BinInt.Z.of_N BinInt.Z.to_N
  Cluster.new Cluster.new_default Cluster.failover_config Cluster.failtry_config Cluster.failfast_config
  Cluster.run_calls Cluster.run_calls_lit Cluster.get_index
  Cluster.forking Cluster.fork_lts Cluster.passthrough Cluster.bcast_run Cluster.bcast_lts Cluster.all_done.
