(* Extraction of the C09 model.  Run by extract/build.sh from build/extract/c09.
   ExtrOcamlBasic only; N, Z, positive, nat stay the extracted inductives. *)
From Coq Require Import ExtrOcamlBasic.
From Coq Require Import ZArith NArith List.
From HV Require Import Model.Mux.
Extraction Language OCaml.
Separate Extraction
  BinInt.Z.add BinInt.Z.mul BinInt.Z.opp BinInt.Z.div_eucl BinInt.Z.compare BinInt.Z.of_nat BinInt.Z.to_nat
  BinNat.N.add BinNat.N.mul BinNat.N.div_eucl BinInt.Z.of_N BinInt.Z.to_N
  Mux.init Mux.step Mux.run Mux.cfg_socket Mux.cfg_udp Mux.cfg_udp_old Mux.cfg_reverse Mux.c_find Mux.t_find
  Mux.no_reuse_step Mux.window_step Mux.registers Mux.others_harmless Mux.others_near Mux.harmless Mux.dead
  Mux.own_b Mux.orphan_b Mux.index_of.
