(* Extraction of the C17 models.  Run by extract/build.sh from build/extract/c17.
   ExtrOcamlBasic only; N, Z, positive, nat stay the extracted inductives. *)
From Coq Require Import ExtrOcamlBasic.
From Coq Require Import ZArith NArith List.
From HV Require Import Model.Sem Model.Rate.
Extraction Language OCaml.
Separate Extraction
  BinInt.Z.add BinInt.Z.mul BinInt.Z.opp BinInt.Z.div_eucl BinInt.Z.compare BinInt.Z.of_nat BinInt.Z.to_nat
  BinNat.N.add BinNat.N.mul BinNat.N.div_eucl BinInt.Z.of_N BinInt.Z.to_N
  Sem.sem_init Sem.step Sem.run Sem.run_upto Sem.running Sem.holders Sem.all_done
  Rate.acquire Rate.q_acquire Rate.q_final Rate.required_wait Rate.final Rate.trace Rate.granted_tokens Rate.grant_time
  Rate.rinit Rate.rstep Rate.rrun Rate.atomic_sched Rate.log_granted_tokens Rate.g_time Rate.all_idle.
