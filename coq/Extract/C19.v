(* Extraction of the C19 model.  Run by extract/build.sh from build/extract/c19.
   ExtrOcamlBasic only; N, Z, positive, nat stay the extracted inductives. *)
From Coq Require Import ExtrOcamlBasic.
From Coq Require Import ZArith NArith List.
From HV Require Import Model.Push.
Extraction Language OCaml.
Separate Extraction
  BinInt.Z.add BinInt.Z.mul BinInt.Z.opp BinInt.Z.div_eucl BinInt.Z.compare BinInt.Z.of_nat BinInt.Z.to_nat
  BinNat.N.add BinNat.N.mul BinNat.N.div_eucl BinInt.Z.of_N BinInt.Z.to_N
  Push.init Push.init_fixed Push.step Push.run Push.hazard Push.is_timeout Push.run_avoiding Push.poll_result
  Push.dmsgs Push.live Push.cacc Push.poll_active.
