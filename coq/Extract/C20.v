(* Extraction of the C20 model.  Run by extract/build.sh from build/extract/c20.
   ExtrOcamlBasic only; N, Z, positive, nat stay the extracted inductives. *)
From Coq Require Import ExtrOcamlBasic.
From Coq Require Import ZArith NArith List.
From HV Require Import Model.Breaker.
Extraction Language OCaml.
Separate Extraction
  BinInt.Z.add BinInt.Z.mul BinInt.Z.opp BinInt.Z.div_eucl BinInt.Z.compare BinInt.Z.of_nat BinInt.Z.to_nat
  BinNat.N.add BinNat.N.mul BinNat.N.div_eucl BinInt.Z.of_N BinInt.Z.to_N
  Breaker.run Breaker.run_dec Breaker.spec_run Breaker.abs Breaker.init Breaker.crun.
