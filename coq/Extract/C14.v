(* Extraction of the C14 models.  Run by extract/build.sh from build/extract/c14.
   ExtrOcamlBasic only; N, Z, positive, nat stay the extracted inductives. *)
From Coq Require Import ExtrOcamlBasic.
From Coq Require Import ZArith NArith List Init.Byte Strings.Byte.
From HV Require Import Model.Pool Model.Registry.
Extraction Language OCaml.
Separate Extraction
  BinInt.Z.add BinInt.Z.mul BinInt.Z.opp BinInt.Z.div_eucl BinInt.Z.compare BinInt.Z.of_nat BinInt.Z.to_nat
  BinNat.N.add BinNat.N.mul BinNat.N.div_eucl BinInt.Z.of_N BinInt.Z.to_N
  Strings.Byte.of_N Strings.Byte.to_N
  Pool.eget Pool.c_new_enc Pool.c_new_encoder Pool.cv_enc_step Pool.cv_free_enc Pool.as_found
  Pool.dget Pool.c_new_dec Pool.c_new_decoder Pool.c_new_decoder_from_reader Pool.cv_dec_step Pool.cv_free_dec
  Pool.own_decode Pool.all_owned Pool.view_api_own Pool.safe_api_own
  Registry.init Registry.step Registry.run Registry.finished Registry.isolated Registry.seq_out
  Registry.others_built.
