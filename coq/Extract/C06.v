(* Extraction of the decoder model (C06, decoder half of C01).  ExtrOcamlBasic only. *)
From Coq Require Import ExtrOcamlBasic.
From Coq Require Import ZArith NArith List Strings.Byte.
From HV Require Import Lib.Dec Lib.Utf8 Model.Wire Model.WireSem Model.Enc Model.DecAct Model.DecVal Model.DecSpec.
Extraction Language OCaml.
Separate Extraction
  BinInt.Z.add BinInt.Z.mul BinInt.Z.opp BinInt.Z.div_eucl BinInt.Z.compare BinInt.Z.of_nat BinInt.Z.to_nat
  BinNat.N.add BinNat.N.mul BinNat.N.div_eucl BinInt.Z.of_N BinInt.Z.to_N
  Byte.of_N Byte.to_N
  Wire.emit Wire.parse_all Wire.tok_ok Wire.wsize
  WireSem.denote_top
  DecVal.dec_top DecSpec.representable DecSpec.judge DecSpec.spec_fuel.
