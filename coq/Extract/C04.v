(* Extraction of the C04 model.  Run by extract/build.sh from build/extract/c04.
   ExtrOcamlBasic only; byte, N, Z, positive, nat stay the extracted inductives. *)
From Coq Require Import ExtrOcamlBasic.
From Coq Require Import ZArith NArith List Init.Byte.
From HV Require Import Model.DecStream Model.DecBytes.
Extraction Language OCaml.
Separate Extraction
  BinInt.Z.add BinInt.Z.mul BinInt.Z.opp BinInt.Z.div_eucl BinInt.Z.compare BinInt.Z.of_nat BinInt.Z.to_nat
  BinNat.N.add BinNat.N.mul BinNat.N.div_eucl BinInt.Z.of_N BinInt.Z.to_N
  Byte.of_N Byte.to_N
  DecBytes.unmarshal DecBytes.service_decode DecBytes.client_decode DecBytes.interp DecBytes.hazards
  DecBytes.fuel_for DecBytes.depth DecBytes.has_err DecBytes.mkfx DecBytes.mkm.
