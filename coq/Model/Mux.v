(* Model of the matching of responses to pending calls (C09):
     rpc/socket/transport.go, rpc/websocket/transport.go, rpc/udp/transport.go   (conn)
     rpc/plugins/reverse/caller.go                                               (Caller)
   Executable definitions only; proofs live in Proofs/MuxProofs.v.

   The Go text (identical in the three transports but for the mask):

     type conn struct { requests chan data; results map[int]chan data; lock sync.Mutex; counter int32; ... }

     func (c *conn) store(index, resultChan)   { lock; c.results[index] = resultChan; unlock }        // OVERWRITES
     func (c *conn) delete(index)              { lock; delete(c.results, index); unlock }
     func (c *conn) loadAndDelete(index)       { lock; if ch, ok = c.results[index]; ok { delete } unlock; return }
     func (c *conn) rangeAndClean(f)           { lock; for len(results) > 0 { take all; unlock; f each; lock }; unlock }

     func (c *conn) Transport(ctx, request) (response, err) {
         index := int(atomic.AddInt32(&c.counter, 1) & MASK)      // MASK = 0x7fffffff socket, websocket; 0x7fff udp
         resultChan := make(chan data, 1)
         c.store(index, resultChan)
         select { case <-ctx.Done(): c.delete(index); return nil, ctx.Err()
                  case c.requests <- data{index, request}:
                  case res := <-resultChan: return res.Body, res.Error }
         select { case <-ctx.Done(): c.delete(index); return nil, ctx.Err()
                  case res := <-resultChan: return res.Body, res.Error } }

     receive():  ... if resultChan, loaded := c.loadAndDelete(index); loaded { resultChan <- data{index, body} }
     Close(err): ... c.rangeAndClean(func(index, resultChan) { resultChan <- data{Index: index, Error: err} })

   rpc/plugins/reverse/caller.go, InvokeContext (one Caller; [id] is the provider the call goes to):

         index := int(atomic.AddInt32(&c.counter, 1) & 0x7fffffff)   // ONE counter for all provider ids
         calls(id).Append(newCall(index, name, args))                // queued for the provider BEFORE ...
         results(id).Set(index, result)                              // ... the result channel is registered
         c.response(id)
         select { case <-ctx.Done(): calls.Delete(index); results.Delete(index); return nil, ErrTimeout
                  case result := <-result: ... }
     end(ctx, results): for each rv: if ch := results(id).GetAndDelete(rv.Index()); ch != nil { ch <- rv }

   Both are instances of one labelled transition system.  The pending table is keyed by
   (destination id, index); the transports use destination 0 only.  The int32 counter is an
   unbounded Z here: Go's AddInt32 wraps modulo 2^32 and the mask keeps the low 31 (15) bits, so
   the index is (number of calls so far) mod 2^31 (2^15) either way, because 2^32 is a multiple
   of mask+1.

   Atomic steps: one critical section of conn.lock, one atomic.AddInt32, one channel operation.
   The per-entry sends of rangeAndClean go to channels of capacity one that nobody else sends
   to, so they are merged with the critical section that removed the entries. *)
From Coq Require Import List ZArith Bool.
Import ListNotations.
Open Scope Z_scope.

(* ------------------------------------------------------------------ association lists *)
Section Assoc.
  Variables (K A : Type) (eqb : K -> K -> bool).

  Fixpoint a_find (k : K) (l : list (K * A)) : option A :=
    match l with
    | [] => None
    | (j, a) :: r => if eqb k j then Some a else a_find k r
    end.

  Fixpoint a_remove (k : K) (l : list (K * A)) : list (K * A) :=
    match l with
    | [] => []
    | (j, a) :: r => if eqb k j then a_remove k r else (j, a) :: a_remove k r
    end.

  (* m[k] = a : replaces whatever was there *)
  Definition a_set (k : K) (a : A) (l : list (K * A)) : list (K * A) := (k, a) :: a_remove k l.

  (* in-place update of the first binding of k (no-op when absent) *)
  Fixpoint a_upd (k : K) (f : A -> A) (l : list (K * A)) : list (K * A) :=
    match l with
    | [] => []
    | (j, a) :: r => if eqb k j then (j, f a) :: r else (j, a) :: a_upd k f r
    end.
End Assoc.
Arguments a_find {K A} eqb k l.
Arguments a_remove {K A} eqb k l.
Arguments a_set {K A} eqb k a l.
Arguments a_upd {K A} eqb k f l.

(* ------------------------------------------------------------------ the pending table *)
Definition key := (Z * Z)%type.                 (* (destination id, index) *)
Definition keqb (a b : key) : bool := (fst a =? fst b) && (snd a =? snd b).

Definition table := list (key * Z).             (* key |-> caller that registered it *)
Definition t_find (i : key) (t : table) : option Z := a_find keqb i t.
Definition t_store (i : key) (k : Z) (t : table) : table := a_set keqb i k t.        (* store: overwrites *)
Definition t_delete (i : key) (t : table) : table := a_remove keqb i t.              (* delete *)
Definition t_load_delete (i : key) (t : table) : option Z * table :=                 (* loadAndDelete *)
  (a_find keqb i t, a_remove keqb i t).

Definition mask31 : Z := 2147483647.            (* 0x7fffffff *)
Definition mask15 : Z := 32767.                 (* 0x7fff *)

(* index := int(atomic.AddInt32(&c.counter, 1) & MASK), given the counter after the add *)
Definition index_of (counter' mask : Z) : Z := Z.land counter' mask.

(* ------------------------------------------------------------------ the C09 system *)
Record cfg := {
  mask : Z;
  early_enq : bool;    (* reverse.Caller queues the call for the peer before registering the result channel *)
  skip_pending : bool  (* store refuses an index that a pending call holds and the caller draws the next one
                          (rpc/udp since 7acbe6f) *)
}.
Definition cfg_socket : cfg := {| mask := mask31; early_enq := false; skip_pending := false |}.   (* also websocket *)
Definition cfg_udp : cfg := {| mask := mask15; early_enq := false; skip_pending := true |}.
Definition cfg_udp_old : cfg := {| mask := mask15; early_enq := false; skip_pending := false |}.  (* udp before 7acbe6f *)
Definition cfg_reverse : cfg := {| mask := mask31; early_enq := true; skip_pending := false |}.

(* what Transport returned: a response body (with its provenance: the request the peer was
   answering when it produced it, None for a frame the peer made up), the error the connection
   was closed with, or ctx.Err() *)
Inductive outcome := OResp (prov : option Z) | OErr | OCancel.

Inductive status :=
| SAlloc                    (* index allocated, result channel not registered yet *)
| SStored                   (* registered; in one of the two selects *)
| SDone (o : outcome).      (* Transport has returned *)

(* one caller; its identity is the value of the counter it drew (unique per connection / Caller) *)
Record caller := {
  ckey : key;               (* (destination, index) *)
  cdraw : Z;                (* the counter value of its (latest) draw: index = cdraw & mask *)
  cenq : bool;              (* the request has been handed to the sender / queued for the provider *)
  cbox : option outcome;    (* content of resultChan (capacity 1) *)
  cstat : status
}.

Record mstate := {
  counter : Z;
  pending : table;                          (* conn.results / resultMap(id).results *)
  callers : list (Z * caller);              (* newest first *)
  answerable : list Z;                      (* requests the peer holds and may still answer *)
  inflight : list (key * option Z)          (* replies on their way to the receiver: index, provenance *)
}.

Definition init : mstate :=
  {| counter := 0; pending := []; callers := []; answerable := []; inflight := [] |}.

Inductive label :=
| LAlloc (dest : Z)          (* atomic.AddInt32 & mask; the new caller's identity is the new counter value *)
| LStore (k : Z)             (* c.store(index, resultChan) *)
| LEnq (k : Z)               (* c.requests <- data{...} accepted by the sender; calls.Append in reverse *)
| LAnswer (k : Z)            (* the peer emits a reply to request k (again: a duplicate) *)
| LForget (k : Z)            (* the peer is done with request k for good *)
| LStray (i : key)           (* the peer emits a reply carrying an index of its own invention *)
| LDeliver (n : nat)         (* the receiver handles the n-th reply in flight: loadAndDelete + send *)
| LTake (k : Z)              (* case res := <-resultChan *)
| LCancel (k : Z)            (* case <-ctx.Done(): c.delete(index) *)
| LClose.                    (* Close(err): rangeAndClean *)

Definition c_find (k : Z) (st : mstate) : option caller := a_find Z.eqb k (callers st).

Definition set_callers (st : mstate) (cs : list (Z * caller)) : mstate :=
  {| counter := counter st; pending := pending st; callers := cs;
     answerable := answerable st; inflight := inflight st |}.

Definition upd_caller (k : Z) (f : caller -> caller) (st : mstate) : mstate :=
  set_callers st (a_upd Z.eqb k f (callers st)).

Definition set_pending (st : mstate) (t : table) : mstate :=
  {| counter := counter st; pending := t; callers := callers st;
     answerable := answerable st; inflight := inflight st |}.

Definition with_box (o : option outcome) (c : caller) : caller :=
  {| ckey := ckey c; cdraw := cdraw c; cenq := cenq c; cbox := o; cstat := cstat c |}.
Definition with_stat (s : status) (c : caller) : caller :=
  {| ckey := ckey c; cdraw := cdraw c; cenq := cenq c; cbox := cbox c; cstat := s |}.
Definition with_enq (c : caller) : caller :=
  {| ckey := ckey c; cdraw := cdraw c; cenq := true; cbox := cbox c; cstat := cstat c |}.
Definition with_draw (n : Z) (m : Z) (c : caller) : caller :=
  {| ckey := (fst (ckey c), index_of n m); cdraw := n; cenq := cenq c; cbox := cbox c; cstat := cstat c |}.

Fixpoint take_nth {X} (n : nat) (l : list X) : option (X * list X) :=
  match l, n with
  | [], _ => None
  | x :: r, O => Some (x, r)
  | x :: r, S m => match take_nth m r with Some (y, r') => Some (y, x :: r') | None => None end
  end.

Fixpoint remove_z (k : Z) (l : list Z) : list Z :=
  match l with [] => [] | x :: r => if x =? k then remove_z k r else x :: remove_z k r end.

Fixpoint mem_z (k : Z) (l : list Z) : bool :=
  match l with [] => false | x :: r => (x =? k) || mem_z k r end.

(* rangeAndClean: every entry's channel receives data{Error: err} *)
Fixpoint fail_all (t : table) (cs : list (Z * caller)) : list (Z * caller) :=
  match t with
  | [] => cs
  | (_, k) :: r => fail_all r (a_upd Z.eqb k (with_box (Some OErr)) cs)
  end.

Definition step (c : cfg) (st : mstate) (l : label) : option mstate :=
  match l with
  | LAlloc dest =>
      let n := counter st + 1 in
      Some {| counter := n; pending := pending st;
              callers := (n, {| ckey := (dest, index_of n (mask c)); cdraw := n; cenq := false; cbox := None; cstat := SAlloc |})
                         :: callers st;
              answerable := answerable st; inflight := inflight st |}
  | LStore k =>
      match c_find k st with
      | Some cr =>
          match cstat cr with
          | SAlloc =>
              if skip_pending c && (match t_find (ckey cr) (pending st) with Some _ => true | None => false end) then
                (* store reports false: nothing is registered, the caller draws the next index *)
                if cenq cr then None
                else
                  let n := counter st + 1 in
                  Some {| counter := n; pending := pending st;
                          callers := a_upd Z.eqb k (with_draw n (mask c)) (callers st);
                          answerable := answerable st; inflight := inflight st |}
              else Some (set_pending (upd_caller k (with_stat SStored) st) (t_store (ckey cr) k (pending st)))
          | _ => None
          end
      | None => None
      end
  | LEnq k =>
      match c_find k st with
      | Some cr =>
          let ready := match cstat cr with
                       | SStored => true
                       | SAlloc => early_enq c
                       | SDone _ => false
                       end in
          if ready && negb (cenq cr) then
            let st' := upd_caller k with_enq st in
            Some {| counter := counter st'; pending := pending st'; callers := callers st';
                    answerable := k :: answerable st'; inflight := inflight st' |}
          else None
      | None => None
      end
  | LAnswer k =>
      if mem_z k (answerable st) then
        match c_find k st with
        | Some cr => Some {| counter := counter st; pending := pending st; callers := callers st;
                             answerable := answerable st; inflight := inflight st ++ [(ckey cr, Some k)] |}
        | None => None
        end
      else None
  | LForget k =>
      Some {| counter := counter st; pending := pending st; callers := callers st;
              answerable := remove_z k (answerable st); inflight := inflight st |}
  | LStray i =>
      Some {| counter := counter st; pending := pending st; callers := callers st;
              answerable := answerable st; inflight := inflight st ++ [(i, None)] |}
  | LDeliver n =>
      match take_nth n (inflight st) with
      | Some ((i, prov), rest) =>
          let '(holder, t') := t_load_delete i (pending st) in
          let st1 := {| counter := counter st; pending := t'; callers := callers st;
                        answerable := answerable st; inflight := rest |} in
          match holder with
          | Some k => Some (upd_caller k (with_box (Some (OResp prov))) st1)
          | None => Some st1                              (* not loaded: the frame is dropped *)
          end
      | None => None
      end
  | LTake k =>
      match c_find k st with
      | Some cr =>
          match cstat cr, cbox cr with
          | SStored, Some o => Some (upd_caller k (fun x => with_stat (SDone o) (with_box None x)) st)
          | _, _ => None
          end
      | None => None
      end
  | LCancel k =>
      match c_find k st with
      | Some cr =>
          match cstat cr with
          | SStored => Some (set_pending (upd_caller k (with_stat (SDone OCancel)) st)
                                         (t_delete (ckey cr) (pending st)))
          | _ => None
          end
      | None => None
      end
  | LClose =>
      Some (set_pending (set_callers st (fail_all (pending st) (callers st))) [])
  end.

Fixpoint run (c : cfg) (st : mstate) (tr : list label) : option mstate :=
  match tr with
  | [] => Some st
  | l :: tr' => match step c st l with Some st' => run c st' tr' | None => None end
  end.

(* ------------------------------------------------------------------ the guard *)

(* caller k is dead: Transport has returned and the peer neither holds the request any more
   nor has a reply to it on the way *)
Definition has_reply_for (k : Z) (fl : list (key * option Z)) : bool :=
  existsb (fun r => match snd r with Some k' => k' =? k | None => false end) fl.

Definition dead (st : mstate) (k : Z) (cr : caller) : bool :=
  match cstat cr with
  | SDone _ => negb (mem_z k (answerable st)) && negb (has_reply_for k (inflight st))
  | _ => false
  end.

(* caller k cannot be confused with anybody: it has only drawn an index (neither registered nor
   handed to the peer), or it is dead *)
Definition harmless (st : mstate) (k : Z) (cr : caller) : bool :=
  match cstat cr with
  | SAlloc => negb (cenq cr)
  | _ => false
  end || dead st k cr.

(* will this LStore register (true) or be refused and redraw (false)? *)
Definition registers (c : cfg) (st : mstate) (cr : caller) : bool :=
  negb (skip_pending c && (match t_find (ckey cr) (pending st) with Some _ => true | None => false end)).

Definition others_harmless (st : mstate) (k : Z) (cr : caller) : bool :=
  forallb (fun kc => (fst kc =? k) || negb (keqb (ckey (snd kc)) (ckey cr)) || harmless st (fst kc) (snd kc)) (callers st).

(* no_reuse: a caller registers under an index (or, in reverse, hands its call to the provider before
   registering) only when every other call that drew the same index is harmless *)
Definition no_reuse_step (c : cfg) (st : mstate) (l : label) : bool :=
  match l with
  | LStore k =>
      match c_find k st with
      | Some cr => if registers c st cr then others_harmless st k cr else true
      | None => true
      end
  | LEnq k =>
      match c_find k st with
      | Some cr => match cstat cr with SAlloc => others_harmless st k cr | _ => true end
      | None => true
      end
  | _ => true
  end.

(* the sufficient condition of C09_no_reuse_bound: every other call that is not harmless made its draw
   fewer than mask+1 draws away from this caller's *)
Definition others_near (c : cfg) (st : mstate) (k : Z) (cr : caller) : bool :=
  forallb (fun kc => (fst kc =? k) ||
                     ((0 <? Z.abs (cdraw cr - cdraw (snd kc))) && (Z.abs (cdraw cr - cdraw (snd kc)) <=? mask c)) ||
                     harmless st (fst kc) (snd kc))
          (callers st).

Definition window_step (c : cfg) (st : mstate) (l : label) : bool :=
  match l with
  | LStore k =>
      match c_find k st with
      | Some cr => if registers c st cr then others_near c st k cr else true
      | None => true
      end
  | LEnq k =>
      match c_find k st with
      | Some cr => match cstat cr with SAlloc => others_near c st k cr | _ => true end
      | None => true
      end
  | _ => true
  end.

Fixpoint guarded (g : mstate -> label -> bool) (c : cfg) (st : mstate) (tr : list label) : bool :=
  match tr with
  | [] => true
  | l :: tr' => g st l && match step c st l with Some st' => guarded g c st' tr' | None => true end
  end.

Definition no_reuse (c : cfg) := guarded (no_reuse_step c) c.
Definition window (c : cfg) := guarded (window_step c) c.

(* ------------------------------------------------------------------ what the property says *)

(* every response a caller holds or has returned was produced for that caller's own request *)
Definition own_b (st : mstate) : bool :=
  forallb (fun kc =>
    let ok o := match o with OResp (Some k') => k' =? fst kc | _ => true end in
    match cbox (snd kc) with Some o => ok o | None => true end &&
    match cstat (snd kc) with SDone o => ok o | _ => true end) (callers st).

(* ------------------------------------------------------------------ witness schedules *)

(* a complete quick call: allocated, registered, sent, answered, delivered, returned, forgotten.
   [k] must be the value the counter will take. *)
Definition quick_call (k : Z) : list label :=
  [LAlloc 0; LStore k; LEnq k; LAnswer k; LDeliver 0; LTake k; LForget k].

Fixpoint quick_calls (from : Z) (n : nat) : list label :=
  match n with
  | O => []
  | S m => quick_call from ++ quick_calls (from + 1) m
  end.

(* call 1 stays pending; [n] quick calls; then one more call draws an index; the peer answers
   request 1; the reply is delivered to whoever holds the index now *)
Definition wrap_witness (n : nat) : list label :=
  let b := 2 + Z.of_nat n in
  [LAlloc 0; LStore 1; LEnq 1] ++ quick_calls 2 n ++
  [LAlloc 0; LStore b; LEnq b; LAnswer 1; LDeliver 0; LTake b].

(* the other face of the same defect: the late call is answered first, then the reply to
   request 1 finds no entry and is dropped although caller 1 is still waiting *)
Definition wrap_witness_lost (n : nat) : list label :=
  let b := 2 + Z.of_nat n in
  [LAlloc 0; LStore 1; LEnq 1] ++ quick_calls 2 n ++
  [LAlloc 0; LStore b; LEnq b; LAnswer b; LDeliver 0; LTake b; LAnswer 1; LDeliver 0].

(* the same schedule against the repaired allocation: the late call's first store is refused, it draws the
   next index and registers there; the reply to request 1 reaches caller 1 *)
Definition wrap_witness_new (n : nat) : list label :=
  let b := 2 + Z.of_nat n in
  [LAlloc 0; LStore 1; LEnq 1] ++ quick_calls 2 n ++
  [LAlloc 0; LStore b; LStore b; LEnq b; LAnswer 1; LDeliver 0; LTake 1; LAnswer b; LDeliver 0; LTake b].

(* a caller still waiting with an empty channel whose entry is gone from the table:
   only its context can end the call *)
Definition orphan_b (st : mstate) (k : Z) : bool :=
  match c_find k st with
  | Some cr =>
      match cstat cr, cbox cr with
      | SStored, None => match t_find (ckey cr) (pending st) with
                         | Some k' => negb (k' =? k)
                         | None => true
                         end
      | _, _ => false
      end
  | None => false
  end.
