(* What a Go value means on the wire, independently of reference numbering:
   the expected denotation [abs] of a [gval] (compare with WireSem.denote of the
   bytes the implementation produced).  Shared pointers unfold to equal sub-terms;
   a pointer to a container that is still open is a [DCycle] counted in container
   levels, exactly as [denote] does for a back-reference to an open item. *)
From Coq Require Import List NArith ZArith Strings.Byte Bool.
From HV Require Import Lib.Dec Lib.Utf8 Model.Wire Model.WireSem Model.Enc.
Import ListNotations.
Open Scope Z_scope.

Record astate := {
  aopen : list (N * nat);     (* pointer identity -> depth at which its container was opened *)
  adone : list (N * dval);    (* completed pointees *)
  adepth : nat
}.

Definition ainit : astate := {| aopen := []; adone := []; adepth := 0 |}.

Fixpoint find_open (l : list (N * nat)) (a : N) : option nat :=
  match l with [] => None | (a', d) :: r => if N.eqb a a' then Some d else find_open r a end.
Fixpoint find_done (l : list (N * dval)) (a : N) : option dval :=
  match l with [] => None | (a', v) :: r => if N.eqb a a' then Some v else find_done r a end.

Definition abs_float (f : fval) : dval :=
  match f with FNaN => DNaN | FInf neg => DInf neg | FFin txt => DDouble txt end.

Definition abs_string (s : bytes) : dval := if go_utf16Length s <? 0 then DBytes s else DStr s.

Definition abs_time (y mo d h mi s ns : Z) (utc : bool) : option dval :=
  match enc_time y mo d h mi s ns utc with
  | Some (WDate y' mo' d' tm utc') => Some (DDate y' mo' d' tm utc')
  | Some (WTime h' mi' s' fr utc') => Some (DTime h' mi' s' fr utc')
  | _ => None
  end.

Fixpoint abs_seq (abs1 : astate -> gval -> option (dval * astate)) (st : astate) (vs : list gval)
  : option (list dval * astate) :=
  match vs with
  | [] => Some ([], st)
  | v :: r =>
      match abs1 st v with
      | Some (d, st1) =>
          match abs_seq abs1 st1 r with Some (ds, st2) => Some (d :: ds, st2) | None => None end
      | None => None
      end
  end.

Fixpoint interleave (fs : list bytes) (ds : list dval) : list dval :=
  match fs, ds with
  | f :: fr, d :: dr => abs_string f :: d :: interleave fr dr
  | _, _ => []
  end.

Definition enter (st : astate) : astate :=
  {| aopen := aopen st; adone := adone st; adepth := S (adepth st) |}.
Definition leave (st : astate) : astate :=
  {| aopen := aopen st; adone := adone st; adepth := pred (adepth st) |}.

(* One level of the traversal, with the recursive call [rec] abstracted (same shape as
   Enc.enc_step / Enc.enc_body, so that [abs] and [enc] consume fuel at the same rate: a
   tracked pointer and the body it points to are handled at the same level). *)
Section WithRec.
Variable rec : astate -> gval -> option (dval * astate).

(* everything except the pointer case *)
Definition abs_node (st : astate) (v : gval) : option (dval * astate) :=
  let container (mk : list dval -> dval) (vs : list gval) :=
    match abs_seq rec (enter st) vs with
    | Some (ds, st1) => Some (mk ds, leave st1)
    | None => None
    end in
  match v with
  | GNil => Some (DNull, st)
  | GBool b => Some (DBool b, st)
  | GInt _ z => Some (DInt z, st)
  | GFloat fv => Some (abs_float fv, st)
  | GComplex re im im_zero =>
      Some (if im_zero then abs_float re else DList [abs_float re; abs_float im], st)
  | GString s => Some (if (length s =? 0)%nat then DStr [] else abs_string s, st)
  | GBytes b => Some (DBytes b, st)
  | GBytes2d rows =>
      Some (DList (map (fun r => match r with Some b => DBytes b | None => DNull end) rows), st)
  | GSlice vs | GList vs => container DList vs
  | GMap kvs => container DMap kvs
  | GStruct name fields vs => container (DObj name fields) vs
  | GAnon fields vs => container (fun ds => DMap (interleave fields ds)) vs
  | GTime y mo d h mi s ns utc =>
      match abs_time y mo d h mi s ns utc with Some dv => Some (dv, st) | None => None end
  | GUuid txt => Some (DGuid txt, st)
  | GBigInt z => Some (DInt z, st)
  | GBigFloat txt => Some (DDouble txt, st)
  | GBigRat num txt => Some (match num with Some z => DInt z | None => abs_string txt end, st)
  | GError msg => Some (DErr (abs_string msg), st)
  | GPtr _ => None                      (* pointers are resolved by [abs_step] *)
  end.

Variable hp : heap.

Definition abs_step (st : astate) (v : gval) : option (dval * astate) :=
  match v with
  | GPtr a =>
      match hlookup hp a with
      | None => None
      | Some pv =>
          if tracked pv then
            match find_open (aopen st) a with
            | Some d => Some (DCycle (adepth st - d), st)
            | None =>
                match find_done (adone st) a with
                | Some dv => Some (dv, st)
                | None =>
                    let st0 := {| aopen := (a, adepth st) :: aopen st; adone := adone st; adepth := adepth st |} in
                    match abs_node st0 pv with
                    | Some (dv, st1) =>
                        Some (dv, {| aopen := aopen st; adone := (a, dv) :: adone st1; adepth := adepth st |})
                    | None => None
                    end
                end
            end
          else rec st pv               (* scalars, strings, big numbers, errors, **T: transparent *)
      end
  | _ => abs_node st v
  end.

End WithRec.

Fixpoint abs (hp : heap) (fuel : nat) (st : astate) (v : gval) {struct fuel} : option (dval * astate) :=
  match fuel with
  | O => None
  | S f => abs_step (abs hp f) hp st v
  end.

(* In simple mode there are no back-references: shared pointers are written again. *)
Definition abs_top (hp : heap) (fuel : nat) (v : gval) : option dval :=
  match abs hp fuel ainit v with Some (d, _) => Some d | None => None end.
