(* Model of rpc/plugins/limiter/concurrent_limiter.go (C17, concurrent limiter).
   Executable definitions only; proofs live in Proofs/SemProofs.v.

   The Go text:

     type ConcurrentLimiter struct { tasks chan struct{}; maxConcurrentRequests int; timeout time.Duration }
     NewConcurrentLimiter(max, timeout...)  :  tasks = make(chan struct{}, max)

     func (l *ConcurrentLimiter) Acquire(ctx) (err error) {
         if l.timeout > 0 {
             ctx, cancel := context.WithTimeout(ctx, l.timeout)
             select {
             case <-ctx.Done():          err = core.ErrTimeout
             case l.tasks <- struct{}{}:
             }
             cancel()
             return
         }
         l.tasks <- struct{}{}
         return
     }
     func (l *ConcurrentLimiter) Release() { <-l.tasks }
     func (l *ConcurrentLimiter) Handler(ctx, request, next) (response, err) {
         if err = l.Acquire(ctx); err != nil { return }
         defer l.Release()
         return next(ctx, request)
     }
     func (l *ConcurrentLimiter) ConcurrentRequests() int { return len(l.tasks) }

   The buffered channel is a counting semaphore: [chan] is len(l.tasks).  One channel
   operation is one atomic step.  A blocked operation is a step that is not enabled.
   [select] with both branches ready is a nondeterministic choice; the timer (or the
   cancellation of the parent context) is an environment event that may fire at any moment
   while the thread waits, but only when timeout > 0 (without a timeout the code does not
   look at the context at all).

   The caller's own context is a second environment event ([LCancel]: cancelled, or its
   deadline passed), possible at any moment, before, while or after the request is queued.
   With a timeout configured the select waits on a context derived from it, so a queued
   request leaves with ErrTimeout; without a timeout the blocking send ignores it: the
   event changes nothing, the request stays queued and can only go on by taking a permit. *)
From Coq Require Import List ZArith Bool.
Import ListNotations.
Open Scope Z_scope.

(* NewConcurrentLimiter(cap, tmo) *)
Record cfg := { cap : Z; tmo : Z }.

(* what next(ctx, request) does once it is reached *)
Inductive outcome := OOk | OErr | OPanic.

(* what the caller of Handler gets back *)
Inductive result :=
| RTimeout                 (* core.ErrTimeout from Acquire: next was not called *)
| ROut (o : outcome).      (* whatever next did, after the deferred Release *)

(* where one request is *)
Inductive pc :=
| PIdle                    (* Handler not entered yet *)
| PWaiting                 (* inside Acquire, at the send (or the select) *)
| PRunning                 (* send done, inside next(ctx, request) *)
| PReleasing (o : outcome) (* next returned / returned an error / panicked: the deferred
                              Release is about to receive from the channel *)
| PDone (r : result).

Record state := { chan : Z; threads : list pc }.

Definition sem_init (n : nat) : state := {| chan := 0; threads := repeat PIdle n |}.

Inductive label :=
| LEnter                   (* Handler called: reaches the send *)
| LAcquire                 (* l.tasks <- struct{}{} completes *)
| LTimeout                 (* <-ctx.Done() chosen by the select: the limiter's own timer *)
| LCancel                  (* the caller's context is cancelled / expires *)
| LEnd (o : outcome)       (* next finishes in this way *)
| LRelease.                (* deferred <-l.tasks *)

Fixpoint upd_nth {A} (n : nat) (x : A) (l : list A) : list A :=
  match l, n with
  | [], _ => []
  | _ :: r, O => x :: r
  | y :: r, S m => y :: upd_nth m x r
  end.

(* one atomic step of one request; None = not enabled *)
Definition tstep (c : cfg) (ch : Z) (p : pc) (l : label) : option (Z * pc) :=
  match p, l with
  | PIdle, LEnter => Some (ch, PWaiting)
  | PWaiting, LAcquire => if ch <? cap c then Some (ch + 1, PRunning) else None   (* send blocks when full *)
  | PWaiting, LTimeout => if tmo c >? 0 then Some (ch, PDone RTimeout) else None  (* no select without timeout *)
  | PWaiting, LCancel => if tmo c >? 0 then Some (ch, PDone RTimeout) else Some (ch, PWaiting)
  | p, LCancel => Some (ch, p)               (* not queued: the limiter is not looking *)
  | PRunning, LEnd o => Some (ch, PReleasing o)
  | PReleasing o, LRelease => if 0 <? ch then Some (ch - 1, PDone (ROut o)) else None (* receive blocks when empty *)
  | _, _ => None
  end.

Definition step (c : cfg) (s : state) (i : nat) (l : label) : option state :=
  match nth_error (threads s) i with
  | None => None
  | Some p =>
      match tstep c (chan s) p l with
      | None => None
      | Some (ch', p') => Some {| chan := ch'; threads := upd_nth i p' (threads s) |}
      end
  end.

(* a schedule: which request moves and how *)
Fixpoint run (c : cfg) (s : state) (sched : list (nat * label)) : option state :=
  match sched with
  | [] => Some s
  | (i, l) :: r => match step c s i l with None => None | Some s' => run c s' r end
  end.

(* like [run] but reports the index of the first step that is not enabled *)
Fixpoint run_upto (c : cfg) (s : state) (sched : list (nat * label)) (k : nat) : state * option nat :=
  match sched with
  | [] => (s, None)
  | (i, l) :: r => match step c s i l with None => (s, Some k) | Some s' => run_upto c s' r (S k) end
  end.

(* observables *)
Definition is_running (p : pc) : bool := match p with PRunning => true | _ => false end.
Definition is_holder (p : pc) : bool :=          (* between acquire-success and release *)
  match p with PRunning | PReleasing _ => true | _ => false end.
Definition is_done (p : pc) : bool := match p with PDone _ => true | _ => false end.
Definition is_waiting (p : pc) : bool := match p with PWaiting => true | _ => false end.

Fixpoint count (f : pc -> bool) (l : list pc) : Z :=
  match l with
  | [] => 0
  | p :: r => (if f p then 1 else 0) + count f r
  end.

Definition running (s : state) : Z := count is_running (threads s).
Definition holders (s : state) : Z := count is_holder (threads s).
Definition all_done (s : state) : bool := forallb is_done (threads s).

Definition is_cancel (l : label) : bool := match l with LCancel => true | _ => false end.
(* the steps of a schedule taken by the requests themselves or the limiter's timer *)
Definition own_steps (sched : list (nat * label)) : list (nat * label) :=
  filter (fun x => negb (is_cancel (snd x))) sched.

(* steps a request can still take: bounds the length of every schedule *)
Definition rank (p : pc) : Z :=
  match p with PIdle => 4 | PWaiting => 3 | PRunning => 2 | PReleasing _ => 1 | PDone _ => 0 end.
Fixpoint total_rank (l : list pc) : Z :=
  match l with [] => 0 | p :: r => rank p + total_rank r end.
