(* Model of the transport framing of hprose-golang (C12):
     rpc/socket/common.go  handler.go  transport.go     12-byte header, CRC over bytes 4..11
     rpc/udp/common.go     handler.go  transport.go     8-byte header, CRC over bytes 4..7,
                                                         receive buffer modelled explicitly
     rpc/websocket/common.go handler.go transport.go    4-byte index prefix per message
     rpc/http/common.go    handler.go  transport.go     readAll(body, ContentLength)
   Executable definitions only; proofs live in Proofs/FrameProofs.v.
   Go's int is 64 bits wide here (GOARCH amd64/arm64): no header arithmetic wraps, so
   lengths and indices are unbounded Z and every Go conversion byte(x) is explicit. *)
From Coq Require Import List ZArith NArith Bool Init.Byte.
From HV Require Import Lib.Crc32.
Import ListNotations.
Open Scope Z_scope.

Notation zb := byte_of_Z (only parsing).   (* Go: byte(x)        *)
Notation bz := Z_of_byte (only parsing).   (* Go: int(b), uint32(b) *)

(* header[k+3] = byte(x & 0xff); header[k+2] = byte(x >> 8 & 0xff);
   header[k+1] = byte(x >> 16 & 0xff); header[k] = byte(x >> 24 & 0xff) *)
Definition be32 (x : Z) : list byte :=
  [ zb (Z.land (Z.shiftr x 24) 255); zb (Z.land (Z.shiftr x 16) 255);
    zb (Z.land (Z.shiftr x 8) 255);  zb (Z.land x 255) ].

(* int(h[k+3]) | int(h[k+2])<<8 | int(h[k+1])<<16 | int(h[k])<<24 *)
Definition rd32 (a b c d : byte) : Z :=
  Z.lor (Z.lor (Z.lor (bz d) (Z.shiftl (bz c) 8)) (Z.shiftl (bz b) 16)) (Z.shiftl (bz a) 24).

Definition be16 (x : Z) : list byte :=
  [ zb (Z.land (Z.shiftr x 8) 255); zb (Z.land x 255) ].

Definition rd16 (a b : byte) : Z := Z.lor (bz b) (Z.shiftl (bz a) 8).

(* what parseHeader returns when the checksum does not match:
     index = -1; length = 0; return   (ok is still false) *)
Definition REJECT : Z * Z * bool := (0, -1, false).

(* the test every receive loop applies:  length == 0 && index == -1 && !ok *)
Definition is_reject (r : Z * Z * bool) : bool :=
  let '(length, index, ok) := r in (length =? 0) && (index =? -1) && negb ok.

(* ================================================================================ *)
(* rpc/socket/common.go                                                             *)

(* header[4..11] of makeHeader(length, index):
     header[4] = byte((length >> 24 & 0xff) | 0x80) ... header[7] = byte(length & 0xff)
     header[8] = byte(index >> 24 & 0xff)           ... header[11] = byte(index & 0xff) *)
Definition sock_fields (length index : Z) : list byte :=
  [ zb (Z.lor (Z.land (Z.shiftr length 24) 255) 128); zb (Z.land (Z.shiftr length 16) 255);
    zb (Z.land (Z.shiftr length 8) 255); zb (Z.land length 255) ] ++ be32 index.

(* crc := crc32.ChecksumIEEE(header[4:]); header[0..3] = crc big endian *)
Definition sock_make_header (length index : Z) : list byte :=
  let f := sock_fields length index in be32 (Z.of_N (crc32 f)) ++ f.

(* parseHeader(header [12]byte).  [None] only for an argument that is not 12 bytes long,
   which Go's type excludes (sock_parse_header_some in the proofs). *)
Definition sock_parse_header (h : list byte) : option (Z * Z * bool) :=
  match h with
  | [c0; c1; c2; c3; l0; l1; l2; l3; i0; i1; i2; i3] =>
      let index := rd32 i0 i1 i2 i3 in
      let length :=
        Z.lor (Z.lor (Z.lor (bz l3) (Z.shiftl (bz l2) 8)) (Z.shiftl (bz l1) 16))
              (Z.shiftl (Z.land (bz l0) 127) 24) in
      let crc := rd32 c0 c1 c2 c3 in
      if negb (Z.of_N (crc32 [l0; l1; l2; l3; i0; i1; i2; i3]) =? crc) then Some REJECT
      else
        (* if ok = (header[8]&0x80 == 0); !ok { index &= 0x7fffffff } *)
        let ok := Z.land (bz i0) 128 =? 0 in
        Some (length, if ok then index else Z.land index 2147483647, ok)
  | _ => None
  end.

(* one frame on the wire: conn.Write(header[:]); conn.Write(body) *)
Definition sock_frame (index : Z) (body : list byte) : list byte :=
  sock_make_header (Z.of_nat (length body)) index ++ body.

(* io.ReadAtLeast(conn, buf, len(buf)) on the bytes still to come; TCP hands over a byte
   sequence, the grouping into segments/writes is invisible to the reader
   (take_chunks below makes that explicit). *)
Definition read_exact (n : nat) (s : list byte) : option (list byte * list byte) :=
  if (length s <? n)%nat then None else Some (firstn n s, skipn n s).

(* conn.Read on a connection whose data arrives in chunks: io.ReadAtLeast keeps calling
   Read(buf[got:]) until n bytes are in; a chunk larger than what is still wanted stays
   in the kernel buffer for the next read. *)
Fixpoint take_chunks (n : nat) (cs : list (list byte)) : option (list byte * list (list byte)) :=
  match n with
  | O => Some ([], cs)
  | _ =>
    match cs with
    | [] => None
    | c :: cs' =>
        if (length c <=? n)%nat then
          match take_chunks (n - length c) cs' with
          | Some (d, r) => Some (c ++ d, r)
          | None => None
          end
        else Some (firstn n c, skipn n c :: cs')
    end
  end.

Inductive side :=
| Server (max : Z)       (* Handler.receive; max = Service.MaxRequestLength *)
| Client.                (* conn.receive *)

Inductive stream_end :=
| EndEOF                                   (* EOF before the first byte of a header *)
| EndShortHeader                           (* stream ended inside a header *)
| EndBadHeader                             (* InvalidRequestError / InvalidResponseError *)
| EndTooLarge (index : Z)                  (* server: length > MaxRequestLength *)
| EndShortBody (index declared : Z) (got : nat)  (* stream ended inside a body *)
| EndErrorFrame (body : list byte)         (* client: frame carrying the error flag *)
| EndUnreachable                           (* header slice not 12 bytes: excluded by typing *)
| OutOfFuel.

(* The receive loop of rpc/socket/handler.go (Server) and transport.go (Client):
     io.ReadAtLeast(conn, header[:], 12); length, index, ok := parseHeader(header)
     if length == 0 && index == -1 && !ok { error; return }
     [server] if length > MaxRequestLength { respond too large; return }
     body := make([]byte, length); io.ReadAtLeast(conn, body, length)
     [client] if !ok { error carrying body; return }
     hand (index, body) over; loop
   Result: what was handed over, in order, and why the loop stopped. *)
Fixpoint recv_loop (sd : side) (fuel : nat) (s : list byte) : list (Z * list byte) * stream_end :=
  match fuel with
  | O => ([], OutOfFuel)
  | S fuel' =>
    match read_exact 12 s with
    | None => ([], match s with [] => EndEOF | _ => EndShortHeader end)
    | Some (h, s1) =>
      match sock_parse_header h with
      | None => ([], EndUnreachable)
      | Some (length, index, ok) =>
        if is_reject (length, index, ok) then ([], EndBadHeader)
        else if (match sd with Server max => length >? max | Client => false end)
        then ([], EndTooLarge index)
        else
          match read_exact (Z.to_nat length) s1 with
          | None => ([], EndShortBody index length (List.length s1))
          | Some (body, s2) =>
            if (match sd with Client => negb ok | Server _ => false end)
            then ([], EndErrorFrame body)
            else let '(ds, e) := recv_loop sd fuel' s2 in ((index, body) :: ds, e)
          end
      end
    end
  end.

(* every iteration consumes at least 12 bytes, so this fuel is never exhausted
   (recv_frames_fuel_enough in the proofs) *)
Definition recv_frames (sd : side) (s : list byte) : list (Z * list byte) * stream_end :=
  recv_loop sd (S (length s)) s.

(* ================================================================================ *)
(* rpc/udp/common.go                                                                *)

(* header[4] = byte(length >> 8 & 0xff); header[5] = byte(length & 0xff)
   header[6] = byte(index >> 8 & 0xff);  header[7] = byte(index & 0xff) *)
Definition udp_fields (length index : Z) : list byte := be16 length ++ be16 index.

Definition udp_make_header (length index : Z) : list byte :=
  let f := udp_fields length index in be32 (Z.of_N (crc32 f)) ++ f.

(* parseHeader(header []byte) is always called with buffer[:8] *)
Definition udp_parse_header (h : list byte) : option (Z * Z * bool) :=
  match h with
  | [c0; c1; c2; c3; l0; l1; i0; i1] =>
      let index := rd16 i0 i1 in
      let length := rd16 l0 l1 in
      let crc := rd32 c0 c1 c2 c3 in
      if negb (Z.of_N (crc32 [l0; l1; i0; i1]) =? crc) then Some REJECT
      else
        (* if ok = (header[6]&0x80 == 0); !ok { index &= 0x7fff } *)
        let ok := Z.land (bz i0) 128 =? 0 in
        Some (length, if ok then index else Z.land index 32767, ok)
  | _ => None
  end.

(* conn.send / Handler.send:
     var buffer [65507]byte; copy(buffer[:], header[:]); copy(buffer[8:], body)
     conn.Write(buffer[:8+len(body)])           -- slicing panics when 8+len(body) > 65507 *)
Inductive send_result := Sent (dgram : list byte) | SendPanic.

Definition udp_send (cap : nat) (index : Z) (body : list byte) : send_result :=
  if (cap <? 8 + length body)%nat then SendPanic
  else Sent (udp_make_header (Z.of_nat (length body)) index ++ body).

(* body := make([]byte, n); copy(body, src): the first min(n, len(src)) bytes of src,
   the rest of body keeps make's zeroes *)
Definition copy_fresh (n : nat) (src : list byte) : list byte :=
  firstn n src ++ repeat x00 (n - length src).

(* n, _ := conn.ReadFromUDP(buffer[:]): the datagram overwrites the front of the buffer,
   whatever was behind it stays *)
Definition udp_read_into (buf d : list byte) : list byte * nat :=
  let n := Nat.min (length d) (length buf) in (firstn n d ++ skipn n buf, n).

Inductive dgram_result :=
| DShort                                  (* n < 8 *)
| DBadHeader
| DTooLarge (index : Z)
| DDeliver (index : Z) (body : list byte)
| DErrorFrame (body : list byte)          (* client: error flag set *)
| DUnreachable.

(* One iteration of Handler.receive (rpc/udp/handler.go) on receive buffer [buf]:
     n, addr, err := conn.ReadFromUDP(buffer[:])
     case n < 8: onError
     default: length, index, ok := parseHeader(buffer[:8])
        case length == 0 && index == -1 && !ok: onError
        case length > MaxRequestLength: respond too large
        default: body := make([]byte, length); copy(body, buffer[8:])    <-- n is not consulted
   The client (rpc/udp/transport.go conn.receive) runs the same statements on a buffer
   declared inside receive(), hence all zero on every call (udp_client_recv). *)
Definition udp_step (sd : side) (buf d : list byte) : list byte * dgram_result :=
  let '(buf', n) := udp_read_into buf d in
  if (n <? 8)%nat then (buf', DShort)
  else
    match udp_parse_header (firstn 8 buf') with
    | None => (buf', DUnreachable)
    | Some (length, index, ok) =>
      if is_reject (length, index, ok) then (buf', DBadHeader)
      else if (match sd with Server max => length >? max | Client => false end)
      then (buf', DTooLarge index)
      else
        let body := copy_fresh (Z.to_nat length) (skipn 8 buf') in
        if (match sd with Client => negb ok | Server _ => false end)
        then (buf', DErrorFrame body)
        else (buf', DDeliver index body)
    end.

(* the server's buffer lives across iterations *)
Fixpoint udp_run (sd : side) (buf : list byte) (ds : list (list byte)) : list dgram_result :=
  match ds with
  | [] => []
  | d :: ds' => let '(buf', r) := udp_step sd buf d in r :: udp_run sd buf' ds'
  end.

Definition UDP_BUFFER : nat := Z.to_nat 65507.
Definition udp_zero_buffer : list byte := repeat x00 UDP_BUFFER.

Definition udp_server_run (max : Z) (ds : list (list byte)) : list dgram_result :=
  udp_run (Server max) udp_zero_buffer ds.

Definition udp_client_recv (d : list byte) : dgram_result :=
  snd (udp_step Client udp_zero_buffer d).

(* The repair proposed in hooks/c12-fix-proposal.patch: reject a datagram whose declared
   length is not the number of bytes received after the header. *)
Definition udp_step_fixed (sd : side) (buf d : list byte) : list byte * dgram_result :=
  let '(buf', n) := udp_read_into buf d in
  if (n <? 8)%nat then (buf', DShort)
  else
    match udp_parse_header (firstn 8 buf') with
    | None => (buf', DUnreachable)
    | Some (length, index, ok) =>
      if is_reject (length, index, ok) then (buf', DBadHeader)
      else if negb (length =? Z.of_nat n - 8) then (buf', DBadHeader)
      else if (match sd with Server max => length >? max | Client => false end)
      then (buf', DTooLarge index)
      else
        let body := copy_fresh (Z.to_nat length) (skipn 8 buf') in
        if (match sd with Client => negb ok | Server _ => false end)
        then (buf', DErrorFrame body)
        else (buf', DDeliver index body)
    end.

(* the guard of C12_datagram_exact_partial: declared length = received length - 8 *)
Definition udp_consistent (d : list byte) : bool :=
  match udp_parse_header (firstn 8 d) with
  | Some (length, _, _) => length =? Z.of_nat (List.length d) - 8
  | None => false
  end.

(* ================================================================================ *)
(* rpc/websocket/common.go                                                          *)

Definition ws_make_header (index : Z) : list byte := be32 index.

(* parseHeader(header []byte) (index int, ok bool) on data[:4] *)
Definition ws_parse_header (a b c d : byte) : Z * bool :=
  let index := rd32 a b c d in
  let ok := Z.land (bz a) 128 =? 0 in
  (if ok then index else Z.land index 2147483647, ok).

Definition ws_frame (index : Z) (body : list byte) : list byte := ws_make_header index ++ body.

Inductive ws_result :=
| WPanic                              (* data[4:] with len(data) < 4: slice bounds panic *)
| WBadHeader                          (* server: InvalidRequestError (flag set) *)
| WTooLarge (index : Z)
| WDeliver (index : Z) (body : list byte)
| WErrorFrame (body : list byte).     (* client: error flag set *)

(* One binary message.
   server (handler.go):  index, ok := parseHeader(data[:4]); if !ok { error; return }
                         body := data[4:]; if len(body) > MaxRequestLength {...}
   client (transport.go): index, ok := parseHeader(body[:4]); body = body[4:]; if !ok {...}
   For a message shorter than 4 bytes data[:4] reslices into the spare capacity of
   ReadMessage's buffer (no panic, the missing bytes read as whatever is there), and
   data[4:] then panics; the server's deferred catch recovers it and drops the
   connection.  On the server a first byte with the top bit set is refused before that. *)
Definition ws_recv (sd : side) (msg : list byte) : ws_result :=
  match msg with
  | a :: b :: c :: d :: body =>
      let '(index, ok) := ws_parse_header a b c d in
      match sd with
      | Server max =>
          if negb ok then WBadHeader
          else if Z.of_nat (length body) >? max then WTooLarge index
          else WDeliver index body
      | Client => if negb ok then WErrorFrame body else WDeliver index body
      end
  | a :: _ =>
      match sd with
      | Server _ => if Z.land (bz a) 128 =? 0 then WPanic else WBadHeader
      | Client => WPanic
      end
  | [] => WPanic
  end.

(* ================================================================================ *)
(* rpc/http/common.go readAll, handler.go ServeHTTP, transport.go Transport          *)

(* readAll(body io.Reader, length int64): [actual] is everything the reader yields
   before EOF.
     if length > 0 { data := make([]byte, length); _, err := io.ReadFull(body, data); return data, err }
     if body != nil { return ioutil.ReadAll(body) }
   returns (data, err != nil) *)
Definition http_read_all (declared : Z) (actual : list byte) : list byte * bool :=
  if declared >? 0 then
    let n := Z.to_nat declared in (copy_fresh n actual, (length actual <? n)%nat)
  else (actual, false).

Inductive http_result :=
| HTooLarge                            (* 413 *)
| HDeliver (body : list byte)
| HError.                              (* client: Transport returns the read error *)

(* ServeHTTP:  if ContentLength > MaxRequestLength { 413; return }
               data, err := readAll(request.Body, request.ContentLength)
               if err != nil { h.onError(...) }          <-- and carries on with data
               result, err := h.Service.Handle(ctx, data) *)
Definition http_server_recv (max declared : Z) (actual : list byte) : http_result :=
  if declared >? max then HTooLarge
  else HDeliver (fst (http_read_all declared actual)).

(* Transport: return readAll(resp.Body, resp.ContentLength) — the caller sees err *)
Definition http_client_recv (declared : Z) (actual : list byte) : http_result :=
  let '(data, err) := http_read_all declared actual in
  if err then HError else HDeliver data.

(* the fix for the server side: do not hand a short body to the service *)
Definition http_server_recv_fixed (max declared : Z) (actual : list byte) : http_result :=
  if declared >? max then HTooLarge
  else let '(data, err) := http_read_all declared actual in
       if err then HError else HDeliver data.

(* ================================================================================ *)
(* Later states of the handlers (added; nothing above changes).                      *)

(* rpc/udp/transport.go conn.Transport after 7f6e14b:
     if len(request) > maxBodyLength { return nil, core.ErrRequestEntityTooLarge }
   so conn.send's slice expression is never reached with an oversize body. *)
Inductive transport_result := TSent (dgram : list byte) | TRefused | TPanic.

Definition udp_transport (cap : nat) (index : Z) (body : list byte) : transport_result :=
  if (cap - 8 <? length body)%nat then TRefused
  else match udp_send cap index body with Sent d => TSent d | SendPanic => TPanic end.

(* rpc/udp/handler.go send after 7f6e14b:
     if len(body) > len(buffer)-8 { index |= 0x8000; body = "Response entity too large" } *)
Definition RESPONSE_TOO_LARGE : list byte :=
  [x52; x65; x73; x70; x6f; x6e; x73; x65; x20; x65; x6e; x74; x69; x74; x79; x20;
   x74; x6f; x6f; x20; x6c; x61; x72; x67; x65].

Definition udp_reply (cap : nat) (index : Z) (body : list byte) : list byte :=
  if (cap - 8 <? length body)%nat
  then udp_make_header (Z.of_nat (length RESPONSE_TOO_LARGE)) (Z.lor index 32768) ++ RESPONSE_TOO_LARGE
  else udp_make_header (Z.of_nat (length body)) index ++ body.

(* The request index a client puts on the wire for its counter value:
     rpc/udp/transport.go     index := int(atomic.AddInt32(&c.counter, 1) & 0x7fff)
     rpc/socket, rpc/websocket  ... & 0x7fffffff
   The mask is a parameter so that the theorems can say which masks are sound. *)
Definition client_index (mask counter : Z) : Z := Z.land counter mask.
Definition UDP_INDEX_MASK : Z := 32767.
Definition SOCK_INDEX_MASK : Z := 2147483647.

(* rpc/http/handler.go ServeHTTP after bf2ea6e + 72ffd23, with the reader limit as a
   parameter ([lim] = MaxRequestLength + 1 in the code):
     if ContentLength > Max { 413 }
     data, err := readAll(io.LimitReader(request.Body, lim), ContentLength)
     if err != nil { 400; return }
     if len(data) > Max { 413; return }
     Service.Handle(ctx, data) *)
(* io.LimitReader(r, lim): at most lim bytes of what r yields (written so that running it does
   not build the unary numeral of a large limit: limit_reader_firstn in the proofs) *)
Definition limit_reader (lim : Z) (l : list byte) : list byte :=
  if Z.of_nat (length l) <=? lim then l else firstn (Z.to_nat lim) l.

Definition http_server_recv_lim (lim max declared : Z) (actual : list byte) : http_result :=
  if declared >? max then HTooLarge
  else
    let '(data, err) := http_read_all declared (limit_reader lim actual) in
    if err then HError
    else if Z.of_nat (length data) >? max then HTooLarge
    else HDeliver data.

Definition http_server_recv_limited (max declared : Z) (actual : list byte) : http_result :=
  http_server_recv_lim (max + 1) max declared actual.

(* ================================================================================ *)
(* Ownership of the request buffer.  A call whose context ends while its request is still
   queued or being written returns to its caller; the write happens later.  The header was
   computed from the request as submitted ([b0]); the body bytes are read when the write
   finally happens: from the transport's own copy, or - if the transport kept the caller's
   slice - from that storage as it is THEN ([b1]: same storage, hence the same length). *)
Inductive ownership := Copies | Aliases.

Definition abandoned_wire (o : ownership) (index : Z) (b0 b1 : list byte) : list byte :=
  sock_make_header (Z.of_nat (length b0)) index ++ match o with Copies => b0 | Aliases => b1 end.
