(* Model of the hprose RPC codecs (rpc/core/client_codec.go, rpc/core/service_codec.go and
   rpc/codec/jsonrpc) on top of the io models: the wire grammar (Model/Wire.v), the reference
   semantics of a stream (Model/WireSem.v) and the Go encoder model (Model/Enc.v).

   A message is a sequence of encoder operations: protocol tags (H C R z; the error tag E is the
   wire form [WErr]), io values (wire trees, bytes = [Wire.emit]) and [OReset] marks that produce no
   byte but say where the writer resets its reference and class tables.  The reader side
   is a function of the BYTES: it re-parses them with the proved reader, replays the Go decoder's
   NextByte / Decode / Reset sequence and records its own reset sites, so "both sides reset at the
   same boundaries" is a statement about two independently computed traces.

   What one io value means in a Go type is not modelled here: decoding ONE self-contained top-level
   value (a whole reference scope: the header map, the argument list, a result) into a Go type is
   the section variable [io_dec] (for headers [io_dec_hdrs]); the properties are proved under the
   hypothesis that it satisfies C01's round-trip statement, so C07 is literally a composition.
   Definitions only; proofs in Proofs/CodecProofs.v. *)
From Coq Require Import String.
From Coq Require Import List NArith ZArith Strings.Byte Bool.
From HV Require Import Lib.Dec Lib.Utf8 Model.Wire Model.WireSem Model.Enc.
Import ListNotations.
Open Scope N_scope.

Definition bs (s : String.string) : bytes := String.list_byte_of_string s.

(* ------------------------------------------------------------------ protocol tags, messages *)

Definition t_H : byte := "H".   (* io.TagHeader *)
Definition t_C : byte := "C".   (* io.TagCall   *)
Definition t_R : byte := "R".   (* io.TagResult *)
Definition t_z : byte := "z".   (* io.TagEnd    *)

Definition is_ptag (b : byte) : bool :=
  Byte.eqb b t_H || Byte.eqb b t_C || Byte.eqb b t_R || Byte.eqb b t_z.

(* what the writer does *)
Inductive op :=
| OTag (t : byte)      (* encoder.WriteTag(t) *)
| OVal (w : wire)      (* one io value written with encoder.Write / WriteString *)
| OReset.              (* encoder.Reset() *)

(* what is on the wire *)
Inductive item := ITag (t : byte) | IVal (w : wire).

Definition emit_op (o : op) : bytes :=
  match o with OTag t => [t] | OVal w => emit w | OReset => [] end.
Definition emit_ops (l : list op) : bytes := flat_map emit_op l.

Definition emit_item (i : item) : bytes := match i with ITag t => [t] | IVal w => emit w end.
Definition emit_items (l : list item) : bytes := flat_map emit_item l.

Fixpoint strip (l : list op) : list item :=
  match l with
  | [] => []
  | OTag t :: r => ITag t :: strip r
  | OVal w :: r => IVal w :: strip r
  | OReset :: r => strip r
  end.

(* the reader: a protocol tag byte, or one value read by the proved reader [Wire.parse] *)
Fixpoint parse_items (fuel : nat) (l : bytes) : option (list item) :=
  match l with
  | [] => Some []
  | t :: r =>
      match fuel with
      | O => None
      | S f =>
          if is_ptag t then
            match parse_items f r with Some m => Some (ITag t :: m) | None => None end
          else
            match parse (S (length l)) l with
            | Some (w, r') =>
                match parse_items f r' with Some m => Some (IVal w :: m) | None => None end
            | None => None
            end
      end
  end.

Definition parse_msg (l : bytes) : option (list item) := parse_items (S (length l)) l.

(* ------------------------------------------------------------------ options, types, headers *)

(* io.LongType, RealType, MapType, StructType, ListType: opaque enumerations handed to the io decoder *)
Record dopts := { o_long : N; o_real : N; o_map : N; o_struct : N; o_list : N }.

Record copts := { c_simple : bool; c_dec : dopts }.
Record sopts := { s_simple : bool; s_debug : bool; s_dec : dopts }.

(* Go types as far as the codecs look at them *)
Inductive pty :=
| TNamed (id : N)            (* a concrete Go type, named by its index in the harness' type table *)
| TIface                     (* interface{} *)
| TSurplus                   (* paramTypes[i] == nil (an argument beyond the parameters): Read(nil) decodes into interface{} *)
| TIfaceSlice                (* []interface{}: the missing-method argument list *)
| TTuple (ts : list pty).    (* a list read element by element, element i into ts[i] (decodeArguments, multi-results) *)

Definition headers := list (bytes * gval).     (* Dict as an association list, in written order *)

Definition s_simple_key : bytes := Eval compute in bs "simple"%string.
Definition s_timeout : bytes := Eval compute in bs "timeout"%string.

Fixpoint hfind (k : bytes) (h : headers) : option gval :=
  match h with
  | [] => None
  | (k', v) :: r => if bytes_eqb k k' then Some v else hfind k r
  end.

(* Dict.Set *)
Fixpoint hset (k : bytes) (v : gval) (h : headers) : headers :=
  match h with
  | [] => [(k, v)]
  | (k', v') :: r => if bytes_eqb k k' then (k, v) :: r else (k', v') :: hset k v r
  end.

Fixpoint hflat (h : headers) : list gval :=
  match h with [] => [] | (k, v) :: r => GString k :: v :: hflat r end.

(* strconv.ParseBool *)
Definition true_texts : list bytes :=
  Eval compute in map bs ["1"; "t"; "T"; "TRUE"; "true"; "True"]%string.
Definition false_texts : list bytes :=
  Eval compute in map bs ["0"; "f"; "F"; "FALSE"; "false"; "False"]%string.

Definition parse_bool (s : bytes) : option bool :=
  if existsb (bytes_eqb s) true_texts then Some true
  else if existsb (bytes_eqb s) false_texts then Some false
  else None.

Definition zero_texts : list bytes := Eval compute in map bs ["0"; "-0"]%string.
Definition zero_text (txt : bytes) : bool := existsb (bytes_eqb txt) zero_texts.

(* dict.go getBool(d, key) with no default *)
Definition get_bool (k : bytes) (h : headers) : bool :=
  match hfind k h with
  | Some (GBool b) => b
  | Some (GInt KUintptr _) => false                   (* uintptr is not in the type switch *)
  | Some (GInt _ z) => negb (z =? 0)%Z
  | Some (GFloat (FFin txt)) => negb (zero_text txt)
  | Some (GFloat _) => true                           (* NaN != 0, Inf != 0 *)
  | Some (GString s) => match parse_bool s with Some b => b | None => false end
  | _ => false
  end.

(* ------------------------------------------------------------------ methods *)

Record method := {
  m_id : N;                   (* identity of the published function *)
  m_name : bytes;             (* the alias it was registered under *)
  m_missing : bool;           (* AddMissingMethod *)
  m_ctx : bool;               (* first parameter is a context.Context (not in m_params) *)
  m_params : list pty;        (* Method.Parameters() *)
  m_velem : option pty;       (* Some e: variadic, the last parameter is []e *)
  m_results : list pty;       (* result types without the trailing error *)
  m_err : bool                (* Method.ReturnError() *)
}.

Definition registry := list (bytes * method).      (* key -> method, latest registration first *)

Fixpoint rfind (k : bytes) (r : registry) : option method :=
  match r with
  | [] => None
  | (k', m) :: t => if bytes_eqb k k' then Some m else rfind k t
  end.

Definition star : bytes := Eval compute in bs "*"%string.

Section Lookup.
Variable lower : bytes -> bytes.       (* strings.ToLower *)

(* methodManager.Add: methods.Store(strings.ToLower(method.Name()), method); a missing method's Name() is "*" *)
Definition radd (m : method) (r : registry) : registry :=
  ((if m_missing m then star else lower (m_name m)), m) :: r.

(* methodManager.Get *)
Definition lookup (r : registry) (name : bytes) : option method :=
  match rfind (lower name) r with
  | Some m => Some m
  | None => rfind star r
  end.
End Lookup.

(* serviceCodec.decodeArguments: the type each of the [count] arguments is read into *)
Definition param_types (m : method) (count : nat) : list pty :=
  let ps := m_params m in
  match m_velem m with
  | Some e =>
      (* copy(paramTypes, parameters[:n-1]); for i := n-1; i < count; i++ { paramTypes[i] = parameters[n-1].Elem() } *)
      let fixedn := pred (length ps) in
      firstn count (firstn fixedn ps) ++ repeat e (count - fixedn)%nat
  | None =>
      (* copy(paramTypes, parameters): the surplus stays nil, and Read(nil) decodes into interface{} *)
      firstn count ps ++ repeat TSurplus (count - length ps)%nat
  end.

(* ------------------------------------------------------------------ errors *)

Inductive errv :=
| EPlain (msg : bytes)                  (* any error: e.Error() *)
| EPanicE (msg stack : bytes).          (* *PanicError: fmt.Sprintf("%v", Panic), Stack *)

Definition crlf : bytes := ["013"; "010"]%byte.

Definition err_msg (e : errv) : bytes := match e with EPlain m => m | EPanicE m _ => m end.

(* the text the service codec writes after E *)
Definition error_text (debug : bool) (e : errv) : bytes :=
  match e with
  | EPlain m => m
  | EPanicE m st => if debug then m ++ crlf ++ st else m        (* pe.String() = "%v\r\n%s" *)
  end.

Definition cant_find_pre : bytes := Eval compute in bs "Can't find this method "%string.
Definition cant_find_post : bytes := Eval compute in bs "()."%string.
Definition cant_find (name : bytes) : bytes := cant_find_pre ++ name ++ cant_find_post.

(* ------------------------------------------------------------------ the hprose codec *)

Section Codec.
Variable fuel : nat.                   (* recursion budget of the encoder model *)
Variable hp : heap.                    (* the Go heap the values of this exchange live in *)
Variable lower : bytes -> bytes.
(* io.Unmarshal of ONE self-contained top-level value into a Go type, by a decoder whose simple flag is
   the bool; None = the decoder reports an error *)
Variable io_dec : dopts -> bool -> pty -> wire -> option gval.
Variable io_dec_hdrs : dopts -> bool -> wire -> option headers.      (* into map[string]interface{} *)
Variable zero : pty -> gval.           (* reflect zero value of a type *)

(* enc.Write(v) at top level: like Encode, but a string goes through WriteString (always the s form,
   always registered) and a pointer is written without looking its identity up first *)
Fixpoint write_top (f : nat) (simple : bool) (st : estate) (v : gval) : eres :=
  match f with
  | O => EFuel
  | S f' =>
      match v with
      | GString s => let '(st1, w) := write_string simple st s in EOk st1 w
      | GPtr a =>
          match hlookup hp a with
          | None => EPanic 2
          | Some pv =>
              if tracked pv then enc_body simple (enc simple hp f') (ByPtr a) st pv
              else write_top f' simple st pv
          end
      | _ => enc simple hp (S f') st v
      end
  end.

Inductive cenc := CEOk (ops : list op) | CEFail (r : eres).

(* the header segment shared by both encoders:
     if context.HasXHeaders() { WriteTag(TagHeader); Write(headers.ToMap()); Reset() } *)
Definition enc_headers (simple : bool) (h : headers) : cenc :=
  match h with
  | [] => CEOk []
  | _ =>
      match write_top (S fuel) simple einit (GMap (hflat h)) with
      | EOk _ w => CEOk [OTag t_H; OVal w; OReset]
      | e => CEFail e
      end
  end.

(* clientCodec.Encode *)
Definition client_encode (o : copts) (name : bytes) (args : list gval) (h : headers) : cenc :=
  let simple := c_simple o in
  let h1 := if simple then hset s_simple_key (GBool true) h else h in
  match enc_headers simple h1 with
  | CEFail e => CEFail e
  | CEOk hops =>
      (* the header segment ends with Reset, so the name starts a fresh scope either way *)
      let '(st1, nw) := write_string simple einit name in
      match args with
      | [] => CEOk (hops ++ [OTag t_C; OVal nw; OTag t_z])
      | _ =>
          match write_top (S fuel) simple einit (GSlice args) with    (* Reset(); Write(args) *)
          | EOk _ aw => CEOk (hops ++ [OTag t_C; OVal nw; OReset; OVal aw; OTag t_z])
          | e => CEFail e
          end
      end
  end.

(* what the reader does *)
Inductive dop :=
| DNext (t : byte)                              (* a protocol tag consumed by NextByte *)
| DRead (simple : bool) (w : wire)              (* one value decoded while the decoder's simple flag is [simple] *)
| DReset.                                       (* decoder.Reset() *)

(* decoder.Decode(&s) for a Go string, on the forms a peer codec writes for a string *)
Definition dec_string (w : wire) : option bytes :=
  match w with
  | WStr s => Some s
  | WBytes b => Some b
  | WEmpty => Some []
  | WChar c => Some c
  | _ => None
  end.

Record request := {
  rq_name : bytes;
  rq_headers : headers;
  rq_method : method;
  rq_args : list gval
}.

Inductive sdec :=
| SDOk (r : request)
| SDNoMethod (h : headers) (name : bytes)    (* errors.New("Can't find this method " + name + "().") *)
| SDDecodeError                             (* decoder.Error != nil *)
| SDInvalid                                 (* InvalidRequestError / unparsable bytes *)
| SDEmpty (h : headers).                    (* TagEnd or empty request: the built-in "~" *)

Definition vals_of (g : gval) : list gval := match g with GSlice vs => vs | _ => [] end.

(* tag := NextByte(); if tag == TagHeader { Decode(&h); CopyTo(Headers()); Reset(); tag = NextByte() }
   (the same in serviceCodec.Decode and clientCodec.Decode; the pooled decoder starts with simple = false) *)
Definition read_headers (d : dopts) (m : list item) : option headers * list item * list dop :=
  match m with
  | ITag t :: IVal hw :: rest =>
      if Byte.eqb t t_H then (io_dec_hdrs d false hw, rest, [DNext t_H; DRead false hw; DReset])
      else (Some [], m, [])
  | _ => (Some [], m, [])
  end.

(* serviceCodec.Decode after the header segment: [h] the decoded request headers, [tr0] the trace so far *)
Definition service_decode_call (o : sopts) (svc : registry) (h : headers) (tr0 : list dop) (rest : list item)
  : sdec * list dop :=
  let d := s_dec o in
  match rest with
  | ITag t :: rest1 =>
      if Byte.eqb t t_C then
        (* if RequestHeaders().GetBool("simple") { decoder.Simple(true) }; Decode(&name) *)
        let simple := get_bool s_simple_key h in
        match rest1 with
        | IVal nw :: rest2 =>
            match dec_string nw with
            | None => (SDDecodeError, tr0 ++ [DNext t_C; DRead simple nw])
            | Some name =>
                let tr1 := tr0 ++ [DNext t_C; DRead simple nw] in
                match lookup lower svc name with
                | None => (SDNoMethod h name, tr1)
                | Some mt =>
                    (* decodeArguments: tag := NextByte(); if tag != TagList { return }; Reset() *)
                    match rest2 with
                    | IVal (WList ws) :: _ =>
                        let ty := if m_missing mt then TIfaceSlice
                                  else TTuple (param_types mt (length ws)) in
                        match io_dec d simple ty (WList ws) with
                        | Some g =>
                            (SDOk {| rq_name := name; rq_headers := h; rq_method := mt; rq_args := vals_of g |},
                             tr1 ++ [DReset; DRead simple (WList ws)])
                        | None => (SDDecodeError, tr1 ++ [DReset; DRead simple (WList ws)])
                        end
                    | _ => (SDOk {| rq_name := name; rq_headers := h; rq_method := mt; rq_args := [] |}, tr1)
                    end
                end
            end
        | _ => (SDDecodeError, tr0 ++ [DNext t_C])
        end
      else if Byte.eqb t t_z then (SDEmpty h, tr0 ++ [DNext t_z])
      else (SDInvalid, tr0)
  | _ => (SDInvalid, tr0)
  end.

(* serviceCodec.Decode on the parsed request; returns the reader trace too.
   A failure while decoding the header map only sets the sticky decoder.Error and decoding goes on with
   whatever was filled in (modelled as no headers); decodeArguments returns decoder.Error on both of its
   paths (with and without an argument list), so the failure is reported unless the method lookup fails first
   (that error wins) or the request is the bare end tag. *)
Definition service_decode_items (o : sopts) (svc : registry) (m : list item) : sdec * list dop :=
  let '(hres, rest, tr0) := read_headers (s_dec o) m in
  match hres with
  | Some h => service_decode_call o svc h tr0 rest
  | None =>
      match service_decode_call o svc [] tr0 rest with
      | (SDOk r, tr) => (SDDecodeError, tr)
      | other => other
      end
  end.

Definition service_decode (o : sopts) (svc : registry) (req : bytes) : sdec * list dop :=
  match req with
  | [] => (SDEmpty [], [])
  | _ =>
      match parse_msg req with
      | Some m => service_decode_items o svc m
      | None => (SDInvalid, [])
      end
  end.

(* Service.Process: switch len(results) { case 0: nil; case 1: results[0]; default: results } *)
Definition shape (vs : list gval) : gval :=
  match vs with [] => GNil | [v] => v | _ => GSlice vs end.

Definition is_error_value (v : gval) : bool := match v with GError _ => true | _ => false end.

(* serviceCodec.Encode(result, context); [r] is either the shaped result or the error of the call *)
Definition service_encode (o : sopts) (r : gval + errv) (h : headers) : cenc :=
  let simple := s_simple o in
  let h1 := if simple then hset s_simple_key (GBool true) h else h in
  match enc_headers simple h1 with
  | CEFail e => CEFail e
  | CEOk hops =>
      let as_error (msg : bytes) :=
        (* WriteTag(TagError); WriteString(msg) *)
        let '(_, w) := write_string simple einit msg in
        CEOk (hops ++ [OVal (WErr w); OTag t_z]) in
      match r with
      | inr e => as_error (error_text (s_debug o) e)
      | inl (GError msg) => as_error msg                  (* if e, ok := result.(error); ok *)
      | inl v =>
          match write_top (S fuel) simple einit v with      (* WriteTag(TagResult); Write(result) *)
          | EOk _ w => CEOk (hops ++ [OTag t_R; OVal w; OTag t_z])
          | e => CEFail e
          end
      end
  end.

Inductive cdec :=
| CDRes (h : headers) (vs : list gval)
| CDErr (h : headers) (msg : bytes) (is_timeout : bool)     (* ErrTimeout when the text is "timeout", else io.DecodeError(text) *)
| CDDecodeError
| CDInvalid.                                                (* InvalidResponseError *)

(* clientCodec.Decode after the header segment, with context.ReturnType = rts *)
Definition client_decode_body (o : copts) (rts : list pty) (h : headers) (tr0 : list dop) (rest : list item)
  : cdec * list dop :=
  let d := c_dec o in
  match rest with
  | ITag t :: rest1 =>
      if Byte.eqb t t_R then
        (* if ResponseHeaders().GetBool("simple") { decoder.Simple(true) } *)
        let simple := get_bool s_simple_key h in
        match rts with
        | [] => (CDRes h [], tr0 ++ [DNext t_R])                        (* "Ignore the result to speed up." *)
        | [t0] =>
            match rest1 with
            | IVal w :: _ =>
                match io_dec d simple t0 w with
                | Some v => (CDRes h [v], tr0 ++ [DNext t_R; DRead simple w])
                | None => (CDDecodeError, tr0 ++ [DNext t_R; DRead simple w])
                end
            | _ => (CDDecodeError, tr0 ++ [DNext t_R])
            end
        | t0 :: _ =>
            match rest1 with
            | IVal (WList ws) :: _ =>
                (* count = ReadInt(); AddReference(nil); for i := 0; i < n && i < count; i++ { Read(returnType[i]) };
                   for i := count; i < n; i++ { zero value } *)
                let count := length ws in
                match io_dec d simple (TTuple (firstn count rts)) (WList ws) with
                | Some g =>
                    (CDRes h (vals_of g ++ map zero (skipn count rts)),
                     tr0 ++ [DNext t_R; DRead simple (WList ws)])
                | None => (CDDecodeError, tr0 ++ [DNext t_R; DRead simple (WList ws)])
                end
            | IVal w :: _ =>
                (* results[0] = Read(returnType[0], tag); the rest are zero values *)
                match io_dec d simple t0 w with
                | Some v => (CDRes h (v :: map zero (skipn 1 rts)), tr0 ++ [DNext t_R; DRead simple w])
                | None => (CDDecodeError, tr0 ++ [DNext t_R; DRead simple w])
                end
            | _ => (CDDecodeError, tr0 ++ [DNext t_R])
            end
        end
      else if Byte.eqb t t_z then (CDRes h [], tr0 ++ [DNext t_z])
      else (CDInvalid, tr0)
  | IVal (WErr w) :: _ =>
      (* case TagError: Decode(&errstr); "timeout" -> ErrTimeout; else io.DecodeError(errstr).
         The decoder's simple flag is not touched on this path. *)
      match dec_string w with
      | Some msg => (CDErr h msg (bytes_eqb msg s_timeout), tr0 ++ [DRead false (WErr w)])
      | None => (CDDecodeError, tr0 ++ [DRead false (WErr w)])
      end
  | _ => (CDInvalid, tr0)
  end.

(* clientCodec.Decode *)
Definition client_decode_items (o : copts) (rts : list pty) (m : list item) : cdec * list dop :=
  let '(hres, rest, tr0) := read_headers (c_dec o) m in
  match hres with
  | None => (CDDecodeError, tr0)
  | Some h => client_decode_body o rts h tr0 rest
  end.

Definition client_decode (o : copts) (rts : list pty) (resp : bytes) : cdec * list dop :=
  match parse_msg resp with
  | Some m => client_decode_items o rts m
  | None => (CDInvalid, [])
  end.

End Codec.

(* ------------------------------------------------------------------ reference scopes *)

(* A stream position is (number of referable items so far, number of classes so far), the numbering
   of WireSem.denote.  [closed w p] = Some p': every back-reference and class index inside w points at
   something written earlier in the SAME scope that started at (0, 0), and the scope continues at p'. *)
Fixpoint closed (w : wire) (p : N * N) : option (N * N) :=
  let '(r, c) := p in
  let seq := fix go (l : list wire) (s : option (N * N)) : option (N * N) :=
    match l with
    | [] => s
    | x :: t => match s with Some s' => go t (closed x s') | None => None end
    end in
  match w with
  | WStr _ | WBytes _ | WGuid _ | WDate _ _ _ _ _ | WTime _ _ _ _ _ => Some (r + 1, c)
  | WList ws | WMap ws => seq ws (Some (r + 1, c))
  | WClass _ fields next => closed next (r + N.of_nat (length fields), c + 1)
  | WObj k ws => if k <? c then seq ws (Some (r + 1, c)) else None
  | WRef k => if k <? r then Some p else None
  | WErr w' => closed w' p
  | _ => Some p
  end.

Fixpoint closed_seq (l : list wire) (s : option (N * N)) : option (N * N) :=
  match l with
  | [] => s
  | x :: t => match s with Some s' => closed_seq t (closed x s') | None => None end
  end.

(* does a wire contain a back-reference at all *)
Fixpoint has_ref (w : wire) : bool :=
  match w with
  | WRef _ => true
  | WList ws | WMap ws | WObj _ ws => existsb has_ref ws
  | WClass _ _ next => has_ref next
  | WErr w' => has_ref w'
  | _ => false
  end.

(* the writer's scopes: the values between two resets *)
Fixpoint scopes_aux (cur : list wire) (l : list op) : list (list wire) :=
  match l with
  | [] => [rev cur]
  | OVal w :: r => scopes_aux (w :: cur) r
  | OReset :: r => rev cur :: scopes_aux [] r
  | OTag _ :: r => scopes_aux cur r
  end.
Definition scopes (l : list op) : list (list wire) := scopes_aux [] l.

(* the reader's scopes, each value with the reader's simple flag at that point *)
Fixpoint dscopes_aux (cur : list (bool * wire)) (l : list dop) : list (list (bool * wire)) :=
  match l with
  | [] => [rev cur]
  | DRead s w :: r => dscopes_aux ((s, w) :: cur) r
  | DReset :: r => rev cur :: dscopes_aux [] r
  | DNext _ :: r => dscopes_aux cur r
  end.
Definition dscopes (l : list dop) : list (list (bool * wire)) := dscopes_aux [] l.

Definition scope_closed (ws : list wire) : bool :=
  match closed_seq ws (Some (0, 0)) with Some _ => true | None => false end.

(* a reader in simple mode keeps no reference table: it can only take values without back-references *)
Definition readable (sw : bool * wire) : bool := negb (fst sw && has_ref (snd sw)).

(* ------------------------------------------------------------------ the JSON-RPC codec *)

(* rpc/codec/jsonrpc: the envelope is modelled as data; the JSON text itself (jsoniter) is an oracle. *)
Record jrequest := {
  jq_id : Z;
  jq_method : bytes;
  jq_headers : option headers;          (* omitted when there are none *)
  jq_params : option (list gval)        (* omitted when there are none *)
}.

Record jerror := { je_code : Z; je_message : bytes; je_data : option bytes }.

Record jresponse := {
  jp_id : Z;
  jp_headers : option headers;
  jp_result : option gval;              (* omitempty: absent for nil *)
  jp_error : option jerror
}.

Definition code_parse_error : Z := (-32700)%Z.
Definition code_invalid_request : Z := (-32600)%Z.
Definition code_method_not_found : Z := (-32601)%Z.
Definition code_invalid_params : Z := (-32602)%Z.
Definition msg_parse_error : bytes := Eval compute in bs "Parse error"%string.
Definition msg_invalid_request : bytes := Eval compute in bs "Invalid Request"%string.
Definition msg_method_not_found : bytes := Eval compute in bs "Method not found"%string.
Definition msg_invalid_params : bytes := Eval compute in bs "Invalid params"%string.
Definition jsonrpc_prefix : bytes := Eval compute in bs "hprose/rpc/codec/jsonrpc: "%string.

(* errors as the JSON-RPC service codec distinguishes them *)
Inductive jerrv :=
| JProto (code : Z) (msg : bytes)        (* *jsonrpcError *)
| JPanic (msg stack : bytes)             (* *core.PanicError *)
| JPlain (msg : bytes).                  (* anything else: e.Error() *)

Section JsonRpc.
Variable lower : bytes -> bytes.
(* jsoniter.Marshal / Unmarshal of the two envelopes; generic values come back as JSON's own types *)
Variable jmarshal_req : jrequest -> bytes.
Variable junmarshal_req : bytes -> option jrequest.
Variable jmarshal_resp : jresponse -> bytes.
Variable junmarshal_resp : bytes -> option jresponse.
(* Marshal a generic JSON value again and Unmarshal it into a Go type (None = Unmarshal error) *)
Variable jconv : pty -> gval -> option gval.

(* ClientCodec.Encode: id := atomic.AddInt64(&c.counter, 1) & 0x7fffffff *)
Definition jrequest_of (counter : Z) (name : bytes) (args : list gval) (h : headers) : jrequest :=
  {| jq_id := Z.land (counter + 1) 2147483647; jq_method := name;
     jq_headers := match h with [] => None | _ => Some h end;
     jq_params := match args with [] => None | _ => Some args end |}.

Definition jclient_encode (counter : Z) (name : bytes) (args : list gval) (h : headers) : Z * bytes :=
  ((counter + 1)%Z, jmarshal_req (jrequest_of counter name args h)).

Inductive jsdec :=
| JSOk (id : Z) (r : request)
| JSErr (id : option Z) (e : jerrv).

(* each parameter: data := Marshal(req.Params[i]); t2 := reflect2.Type2(t); a := t2.New(); Unmarshal(data, a);
   an argument beyond the parameters (paramTypes[i] == nil) keeps its generic JSON value.  None = Unmarshal error *)
Fixpoint jconv_args (ts : list pty) (vs : list gval) : option (list gval) :=
  match ts, vs with
  | TSurplus :: tr, v :: vr =>
      match jconv_args tr vr with Some l => Some (v :: l) | None => None end
  | t :: tr, v :: vr =>
      match jconv t v with
      | None => None
      | Some v' => match jconv_args tr vr with Some l => Some (v' :: l) | None => None end
      end
  | _, _ => Some []               (* count = len(req.Params): the two lists have the same length *)
  end.

(* ServiceCodec.Decode for a request starting with '{' *)
Definition jservice_decode (svc : registry) (req : bytes) : jsdec :=
  match junmarshal_req req with
  | None => JSErr None (JProto code_parse_error msg_parse_error)
  | Some q =>
      match jq_method q with
      | [] => JSErr None (JProto code_invalid_request msg_invalid_request)     (* req.Method == "" *)
      | name =>
          let id := jq_id q in
          let h := match jq_headers q with Some h => h | None => [] end in
          match lookup lower svc name with
          | None => JSErr (Some id) (JProto code_method_not_found msg_method_not_found)
          | Some mt =>
              let params := match jq_params q with Some l => l | None => [] end in
              if m_missing mt then
                JSOk id {| rq_name := name; rq_headers := h; rq_method := mt; rq_args := params |}
              else
                match jconv_args (param_types mt (length params)) params with
                | None => JSErr (Some id) (JProto code_invalid_params msg_invalid_params)
                | Some args =>
                    JSOk id {| rq_name := name; rq_headers := h; rq_method := mt; rq_args := args |}
                end
          end
      end
  end.

(* ServiceCodec.Encode when context.Items()["jsonrpc"] is set *)
Definition jresponse_of (id : Z) (r : gval + jerrv) (h : headers) : jresponse :=
  let hs := match h with [] => None | _ => Some h end in
  match r with
  | inr (JProto code msg) =>
      {| jp_id := id; jp_headers := hs; jp_result := None;
         jp_error := Some {| je_code := code; je_message := msg; je_data := None |} |}
  | inr (JPanic msg stack) =>
      {| jp_id := id; jp_headers := hs; jp_result := None;
         jp_error := Some {| je_code := 0; je_message := msg;
                             je_data := match stack with [] => None | _ => Some stack end |} |}
  | inr (JPlain msg) =>
      {| jp_id := id; jp_headers := hs; jp_result := None;
         jp_error := Some {| je_code := 0; je_message := msg; je_data := None |} |}
  | inl (GError msg) =>
      {| jp_id := id; jp_headers := hs; jp_result := None;
         jp_error := Some {| je_code := 0; je_message := msg; je_data := None |} |}
  | inl GNil => {| jp_id := id; jp_headers := hs; jp_result := None; jp_error := None |}
  | inl v => {| jp_id := id; jp_headers := hs; jp_result := Some v; jp_error := None |}
  end.

Definition jservice_encode (id : Z) (r : gval + jerrv) (h : headers) : bytes :=
  jmarshal_resp (jresponse_of id r h).

Inductive jcdec :=
| JCRes (id : Z) (h : headers) (vs : list gval)
| JCErr (id : Z) (h : headers) (e : jerrv)
| JCDecodeError
| JCPanic.                              (* failed type assertion in the multi-result branch *)

(* for i, r := range res { if i >= n { break }; ... Unmarshal into ReturnType[i] }.  None = Unmarshal error *)
Fixpoint jconv_results (ts : list pty) (vs : list gval) : option (list gval) :=
  match ts, vs with
  | t :: tr, v :: vr =>
      match jconv t v with
      | None => None
      | Some v' => match jconv_results tr vr with Some l => Some (v' :: l) | None => None end
      end
  | _, _ => Some []
  end.

(* ClientCodec.Decode *)
Definition jclient_decode (rts : list pty) (resp : bytes) : jcdec :=
  match junmarshal_resp resp with
  | None => JCDecodeError
  | Some p =>
      let h := match jp_headers p with Some h => h | None => [] end in
      let res :=
        match jp_result p with
        | None => Some (Some [])
        | Some v =>
            match rts with
            | [] => Some (Some [])
            | [t0] => match jconv t0 v with Some v' => Some (Some [v']) | None => Some None end
            | _ => match v with
                   | GSlice vs => Some (jconv_results rts vs)
                   | _ => None          (* resp.Result.([]interface{}): failed type assertion *)
                   end
            end
        end in
      match res with
      | None => JCPanic
      | Some None => JCDecodeError
      | Some (Some vs) =>
          match jp_error p with
          | None => JCRes (jp_id p) h vs
          | Some e =>
              if negb (je_code e =? 0)%Z then JCErr (jp_id p) h (JProto (je_code e) (je_message e))
              else match je_data e with
                   | Some st => JCErr (jp_id p) h (JPanic (je_message e) st)
                   | None => JCErr (jp_id p) h (JPlain (je_message e))
                   end
          end
      end
  end.

(* the text the caller sees *)
Definition jerr_text (e : jerrv) : bytes :=
  match e with
  | JProto _ msg => jsonrpc_prefix ++ msg
  | JPanic msg _ => msg
  | JPlain msg => msg
  end.

End JsonRpc.
