(* Model of rpc/plugins/push/broker.go + message.go (C19).
   Executable definitions only; proofs live in Proofs/PushProofs.v.

   A labelled transition system of the Broker at the granularity of its own atomic
   sections: one sync.Map method (Load / LoadOrStore / Delete / one visit of Range), one
   cmap method (Pop / Upsert / SetIfAbsent), one MessageCache method (Append / Take, both
   under the cache's mutex), one channel operation.  The Go text is quoted at each step.

   Shared state of the Broker
     messages   sync.Map   id -> *sync.Map (topic -> *MessageCache)   [ids] + [table] + [caches]
     responders cmap       id -> chan map[string][]Message (cap 1)    [resp] + [chans]
     signals    cmap       id -> chan bool                            [sigs] + [sigch]
   Goroutines
     a poll      b.message(ctx)      one at a time per client id (the polling consumer)
     a worker    b.Unicast / Multicast / Broadcast, b.subscribe, b.unsubscribe,
                 go b.doHeartBeat    (spawned by send and by a poll time-out)
   Every poll owns the responder channel it makes; the channel of poll number p is
   [chans] number p, so "the poll that reads this channel" needs no look-up.

   Environment events: the poll timer (context.WithTimeout(ctx, b.Timeout)) and the
   heartbeat timer (context.WithTimeout(ctx, b.HeartBeat)) may fire at any moment while
   the goroutine is in the corresponding select.  A select with several ready branches
   chooses any of them (the schedule says which).  A channel send on a full channel and a
   receive on an empty one are steps that are not enabled.

   Sound reductions (each merges a read that no other step can invalidate):
     - Unicast's b.messages.Load(id) followed by topics.Load(topic) is one step: an entry
       of b.messages is never deleted, so a failed first Load equals a failed second Load
       at the same moment, and a successful first Load commutes with everything.
     - subscribe's Load + LoadOrStore on b.messages is one step ([SubEnsure]).
   Not modelled: Deny (it stores a nil cache; out of the property), OnSubscribe /
   OnUnsubscribe callbacks (nil), HeartBeat <= 0, Timeout <= 0 (a poll that never times
   out is a schedule without the time-out event).

   Ghost state (never read by a step that decides anything): the owner (id, topic) of a
   cache, everything ever taken from it [ctaken], the high-water mark of what was
   delivered from it [cdel], the log of accepted publishes and of delivered entries, and
   in every batch entry the cache it was taken from and its offset in [ctaken]. *)
From Coq Require Import List ZArith Bool Arith.
Import ListNotations.

(* ------------------------------------------------------------------ data *)

(* one topic of a poll result: topic, [ghost: cache, offset in ctaken], messages *)
Definition entry := (nat * nat * nat * list Z)%type.
Definition batch := list entry.

Definition e_topic (e : entry) : nat := fst (fst (fst e)).
Definition e_cache (e : entry) : nat := snd (fst (fst e)).
Definition e_off (e : entry) : nat := snd (fst e).
Definition e_msgs (e : entry) : list Z := snd e.

(* content of a responder channel (capacity 1) *)
Inductive cval := VEmpty | VNil | VBatch (b : batch).

(* what b.message returns: nil, the empty map of a time-out, or a map *)
Inductive pres := RNil | RTimeout | RBatch (b : batch).

(* MessageCache: m []Message under l sync.Mutex *)
Record cache := { cown : nat * nat; cmsgs : list Z; ctaken : list Z; cdel : nat }.

(* everything ever appended to the cache, in Append order *)
Definition cacc (c : cache) : list Z := ctaken c ++ cmsgs c.

(* ---- send(ctx, id, responder) as a sub-machine, shared by polls and workers *)
Inductive sub_pc :=
| SLoad                 (* b.messages.Load(id); topics.Range starts (key snapshot) *)
| SVisit                (* next key of the Range: topics.Load(key); or the code after Range *)
| STake (k c : nat)     (* cache.Take() on the cache loaded for key k *)
| RPutBack.             (* response only: send returned false: SetIfAbsent / responder <- nil *)

Record subst := { sid : nat; sresp : nat; spc : sub_pc; skeys : list nat; ssize : nat; sres : batch }.

Definition sub0 (id r : nat) : subst :=
  {| sid := id; sresp := r; spc := SLoad; skeys := []; ssize := 0; sres := [] |}.

(* ---- b.message(ctx) *)
Inductive lpc :=
| LPopOld               (* if responder, ok := b.responders.Pop(id); ok { responder <- nil } *)
| LPopSig               (* if signal, ok := b.signals.Pop(id); ok { close(signal) } *)
| LSend                 (* responder := make(chan ..., 1); b.send(ctx, id, responder) *)
| LSending (sb : subst)
| LRecv                 (* send returned true: return <-responder *)
| LUpsert               (* send returned false: b.responders.Upsert(id, responder, ...) *)
| LWait                 (* select { case <-ctx.Done(): ...  case result := <-responder: } *)
| LTimedOut             (* variant [fixed] only: the timer has fired; b.timeout(id, responder) loops:
                           RemoveCb(id, mine) / select { case result := <-responder: ...  case <-time.After } *)
| LDone (r : pres).

Record poll := { pid : nat; ppc : lpc }.

(* ---- workers *)
Inductive bpc :=
| PubStart              (* Broadcast: b.messages.Range starts (snapshot of the ids) *)
| PubNext               (* next target id: b.messages.Load(id); topics.Load(topic) *)
| PubAppend (id c : nat)(* cache.Append(Message{data, from}) *)
| PubResp (id : nat)    (* b.response(ctx, id): b.responders.Pop(id) *)
| PubDone.

Inductive spc_ :=
| SubEnsure             (* b.messages.Load(id) / LoadOrStore(id, new(sync.Map)) *)
| SubLoad               (* if _, ok := topics.Load(topic); ok { return false } *)
| SubStore              (* _, loaded := topics.LoadOrStore(topic, new(MessageCache)) *)
| SubDone (r : bool).

Inductive opc :=
| OffStart              (* doHeartBeat: b.messages.Load(id); topics.Range starts *)
| OffNext               (* offline: topics.Load(topic) *)
| OffDelete (k : nat)   (* topics.Delete(topic) *)
| OffResp               (* b.response(ctx, id): b.responders.Pop(id) *)
| OffDone.

Inductive hpc :=
| HbUpsert              (* b.signals.Upsert(id, signal, close the old one) *)
| HbWait                (* select { case <-ctx.Done(): offline all topics  case <-signal: } *)
| HbDone.

Inductive wframe :=
| WPub (topic : nat) (m : Z) (todo : list nat) (res : list (nat * bool)) (pc : bpc)
| WSub (id topic : nat) (pc : spc_)
| WOff (id : nat) (todo : list nat) (res : bool) (pc : opc)
| WHb (id sg : nat) (pc : hpc).

(* wsub: the call of send inside b.response that the worker is in, if any *)
Record work := { wf : wframe; wsub : option subst }.

Record state := {
  fixed : bool;                         (* which message() is modelled: the pinned one (false) or the one of
                                           hooks/c19-fix-proposal.patch (true); never changes *)
  ids : list nat;                       (* keys of b.messages *)
  table : list (nat * nat * nat);       (* (id, topic, cache number): the inner sync.Maps *)
  caches : list cache;                  (* every MessageCache ever stored *)
  resp : nat -> option nat;             (* b.responders: id -> poll number *)
  sigs : nat -> option nat;             (* b.signals: id -> signal number *)
  polls : list poll;
  chans : list cval;                    (* chans[p] is the responder channel of polls[p] *)
  works : list work;
  sigch : list bool;                    (* signal channels: closed? *)
  accepted : list (nat * nat * Z);      (* ghost: (id, topic, message) at every Append *)
  delivered : list (nat * entry)        (* ghost: (id, entry) for every entry a poll returned *)
}.

Definition init_of (f : bool) : state :=
  {| fixed := f; ids := []; table := []; caches := []; resp := fun _ => None; sigs := fun _ => None;
     polls := []; chans := []; works := []; sigch := []; accepted := []; delivered := [] |}.

Definition init : state := init_of false.        (* the pinned code *)
Definition init_fixed : state := init_of true.   (* with the proposed repair of message() *)

(* ------------------------------------------------------------------ helpers *)

Fixpoint upd {A} (n : nat) (x : A) (l : list A) : list A :=
  match l, n with
  | [], _ => []
  | _ :: r, O => x :: r
  | y :: r, S m => y :: upd m x r
  end.

Definition fupd (f : nat -> option nat) (k : nat) (v : option nat) : nat -> option nat :=
  fun x => if Nat.eqb x k then v else f x.

Fixpoint tget (id k : nat) (t : list (nat * nat * nat)) : option nat :=
  match t with
  | [] => None
  | (i, j, c) :: r => if Nat.eqb i id && Nat.eqb j k then Some c else tget id k r
  end.

Fixpoint tdel (id k : nat) (t : list (nat * nat * nat)) : list (nat * nat * nat) :=
  match t with
  | [] => []
  | (i, j, c) :: r => if Nat.eqb i id && Nat.eqb j k then tdel id k r else (i, j, c) :: tdel id k r
  end.

Fixpoint tkeys (id : nat) (t : list (nat * nat * nat)) : list nat :=
  match t with
  | [] => []
  | (i, j, _) :: r => if Nat.eqb i id then j :: tkeys id r else tkeys id r
  end.

Fixpoint mem (x : nat) (l : list nat) : bool :=
  match l with [] => false | y :: r => Nat.eqb x y || mem x r end.

(* the k-th element of l and the rest: which key a Range visits next is not specified *)
Fixpoint pick (k : nat) (l : list nat) : option (nat * list nat) :=
  match l, k with
  | [], _ => None
  | x :: r, O => Some (x, r)
  | x :: r, S k' => match pick k' r with Some (y, r') => Some (y, x :: r') | None => None end
  end.

(* record updates *)
Definition set_ids (s : state) (x : list nat) : state :=
  {| fixed := fixed s; ids := x; table := table s; caches := caches s; resp := resp s; sigs := sigs s; polls := polls s;
     chans := chans s; works := works s; sigch := sigch s; accepted := accepted s; delivered := delivered s |}.
Definition set_table (s : state) x : state :=
  {| fixed := fixed s; ids := ids s; table := x; caches := caches s; resp := resp s; sigs := sigs s; polls := polls s;
     chans := chans s; works := works s; sigch := sigch s; accepted := accepted s; delivered := delivered s |}.
Definition set_caches (s : state) x : state :=
  {| fixed := fixed s; ids := ids s; table := table s; caches := x; resp := resp s; sigs := sigs s; polls := polls s;
     chans := chans s; works := works s; sigch := sigch s; accepted := accepted s; delivered := delivered s |}.
Definition set_resp (s : state) x : state :=
  {| fixed := fixed s; ids := ids s; table := table s; caches := caches s; resp := x; sigs := sigs s; polls := polls s;
     chans := chans s; works := works s; sigch := sigch s; accepted := accepted s; delivered := delivered s |}.
Definition set_sigs (s : state) x : state :=
  {| fixed := fixed s; ids := ids s; table := table s; caches := caches s; resp := resp s; sigs := x; polls := polls s;
     chans := chans s; works := works s; sigch := sigch s; accepted := accepted s; delivered := delivered s |}.
Definition set_polls (s : state) x : state :=
  {| fixed := fixed s; ids := ids s; table := table s; caches := caches s; resp := resp s; sigs := sigs s; polls := x;
     chans := chans s; works := works s; sigch := sigch s; accepted := accepted s; delivered := delivered s |}.
Definition set_chans (s : state) x : state :=
  {| fixed := fixed s; ids := ids s; table := table s; caches := caches s; resp := resp s; sigs := sigs s; polls := polls s;
     chans := x; works := works s; sigch := sigch s; accepted := accepted s; delivered := delivered s |}.
Definition set_works (s : state) x : state :=
  {| fixed := fixed s; ids := ids s; table := table s; caches := caches s; resp := resp s; sigs := sigs s; polls := polls s;
     chans := chans s; works := x; sigch := sigch s; accepted := accepted s; delivered := delivered s |}.
Definition set_sigch (s : state) x : state :=
  {| fixed := fixed s; ids := ids s; table := table s; caches := caches s; resp := resp s; sigs := sigs s; polls := polls s;
     chans := chans s; works := works s; sigch := x; accepted := accepted s; delivered := delivered s |}.
Definition set_accepted (s : state) x : state :=
  {| fixed := fixed s; ids := ids s; table := table s; caches := caches s; resp := resp s; sigs := sigs s; polls := polls s;
     chans := chans s; works := works s; sigch := sigch s; accepted := x; delivered := delivered s |}.
Definition set_delivered (s : state) x : state :=
  {| fixed := fixed s; ids := ids s; table := table s; caches := caches s; resp := resp s; sigs := sigs s; polls := polls s;
     chans := chans s; works := works s; sigch := sigch s; accepted := accepted s; delivered := x |}.

(* responder <- v : enabled only when the (capacity 1) channel is empty *)
Definition chan_send (s : state) (r : nat) (v : cval) : option state :=
  match nth_error (chans s) r with
  | Some VEmpty => Some (set_chans s (upd r v (chans s)))
  | _ => None
  end.

(* go b.doHeartBeat(ctx, id) *)
Definition spawn_hb (s : state) (id : nat) : state :=
  let sg := length (sigch s) in
  set_works (set_sigch s (sigch s ++ [false]))
            (works s ++ [ {| wf := WHb id sg HbUpsert; wsub := None |} ]).

(* close(signal): closing twice would panic; every signal is popped from the map (or
   replaced in Upsert) by exactly one goroutine, which closes it *)
Definition close_sig (s : state) (h : nat) : state := set_sigch s (upd h true (sigch s)).

(* ------------------------------------------------------------------ send *)

Inductive sub_out := SCont (sb : subst) | SFin (ok : bool).

Definition with_spc (sb : subst) (p : sub_pc) : subst :=
  {| sid := sid sb; sresp := sresp sb; spc := p; skeys := skeys sb; ssize := ssize sb; sres := sres sb |}.

(* one step of send(ctx, id, responder); [k] chooses the key the Range visits next *)
Definition sub_step (s : state) (k : nat) (sb : subst) : option (state * sub_out) :=
  match spc sb with
  | SLoad =>
      (* if value, ok := b.messages.Load(id); ok { topics = ... }
         if topics == nil { responder <- nil; return true } *)
      if mem (sid sb) (ids s)
      then Some (s, SCont {| sid := sid sb; sresp := sresp sb; spc := SVisit;
                             skeys := tkeys (sid sb) (table s); ssize := 0; sres := [] |})
      else match chan_send s (sresp sb) VNil with
           | Some s' => Some (s', SFin true)
           | None => None
           end
  | SVisit =>
      match skeys sb with
      | [] =>
          (* if size == 0 { responder <- nil; return true }
             if len(result) == 0 { return false }
             responder <- result; go b.doHeartBeat(ctx, id); return true *)
          if Nat.eqb (ssize sb) 0
          then match chan_send s (sresp sb) VNil with
               | Some s' => Some (s', SFin true)
               | None => None
               end
          else match sres sb with
               | [] => Some (s, SFin false)
               | _ => match chan_send s (sresp sb) (VBatch (sres sb)) with
                      | Some s' => Some (spawn_hb s' (sid sb), SFin true)
                      | None => None
                      end
               end
      | _ =>
          (* topics.Range(func(key, value) { size++; cache := value.( *MessageCache) ... *)
          match pick k (skeys sb) with
          | None => None
          | Some (key, rest) =>
              match tget (sid sb) key (table s) with
              | None => (* deleted since the Range started: not visited *)
                  Some (s, SCont {| sid := sid sb; sresp := sresp sb; spc := SVisit; skeys := rest;
                                    ssize := ssize sb; sres := sres sb |})
              | Some c =>
                  Some (s, SCont {| sid := sid sb; sresp := sresp sb; spc := STake key c; skeys := rest;
                                    ssize := S (ssize sb); sres := sres sb |})
              end
          end
      end
  | STake key c =>
      (* messages := cache.Take(); if len(messages) > 0 { result[topic] = messages } *)
      match nth_error (caches s) c with
      | None => None
      | Some ca =>
          let ms := cmsgs ca in
          let ca' := {| cown := cown ca; cmsgs := []; ctaken := ctaken ca ++ ms; cdel := cdel ca |} in
          let res' := match ms with [] => sres sb | _ => sres sb ++ [(key, c, length (ctaken ca), ms)] end in
          Some (set_caches s (upd c ca' (caches s)),
                SCont {| sid := sid sb; sresp := sresp sb; spc := SVisit; skeys := skeys sb;
                         ssize := ssize sb; sres := res' |})
      end
  | RPutBack => None (* handled by the worker step *)
  end.

(* ------------------------------------------------------------------ polls *)

Definition set_poll (s : state) (p : nat) (id : nat) (pc : lpc) : state :=
  set_polls s (upd p {| pid := id; ppc := pc |} (polls s)).

(* the poll returns a batch to its client: log every entry, move the high-water marks *)
Fixpoint deliver (id : nat) (b : batch) (cs : list cache) (dl : list (nat * entry))
  : list cache * list (nat * entry) :=
  match b with
  | [] => (cs, dl)
  | e :: r =>
      let cs' := match nth_error cs (e_cache e) with
                 | Some ca => upd (e_cache e)
                                {| cown := cown ca; cmsgs := cmsgs ca; ctaken := ctaken ca;
                                   cdel := e_off e + length (e_msgs e) |} cs
                 | None => cs
                 end in
      deliver id r cs' (dl ++ [(id, e)])
  end.

(* result := <-responder *)
Definition poll_recv (s : state) (p id : nat) : option state :=
  match nth_error (chans s) p with
  | Some VNil => Some (set_poll (set_chans s (upd p VEmpty (chans s))) p id (LDone RNil))
  | Some (VBatch b) =>
      let '(cs, dl) := deliver id b (caches s) (delivered s) in
      Some (set_poll (set_chans (set_delivered (set_caches s cs) dl) (upd p VEmpty (chans s)))
                     p id (LDone (RBatch b)))
  | _ => None
  end.

Definition poll_step (s : state) (p k : nat) : option state :=
  match nth_error (polls s) p with
  | None => None
  | Some pl =>
      let id := pid pl in
      match ppc pl with
      | LPopOld =>
          match resp s id with
          | Some r => match chan_send (set_resp s (fupd (resp s) id None)) r VNil with
                      | Some s' => Some (set_poll s' p id LPopSig)
                      | None => None
                      end
          | None => Some (set_poll s p id LPopSig)
          end
      | LPopSig =>
          match sigs s id with
          | Some h => Some (set_poll (close_sig (set_sigs s (fupd (sigs s) id None)) h) p id LSend)
          | None => Some (set_poll s p id LSend)
          end
      | LSend => Some (set_poll s p id (LSending (sub0 id p)))
      | LSending sb =>
          match sub_step s k sb with
          | None => None
          | Some (s', SCont sb') => Some (set_poll s' p id (LSending sb'))
          | Some (s', SFin true) => Some (set_poll s' p id LRecv)
          | Some (s', SFin false) => Some (set_poll s' p id LUpsert)
          end
      | LRecv => poll_recv s p id
      | LUpsert =>
          (* b.responders.Upsert(id, responder, func(exist, old, new) { if exist { old <- nil }; return new }) *)
          match resp s id with
          | Some r => match chan_send (set_resp s (fupd (resp s) id (Some p))) r VNil with
                      | Some s' => Some (set_poll s' p id LWait)
                      | None => None
                      end
          | None => Some (set_poll (set_resp s (fupd (resp s) id (Some p))) p id LWait)
          end
      | LWait =>
          match k with
          | O => poll_recv s p id
          | S _ =>
              if fixed s
              then (* case <-ctx.Done(): return b.timeout(id, responder) *)
                   Some (set_poll s p id LTimedOut)
              else (* case <-ctx.Done(): go b.doHeartBeat(context.Background(), id); return map[string][]Message{}
                      the responder stays wherever it is *)
                   Some (set_poll (spawn_hb s id) p id (LDone RTimeout))
          end
      | LTimedOut =>
          match k with
          | O =>
              (* if b.responders.RemoveCb(id, mine) { go b.doHeartBeat(...); return map[string][]Message{} }
                 mine: the registered value is this poll's responder *)
              match resp s id with
              | Some r => if Nat.eqb r p
                          then Some (set_poll (spawn_hb (set_resp s (fupd (resp s) id None)) id) p id (LDone RTimeout))
                          else None
              | None => None
              end
          | S _ => poll_recv s p id      (* case result := <-responder: return result *)
          end
      | LDone _ => None
      end
  end.

(* ------------------------------------------------------------------ workers *)

Definition set_work (s : state) (w : nat) (f : wframe) (sb : option subst) : state :=
  set_works s (upd w {| wf := f; wsub := sb |} (works s)).

(* b.response(ctx, id): Pop the responder; the frame continues with [f] once send is over *)
Definition do_response (s : state) (w id : nat) (f : wframe) : state :=
  match resp s id with
  | Some r => set_work (set_resp s (fupd (resp s) id None)) w f (Some (sub0 id r))
  | None => set_work s w f None
  end.

Definition work_step (s : state) (w k : nat) : option state :=
  match nth_error (works s) w with
  | None => None
  | Some wk =>
      match wsub wk with
      | Some sb =>
          match spc sb with
          | RPutBack =>
              (* if !b.responders.SetIfAbsent(id, responder) { responder <- nil } *)
              match resp s (sid sb) with
              | None => Some (set_work (set_resp s (fupd (resp s) (sid sb) (Some (sresp sb)))) w (wf wk) None)
              | Some _ => match chan_send s (sresp sb) VNil with
                          | Some s' => Some (set_work s' w (wf wk) None)
                          | None => None
                          end
              end
          | _ =>
              match sub_step s k sb with
              | None => None
              | Some (s', SCont sb') => Some (set_work s' w (wf wk) (Some sb'))
              | Some (s', SFin true) => Some (set_work s' w (wf wk) None)
              | Some (s', SFin false) => Some (set_work s' w (wf wk) (Some (with_spc sb RPutBack)))
              end
          end
      | None =>
          match wf wk with
          | WPub tp m todo res pc =>
              match pc with
              | PubStart => Some (set_work s w (WPub tp m (ids s) res PubNext) None)
              | PubNext =>
                  match todo with
                  | [] => Some (set_work s w (WPub tp m [] res PubDone) None)
                  | id :: rest =>
                      (* if topics, ok := b.messages.Load(id); ok {
                           if cache, ok := topics.Load(topic); ok && cache != nil { ... return true } }
                         return false *)
                      match tget id tp (table s) with
                      | Some c => Some (set_work s w (WPub tp m rest res (PubAppend id c)) None)
                      | None => Some (set_work s w (WPub tp m rest (res ++ [(id, false)]) PubNext) None)
                      end
                  end
              | PubAppend id c =>
                  match nth_error (caches s) c with
                  | None => None
                  | Some ca =>
                      let ca' := {| cown := cown ca; cmsgs := cmsgs ca ++ [m]; ctaken := ctaken ca; cdel := cdel ca |} in
                      Some (set_work (set_accepted (set_caches s (upd c ca' (caches s)))
                                                   (accepted s ++ [(id, tp, m)]))
                                     w (WPub tp m todo res (PubResp id)) None)
                  end
              | PubResp id => Some (do_response s w id (WPub tp m todo (res ++ [(id, true)]) PubNext))
              | PubDone => None
              end
          | WSub id tp pc =>
              match pc with
              | SubEnsure =>
                  Some (set_work (if mem id (ids s) then s else set_ids s (ids s ++ [id])) w (WSub id tp SubLoad) None)
              | SubLoad =>
                  match tget id tp (table s) with
                  | Some _ => Some (set_work s w (WSub id tp (SubDone false)) None)
                  | None => Some (set_work s w (WSub id tp SubStore) None)
                  end
              | SubStore =>
                  match tget id tp (table s) with
                  | Some _ => Some (set_work s w (WSub id tp (SubDone false)) None)
                  | None =>
                      let c := length (caches s) in
                      Some (set_work (set_table (set_caches s (caches s ++ [ {| cown := (id, tp); cmsgs := [];
                                                                                ctaken := []; cdel := 0 |} ]))
                                                (table s ++ [(id, tp, c)]))
                                     w (WSub id tp (SubDone true)) None)
                  end
              | SubDone _ => None
              end
          | WOff id todo res pc =>
              match pc with
              | OffStart =>
                  if mem id (ids s)
                  then Some (set_work s w (WOff id (tkeys id (table s)) res OffNext) None)
                  else Some (set_work s w (WOff id [] res OffDone) None)
              | OffNext =>
                  match todo with
                  | [] => Some (set_work s w (WOff id [] res OffDone) None)
                  | _ =>
                      match pick k todo with
                      | None => None
                      | Some (key, rest) =>
                          (* if messages, ok := topics.Load(topic); ok { ... return true }; return false *)
                          match tget id key (table s) with
                          | Some _ => Some (set_work s w (WOff id rest res (OffDelete key)) None)
                          | None => Some (set_work s w (WOff id rest false OffNext) None)
                          end
                      end
                  end
              | OffDelete key => Some (set_work (set_table s (tdel id key (table s))) w (WOff id todo res OffResp) None)
              | OffResp => Some (do_response s w id (WOff id todo true OffNext))
              | OffDone => None
              end
          | WHb id sg pc =>
              match pc with
              | HbUpsert =>
                  let s1 := match sigs s id with Some h => close_sig s h | None => s end in
                  Some (set_work (set_sigs s1 (fupd (sigs s1) id (Some sg))) w (WHb id sg HbWait) None)
              | HbWait =>
                  match k with
                  | O => match nth_error (sigch s) sg with
                         | Some true => Some (set_work s w (WHb id sg HbDone) None)
                         | _ => None
                         end
                  | S _ => Some (set_work s w (WOff id [] false OffStart) None)
                  end
              | HbDone => None
              end
          end
      end
  end.

(* ------------------------------------------------------------------ the LTS *)

Inductive op :=
| OSub (id topic : nat)                      (* "+" *)
| OUnsub (id topic : nat)                    (* "-" *)
| OUni (topic : nat) (m : Z) (id : nat)      (* ">"  / Push(data, topic, id) *)
| OMulti (topic : nat) (m : Z) (l : list nat)(* ">?" / Push(data, topic, id1, id2, ...) *)
| OBcast (topic : nat) (m : Z)               (* ">*" / Push(data, topic) *)
| OPoll (id : nat).                          (* "<" *)

Inductive event :=
| ESpawn (o : op)          (* a client request arrives: a new goroutine *)
| EPoll (p k : nat)        (* poll p makes a step; at LWait k = 0 receives, k > 0 is the timer *)
| EWork (w k : nat).       (* worker w makes a step; at HbWait k = 0 is the signal, k > 0 the timer *)

Definition poll_active (pl : poll) : bool := match ppc pl with LDone _ => false | _ => true end.

Definition busy (id : nat) (ps : list poll) : bool :=
  existsb (fun pl => Nat.eqb (pid pl) id && poll_active pl) ps.

Definition add_work (s : state) (f : wframe) : state :=
  set_works s (works s ++ [ {| wf := f; wsub := None |} ]).

Definition spawn (s : state) (o : op) : option state :=
  match o with
  | OSub id tp => Some (add_work s (WSub id tp SubEnsure))
  | OUnsub id tp => Some (add_work s (WOff id [tp] false OffNext))
  | OUni tp m id => Some (add_work s (WPub tp m [id] [] PubNext))
  | OMulti tp m l => Some (add_work s (WPub tp m l [] PubNext))
  | OBcast tp m => Some (add_work s (WPub tp m [] [] PubStart))
  | OPoll id =>
      (* the polling consumer of a client id issues one poll at a time *)
      if busy id (polls s) then None
      else Some (set_chans (set_polls s (polls s ++ [ {| pid := id; ppc := LPopOld |} ])) (chans s ++ [VEmpty]))
  end.

Definition step (s : state) (e : event) : option state :=
  match e with
  | ESpawn o => spawn s o
  | EPoll p k => poll_step s p k
  | EWork w k => work_step s w k
  end.

Fixpoint run (s : state) (sched : list event) : option state :=
  match sched with
  | [] => Some s
  | e :: r => match step s e with None => None | Some s' => run s' r end
  end.

(* ------------------------------------------------------------------ what the property talks about *)

(* messages of cache c handed to a client so far, in the order they were handed over *)
Fixpoint dmsgs (c : nat) (dl : list (nat * entry)) : list Z :=
  match dl with
  | [] => []
  | (_, e) :: r => if Nat.eqb (e_cache e) c then e_msgs e ++ dmsgs c r else dmsgs c r
  end.

Inductive Subseq {A} : list A -> list A -> Prop :=
| SubNil : forall l, Subseq [] l
| SubTake : forall x l1 l2, Subseq l1 l2 -> Subseq (x :: l1) (x :: l2)
| SubSkip : forall x l1 l2, Subseq l1 l2 -> Subseq l1 (x :: l2).

(* messages of cache c that are on their way to a poll that is still going to read them:
   in the channel of an active poll, in the result that the poll's own send is building,
   or in the result of the worker that has popped the responder of an active poll *)
Definition ents (c : nat) (b : batch) : list Z :=
  flat_map (fun e => if Nat.eqb (e_cache e) c then e_msgs e else []) b.

Definition cval_ents (c : nat) (v : cval) : list Z :=
  match v with VBatch b => ents c b | _ => [] end.

Definition active_at (s : state) (r : nat) : bool :=
  match nth_error (polls s) r with Some pl => poll_active pl | None => false end.

Definition live_poll (s : state) (c : nat) (p : nat) (pl : poll) : list Z :=
  if poll_active pl
  then (match nth_error (chans s) p with Some v => cval_ents c v | None => [] end)
       ++ (match ppc pl with LSending sb => ents c (sres sb) | _ => [] end)
  else [].

Definition live_work (s : state) (c : nat) (wk : work) : list Z :=
  match wsub wk with
  | Some sb => if active_at s (sresp sb) then ents c (sres sb) else []
  | None => []
  end.

Fixpoint flat_mapi {A B} (f : nat -> A -> list B) (i : nat) (l : list A) : list B :=
  match l with [] => [] | x :: r => f i x ++ flat_mapi f (S i) r end.

Definition live (s : state) (c : nat) : list Z :=
  flat_mapi (live_poll s c) 0 (polls s) ++ flat_map (live_work s c) (works s).

(* a poll time-out fires somewhere in the schedule *)
Definition is_timeout (s : state) (e : event) : bool :=
  match e with
  | EPoll p (S _) => match nth_error (polls s) p with
                     | Some pl => match ppc pl with LWait => true | _ => false end
                     | None => false
                     end
  | EPoll p O => match nth_error (polls s) p with
                 | Some pl => match ppc pl with LTimedOut => true | _ => false end
                 | None => false
                 end
  | _ => false
  end.

(* the two steps through which a message can be lost:
   - the poll timer fires while the poll's responder is not in b.responders (a worker has
     popped it and is about to answer, or has answered already);
   - b.response pops the responder of a poll that has timed out *)
Definition hazard (s : state) (e : event) : bool :=
  match e with
  | EPoll p (S _) =>
      match nth_error (polls s) p with
      | Some pl => match ppc pl with
                   | LWait => if fixed s then false   (* the repaired poll withdraws its responder first *)
                              else match resp s (pid pl) with
                                   | Some r => negb (Nat.eqb r p)
                                   | None => true
                                   end
                   | _ => false
                   end
      | None => false
      end
  | EWork w _ =>
      match nth_error (works s) w with
      | Some wk =>
          match wsub wk with
          | Some _ => false
          | None =>
              let popped id := match resp s id with Some r => negb (active_at s r) | None => false end in
              match wf wk with
              | WPub _ _ _ _ (PubResp id) => popped id
              | WOff id _ _ OffResp => popped id
              | _ => false
              end
          end
      | None => false
      end
  | _ => false
  end.

(* run that records whether a given kind of step occurred *)
Fixpoint run_avoiding (bad : state -> event -> bool) (s : state) (sched : list event) : option state :=
  match sched with
  | [] => Some s
  | e :: r => if bad s e then None
              else match step s e with None => None | Some s' => run_avoiding bad s' r end
  end.

(* results, for the driver *)
Definition poll_result (s : state) (p : nat) : option pres :=
  match nth_error (polls s) p with
  | Some pl => match ppc pl with LDone r => Some r | _ => None end
  | None => None
  end.

(* ------------------------------------------------------------------ what the atomic insert is for
   A variant of subscribe in which the new cache is installed with topics.Store instead of
   topics.LoadOrStore: the existence check ([SubLoad]) and the insert are then two independent
   steps, and the insert replaces whatever another subscribe of the same client and topic has
   installed meanwhile.  Only used to exhibit the run in which an accepted message is lost. *)
Definition store_step (s : state) (w : nat) : option state :=
  match nth_error (works s) w with
  | Some wk =>
      match wsub wk, wf wk with
      | None, WSub id tp SubStore =>
          let c := length (caches s) in
          Some (set_work (set_table (set_caches s (caches s ++ [ {| cown := (id, tp); cmsgs := [];
                                                                    ctaken := []; cdel := 0 |} ]))
                                    (tdel id tp (table s) ++ [(id, tp, c)]))
                         w (WSub id tp (SubDone true)) None)
      | _, _ => None
      end
  | None => None
  end.

Definition step_nonatomic (s : state) (e : event) : option state :=
  match e with
  | EWork w _ => match store_step s w with Some s' => Some s' | None => step s e end
  | _ => step s e
  end.

Fixpoint run_nonatomic (s : state) (sched : list event) : option state :=
  match sched with
  | [] => Some s
  | e :: r => match step_nonatomic s e with None => None | Some s' => run_nonatomic s' r end
  end.
