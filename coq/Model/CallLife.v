(* Model of the life of a client call over a multiplexed transport (C10):
     rpc/core/client.go                       Client.Transport (cancelFuncs), Client.Abort
     rpc/{socket,websocket,udp}/transport.go  conn.Transport, Send, Receive, Exit, Close,
                                              rangeAndClean, Transport.getConn, Transport.Abort
   Executable definitions only; proofs live in Proofs/CallLifeProofs.v.

   The Go text (the three transports are identical in structure):

     // rpc/core/client.go
     func (c *Client) Transport(ctx, request) (response, err) {
         if Timeout > 0 { ctx, cancel = context.WithTimeout(ctx, Timeout) } else { ctx, cancel = context.WithCancel(ctx) }
         cancelLock; cancelFunc := c.cancelFuncs.PushBack(cancel); unlock                       -- LBegin
         defer func() { cancelLock; c.cancelFuncs.Remove(cancelFunc); unlock; cancel() }()      -- LEnd
         return c.transports[name].Transport(ctx, request) }
     func (c *Client) Abort() {
         cancelLock; for every e in cancelFuncs { Remove(e); cancelFunc() }; unlock             -- LAbortCancel
         for every transport { transport.Abort() } }                                            -- LAbortSwap, then Close

     // transport.go
     func (trans *Transport) getConn(ctx) (conn, err) {                          -- LGetConn (pooled) / LDial / LDialFail
         RLock; if conn = trans.conns[key]; conn != nil { return }; RUnlock
         Lock; defer Unlock; if conn = trans.conns[key]; conn != nil { return }
         conn, err = newConn(ctx, ...); if err != nil { return }
         trans.conns[key] = conn
         ctx, cancel := context.WithCancel(context.Background())
         onExit := func() { Lock; if trans.conns[key] == conn { delete(trans.conns, key) }; Unlock; cancel() }
                  // before 576bf91 cancel() was inside the if (cfg field fix_cancel = false)
         go conn.Send(ctx, onExit); go conn.Receive(ctx, onExit); return }
     func (trans *Transport) Abort() {
         Lock; conns := trans.conns; trans.conns = make(map); Unlock                             -- LAbortSwap
         for _, conn := range conns { conn.Close(core.ErrClosed) } }                             -- aborter: ECloseSock, EClean

     func (c *conn) Transport(ctx, request) (response, err) {
         index := int(atomic.AddInt32(&c.counter, 1) & MASK)                                     -- (part of LGetConn / LDial)
         resultChan := make(chan data, 1)
         c.store(index, resultChan)     // lock; if c.closeErr != nil { unlock; resultChan <- data{Error: closeErr}; return }
                                        // c.results[index] = resultChan; unlock  (before 8ffdf9e: no closeErr test,
                                        // cfg field fix_store = false)                                  -- LStore
         select { case <-ctx.Done(): c.delete(index); return nil, ctx.Err()                      -- LCancelDel
                  case c.requests <- data{index, request}:                                       -- LEnqueue
                  case res := <-resultChan: return res.Body, res.Error }                         -- LTake
         select { case <-ctx.Done(): c.delete(index); return nil, ctx.Err()                      -- LCancelDel
                  case res := <-resultChan: return res.Body, res.Error } }                       -- LTake
     func (c *conn) Send(ctx, onExit) {
         var err error; defer func() { /* recover */ c.Exit(onExit, err) }()     // panics are not modelled here (C11)
         for { select { case <-ctx.Done(): return                                                -- LSendCtx
                        case request := <-c.requests:                                            -- (LEnqueue)
                            if err = c.send(request); err != nil { return } } } }                -- LSendOk / LSendFail
     func (c *conn) Receive(ctx, onExit) {
         var err error; defer func() { c.Exit(onExit, err) }()
         for { select { case <-ctx.Done(): return                                                -- LRecvCtx
                        default: if err = c.receive(); err != nil { return } } } }               -- LRecvPoll; LRecvReply / LRecvFail
     func (c *conn) Exit(onExit, err) {
         onExit()                                                                                -- LOnExit
         if err != nil { c.Close(err) } }
     func (c *conn) Close(err) {
         c.once.Do(func() { c.onClose(c.Conn); _ = c.Conn.Close() })                             -- LCloseSock
         lock; if c.closeErr == nil { c.closeErr = err }; unlock          // merged into LCloseSock: a store between the two
                                                                          // registers an entry that the cleaning below fails
         c.rangeAndClean(func(index, resultChan) { resultChan <- data{Index: index, Error: err} }) }
     func (c *conn) rangeAndClean(f) {
         lock
         for len(c.results) > 0 { results := c.results; c.results = make(map); unlock            -- LCleanTake
                                  for each: f(index, resultChan); Gosched(); lock }
         unlock }                                                                                -- LCleanDone

   Atomic steps: one critical section of a mutex, one channel operation, one atomic add.  The
   sends of rangeAndClean go to channels of capacity one that nobody else sends to; they are
   merged with the critical section that took the entries (a caller that looks at its channel
   between the two sees it empty, which is the same as looking before the critical section).
   getConn and the AddInt32 that follows are merged into one step (LGetConn when a pooled connection
   is found, LDial when a new one is dialled and its Send and Receive are started): nothing but the
   order of index allocation could tell them apart.

   rpc/udp's store additionally refuses an index that a pending call holds (the caller then draws the next
   one, 7acbe6f); that is modelled in Model/Mux.v (C09).  Here index collisions are excluded by the guard
   no_reuse, under which refusing and overwriting never happen.

   Environment: the peer answers any index at any time (LPeerReply), or is gone (LPeerGone: it
   closed or reset the connection, or sent something that makes the next read fail: garbage, a
   frame with a bad checksum, a close frame); it may also simply stay silent (no step).  A write
   may succeed as long as the client has not closed the socket, and may fail as soon as the peer
   is gone or the socket is closed.  Deadlines and parent-context cancellation are environment
   events (LFire, LUserCancel); wall-clock time is not modelled. *)
From Coq Require Import List ZArith Bool PeanoNat.
From HV Require Import Model.Mux.
Import ListNotations.
Open Scope Z_scope.

(* what Transport returned *)
Inductive result := RResp | RErr | RCancel.

(* inside conn.Exit / conn.Close *)
Inductive epc :=
| EOnExit (err : bool)        (* about to call onExit(); err = Exit was given an error *)
| ECloseSock                  (* in Close: about to run once.Do(close the socket) *)
| EClean                      (* in rangeAndClean *)
| EDone.                      (* returned; the goroutine is gone *)

Inductive spc := SIdle | SHold | SExit (e : epc).
Inductive rpc := RHead | RRead | RExit (e : epc).

Definition tab := list (Z * nat).                 (* conn.results: index |-> caller *)

Record conn := {
  ktab : tab;
  kcounter : Z;
  ksock : bool;               (* the client has closed the socket *)
  kpeer_gone : bool;          (* reads will fail / writes may fail *)
  kcancel : bool;             (* cancel() of the context of Send and Receive has been called *)
  kcleaned : bool;            (* some rangeAndClean on this connection has returned *)
  kunpooled : bool;           (* removed from Transport.conns (onExit or Abort) *)
  kinflight : list Z;         (* indices of replies on their way to Receive *)
  ksender : spc;
  kreceiver : rpc
}.

Definition new_conn : conn :=
  {| ktab := []; kcounter := 0; ksock := false; kpeer_gone := false; kcancel := false;
     kcleaned := false; kunpooled := false; kinflight := []; ksender := SIdle; kreceiver := RHead |}.

Inductive cpc :=
| CStart                                  (* before Client.Transport *)
| CGet                                    (* cancel function registered; before getConn *)
| CAlloc (c : nat) (i : Z)                (* has the conn and an index; before store ("before-store") *)
| CStored (c : nat) (i : Z)               (* registered; first select *)
| CEnq (c : nat) (i : Z)                  (* request handed to Send; second select *)
| CDirect                                 (* inside the Transport of rpc/http, rpc/http/fasthttp or rpc/mock: no pending
                                             table; the call waits for the server with its context *)
| CRet (r : result)                       (* conn.Transport returned; deferred function pending *)
| CDone (r : result).

Record caller := {
  pc : cpc;
  box : option result;                    (* resultChan *)
  cancelled : bool;                       (* ctx.Done() is closed *)
  armed : bool                            (* Timeout > 0: a deadline is armed from LBegin on *)
}.

Record state := {
  conns : list conn;
  pool : option nat;                      (* Transport.conns[key] *)
  callers : list caller;
  cancels : list nat;                     (* Client.cancelFuncs *)
  aborters : list (nat * epc)             (* Transport.Abort goroutines: conn being closed, where *)
}.

Definition init (timeouts : list bool) : state :=
  {| conns := []; pool := None;
     callers := map (fun a => {| pc := CStart; box := None; cancelled := false; armed := a |}) timeouts;
     cancels := []; aborters := [] |}.

(* who runs an Exit/Close step *)
Inductive who := WS (c : nat) | WR (c : nat) | WA (j : nat).

Inductive label :=
| LBegin (k : nat) | LGetConn (k : nat) | LDial (k : nat) | LDialFail (k : nat) | LStore (k : nat)
| LEnqueue (k : nat) | LTake (k : nat) | LCancelDel (k : nat) | LEnd (k : nat)
| LFire (k : nat) | LUserCancel (k : nat)
| LDirectBegin (k : nat) | LDirectRet (k : nat) (r : result) | LDirectCancel (k : nat)
| LSendOk (c : nat) | LSendFail (c : nat) | LSendCtx (c : nat)
| LRecvPoll (c : nat) | LRecvCtx (c : nat) | LRecvReply (c : nat) (n : nat) | LRecvFail (c : nat)
| LOnExit (w : who) | LCloseSock (w : who) | LCleanTake (w : who) | LCleanDone (w : who)
| LPeerReply (c : nat) (i : Z) | LPeerGone (c : nat)
| LAbortCancel | LAbortSwap.

Fixpoint upd_nth {A} (n : nat) (x : A) (l : list A) : list A :=
  match l, n with
  | [], _ => []
  | _ :: r, O => x :: r
  | y :: r, S m => y :: upd_nth m x r
  end.

Definition set_conns (st : state) (cs : list conn) : state :=
  {| conns := cs; pool := pool st; callers := callers st; cancels := cancels st; aborters := aborters st |}.
Definition set_callers (st : state) (cl : list caller) : state :=
  {| conns := conns st; pool := pool st; callers := cl; cancels := cancels st; aborters := aborters st |}.
Definition set_pool (st : state) (p : option nat) : state :=
  {| conns := conns st; pool := p; callers := callers st; cancels := cancels st; aborters := aborters st |}.
Definition set_cancels (st : state) (l : list nat) : state :=
  {| conns := conns st; pool := pool st; callers := callers st; cancels := l; aborters := aborters st |}.
Definition set_aborters (st : state) (l : list (nat * epc)) : state :=
  {| conns := conns st; pool := pool st; callers := callers st; cancels := cancels st; aborters := l |}.

Definition put_conn (c : nat) (cn : conn) (st : state) : state := set_conns st (upd_nth c cn (conns st)).
Definition put_caller (k : nat) (cl : caller) (st : state) : state := set_callers st (upd_nth k cl (callers st)).

Definition with_pc (p : cpc) (cl : caller) : caller :=
  {| pc := p; box := box cl; cancelled := cancelled cl; armed := armed cl |}.
Definition with_box (b : option result) (cl : caller) : caller :=
  {| pc := pc cl; box := b; cancelled := cancelled cl; armed := armed cl |}.
Definition with_cancelled (cl : caller) : caller :=
  {| pc := pc cl; box := box cl; cancelled := true; armed := armed cl |}.

Definition with_tab (t : tab) (cn : conn) : conn :=
  {| ktab := t; kcounter := kcounter cn; ksock := ksock cn; kpeer_gone := kpeer_gone cn; kcancel := kcancel cn;
     kcleaned := kcleaned cn; kunpooled := kunpooled cn; kinflight := kinflight cn;
     ksender := ksender cn; kreceiver := kreceiver cn |}.
Definition with_counter (n : Z) (cn : conn) : conn :=
  {| ktab := ktab cn; kcounter := n; ksock := ksock cn; kpeer_gone := kpeer_gone cn; kcancel := kcancel cn;
     kcleaned := kcleaned cn; kunpooled := kunpooled cn; kinflight := kinflight cn;
     ksender := ksender cn; kreceiver := kreceiver cn |}.
Definition with_sock (cn : conn) : conn :=
  {| ktab := ktab cn; kcounter := kcounter cn; ksock := true; kpeer_gone := kpeer_gone cn; kcancel := kcancel cn;
     kcleaned := kcleaned cn; kunpooled := kunpooled cn; kinflight := kinflight cn;
     ksender := ksender cn; kreceiver := kreceiver cn |}.
Definition with_peer_gone (cn : conn) : conn :=
  {| ktab := ktab cn; kcounter := kcounter cn; ksock := ksock cn; kpeer_gone := true; kcancel := kcancel cn;
     kcleaned := kcleaned cn; kunpooled := kunpooled cn; kinflight := kinflight cn;
     ksender := ksender cn; kreceiver := kreceiver cn |}.
Definition with_unpooled (cancel : bool) (cn : conn) : conn :=
  {| ktab := ktab cn; kcounter := kcounter cn; ksock := ksock cn; kpeer_gone := kpeer_gone cn;
     kcancel := kcancel cn || cancel;
     kcleaned := kcleaned cn; kunpooled := true; kinflight := kinflight cn;
     ksender := ksender cn; kreceiver := kreceiver cn |}.
Definition with_cleaned (cn : conn) : conn :=
  {| ktab := ktab cn; kcounter := kcounter cn; ksock := ksock cn; kpeer_gone := kpeer_gone cn; kcancel := kcancel cn;
     kcleaned := true; kunpooled := kunpooled cn; kinflight := kinflight cn;
     ksender := ksender cn; kreceiver := kreceiver cn |}.
Definition with_inflight (l : list Z) (cn : conn) : conn :=
  {| ktab := ktab cn; kcounter := kcounter cn; ksock := ksock cn; kpeer_gone := kpeer_gone cn; kcancel := kcancel cn;
     kcleaned := kcleaned cn; kunpooled := kunpooled cn; kinflight := l;
     ksender := ksender cn; kreceiver := kreceiver cn |}.
Definition with_sender (s : spc) (cn : conn) : conn :=
  {| ktab := ktab cn; kcounter := kcounter cn; ksock := ksock cn; kpeer_gone := kpeer_gone cn; kcancel := kcancel cn;
     kcleaned := kcleaned cn; kunpooled := kunpooled cn; kinflight := kinflight cn;
     ksender := s; kreceiver := kreceiver cn |}.
Definition with_receiver (r : rpc) (cn : conn) : conn :=
  {| ktab := ktab cn; kcounter := kcounter cn; ksock := ksock cn; kpeer_gone := kpeer_gone cn; kcancel := kcancel cn;
     kcleaned := kcleaned cn; kunpooled := kunpooled cn; kinflight := kinflight cn;
     ksender := ksender cn; kreceiver := r |}.

Definition holder_in (k : nat) (t : tab) : bool := existsb (fun e => Nat.eqb (snd e) k) t.

(* the sends of rangeAndClean: every holder's channel receives data{Error: err} *)
Fixpoint fail_from (n : nat) (t : tab) (l : list caller) : list caller :=
  match l with
  | [] => []
  | cl :: r => (if holder_in n t then with_box (Some RErr) cl else cl) :: fail_from (S n) t r
  end.

Fixpoint remove_nat (k : nat) (l : list nat) : list nat :=
  match l with [] => [] | x :: r => if Nat.eqb x k then remove_nat k r else x :: remove_nat k r end.

Fixpoint mem_nat (k : nat) (l : list nat) : bool :=
  match l with [] => false | x :: r => Nat.eqb x k || mem_nat k r end.

(* Client.Abort, first half: every registered cancel function is called *)
Fixpoint cancel_from (n : nat) (cs : list nat) (l : list caller) : list caller :=
  match l with
  | [] => []
  | cl :: r => (if mem_nat n cs then with_cancelled cl else cl) :: cancel_from (S n) cs r
  end.

(* the Exit/Close program counter of [w], and the connection it works on *)
Definition who_conn (st : state) (w : who) : option nat :=
  match w with
  | WS c | WR c => Some c
  | WA j => match nth_error (aborters st) j with Some (c, _) => Some c | None => None end
  end.

Definition who_pc (st : state) (w : who) : option epc :=
  match w with
  | WS c => match nth_error (conns st) c with
            | Some cn => match ksender cn with SExit e => Some e | _ => None end
            | None => None end
  | WR c => match nth_error (conns st) c with
            | Some cn => match kreceiver cn with RExit e => Some e | _ => None end
            | None => None end
  | WA j => match nth_error (aborters st) j with Some (_, e) => Some e | None => None end
  end.

(* [w], working on connection c (currently cn), turns it into (f cn) and moves on to e' *)
Definition exit_update (w : who) (c : nat) (cn : conn) (f : conn -> conn) (e' : epc) (st : state) : state :=
  match w with
  | WS _ => put_conn c (with_sender (SExit e') (f cn)) st
  | WR _ => put_conn c (with_receiver (RExit e') (f cn)) st
  | WA j => set_aborters (put_conn c (f cn) st) (upd_nth j (c, e') (aborters st))
  end.

Definition waiting_at (p : cpc) : option (nat * Z) :=
  match p with CStored c i | CEnq c i => Some (c, i) | _ => None end.

Definition started (p : cpc) : bool :=
  match p with CStart | CDone _ => false | _ => true end.

Record cfg := {
  mask : Z;
  fix_cancel : bool;   (* onExit cancels the context of Send and Receive whether or not the connection is still
                          pooled (576bf91); before: only when it removed the connection from the pool *)
  fix_store : bool     (* Close records its error under conn.lock before cleaning and store, finding it, fills the
                          caller's channel with that error instead of registering (8ffdf9e); before: store
                          registered unconditionally *)
}.

Definition step (g : cfg) (st : state) (l : label) : option state :=
  match l with
  | LBegin k =>
      match nth_error (callers st) k with
      | Some cl => match pc cl with
                   | CStart => Some (set_cancels (put_caller k (with_pc CGet cl) st) (k :: cancels st))
                   | _ => None end
      | None => None end
  | LGetConn k =>                      (* a pooled connection is found *)
      match nth_error (callers st) k, pool st with
      | Some cl, Some c =>
          match pc cl, nth_error (conns st) c with
          | CGet, Some cn =>
              let n := kcounter cn + 1 in
              Some (put_caller k (with_pc (CAlloc c (index_of n (mask g))) cl)
                               (put_conn c (with_counter n cn) st))
          | _, _ => None end
      | _, _ => None end
  | LDial k =>                         (* no pooled connection: dial succeeds, Send and Receive are started *)
      match nth_error (callers st) k, pool st with
      | Some cl, None =>
          match pc cl with
          | CGet =>
              let c := length (conns st) in
              Some (put_caller k (with_pc (CAlloc c (index_of 1 (mask g))) cl)
                               (set_pool (set_conns st (conns st ++ [with_counter 1 new_conn])) (Some c)))
          | _ => None end
      | _, _ => None end
  | LDialFail k =>
      match nth_error (callers st) k, pool st with
      | Some cl, None => match pc cl with
                         | CGet => Some (put_caller k (with_pc (CRet RErr) cl) st)
                         | _ => None end
      | _, _ => None end
  | LStore k =>
      match nth_error (callers st) k with
      | Some cl =>
          match pc cl with
          | CAlloc c i =>
              match nth_error (conns st) c with
              | Some cn =>
                  if fix_store g && ksock cn
                  then (* c.closeErr != nil: nothing is registered, resultChan <- data{Error: closeErr} *)
                       Some (put_caller k (with_pc (CStored c i) (with_box (Some RErr) cl)) st)
                  else Some (put_caller k (with_pc (CStored c i) cl)
                                        (put_conn c (with_tab (a_set Z.eqb i k (ktab cn)) cn) st))
              | None => None end
          | _ => None end
      | None => None end
  | LEnqueue k =>
      match nth_error (callers st) k with
      | Some cl =>
          match pc cl with
          | CStored c i =>
              match nth_error (conns st) c with
              | Some cn => match ksender cn with
                           | SIdle => Some (put_caller k (with_pc (CEnq c i) cl)
                                                       (put_conn c (with_sender SHold cn) st))
                           | _ => None end
              | None => None end
          | _ => None end
      | None => None end
  | LTake k =>
      match nth_error (callers st) k with
      | Some cl =>
          match waiting_at (pc cl), box cl with
          | Some _, Some r => Some (put_caller k (with_pc (CRet r) (with_box None cl)) st)
          | _, _ => None end
      | None => None end
  | LCancelDel k =>
      match nth_error (callers st) k with
      | Some cl =>
          match waiting_at (pc cl), cancelled cl with
          | Some (c, i), true =>
              match nth_error (conns st) c with
              | Some cn => Some (put_caller k (with_pc (CRet RCancel) cl)
                                            (put_conn c (with_tab (a_remove Z.eqb i (ktab cn)) cn) st))
              | None => None end
          | _, _ => None end
      | None => None end
  | LEnd k =>
      match nth_error (callers st) k with
      | Some cl => match pc cl with
                   | CRet r => Some (set_cancels (put_caller k (with_pc (CDone r) cl) st) (remove_nat k (cancels st)))
                   | _ => None end
      | None => None end
  | LFire k =>
      match nth_error (callers st) k with
      | Some cl => if armed cl && started (pc cl) then Some (put_caller k (with_cancelled cl) st) else None
      | None => None end
  | LUserCancel k =>
      match nth_error (callers st) k with
      | Some cl => if started (pc cl) then Some (put_caller k (with_cancelled cl) st) else None
      | None => None end
  | LDirectBegin k =>                   (* c.transports[name] is http / fasthttp / mock: Transport(ctx, request) entered *)
      match nth_error (callers st) k with
      | Some cl => match pc cl with
                   | CGet => Some (put_caller k (with_pc CDirect cl) st)
                   | _ => None end
      | None => None end
  | LDirectRet k r =>                   (* the server's response, or an error of the request (environment) *)
      match nth_error (callers st) k with
      | Some cl => match pc cl, r with
                   | CDirect, RCancel => None
                   | CDirect, _ => Some (put_caller k (with_pc (CRet r) cl) st)
                   | _, _ => None end
      | None => None end
  | LDirectCancel k =>                  (* the transport honours ctx.Done() *)
      match nth_error (callers st) k with
      | Some cl => match pc cl, cancelled cl with
                   | CDirect, true => Some (put_caller k (with_pc (CRet RCancel) cl) st)
                   | _, _ => None end
      | None => None end
  | LSendOk c =>
      match nth_error (conns st) c with
      | Some cn => match ksender cn, ksock cn with
                   | SHold, false => Some (put_conn c (with_sender SIdle cn) st)
                   | _, _ => None end
      | None => None end
  | LSendFail c =>
      match nth_error (conns st) c with
      | Some cn => match ksender cn with
                   | SHold => if ksock cn || kpeer_gone cn
                              then Some (put_conn c (with_sender (SExit (EOnExit true)) cn) st) else None
                   | _ => None end
      | None => None end
  | LSendCtx c =>
      match nth_error (conns st) c with
      | Some cn => match ksender cn, kcancel cn with
                   | SIdle, true => Some (put_conn c (with_sender (SExit (EOnExit false)) cn) st)
                   | _, _ => None end
      | None => None end
  | LRecvPoll c =>
      match nth_error (conns st) c with
      | Some cn => match kreceiver cn, kcancel cn with
                   | RHead, false => Some (put_conn c (with_receiver RRead cn) st)
                   | _, _ => None end
      | None => None end
  | LRecvCtx c =>
      match nth_error (conns st) c with
      | Some cn => match kreceiver cn, kcancel cn with
                   | RHead, true => Some (put_conn c (with_receiver (RExit (EOnExit false)) cn) st)
                   | _, _ => None end
      | None => None end
  | LRecvReply c n =>
      match nth_error (conns st) c with
      | Some cn =>
          match kreceiver cn, take_nth n (kinflight cn) with
          | RRead, Some (i, rest) =>
              let cn' := with_receiver RHead (with_inflight rest (with_tab (a_remove Z.eqb i (ktab cn)) cn)) in
              match a_find Z.eqb i (ktab cn) with
              | Some h => match nth_error (callers st) h with
                          | Some cl => Some (put_caller h (with_box (Some RResp) cl) (put_conn c cn' st))
                          | None => None end
              | None => Some (put_conn c cn' st)
              end
          | _, _ => None end
      | None => None end
  | LRecvFail c =>
      match nth_error (conns st) c with
      | Some cn => match kreceiver cn with
                   | RRead => if ksock cn || kpeer_gone cn
                              then Some (put_conn c (with_receiver (RExit (EOnExit true)) cn) st) else None
                   | _ => None end
      | None => None end
  | LOnExit w =>
      match w, who_pc st w, who_conn st w with
      | WA _, _, _ => None
      | _, Some (EOnExit err), Some c =>
          match nth_error (conns st) c with
          | Some cn =>
              let pooled := match pool st with Some c' => Nat.eqb c' c | None => false end in
              Some (exit_update w c cn (with_unpooled (pooled || fix_cancel g)) (if err then ECloseSock else EDone)
                                (if pooled then set_pool st None else st))
          | None => None end
      | _, _, _ => None end
  | LCloseSock w =>
      match who_pc st w, who_conn st w with
      | Some ECloseSock, Some c =>
          match nth_error (conns st) c with
          | Some cn => Some (exit_update w c cn with_sock EClean st)
          | None => None end
      | _, _ => None end
  | LCleanTake w =>
      match who_pc st w, who_conn st w with
      | Some EClean, Some c =>
          match nth_error (conns st) c with
          | Some cn => match ktab cn with
                       | [] => None
                       | t => Some (set_callers (put_conn c (with_tab [] cn) st) (fail_from 0 t (callers st)))
                       end
          | None => None end
      | _, _ => None end
  | LCleanDone w =>
      match who_pc st w, who_conn st w with
      | Some EClean, Some c =>
          match nth_error (conns st) c with
          | Some cn => match ktab cn with
                       | [] => Some (exit_update w c cn with_cleaned EDone st)
                       | _ => None end
          | None => None end
      | _, _ => None end
  | LPeerReply c i =>
      match nth_error (conns st) c with
      | Some cn => if kpeer_gone cn then None
                   else Some (put_conn c (with_inflight (kinflight cn ++ [i]) cn) st)
      | None => None end
  | LPeerGone c =>
      match nth_error (conns st) c with
      | Some cn => Some (put_conn c (with_peer_gone cn) st)
      | None => None end
  | LAbortCancel =>
      Some (set_cancels (set_callers st (cancel_from 0 (cancels st) (callers st))) [])
  | LAbortSwap =>
      match pool st with
      | Some c =>
          match nth_error (conns st) c with
          | Some cn => Some (set_aborters (set_pool (put_conn c (with_unpooled false cn) st) None)
                                          (aborters st ++ [(c, ECloseSock)]))
          | None => None end
      | None => Some st
      end
  end.

Fixpoint run (g : cfg) (st : state) (tr : list label) : option state :=
  match tr with
  | [] => Some st
  | l :: tr' => match step g st l with Some st' => run g st' tr' | None => None end
  end.

(* ------------------------------------------------------------------ guards *)

(* no_late_store: no caller registers on a connection after a rangeAndClean on it has returned *)
Definition no_late_store_step (st : state) (l : label) : bool :=
  match l with
  | LStore k =>
      match nth_error (callers st) k with
      | Some cl => match pc cl with
                   | CAlloc c _ => match nth_error (conns st) c with
                                   | Some cn => negb (kcleaned cn)
                                   | None => true end
                   | _ => true end
      | None => true end
  | _ => true
  end.

Definition active_on (c : nat) (i : Z) (p : cpc) : bool :=
  match p with
  | CAlloc c' i' | CStored c' i' | CEnq c' i' => Nat.eqb c' c && (i' =? i)
  | _ => false
  end.

(* no_reuse (as in C09, per connection): an index is drawn only when no call that drew the same
   index on that connection is still inside conn.Transport *)
Definition no_reuse_step (g : cfg) (st : state) (l : label) : bool :=
  match l with
  | LGetConn k =>
      match pool st with
      | Some c => match nth_error (conns st) c with
                  | Some cn => forallb (fun cl => negb (active_on c (index_of (kcounter cn + 1) (mask g)) (pc cl)))
                                       (callers st)
                  | None => true end
      | None => true end
  | _ => true
  end.

Definition guard_step (g : cfg) (st : state) (l : label) : bool :=
  no_late_store_step st l && no_reuse_step g st l.

Fixpoint guarded (gd : state -> label -> bool) (g : cfg) (st : state) (tr : list label) : bool :=
  match tr with
  | [] => true
  | l :: tr' => gd st l && match step g st l with Some st' => guarded gd g st' tr' | None => true end
  end.

(* ------------------------------------------------------------------ observations *)
Definition all_done (st : state) : bool :=
  forallb (fun cl => match pc cl with CDone _ => true | _ => false end) (callers st).

Definition pending_total (st : state) : nat :=
  fold_right (fun cn n => (length (ktab cn) + n)%nat) O (conns st).

Definition is_closer (e : epc) : bool :=
  match e with EOnExit true | ECloseSock | EClean => true | _ => false end.

(* somebody is still going to run rangeAndClean on connection c *)
Definition closer_pending (st : state) (c : nat) (cn : conn) : bool :=
  match ksender cn with SExit e => is_closer e | _ => false end ||
  match kreceiver cn with RExit e => is_closer e | _ => false end ||
  existsb (fun a => Nat.eqb (fst a) c && is_closer (snd a)) (aborters st).

(* Receive is still reading (or about to read) from the connection *)
Definition listening (cn : conn) : bool :=
  negb (kcancel cn) && match kreceiver cn with RHead | RRead => true | _ => false end.

(* a caller that waits with an empty channel, an open context, and an entry that nobody will
   ever look at again: only its deadline (if any) or Abort can end the call *)
Definition stuck_b (st : state) (k : nat) : bool :=
  match nth_error (callers st) k with
  | Some cl =>
      match waiting_at (pc cl), box cl, cancelled cl with
      | Some (c, i), None, false =>
          match nth_error (conns st) c with
          | Some cn => negb (closer_pending st c cn) && negb (listening cn) &&
                       negb (match pc cl, ksender cn with CStored _ _, SIdle => true | _, SHold => true | _, _ => false end)
          | None => true end
      | _, _, _ => false end
  | None => false
  end.

(* ------------------------------------------------------------------ witness schedules *)
(* C10_prompt_on_close_refuted: caller 0 gets the connection; the peer goes away; Receive fails,
   unpools, closes and cleans an empty table; Send leaves; then caller 0 registers *)
Definition late_store_witness : list label :=
  [LBegin 0; LDial 0; LPeerGone 0; LRecvPoll 0; LRecvFail 0;
   LOnExit (WR 0); LCloseSock (WR 0); LCleanDone (WR 0);
   LSendCtx 0; LOnExit (WS 0);
   LStore 0].

(* Transport.Abort leaves the Send goroutine of the closed connection behind *)
Definition abort_leak_witness : list label :=
  [LBegin 0; LDial 0; LStore 0; LEnqueue 0; LSendOk 0; LRecvPoll 0; LPeerReply 0 1; LRecvReply 0 0;
   LTake 0; LEnd 0;
   LAbortCancel; LAbortSwap; LCloseSock (WA 0); LCleanDone (WA 0);
   LRecvPoll 0; LRecvFail 0; LOnExit (WR 0); LCloseSock (WR 0); LCleanDone (WR 0)].

Definition sender_parked_forever (st : state) (c : nat) : bool :=
  match nth_error (conns st) c with
  | Some cn => match ksender cn with SIdle => true | _ => false end && negb (kcancel cn) && kunpooled cn &&
               match kreceiver cn with RExit EDone => true | _ => false end &&
               negb (existsb (fun a => Nat.eqb (fst a) c && negb (match snd a with EDone => true | _ => false end)) (aborters st))
  | None => false
  end.
