(* The Hprose serialization grammar, written from the published format description
   (tags, counts, delimiters), independently of the Go encoder/decoder:
   wire trees, the canonical printer [emit], and the reader [parse].
   Definitions only; proofs in Proofs/WireProofs.v. *)
From Coq Require Import List NArith ZArith Strings.Byte Bool.
From HV Require Import Lib.Dec Lib.Utf8.
Import ListNotations.
Open Scope N_scope.

Inductive wire :=
| WNull | WEmpty | WTrue | WFalse | WNaN
| WInf (neg : bool)
| WDigit (d : N)                       (* one byte '0'..'9' *)
| WInt (z : Z)                         (* i<dec>; *)
| WLong (z : Z)                        (* l<dec>; *)
| WDouble (txt : bytes)                (* d<float text>; *)
| WChar (c : bytes)                    (* u<one UTF-8 char of one UTF-16 unit> *)
| WStr (s : bytes)                     (* s<utf16 length>"<utf8>" *)
| WBytes (b : bytes)                   (* b<byte length>"<bytes>" *)
| WGuid (g : bytes)                    (* g{<36 chars>} *)
| WDate (y mo d : N) (tm : option (N * N * N * list N)) (utc : bool)
                                       (* Dyyyymmdd[Thhmmss[.fff[fff[fff]]]](Z|;) *)
| WTime (h mi s : N) (frac : list N) (utc : bool)
| WList (ws : list wire)               (* a<n>{...} *)
| WMap (kvs : list wire)               (* m<n>{k v k v ...}: keys and values alternate *)
| WClass (name : bytes) (fields : list bytes) (next : wire)
                                       (* c<len>"name"<n>{s..."f1"...} followed by a value *)
| WObj (cls : N) (ws : list wire)      (* o<class index>{...} *)
| WRef (k : N)                         (* r<index>; *)
| WErr (w : wire).                     (* E<string> (protocol tag, also produced for error values) *)

Definition b_n : byte := "n". Definition b_e : byte := "e". Definition b_t : byte := "t".
Definition b_f : byte := "f". Definition b_N : byte := "N". Definition b_I : byte := "I".
Definition b_i : byte := "i". Definition b_l : byte := "l". Definition b_d : byte := "d".
Definition b_u : byte := "u". Definition b_s : byte := "s". Definition b_b : byte := "b".
Definition b_g : byte := "g". Definition b_D : byte := "D". Definition b_T : byte := "T".
Definition b_Z : byte := "Z". Definition b_a : byte := "a". Definition b_m : byte := "m".
Definition b_c : byte := "c". Definition b_o : byte := "o". Definition b_r : byte := "r".
Definition b_E : byte := "E".
Definition b_semi : byte := ";". Definition b_q : byte := """". Definition b_open : byte := "{".
Definition b_close : byte := "}". Definition b_dot : byte := ".". Definition b_plus : byte := "+".
Definition b_minus : byte := "-".

Definition emit_count (n : N) : bytes := if n =? 0 then [] else to_dec n.

Definition emit_binary (len : N) (b : bytes) : bytes := emit_count len ++ b_q :: b ++ [b_q].

(* the length field of a string is what Go's utf16Length computes (= UTF-16 units on UTF-8) *)
Definition str_len (s : bytes) : N := Z.to_N (go_utf16Length s).

Definition emit_time_body (h mi s : N) (frac : list N) : bytes :=
  to_fixed 2 h ++ to_fixed 2 mi ++ to_fixed 2 s ++
  match frac with [] => [] | _ => b_dot :: flat_map (to_fixed 3) frac end.

Definition emit_field (f : bytes) : bytes := b_s :: emit_binary (str_len f) f.

Fixpoint emit (w : wire) : bytes :=
  match w with
  | WNull => [b_n] | WEmpty => [b_e] | WTrue => [b_t] | WFalse => [b_f] | WNaN => [b_N]
  | WInf neg => [b_I; if neg then b_minus else b_plus]
  | WDigit d => [digit_of d]
  | WInt z => b_i :: to_decZ z ++ [b_semi]
  | WLong z => b_l :: to_decZ z ++ [b_semi]
  | WDouble txt => b_d :: txt ++ [b_semi]
  | WChar c => b_u :: c
  | WStr s => b_s :: emit_binary (str_len s) s
  | WBytes b => b_b :: emit_binary (N.of_nat (length b)) b
  | WGuid g => b_g :: b_open :: g ++ [b_close]
  | WDate y mo d tm utc =>
      b_D :: to_fixed 4 y ++ to_fixed 2 mo ++ to_fixed 2 d ++
      match tm with None => [] | Some (h, mi, s, fr) => b_T :: emit_time_body h mi s fr end ++
      [if utc then b_Z else b_semi]
  | WTime h mi s fr utc => b_T :: emit_time_body h mi s fr ++ [if utc then b_Z else b_semi]
  | WList ws => b_a :: emit_count (N.of_nat (length ws)) ++ b_open :: flat_map emit ws ++ [b_close]
  | WMap kvs => b_m :: emit_count (N.of_nat (length kvs) / 2) ++ b_open :: flat_map emit kvs ++ [b_close]
  | WClass name fields next =>
      b_c :: emit_binary (str_len name) name ++ emit_count (N.of_nat (length fields)) ++
      b_open :: flat_map emit_field fields ++ b_close :: emit next
  | WObj cls ws => b_o :: to_dec cls ++ b_open :: flat_map emit ws ++ [b_close]
  | WRef k => b_r :: to_dec k ++ [b_semi]
  | WErr w => b_E :: emit w
  end.

(* ------------------------------------------------------------------ reader *)

Fixpoint take {A} (n : nat) (l : list A) : option (list A * list A) :=
  match n, l with
  | O, _ => Some ([], l)
  | S k, x :: r => match take k r with Some (a, b) => Some (x :: a, b) | None => None end
  | S _, [] => None
  end.

Definition expect (b : byte) (l : bytes) : option bytes :=
  match l with x :: r => if Byte.eqb x b then Some r else None | [] => None end.

Fixpoint span_until (b : byte) (l : bytes) : bytes * bytes :=
  match l with
  | [] => ([], [])
  | x :: r => if Byte.eqb x b then ([], l) else let '(a, c) := span_until b r in (x :: a, c)
  end.

(* float text: [+-]? digits [. digits]? ([eE] [+-]? digits)?  (at least one mantissa digit) *)
Fixpoint all_digits (l : bytes) : bool :=
  match l with [] => true | x :: r => is_digit x && all_digits r end.
Definition strip_sign (l : bytes) : bytes :=
  match l with x :: r => if Byte.eqb x b_plus || Byte.eqb x b_minus then r else l | [] => [] end.
Fixpoint span_digits (l : bytes) : bytes * bytes :=
  match l with
  | x :: r => if is_digit x then let '(a, c) := span_digits r in (x :: a, c) else ([], l)
  | [] => ([], [])
  end.
Definition is_e (x : byte) : bool := Byte.eqb x "e" || Byte.eqb x "E".
Definition float_syntax (l : bytes) : bool :=
  let l1 := strip_sign l in
  let '(ip, l2) := span_digits l1 in
  let '(fp, l3, hasdot) :=
    match l2 with
    | x :: r => if Byte.eqb x b_dot then let '(a, c) := span_digits r in (a, c, true) else ([], l2, false)
    | [] => ([], [], false)
    end in
  let mant_ok := match ip, fp with [], [] => false | _, _ => true end in
  let exp_ok :=
    match l3 with
    | [] => true
    | x :: r => if is_e x then
                  match strip_sign r with [] => false | ds => all_digits ds end
                else false
    end in
  mant_ok && exp_ok.

Definition no_semi (l : bytes) : bool := forallb (fun x => negb (Byte.eqb x b_semi)) l.
Definition dbl_ok (txt : bytes) : bool := float_syntax txt && no_semi txt.

Definition guid_ok (g : bytes) : bool :=
  Nat.eqb (length g) 36 &&
  forallb (fun x => negb (Byte.eqb x b_close)) g.

Fixpoint elems_with {A} (p : bytes -> option (A * bytes)) (k : nat) (l : bytes) : option (list A * bytes) :=
  match k with
  | O => Some ([], l)
  | S k' =>
      match p l with
      | Some (w, l') =>
          match elems_with p k' l' with Some (ws, l'') => Some (w :: ws, l'') | None => None end
      | None => None
      end
  end.

(* elements up to (not including) the closing brace *)
Fixpoint elems_until {A} (p : bytes -> option (A * bytes)) (fuel : nat) (l : bytes) : option (list A * bytes) :=
  match l with
  | [] => None
  | x :: _ =>
      if Byte.eqb x b_close then Some ([], l)
      else match fuel with
           | O => None
           | S f =>
               match p l with
               | Some (w, l') =>
                   match elems_until p f l' with Some (ws, l'') => Some (w :: ws, l'') | None => None end
               | None => None
               end
           end
  end.

Definition starts_digit (l : bytes) : bool := match l with x :: _ => is_digit x | [] => false end.

Definition read_frac (l : bytes) : option (list N * bytes) :=
  match l with
  | x :: r =>
      if Byte.eqb x b_dot then
        match read_fixed 3 r 0 with
        | Some (g1, r1) =>
            if starts_digit r1 then
              match read_fixed 3 r1 0 with
              | Some (g2, r2) =>
                  if starts_digit r2 then
                    match read_fixed 3 r2 0 with
                    | Some (g3, r3) => Some ([g1; g2; g3], r3)
                    | None => None
                    end
                  else Some ([g1; g2], r2)
              | None => None
              end
            else Some ([g1], r1)
        | None => None
        end
      else Some ([], l)
  | [] => Some ([], l)
  end.

Definition read_time_body (l : bytes) : option (N * N * N * list N * bytes) :=
  match read_fixed 2 l 0 with
  | Some (h, r1) =>
      match read_fixed 2 r1 0 with
      | Some (mi, r2) =>
          match read_fixed 2 r2 0 with
          | Some (s, r3) =>
              match read_frac r3 with
              | Some (fr, r4) => Some (h, mi, s, fr, r4)
              | None => None
              end
          | None => None
          end
      | None => None
      end
  | None => None
  end.

Definition read_zone (l : bytes) : option (bool * bytes) :=
  match l with
  | x :: r => if Byte.eqb x b_Z then Some (true, r) else if Byte.eqb x b_semi then Some (false, r) else None
  | [] => None
  end.

(* s<count>"<chars>"  after the tag byte *)
Definition read_string_body (l : bytes) : option (bytes * bytes) :=
  let '(n, r1) := scan l 0 in
  match expect b_q r1 with
  | Some r2 =>
      match take_units (length r2) n r2 with
      | Some (s, r3) => match expect b_q r3 with Some r4 => Some (s, r4) | None => None end
      | None => None
      end
  | None => None
  end.

Definition read_field (l : bytes) : option (bytes * bytes) :=
  match expect b_s l with Some r => read_string_body r | None => None end.

Fixpoint parse (fuel : nat) (l : bytes) : option (wire * bytes) :=
  match fuel with
  | O => None
  | S f =>
      match l with
      | [] => None
      | t :: r =>
          match digit_val t with
          | Some d => Some (WDigit d, r)
          | None =>
          if Byte.eqb t b_n then Some (WNull, r)
          else if Byte.eqb t b_e then Some (WEmpty, r)
          else if Byte.eqb t b_t then Some (WTrue, r)
          else if Byte.eqb t b_f then Some (WFalse, r)
          else if Byte.eqb t b_N then Some (WNaN, r)
          else if Byte.eqb t b_I then
            match r with
            | x :: r1 => if Byte.eqb x b_plus then Some (WInf false, r1)
                         else if Byte.eqb x b_minus then Some (WInf true, r1) else None
            | [] => None
            end
          else if Byte.eqb t b_i then
            match scanZ r with
            | Some (z, r1) => match expect b_semi r1 with Some r2 => Some (WInt z, r2) | None => None end
            | None => None
            end
          else if Byte.eqb t b_l then
            match scanZ r with
            | Some (z, r1) => match expect b_semi r1 with Some r2 => Some (WLong z, r2) | None => None end
            | None => None
            end
          else if Byte.eqb t b_d then
            let '(txt, r1) := span_until b_semi r in
            if float_syntax txt then
              match expect b_semi r1 with Some r2 => Some (WDouble txt, r2) | None => None end
            else None
          else if Byte.eqb t b_u then
            match next_char r with
            | Some (c, u, r1) => if u =? 1 then Some (WChar c, r1) else None
            | None => None
            end
          else if Byte.eqb t b_s then
            match read_string_body r with Some (s, r1) => Some (WStr s, r1) | None => None end
          else if Byte.eqb t b_b then
            let '(n, r1) := scan r 0 in
            match expect b_q r1 with
            | Some r2 =>
                match take (N.to_nat n) r2 with
                | Some (body, r3) =>
                    match expect b_q r3 with Some r4 => Some (WBytes body, r4) | None => None end
                | None => None
                end
            | None => None
            end
          else if Byte.eqb t b_g then
            match expect b_open r with
            | Some r1 =>
                match take 36 r1 with
                | Some (g, r2) =>
                    if guid_ok g then
                      match expect b_close r2 with Some r3 => Some (WGuid g, r3) | None => None end
                    else None
                | None => None
                end
            | None => None
            end
          else if Byte.eqb t b_D then
            match read_fixed 4 r 0 with
            | Some (y, r1) =>
                match read_fixed 2 r1 0 with
                | Some (mo, r2) =>
                    match read_fixed 2 r2 0 with
                    | Some (d, r3) =>
                        match r3 with
                        | x :: r4 =>
                            if Byte.eqb x b_T then
                              match read_time_body r4 with
                              | Some (h, mi, s, fr, r5) =>
                                  match read_zone r5 with
                                  | Some (utc, r6) => Some (WDate y mo d (Some (h, mi, s, fr)) utc, r6)
                                  | None => None
                                  end
                              | None => None
                              end
                            else
                              match read_zone r3 with
                              | Some (utc, r6) => Some (WDate y mo d None utc, r6)
                              | None => None
                              end
                        | [] => None
                        end
                    | None => None
                    end
                | None => None
                end
            | None => None
            end
          else if Byte.eqb t b_T then
            match read_time_body r with
            | Some (h, mi, s, fr, r5) =>
                match read_zone r5 with
                | Some (utc, r6) => Some (WTime h mi s fr utc, r6)
                | None => None
                end
            | None => None
            end
          else if Byte.eqb t b_a then
            let '(n, r1) := scan r 0 in
            match expect b_open r1 with
            | Some r2 =>
                match elems_with (parse f) (N.to_nat n) r2 with
                | Some (ws, r3) =>
                    match expect b_close r3 with Some r4 => Some (WList ws, r4) | None => None end
                | None => None
                end
            | None => None
            end
          else if Byte.eqb t b_m then
            let '(n, r1) := scan r 0 in
            match expect b_open r1 with
            | Some r2 =>
                match elems_with (parse f) (N.to_nat (2 * n)) r2 with
                | Some (ws, r3) =>
                    match expect b_close r3 with Some r4 => Some (WMap ws, r4) | None => None end
                | None => None
                end
            | None => None
            end
          else if Byte.eqb t b_c then
            match read_string_body r with
            | Some (name, r1) =>
                let '(n, r2) := scan r1 0 in
                match expect b_open r2 with
                | Some r3 =>
                    match elems_with read_field (N.to_nat n) r3 with
                    | Some (fields, r4) =>
                        match expect b_close r4 with
                        | Some r5 =>
                            match parse f r5 with
                            | Some (next, r6) => Some (WClass name fields next, r6)
                            | None => None
                            end
                        | None => None
                        end
                    | None => None
                    end
                | None => None
                end
            | None => None
            end
          else if Byte.eqb t b_o then
            match r with
            | x :: _ =>
                if is_digit x then
                  let '(k, r1) := scan r 0 in
                  match expect b_open r1 with
                  | Some r2 =>
                      match elems_until (parse f) f r2 with
                      | Some (ws, r3) =>
                          match expect b_close r3 with Some r4 => Some (WObj k ws, r4) | None => None end
                      | None => None
                      end
                  | None => None
                  end
                else None
            | [] => None
            end
          else if Byte.eqb t b_r then
            match r with
            | x :: _ =>
                if is_digit x then
                  let '(k, r1) := scan r 0 in
                  match expect b_semi r1 with Some r2 => Some (WRef k, r2) | None => None end
                else None
            | [] => None
            end
          else if Byte.eqb t b_E then
            match parse f r with
            | Some (w, r1) => Some (WErr w, r1)
            | None => None
            end
          else None
          end
      end
  end.

(* fuel that always suffices for [emit w] *)
Fixpoint wsize (w : wire) : nat :=
  match w with
  | WList ws | WMap ws | WObj _ ws => S (fold_right (fun w a => (wsize w + a)%nat) O ws)
  | WClass _ _ next => S (wsize next)
  | WErr w => S (wsize w)
  | _ => 1%nat
  end.

(* token-level well-formedness: what [emit] needs for [parse] to read it back *)
Definition time_ok (h mi s : N) (fr : list N) : bool :=
  (h <? 100) && (mi <? 100) && (s <? 100) && (Nat.leb (length fr) 3) && forallb (fun g => g <? 1000) fr.

Fixpoint tok_ok (w : wire) : bool :=
  match w with
  | WDigit d => d <? 10
  | WDouble txt => dbl_ok txt
  | WChar c => match next_char c with Some (c', u, []) => (u =? 1) | _ => false end
  | WStr s => strict_utf8 s
  | WGuid g => guid_ok g
  | WDate y mo d tm utc =>
      (y <? 10000) && (mo <? 100) && (d <? 100) &&
      match tm with None => true | Some (h, mi, s, fr) => time_ok h mi s fr end
  | WTime h mi s fr utc => time_ok h mi s fr
  | WList ws => forallb tok_ok ws
  | WMap ws => forallb tok_ok ws && Nat.even (length ws)
  | WClass name fields next => strict_utf8 name && forallb strict_utf8 fields && tok_ok next
  | WObj _ ws => forallb tok_ok ws
  | WErr w => tok_ok w
  | _ => true
  end.

(* parse a whole buffer as one value with nothing left over *)
Definition parse_all (l : bytes) : option wire :=
  match parse (S (length l)) l with
  | Some (w, []) => Some w
  | _ => None
  end.

(* parse a sequence of values until the buffer is exhausted *)
Fixpoint parse_seq (fuel : nat) (l : bytes) : option (list wire) :=
  match l with
  | [] => Some []
  | _ =>
      match fuel with
      | O => None
      | S f =>
          match parse (S (length l)) l with
          | Some (w, r) => match parse_seq f r with Some ws => Some (w :: ws) | None => None end
          | None => None
          end
      end
  end.
