(* C14, part 1: pooled encoders/decoders (io/pool.go, io/formatter.go, io/encoder.go,
   io/decoder.go) as state machines over their public operations, and the ownership
   (View / Owned) of the byte data a decoded value can hold (io/decoder.go next/until,
   io/string_decoder.go, io/bytes_decoder.go).

   The point is STATE HYGIENE, not the wire format: in the generic part the serialization of
   one value is a parameter [ser] / [des] over exactly the coder state that can influence it
   (mode, reference table, class table, sticky error, options, remaining input).  The
   concrete part instantiates the parameters with a small byte-exact codec (ints, ASCII
   strings, []interface{}, pointers to structs with interface{} fields; the decoder side:
   interface{} destinations) which is what the correspondence run executes.
   Definitions only. *)
From Coq Require Import List NArith ZArith Bool Strings.Byte.
From HV Require Import Lib.Dec.
Import ListNotations.

(* The tree under test may carry the repairs proposed in hooks/c14-fix-*.patch.  Each is one flag;
   [as_found] is the code as pinned, the check passes the flags it detects in the sources and
   the correspondence run tells whether they are right. *)
Record variant := mk_variant {
  v_resetbuffer_off : bool;      (* Encoder.ResetBuffer also sets enc.off = 0 *)
  v_free_writer : bool;          (* FreeEncoder sets encoder.Writer = nil *)
  v_reset_refer_always : bool;   (* Decoder.Reset resets the reference list in simple mode too *)
  v_resetreader_drops : bool     (* Decoder.ResetReader drops dec.buf when no reader was attached *)
}.
Definition as_found : variant := mk_variant false false false false.
Definition all_fixed : variant := mk_variant true true true true.

(* ===================================================================================== *)
(* 1. generic encoder                                                                    *)
(* ===================================================================================== *)
Section Encoder.
(* V values, RT encoderRefer{ref,sref,last}, CT Encoder{ref (class table),last}, ER errors,
   WR identities of io.Writers *)
Variables V RT CT ER WR : Type.
Variable rt0 : RT.     (* encoderRefer after Reset() (observationally the zero value) *)
Variable ct0 : CT.     (* empty class table, last = 0 *)
Variable vr : variant.

Record ser_res := mk_ser { sr_refer : RT; sr_cls : CT; sr_out : list byte; sr_err : option ER }.

(* [ser top simple refer cls v]: enc.encode(v) (top = true, used by Encode) or enc.write(v)
   (top = false, used by Write) in the given mode with the given tables: the tables afterwards,
   the bytes appended to enc.buf, and the error assigned to enc.Error, if any *)
Variable ser : bool -> bool -> RT -> CT -> V -> ser_res.

(* type Encoder struct { addr; buf; off; simple; refer; ref; last; Writer; Error }
   (addr only serves copyCheck and never influences output) *)
Record enc := mk_enc {
  e_buf : list byte;
  e_off : nat;
  e_simple : bool;
  e_refer : RT;
  e_cls : CT;                (* ref + last *)
  e_writer : option WR;
  e_err : option ER
}.

(* sync.Pool New: new(Encoder) *)
Definition new_enc : enc :=
  {| e_buf := []; e_off := 0; e_simple := false; e_refer := rt0; e_cls := ct0;
     e_writer := None; e_err := None |}.

(* NewEncoder(w): &Encoder{Writer: w, simple: true} *)
Definition new_encoder (w : option WR) : enc :=
  {| e_buf := []; e_off := 0; e_simple := true; e_refer := rt0; e_cls := ct0;
     e_writer := w; e_err := None |}.

Inductive eop :=
| EEncode (v : V)            (* enc.Encode(v) *)
| EWrite (v : V)             (* enc.Write(v) *)
| EWriteTag (b : byte)       (* enc.WriteTag(b): no flush *)
| EFlush
| EReset
| EResetBuffer
| ESimple (b : bool)
| ESetWriter (w : option WR) (* enc.Writer = w (exported field) *)
| EBytes                     (* enc.Bytes() *)
| EIsSimple
| EGetError.                 (* enc.Error *)

Inductive eobs :=
| OFlushed (err : option ER) (wr : option (WR * list byte))   (* returned error; what the Writer received *)
| OBytes (b : list byte)
| OBool (b : bool)
| OErr (e : option ER)
| OUnit.

(*  func (enc *Encoder) Flush() (err error) {
        if enc.Error != nil { return enc.Error }
        if enc.Writer != nil && enc.off < len(enc.buf) {
            _, err = enc.Writer.Write(enc.buf[enc.off:]); enc.off = len(enc.buf) }
        return }                       (writers are modelled as never failing) *)
Definition flush (s : enc) : enc * eobs :=
  match e_err s with
  | Some e => (s, OFlushed (Some e) None)
  | None =>
      match e_writer s with
      | Some w =>
          if Nat.ltb (e_off s) (length (e_buf s)) then
            ({| e_buf := e_buf s; e_off := length (e_buf s); e_simple := e_simple s;
                e_refer := e_refer s; e_cls := e_cls s; e_writer := e_writer s; e_err := e_err s |},
             OFlushed None (Some (w, skipn (e_off s) (e_buf s))))
          else (s, OFlushed None None)
      | None => (s, OFlushed None None)
      end
  end.

Definition apply_ser (top : bool) (s : enc) (v : V) : enc :=
  let r := ser top (e_simple s) (e_refer s) (e_cls s) v in
  {| e_buf := e_buf s ++ sr_out r; e_off := e_off s; e_simple := e_simple s;
     e_refer := sr_refer r; e_cls := sr_cls r; e_writer := e_writer s;
     e_err := match sr_err r with Some e => Some e | None => e_err s end |}.

(*  func (enc *Encoder) Reset() *Encoder {
        if !enc.IsSimple() { enc.refer.Reset() }
        for k := range enc.ref { delete(enc.ref, k) } ; enc.last = 0 ; return enc } *)
Definition reset (s : enc) : enc :=
  {| e_buf := e_buf s; e_off := e_off s; e_simple := e_simple s;
     e_refer := if e_simple s then e_refer s else rt0; e_cls := ct0;
     e_writer := e_writer s; e_err := e_err s |}.

(*  func (enc *Encoder) ResetBuffer() *Encoder { enc.buf = enc.buf[:0]; enc.Error = nil; return enc }
    -- enc.off and enc.Writer are left as they are *)
Definition reset_buffer (s : enc) : enc :=
  {| e_buf := []; e_off := if v_resetbuffer_off vr then 0 else e_off s; e_simple := e_simple s; e_refer := e_refer s; e_cls := e_cls s;
     e_writer := e_writer s; e_err := None |}.

(*  func (enc *Encoder) Simple(simple bool) *Encoder { enc.simple = simple; enc.Reset(); return enc } *)
Definition set_simple (b : bool) (s : enc) : enc :=
  reset {| e_buf := e_buf s; e_off := e_off s; e_simple := b; e_refer := e_refer s; e_cls := e_cls s;
           e_writer := e_writer s; e_err := e_err s |}.

Definition enc_step (s : enc) (o : eop) : enc * eobs :=
  match o with
  | EEncode v => flush (apply_ser true s v)
  | EWrite v => flush (apply_ser false s v)
  | EWriteTag b =>
      ({| e_buf := e_buf s ++ [b]; e_off := e_off s; e_simple := e_simple s; e_refer := e_refer s;
          e_cls := e_cls s; e_writer := e_writer s; e_err := e_err s |}, OUnit)
  | EFlush => flush s
  | EReset => (reset s, OUnit)
  | EResetBuffer => (reset_buffer s, OUnit)
  | ESimple b => (set_simple b s, OUnit)
  | ESetWriter w =>
      ({| e_buf := e_buf s; e_off := e_off s; e_simple := e_simple s; e_refer := e_refer s;
          e_cls := e_cls s; e_writer := w; e_err := e_err s |}, OUnit)
  | EBytes => (s, OBytes (e_buf s))
  | EIsSimple => (s, OBool (e_simple s))
  | EGetError => (s, OErr (e_err s))
  end.

Fixpoint enc_run (s : enc) (ops : list eop) : enc * list eobs :=
  match ops with
  | [] => (s, [])
  | o :: r => let '(s1, ob) := enc_step s o in
              let '(s2, obs) := enc_run s1 r in (s2, ob :: obs)
  end.

(*  func FreeEncoder(encoder *Encoder) { encoderPool.Put(encoder.Simple(false).ResetBuffer()) } *)
Definition free_enc (s : enc) : enc :=
  let s1 := reset_buffer (set_simple false s) in
  {| e_buf := e_buf s1; e_off := e_off s1; e_simple := e_simple s1; e_refer := e_refer s1; e_cls := e_cls s1;
     e_writer := if v_free_writer vr then None else e_writer s1; e_err := e_err s1 |}.

(* behaves like a brand-new pooled encoder for every subsequent sequence of operations *)
Definition enc_fresh_equiv (s : enc) : Prop :=
  forall ops, snd (enc_run s ops) = snd (enc_run new_enc ops).

(* --- the pool: a bag of released encoders; Get returns any of them or a new one -------- *)
Definition epool := list enc.

Fixpoint remove_nth {A} (n : nat) (l : list A) : list A :=
  match n, l with
  | _, [] => []
  | O, _ :: r => r
  | S k, x :: r => x :: remove_nth k r
  end.

(* [choice]: None = the pool hands out a new encoder (empty, or emptied by the GC);
   Some k = the k-th released encoder (a bad index also gives a new one) *)
Definition eget (p : epool) (choice : option nat) : enc * epool :=
  match choice with
  | None => (new_enc, p)
  | Some k => match nth_error p k with
              | Some e => (e, remove_nth k p)
              | None => (new_enc, p)
              end
  end.

(* one use of a pooled encoder: Get, a sequence of operations, Free *)
Record esession := mk_esession { es_choice : option nat; es_ops : list eop }.

Definition esession_run (p : epool) (ss : esession) : epool * list eobs :=
  let '(e, p1) := eget p (es_choice ss) in
  let '(e1, obs) := enc_run e (es_ops ss) in
  (free_enc e1 :: p1, obs).

Fixpoint esessions_run (p : epool) (l : list esession) : epool * list (list eobs) :=
  match l with
  | [] => (p, [])
  | ss :: r => let '(p1, obs) := esession_run p ss in
               let '(p2, all) := esessions_run p1 r in (p2, obs :: all)
  end.

(* operations the library itself performs on pooled encoders (Formatter.Marshal, the rpc
   codecs): everything except assigning the exported Writer field *)
Definition lib_eop (o : eop) : bool := match o with ESetWriter _ => false | _ => true end.

(* Formatter.Marshal:  encoder := GetEncoder().Simple(f.Simple); defer FreeEncoder(encoder)
                       if err := encoder.Encode(v); err != nil { return nil, err }
                       return encoder.Bytes(), nil *)
Definition marshal_ops (simple : bool) (v : V) : list eop := [ESimple simple; EEncode v; EBytes].

End Encoder.

(* ===================================================================================== *)
(* 2. generic decoder                                                                    *)
(* ===================================================================================== *)
(* LongType, RealType, MapType, StructType, ListType (int8 enums; 0 is the default of each) *)
Record dopts := mk_opts { o_long : N; o_real : N; o_map : N; o_struct : N; o_list : N }.
Definition opts0 : dopts := {| o_long := 0; o_real := 0; o_map := 0; o_struct := 0; o_list := 0 |}.

Section Decoder.
(* DT destination types, DV decoded results, DR decoderRefer.ref, DC Decoder.ref ([]structInfo),
   ER errors *)
Variables DT DV DR DC ER : Type.
Variable dr0 : DR.
Variable dc0 : DC.
Variable vr : variant.

Record des_res := mk_des {
  ds_refer : DR; ds_cls : DC; ds_err : option ER; ds_rest : list byte; ds_val : DV }.

(* [des simple opts refer cls err input ty]: dec.Decode(p) for a destination of type ty: everything
   of the decoder state the decoding can read is an argument (ReadReference consults refer
   even in simple mode; a sticky error changes what later failures record) *)
Variable des : bool -> dopts -> DR -> DC -> option ER -> list byte -> DT -> des_res.

(* whose memory dec.buf is: nil, the decoder's own read buffer (made by NewDecoderFromReader or
   by loadMore), or the caller's slice handed to NewDecoder/ResetBytes (with its length) *)
Inductive dbuf := BufNil | BufOwn | BufUser (len : nat).

(* type Decoder struct { reader; buf; head; tail; simple; refer; ref; Error; LongType ... ListType }
   head/tail are abstracted to the input still to be read; [d_from_reader]: reader != nil *)
Record dec := mk_dec {
  d_in : list byte;
  d_buf : dbuf;
  d_from_reader : bool;
  d_simple : bool;
  d_refer : DR;
  d_cls : DC;
  d_err : option ER;
  d_opts : dopts
}.

(* new(Decoder) *)
Definition new_dec : dec :=
  {| d_in := []; d_buf := BufNil; d_from_reader := false; d_simple := false; d_refer := dr0;
     d_cls := dc0; d_err := None; d_opts := opts0 |}.

(* NewDecoder(input) *)
Definition new_decoder (input : list byte) : dec :=
  {| d_in := input; d_buf := BufUser (length input); d_from_reader := false; d_simple := true; d_refer := dr0;
     d_cls := dc0; d_err := None; d_opts := opts0 |}.

(* NewDecoderFromReader(reader) *)
Definition new_decoder_from_reader (input : list byte) : dec :=
  {| d_in := input; d_buf := BufOwn; d_from_reader := true; d_simple := true; d_refer := dr0;
     d_cls := dc0; d_err := None; d_opts := opts0 |}.

Inductive dop :=
| DDecode (ty : DT)
| DReset
| DSimple (b : bool)
| DResetBytes (input : list byte)
| DResetReader (input : list byte)     (* a reader that will deliver these bytes, then io.EOF *)
| DResetBuffer
| DSetOpts (o : dopts)
| DGetError
| DIsSimple
| DGetOpts.

Inductive dobs :=
| ODecoded (v : DV) (err : option ER) (clobbers : bool)  (* clobbers: the reads went into a slice of the caller *)
| ODHang                                                 (* loadMore never returns *)
| ODErr (e : option ER)
| ODBool (b : bool)
| ODOpts (o : dopts)
| ODUnit.

(*  func (dec *Decoder) Reset() *Decoder {
        if !dec.IsSimple() { dec.refer.Reset() } ; dec.ref = dec.ref[:0] ; return dec } *)
Definition dreset (s : dec) : dec :=
  {| d_in := d_in s; d_buf := d_buf s; d_from_reader := d_from_reader s; d_simple := d_simple s;
     d_refer := if d_simple s && negb (v_reset_refer_always vr) then d_refer s else dr0; d_cls := dc0; d_err := d_err s;
     d_opts := d_opts s |}.

Definition dset_simple (b : bool) (s : dec) : dec :=
  dreset {| d_in := d_in s; d_buf := d_buf s; d_from_reader := d_from_reader s; d_simple := b;
            d_refer := d_refer s; d_cls := d_cls s; d_err := d_err s; d_opts := d_opts s |}.

(*  func (dec *Decoder) ResetBuffer() *Decoder {
        if dec.reader == nil { dec.buf = nil } else { dec.reader = nil }     <- with a reader the buffer is KEPT,
        dec.head = 0; dec.tail = 0; dec.Error = nil                             whoever it belongs to
        dec.RealType = RealTypeFloat64 ... dec.ListType = ListTypeISlice ; return dec } *)
Definition dreset_buffer (s : dec) : dec :=
  {| d_in := []; d_buf := if d_from_reader s then d_buf s else BufNil; d_from_reader := false;
     d_simple := d_simple s; d_refer := d_refer s; d_cls := d_cls s; d_err := None; d_opts := opts0 |}.

(*  func (dec *Decoder) loadMore() bool {
        if dec.reader == nil { ... io.EOF ... }
        if dec.buf == nil { dec.buf = make([]byte, defaultBufferSize) }
        for { n, err := dec.reader.Read(dec.buf) ; ... if n > 0 { return true } ; if err != nil { return false } } }
    Read into a zero-length slice returns (0, nil) while the reader has data: the loop never ends.
    Read into the caller's slice overwrites the caller's data. *)
Definition dhangs (s : dec) : bool :=
  d_from_reader s && match d_buf s with BufUser O => true | _ => false end &&
  match d_in s with [] => false | _ => true end.

Definition dclobbers (s : dec) : bool :=
  d_from_reader s && match d_buf s with BufUser (S _) => true | _ => false end &&
  match d_in s with [] => false | _ => true end.

Definition ddecode (s : dec) (ty : DT) : dec * dobs :=
  if dhangs s then (s, ODHang)
  else
  let r := des (d_simple s) (d_opts s) (d_refer s) (d_cls s) (d_err s) (d_in s) ty in
  ({| d_in := ds_rest r;
      d_buf := if d_from_reader s then match d_buf s with BufNil => BufOwn | b => b end else d_buf s;
      d_from_reader := d_from_reader s;
      d_simple := d_simple s; d_refer := ds_refer r; d_cls := ds_cls r; d_err := ds_err r;
      d_opts := d_opts s |},
   ODecoded (ds_val r) (ds_err r) (dclobbers s)).

Definition dec_step (s : dec) (o : dop) : dec * dobs :=
  match o with
  | DDecode ty => ddecode s ty
  | DReset => (dreset s, ODUnit)
  | DSimple b => (dset_simple b s, ODUnit)
  | DResetBytes input =>
      (* dec.reader = nil; dec.buf = input; head = 0; tail = len(input) *)
      ({| d_in := input; d_buf := BufUser (length input); d_from_reader := false; d_simple := d_simple s;
          d_refer := d_refer s; d_cls := d_cls s; d_err := d_err s; d_opts := d_opts s |}, ODUnit)
  | DResetReader input =>
      (* dec.reader = reader; head = 0; tail = 0  (dec.buf is kept, whoever it belongs to) *)
      ({| d_in := input;
          d_buf := if v_resetreader_drops vr && negb (d_from_reader s) then BufNil else d_buf s;
          d_from_reader := true; d_simple := d_simple s;
          d_refer := d_refer s; d_cls := d_cls s; d_err := d_err s; d_opts := d_opts s |}, ODUnit)
  | DResetBuffer => (dreset_buffer s, ODUnit)
  | DSetOpts o' =>
      ({| d_in := d_in s; d_buf := d_buf s; d_from_reader := d_from_reader s; d_simple := d_simple s;
          d_refer := d_refer s; d_cls := d_cls s; d_err := d_err s; d_opts := o' |}, ODUnit)
  | DGetError => (s, ODErr (d_err s))
  | DIsSimple => (s, ODBool (d_simple s))
  | DGetOpts => (s, ODOpts (d_opts s))
  end.

Fixpoint dec_run (s : dec) (ops : list dop) : dec * list dobs :=
  match ops with
  | [] => (s, [])
  | o :: r => let '(s1, ob) := dec_step s o in
              let '(s2, obs) := dec_run s1 r in (s2, ob :: obs)
  end.

(*  func FreeDecoder(decoder *Decoder) { decoderPool.Put(decoder.Simple(false).ResetBuffer()) } *)
Definition free_dec (s : dec) : dec := dreset_buffer (dset_simple false s).

(* a buffer of the decoder's own (or none yet) is not observable; a slice of a caller is *)
Definition norm_buf (b : dbuf) : dbuf := match b with BufUser n => BufUser n | _ => BufNil end.

Definition dec_same (a b : dec) : Prop :=
  d_in a = d_in b /\ norm_buf (d_buf a) = norm_buf (d_buf b) /\ d_from_reader a = d_from_reader b /\
  d_simple a = d_simple b /\
  d_refer a = d_refer b /\ d_cls a = d_cls b /\ d_err a = d_err b /\ d_opts a = d_opts b.

Definition dec_fresh_equiv (s : dec) : Prop :=
  forall ops, snd (dec_run s ops) = snd (dec_run new_dec ops).

Definition dpool := list dec.

Definition dget (p : dpool) (choice : option nat) : dec * dpool :=
  match choice with
  | None => (new_dec, p)
  | Some k => match nth_error p k with
              | Some e => (e, remove_nth k p)
              | None => (new_dec, p)
              end
  end.

Record dsession := mk_dsession { dss_choice : option nat; dss_ops : list dop }.

Definition dsession_run (p : dpool) (ss : dsession) : dpool * list dobs :=
  let '(d, p1) := dget p (dss_choice ss) in
  let '(d1, obs) := dec_run d (dss_ops ss) in
  (free_dec d1 :: p1, obs).

Fixpoint dsessions_run (p : dpool) (l : list dsession) : dpool * list (list dobs) :=
  match l with
  | [] => (p, [])
  | ss :: r => let '(p1, obs) := dsession_run p ss in
               let '(p2, all) := dsessions_run p1 r in (p2, obs :: all)
  end.

(* a use that takes its input from ONE kind of source (what Formatter.Unmarshal,
   Formatter.UnmarshalFromReader and the rpc codecs do): never ResetBytes, or never ResetReader *)
Definition is_reset_bytes (o : dop) : bool := match o with DResetBytes _ => true | _ => false end.
Definition is_reset_reader (o : dop) : bool := match o with DResetReader _ => true | _ => false end.
Definition one_source (ops : list dop) : bool :=
  forallb (fun o => negb (is_reset_bytes o)) ops || forallb (fun o => negb (is_reset_reader o)) ops.

End Decoder.

(* ===================================================================================== *)
(* 3. ownership of decoded byte data                                                     *)
(* ===================================================================================== *)
(* A []byte or string produced by the decoder is a View (it shares memory with the input
   slice given to NewDecoder/ResetBytes, or with the decoder's own read buffer, which is
   overwritten by the next read and reused by the next pooled use) or Owned (freshly
   allocated).  The three buffer primitives return (data, safe):
     next(n), until(delim), readStringAsBytes(n):  fast path  -> dec.buf[head:...], safe = false
                                                   slow path  -> assembled copy,   safe = true
   Which path is taken depends on where the reads of the io.Reader happen to split the input:
   it is an adversarial bit per call ([fast]). *)
Inductive own := View | Owned.

Definition raw (fast : bool) : own := if fast then View else Owned.     (* own of data; safe = negb fast *)

(* Next, Until, readStringAsSafeBytes:  if safe { return data } ; copy *)
Definition copy_unless_safe (fast : bool) : own :=
  let safe := negb fast in if safe then raw fast else Owned.
(* readSafeString: if safe { ToUnsafeString(data) } else { string(data) } -- ToUnsafeString keeps
   the memory of its argument, string(data) copies *)
Definition read_safe_string (fast : bool) : own :=
  let safe := negb fast in if safe then raw fast else Owned.
(* UnsafeNext, UnsafeUntil, readUnsafeString, ReadUnsafeString, readUnsafeBytes: data as is *)
Definition read_unsafe (fast : bool) : own := raw fast.

(* what a decoded Go value holds: byte-carrying leaves with their ownership, containers *)
Inductive oval :=
| OLeaf (o : own)            (* a string or []byte stored in the result *)
| OPlain                     (* a value that holds no byte data of the input (numbers, bools, time, uuid, big numbers, arrays: copied in) *)
| ONode (kids : list oval).  (* slice, map (keys and values), struct, pointer, interface *)

Fixpoint all_owned (v : oval) : bool :=
  match v with
  | OLeaf Owned => true
  | OLeaf View => false
  | OPlain => true
  | ONode kids => forallb all_owned kids
  end.

(* destination types, as far as ownership is concerned *)
Inductive dty :=
| TString | TBytes | TByteArray | TScalar    (* TScalar: bool, ints, floats, complex, big.*, time.Time, uuid.UUID *)
| TIface
| TSlice (e : dty) | TMap (k v : dty) | TStruct (fs : list dty) | TPtr (e : dty).

(* the token that is decoded (tag classes of io/tags.go); containers carry their elements *)
Inductive wtok :=
| WDigit | WNull | WEmpty | WBool | WNum     (* i l d : text up to ';' *) | WNaNInf
| WChar                                      (* u *)
| WStr                                       (* s *)
| WBytes                                     (* b *)
| WGuid | WTime
| WList (elems : list wtok)
| WMap (kvs : list (wtok * wtok))
| WObj (fields : list wtok)                  (* o: field values in class order *)
| WRefTo (k : nat).                          (* r: index into the reference list *)

(* mode of one run: simple or not, and the path bit of each buffer primitive *)
Record omode := mk_omode { om_simple : bool; om_fast : nat -> bool }.

(* string destination: decodeString (io/string_decoder.go) *)
Definition own_string (m : omode) (i : nat) (w : wtok) : option oval :=
  match w with
  | WDigit | WNull | WEmpty | WBool | WNaNInf => Some (OLeaf Owned)          (* constants, string(tag) *)
  | WNum => Some (OLeaf (copy_unless_safe (om_fast m i)))                  (* ToUnsafeString(dec.Until(';')) *)
  | WChar => Some (OLeaf (read_safe_string (om_fast m i)))                 (* dec.readSafeString(1) *)
  | WStr => Some (OLeaf (read_safe_string (om_fast m i)))                  (* dec.ReadString() *)
  | WBytes => Some (OLeaf (copy_unless_safe (om_fast m i)))                (* ToUnsafeString(dec.ReadBytes()) *)
  | WTime | WGuid => Some (OLeaf Owned)                                    (* .String() *)
  | _ => None                                                              (* defaultDecode: error or reference *)
  end.

(* []byte destination: decodeBytes (io/bytes_decoder.go) *)
Definition own_bytes (m : omode) (i : nat) (w : wtok) : option oval :=
  match w with
  | WNull => Some OPlain
  | WEmpty => Some (OLeaf Owned)
  | WBytes => Some (OLeaf (copy_unless_safe (om_fast m i)))                (* dec.ReadBytes() = Next *)
  | WList _ => Some (OLeaf Owned)                                          (* make([]byte, count) *)
  | WChar => Some (OLeaf (copy_unless_safe (om_fast m i)))                 (* readStringAsSafeBytes(1) *)
  | WStr => if om_simple m
            then Some (OLeaf (copy_unless_safe (om_fast m i)))             (* ReadStringAsBytes *)
            else Some (OLeaf (read_safe_string (om_fast m i)))             (* ToUnsafeBytes(dec.ReadString()) *)
  | WGuid => Some (OLeaf Owned)                                            (* MarshalBinary *)
  | _ => None
  end.

(* interface{} destination, leaves: decodeInterface (io/interface_deocder.go) *)
Definition own_iface_leaf (m : omode) (i : nat) (w : wtok) : option oval :=
  match w with
  | WDigit | WNull | WBool | WNum | WNaNInf | WTime | WGuid => Some OPlain    (* numbers parse transient views *)
  | WEmpty => Some (OLeaf Owned)
  | WChar => Some (OLeaf (read_safe_string (om_fast m i)))
  | WStr => Some (OLeaf (read_safe_string (om_fast m i)))
  | WBytes => Some (OLeaf (copy_unless_safe (om_fast m i)))
  | _ => None
  end.

(* the reference list of the decoder holds what was decoded before: (value) *)
Definition orefs := list oval.

Record ores := mk_ores { or_val : oval; or_refs : orefs; or_next : nat }.

Section OwnDecode.
Variable m : omode.

(* elements of a container, left to right, threading the reference list and the primitive counter *)
Fixpoint own_seq (rec : dty -> wtok -> orefs -> nat -> ores) (tys : list dty) (ws : list wtok)
         (refs : orefs) (i : nat) : list oval * orefs * nat :=
  match ws with
  | [] => ([], refs, i)
  | w :: wr =>
      let ty := match tys with t :: _ => t | [] => TIface end in
      let r := rec ty w refs i in
      let '(vs, refs', i') := own_seq rec (match tys with _ :: tr => tr | [] => [] end) wr (or_refs r) (or_next r) in
      (or_val r :: vs, refs', i')
  end.

Fixpoint flat_kvs (kvs : list (wtok * wtok)) : list wtok :=
  match kvs with [] => [] | (k, v) :: r => k :: v :: flat_kvs r end.

Fixpoint alt_tys (n : nat) (k v : dty) : list dty :=
  match n with O => [] | S n' => k :: v :: alt_tys n' k v end.

(* what the decoder stores in a destination of type [ty] for token [w] *)
Fixpoint own_decode (fuel : nat) (ty : dty) (w : wtok) (refs : orefs) (i : nat) : ores :=
  match fuel with
  | O => mk_ores OPlain refs i
  | S f =>
    let leaf (o : option oval) (referable : bool) :=
      match o with
      | Some v => mk_ores v (if referable && negb (om_simple m) then refs ++ [v] else refs) (S i)
      | None => mk_ores OPlain refs (S i)            (* error path: destination keeps its zero value *)
      end in
    match w with
    | WRefTo k =>
        (* ReadReference: the object registered earlier, converted to the destination; the
           string<->[]byte converters reuse its memory (converter.go) *)
        match nth_error refs k with
        | Some v => match ty with TScalar | TByteArray => mk_ores OPlain refs (S i) | _ => mk_ores v refs (S i) end
        | None => mk_ores OPlain refs (S i)          (* Go: index out of range panic (C04) *)
        end
    | _ =>
      match ty with
      | TString => leaf (own_string m i w) (match w with WStr | WBytes => true | _ => false end)
      | TBytes => leaf (own_bytes m i w) (match w with WStr | WBytes | WList _ => true | _ => false end)
      | TByteArray => mk_ores OPlain refs (S i)      (* UnsafeNext / readStringAsBytes, copied into the array *)
      | TScalar => mk_ores OPlain refs (S i)         (* ReadUnsafeString / UnsafeUntil parsed on the spot *)
      | TPtr e => let r := own_decode f e w refs i in mk_ores (ONode [or_val r]) (or_refs r) (or_next r)
      | TSlice e =>
          match w with
          | WList ws =>
              let '(vs, refs', i') := own_seq (own_decode f) (repeat e (length ws)) ws refs (S i) in
              mk_ores (ONode vs) (if om_simple m then refs' else refs' ++ [ONode vs]) i'
          | _ => mk_ores OPlain refs (S i)
          end
      | TMap k v =>
          match w with
          | WMap kvs =>
              let '(vs, refs', i') := own_seq (own_decode f) (alt_tys (length kvs) k v) (flat_kvs kvs) refs (S i) in
              mk_ores (ONode vs) (if om_simple m then refs' else refs' ++ [ONode vs]) i'
          | _ => mk_ores OPlain refs (S i)
          end
      | TStruct fs =>
          match w with
          | WObj ws =>
              let '(vs, refs', i') := own_seq (own_decode f) fs ws refs (S i) in
              mk_ores (ONode vs) (if om_simple m then refs' else refs' ++ [ONode vs]) i'
          | WMap kvs =>
              (* decodeMapAsObject: the key is decoded as a string and only used for the lookup *)
              let '(vs, refs', i') := own_seq (own_decode f) (alt_tys (length kvs) TString TIface) (flat_kvs kvs) refs (S i) in
              mk_ores (ONode vs) (if om_simple m then refs' else refs' ++ [ONode vs]) i'
          | _ => mk_ores OPlain refs (S i)
          end
      | TIface =>
          match w with
          | WList ws =>
              let '(vs, refs', i') := own_seq (own_decode f) [] ws refs (S i) in
              mk_ores (ONode vs) (if om_simple m then refs' else refs' ++ [ONode vs]) i'
          | WMap kvs =>
              let '(vs, refs', i') := own_seq (own_decode f) [] (flat_kvs kvs) refs (S i) in
              mk_ores (ONode vs) (if om_simple m then refs' else refs' ++ [ONode vs]) i'
          | WObj ws =>
              let '(vs, refs', i') := own_seq (own_decode f) [] ws refs (S i) in
              mk_ores (ONode vs) (if om_simple m then refs' else refs' ++ [ONode vs]) i'
          | _ => leaf (own_iface_leaf m i w) (match w with WStr | WBytes => true | _ => false end)
          end
      end
    end
  end.

End OwnDecode.

(* the entry points that return Views BY DESIGN (documented "only valid until the next read");
   they are outside C14_no_alias and the correspondence run checks that they do alias *)
Inductive view_api := UnsafeNext | UnsafeUntil | ReadUnsafeString | EncoderBuffer | EncoderUnsafeString.
Definition view_api_own (a : view_api) (fast : bool) : own :=
  match a with
  | UnsafeNext | UnsafeUntil | ReadUnsafeString => read_unsafe fast
  | EncoderBuffer | EncoderUnsafeString => View
  end.
(* their safe counterparts *)
Inductive safe_api := ApiNext | ApiUntil | ApiReadSafeString | ApiReadString | ApiReadBytes
                    | ApiReadStringAsBytes | EncoderBytes | EncoderString.
Definition safe_api_own (a : safe_api) (fast : bool) : own :=
  match a with
  | ApiNext | ApiUntil | ApiReadBytes | ApiReadStringAsBytes => copy_unless_safe fast
  | ApiReadSafeString | ApiReadString => read_safe_string fast
  | EncoderBytes | EncoderString => Owned
  end.

(* ===================================================================================== *)
(* 4. concrete instance: a small byte-exact codec                                        *)
(* ===================================================================================== *)
Local Open Scope Z_scope.

(* --- encoder side ---------------------------------------------------------------------- *)
Inductive val :=
| VNil                                   (* nil *)
| VInt (z : Z)                           (* int *)
| VStr (s : bytes)                       (* string, ASCII only (utf16 length = byte length) *)
| VList (vs : list val)                  (* []interface{} (non-nil) *)
| VObj (cls : nat) (addr : N) (fs : list val)  (* non-nil *T, T = class [cls], pointer identity [addr], interface{} fields *)
| VBad.                                  (* a value of an unsupported type (chan int) *)

(* the harness declares  type CA struct{ A interface{} } ; type CB struct{ X, Y interface{} } ; type CC struct{} *)
Definition ascii (s : list byte) : bytes := s.
Definition class_name (c : nat) : bytes :=
  match c with
  | O => ["C"; "A"]%byte | S O => ["C"; "B"]%byte | _ => ["C"; "C"]%byte
  end.
Definition class_fields (c : nat) : list bytes :=
  match c with
  | O => [["a"]%byte] | S O => [["x"]%byte; ["y"]%byte] | _ => []
  end.

Record crefer := mk_crefer { r_ptr : list (N * N); r_str : list (bytes * N); r_last : N }.
Record ccls := mk_ccls { c_tab : list (nat * N); c_last : N }.
Definition crefer0 : crefer := mk_crefer [] [] 0%N.
Definition ccls0 : ccls := mk_ccls [] 0%N.

Inductive cerr := EUnsupported | EEOF | EInvalidTag | ECast | EOther.

Fixpoint bytes_eqb (a b : bytes) : bool :=
  match a, b with
  | [], [] => true
  | x :: a', y :: b' => Byte.eqb x y && bytes_eqb a' b'
  | _, _ => false
  end.

Fixpoint find_str (l : list (bytes * N)) (s : bytes) : option N :=
  match l with [] => None | (s', k) :: r => if bytes_eqb s s' then Some k else find_str r s end.
Fixpoint find_ptr (l : list (N * N)) (a : N) : option N :=
  match l with [] => None | (a', k) :: r => if N.eqb a a' then Some k else find_ptr r a end.
Fixpoint find_cls (l : list (nat * N)) (c : nat) : option N :=
  match l with [] => None | (c', k) :: r => if Nat.eqb c c' then Some k else find_cls r c end.

Definition tag (b : byte) : bytes := [b].
Definition semi : bytes := [";"%byte].
Definition quote : bytes := [""""%byte].

(* appendBinary(buf, s, length): length digits only when > 0 *)
Definition binary (s : bytes) : bytes :=
  (if (length s =? 0)%nat then [] else to_dec (N.of_nat (length s))) ++ quote ++ s ++ quote.

Definition enc_int (z : Z) : bytes :=
  if (0 <=? z) && (z <=? 9) then to_decZ z
  else if (z >? 2147483647) || (z <? -2147483648) then tag "l" ++ to_decZ z ++ semi
  else tag "i" ++ to_decZ z ++ semi.

Definition ref_bytes (k : N) : bytes := tag "r" ++ to_dec k ++ semi.

(* metadata of newNamedStructEncoder: c <name> [n] { s<alias>... } *)
Definition class_meta (c : nat) : bytes :=
  let fs := class_fields c in
  tag "c" ++ binary (class_name c) ++
  (if (length fs =? 0)%nat then [] else to_dec (N.of_nat (length fs))) ++ tag "{" ++
  flat_map (fun f => tag "s" ++ binary f) fs ++ tag "}".

Record cst := mk_cst { cs_r : crefer; cs_c : ccls; cs_out : bytes; cs_err : option cerr }.

Section CEnc.
Variable simple : bool.

Definition add_count (st : cst) (n : N) : cst :=
  if simple then st
  else mk_cst (mk_crefer (r_ptr (cs_r st)) (r_str (cs_r st)) (r_last (cs_r st) + n)%N) (cs_c st) (cs_out st) (cs_err st).
Definition set_ptr (st : cst) (a : N) : cst :=
  if simple then st
  else mk_cst (mk_crefer ((a, r_last (cs_r st)) :: r_ptr (cs_r st)) (r_str (cs_r st)) (r_last (cs_r st) + 1)%N)
              (cs_c st) (cs_out st) (cs_err st).
Definition set_str (st : cst) (s : bytes) : cst :=
  if simple then st
  else mk_cst (mk_crefer (r_ptr (cs_r st)) ((s, r_last (cs_r st)) :: r_str (cs_r st)) (r_last (cs_r st) + 1)%N)
              (cs_c st) (cs_out st) (cs_err st).
Definition emit (st : cst) (b : bytes) : cst := mk_cst (cs_r st) (cs_c st) (cs_out st ++ b) (cs_err st).

(* enc.EncodeString / enc.WriteString *)
Definition encode_string (st : cst) (s : bytes) : cst :=
  match length s with
  | O => emit st (tag "e")
  | S O => emit st (tag "u" ++ s)
  | _ => match (if simple then None else find_str (r_str (cs_r st)) s) with
         | Some k => emit st (ref_bytes k)
         | None => emit (set_str st s) (tag "s" ++ binary s)
         end
  end.
Definition write_string (st : cst) (s : bytes) : cst := emit (set_str st s) (tag "s" ++ binary s).

Fixpoint cenc_list (rec : cst -> val -> cst) (st : cst) (vs : list val) : cst :=
  match vs with [] => st | v :: r => cenc_list rec (rec st v) r end.

(* structEncoder.Write for a pointer: WriteStructType(action: AddReferenceCount(n); metadata);
   SetReference(ptr); WriteObjectHead(r); fields; WriteFoot *)
Definition cenc_obj (rec : cst -> val -> cst) (st : cst) (c : nat) (a : N) (fs : list val) : cst :=
  let '(st1, idx) :=
    match find_cls (c_tab (cs_c st)) c with
    | Some k => (st, k)
    | None =>
        let st' := emit (add_count st (N.of_nat (length (class_fields c)))) (class_meta c) in
        (mk_cst (cs_r st') (mk_ccls ((c, c_last (cs_c st')) :: c_tab (cs_c st')) (c_last (cs_c st') + 1)%N)
                (cs_out st') (cs_err st'), c_last (cs_c st'))
    end in
  let st2 := emit (set_ptr st1 a) (tag "o" ++ to_dec idx ++ tag "{") in
  emit (cenc_list rec st2 fs) (tag "}").

(* enc.encode(v) (top = true: Encode semantics at this level) / enc.write(v) *)
Definition cenc_step (rec : cst -> val -> cst) (top : bool) (st : cst) (v : val) : cst :=
  match v with
  | VNil => emit st (tag "n")
  | VInt z => emit st (enc_int z)
  | VStr s => if top then encode_string st s else write_string st s
  | VList vs =>
      (* WriteSlice: AddReferenceCount(1); writeSlice *)
      let st1 := add_count st 1 in
      match vs with
      | [] => emit st1 (tag "a" ++ tag "{" ++ tag "}")
      | _ => emit (cenc_list rec (emit st1 (tag "a" ++ to_dec (N.of_nat (length vs)) ++ tag "{")) vs) (tag "}")
      end
  | VObj c a fs =>
      (* ptrEncoder -> structEncoder.Encode = EncodeReference (WriteReference or Write) / Write *)
      match (if top && negb simple then find_ptr (r_ptr (cs_r st)) a else None) with
      | Some k => emit st (ref_bytes k)
      | None => cenc_obj rec st c a fs
      end
  | VBad =>
      (* enc.Error = UnsupportedTypeError{...}; enc.WriteNil() *)
      let st1 := emit st (tag "n") in mk_cst (cs_r st1) (cs_c st1) (cs_out st1) (Some EUnsupported)
  end.

Fixpoint cenc (fuel : nat) (top : bool) (st : cst) (v : val) : cst :=
  match fuel with
  | O => st
  | S f => cenc_step (cenc f true) top st v
  end.
End CEnc.

Fixpoint val_depth (v : val) : nat :=
  match v with
  | VList vs | VObj _ _ vs => S (fold_right (fun x a => Nat.max (val_depth x) a) O vs)
  | _ => 1%nat
  end.

Definition cser (top simple : bool) (r : crefer) (c : ccls) (v : val) : ser_res crefer ccls cerr :=
  let st := cenc simple (S (val_depth v)) top (mk_cst r c [] None) v in
  mk_ser _ _ _ (cs_r st) (cs_c st) (cs_out st) (cs_err st).

Definition cenc_t := enc crefer ccls cerr N.
Definition c_new_enc : cenc_t := new_enc crefer ccls cerr N crefer0 ccls0.
Definition c_new_encoder (w : option N) : cenc_t := new_encoder crefer ccls cerr N crefer0 ccls0 w.
Definition cv_enc_step (vr : variant) := enc_step val crefer ccls cerr N crefer0 ccls0 vr cser.
Definition cv_free_enc (vr : variant) := free_enc crefer ccls cerr N crefer0 ccls0 vr.
Definition c_enc_step := cv_enc_step as_found.
Definition c_enc_run := enc_run val crefer ccls cerr N crefer0 ccls0 as_found cser.
Definition c_free_enc := cv_free_enc as_found.
Definition c_esessions_run := esessions_run val crefer ccls cerr N crefer0 ccls0 as_found cser.

(* --- decoder side: interface{} destinations -------------------------------------------- *)
Inductive dval :=
| DNil
| DInt (z : Z)                 (* int *)
| DLong (ty : N) (z : Z)       (* 'l' under LongType ty: 0 int, 1 uint, 2 int64, 3 uint64, 4 *big.Int *)
| DReal (ty : N) (txt : bytes) (* 'd' under RealType ty: 0 float64, 1 float32, 2 *big.Float; the text as written *)
| DBool (b : bool)
| DStr (s : bytes)
| DList (vs : list dval)
| DRefTo (v : dval)            (* 'r' to a list: ReadReference hands out the registered *[]interface{} itself *)
| DPanic.                      (* the call panicked (no longer produced: a bad reference index is a decode error since e3aee3e) *)

(* the decoder's reference list; a list is registered when it starts and is filled when it ends *)
Definition drefs := list (option dval).

Record dst := mk_dst { ds_r : drefs; ds_e : option cerr; ds_i : bytes; ds_panic : bool }.

Definition set_err (st : dst) (e : cerr) : dst :=
  mk_dst (ds_r st) (match ds_e st with Some x => Some x | None => Some e end) (ds_i st) (ds_panic st).

(* dec.NextByte(): at the end of the input: loadMore fails, Error = io.EOF (if unset), returns 0 *)
Definition next_byte (st : dst) : option byte * dst :=
  match ds_i st with
  | b :: r => (Some b, mk_dst (ds_r st) (ds_e st) r (ds_panic st))
  | [] => (None, set_err st EEOF)
  end.

(* dec.readUint64 after an optional '-': digits up to and including the first non-digit *)
Fixpoint read_digits (l : bytes) (acc : N) : N * bytes :=
  match l with
  | [] => (acc, [])
  | b :: r => match digit_val b with
              | Some d => read_digits r (acc * 10 + d)%N
              | None => (acc, r)
              end
  end.

(* dec.ReadInt64(): c := NextByte(); '-' -> negative; non-digit first byte -> 0, nothing more read *)
Definition read_int (st : dst) : Z * dst :=
  let '(ob, st1) := next_byte st in
  match ob with
  | None => (0, st1)
  | Some b =>
      if Byte.eqb b "-"%byte then
        let '(ob2, st2) := next_byte st1 in
        match ob2 with
        | None => (0, st2)
        | Some b2 => match digit_val b2 with
                     | None => (0, st2)
                     | Some d => let '(n, r) := read_digits (ds_i st2) d in
                                 (- Z.of_N n, mk_dst (ds_r st2) (ds_e st2) r (ds_panic st2))
                     end
        end
      else match digit_val b with
           | None => (0, st1)
           | Some d => let '(n, r) := read_digits (ds_i st1) d in
                       (Z.of_N n, mk_dst (ds_r st1) (ds_e st1) r (ds_panic st1))
           end
  end.

(* text up to ';' (dec.until) *)
Fixpoint until_semi (l : bytes) : bytes * bytes :=
  match l with
  | [] => ([], [])
  | b :: r => if Byte.eqb b ";"%byte then ([], r) else let '(a, r') := until_semi r in (b :: a, r')
  end.

Definition skip (st : dst) : dst :=
  match ds_i st with
  | _ :: r => mk_dst (ds_r st) (ds_e st) r (ds_panic st)
  | [] => set_err st EEOF
  end.

Section CDec.
Variable simple : bool.
Variable opts : dopts.

Definition add_ref (st : dst) (v : option dval) : dst :=
  if simple then st else mk_dst (ds_r st ++ [v]) (ds_e st) (ds_i st) (ds_panic st).

Fixpoint set_nth {A} (n : nat) (x : A) (l : list A) : list A :=
  match n, l with
  | _, [] => []
  | O, _ :: r => x :: r
  | S k, y :: r => y :: set_nth k x r
  end.

(* sliceDecoder.Decode:  for ; i < count && dec.Error == nil; i++ { decodeElem }  ; len = i :
   the loop stops at the first decode error and keeps what was decoded so far (the element that
   failed included) *)
Fixpoint cdec_elems (rec : dst -> dval * dst) (n : nat) (st : dst) : list dval * dst :=
  match n with
  | O => ([], st)
  | S k => match ds_e st with
           | Some _ => ([], st)
           | None => let '(v, st1) := rec st in
                     let '(vs, st2) := cdec_elems rec k st1 in (v :: vs, st2)
           end
  end.

(* dec.decodeInterface(dec.NextByte(), &v) for the tags of this codec; ASCII strings only *)
Fixpoint cdec (fuel : nat) (st : dst) : dval * dst :=
  match fuel with
  | O => (DNil, st)
  | S f =>
    let '(ob, st1) := next_byte st in
    match ob with
    | None => (DNil, st1)                     (* tag 0: "invalid tag" but Error is already io.EOF *)
    | Some b =>
      match digit_val b with
      | Some d => (DInt (Z.of_N d), st1)
      | None =>
        if Byte.eqb b "n"%byte then (DNil, st1)
        else if Byte.eqb b "e"%byte then (DStr [], st1)
        else if Byte.eqb b "t"%byte then (DBool true, st1)
        else if Byte.eqb b "f"%byte then (DBool false, st1)
        else if Byte.eqb b "i"%byte then let '(z, st2) := read_int st1 in (DInt z, st2)
        else if Byte.eqb b "l"%byte then let '(z, st2) := read_int st1 in (DLong (o_long opts) z, st2)
        else if Byte.eqb b "d"%byte then
          let '(txt, r) := until_semi (ds_i st1) in
          (DReal (o_real opts) txt, mk_dst (ds_r st1) (ds_e st1) r (ds_panic st1))
        else if Byte.eqb b "u"%byte then
          match ds_i st1 with
          | c :: r => (DStr [c], mk_dst (ds_r st1) (ds_e st1) r (ds_panic st1))
          | [] => (DStr [], set_err st1 EEOF)
          end
        else if Byte.eqb b "s"%byte then
          (* ReadString: n := ReadInt() (consumes the opening quote); n bytes; Skip() the closing quote *)
          let '(n, st2) := read_int st1 in
          let k := Z.to_nat n in
          let s := firstn k (ds_i st2) in
          let st3 := skip (mk_dst (ds_r st2) (ds_e st2) (skipn k (ds_i st2)) (ds_panic st2)) in
          (DStr s, add_ref st3 (Some (DStr s)))
        else if Byte.eqb b "a"%byte then
          (* count := dec.ReadCount(): a negative count is a decode error and counts as 0 *)
          let '(n0, st2a) := read_int st1 in
          let st2 := if n0 <? 0 then set_err st2a EOther else st2a in
          let n := if n0 <? 0 then 0 else n0 in
          let idx := length (ds_r st2) in
          let st3 := add_ref st2 None in
          let '(vs, st4) := cdec_elems (cdec f) (Z.to_nat n) st3 in
          let st5 := skip st4 in
          let v := DList vs in
          (v, if simple then st5 else mk_dst (set_nth idx (Some v) (ds_r st5)) (ds_e st5) (ds_i st5) (ds_panic st5))
        else if Byte.eqb b "r"%byte then
          (* ReadReference: i := dec.ReadInt(); an index outside dec.refer.ref (always, in simple mode) is a
             decode error and the destination keeps its value -- no IsSimple() check, no panic *)
          let '(n, st2) := read_int st1 in
          match (if n <? 0 then None else nth_error (ds_r st2) (Z.to_nat n)) with
          | Some (Some v) => (match v with DList _ => DRefTo v | _ => v end, st2)
          | Some None => (DNil, st2)               (* a list that is still being read: not generated *)
          | None => (DNil, set_err st2 EOther)
          end
        else (DNil, set_err st1 EInvalidTag)
      end
    end
  end.
End CDec.

Definition cdes (simple : bool) (o : dopts) (r : drefs) (c : unit) (e : option cerr) (input : bytes) (ty : unit)
  : des_res dval drefs unit cerr :=
  let '(v, st) := cdec simple o (S (length input)) (mk_dst r e input false) in
  mk_des _ _ _ _ (ds_r st) c (ds_e st) (ds_i st) (if ds_panic st then DPanic else v).

Definition cdec_t := dec drefs unit cerr.
Definition c_new_dec : cdec_t := new_dec drefs unit cerr [] tt.
Definition c_new_decoder (input : bytes) : cdec_t := new_decoder drefs unit cerr [] tt input.
Definition c_new_decoder_from_reader (input : bytes) : cdec_t := new_decoder_from_reader drefs unit cerr [] tt input.
Definition cv_dec_step (vr : variant) := dec_step unit dval drefs unit cerr [] tt vr cdes.
Definition cv_free_dec (vr : variant) := free_dec drefs unit cerr [] tt vr.
Definition c_dec_step := cv_dec_step as_found.
Definition c_dec_run := dec_run unit dval drefs unit cerr [] tt as_found cdes.
Definition c_free_dec := cv_free_dec as_found.
Definition c_dsessions_run := dsessions_run unit dval drefs unit cerr [] tt as_found cdes.

(* ===================================================================================== *)
(* 5. who holds a pooled object                                                          *)
(* ===================================================================================== *)
(* sync.Pool is a bag: Put accepts anything, also an object that is already in it.  Objects are
   numbers; a user (a goroutine running a codec call) holds what Get gave it until it frees it.
   The sections above describe WHAT a released coder looks like; this one, WHO may touch it:
   exclusivity = every object is in the pool at most once and never both in the pool and held,
   nor held by two users. *)
Record ostate := mk_ostate {
  o_pool : list nat;                 (* the bag, newest first *)
  o_held : list (nat * nat);         (* (user, object) *)
  o_next : nat                       (* next fresh object (New) *)
}.
Definition oinit : ostate := mk_ostate [] [] 0.

Inductive oop :=
| OGet (u : nat) (choice : option nat)   (* Get: None = New(), Some k = the k-th object of the bag *)
| OFree (u : nat) (x : nat).             (* Put(x) by user u *)

Fixpoint remove_held (u x : nat) (l : list (nat * nat)) : list (nat * nat) :=
  match l with
  | [] => []
  | (u', x') :: r => if Nat.eqb u u' && Nat.eqb x x' then r else (u', x') :: remove_held u x r
  end.

Definition holds (st : ostate) (u x : nat) : bool :=
  existsb (fun p => Nat.eqb u (fst p) && Nat.eqb x (snd p)) (o_held st).

Definition ostep (st : ostate) (o : oop) : ostate :=
  match o with
  | OGet u choice =>
      match (match choice with Some k => nth_error (o_pool st) k | None => None end), choice with
      | Some x, Some k => mk_ostate (remove_nth k (o_pool st)) ((u, x) :: o_held st) (o_next st)
      | _, _ => mk_ostate (o_pool st) ((u, o_next st) :: o_held st) (S (o_next st))
      end
  | OFree u x => mk_ostate (x :: o_pool st) (remove_held u x (o_held st)) (o_next st)
  end.

Fixpoint orun (st : ostate) (ops : list oop) : ostate :=
  match ops with [] => st | o :: r => orun (ostep st o) r end.

(* the discipline of the users (what the go/ast walk of the check establishes for every function that
   calls Get*: one deferred Free* of exactly the object obtained, nothing else): a user only frees
   what it holds -- and thereby stops holding it *)
Fixpoint disciplined (st : ostate) (ops : list oop) : bool :=
  match ops with
  | [] => true
  | o :: r => match o with OFree u x => holds st u x | OGet _ _ => true end && disciplined (ostep st o) r
  end.

Definition objects (st : ostate) : list nat := o_pool st ++ map snd (o_held st).

Fixpoint nodupb (l : list nat) : bool :=
  match l with [] => true | x :: r => negb (existsb (Nat.eqb x) r) && nodupb r end.

Definition exclusive (st : ostate) : bool := nodupb (objects st).

(* implicit type arguments for the generic part (declared last: this file spells them out) *)
Arguments e_buf {RT CT ER WR}. Arguments e_off {RT CT ER WR}. Arguments e_simple {RT CT ER WR}.
Arguments e_refer {RT CT ER WR}. Arguments e_cls {RT CT ER WR}. Arguments e_writer {RT CT ER WR}.
Arguments e_err {RT CT ER WR}.
Arguments sr_refer {RT CT ER}. Arguments sr_cls {RT CT ER}. Arguments sr_out {RT CT ER}. Arguments sr_err {RT CT ER}.
Arguments EEncode {V WR}. Arguments EWrite {V WR}. Arguments EWriteTag {V WR}. Arguments EFlush {V WR}.
Arguments EReset {V WR}. Arguments EResetBuffer {V WR}. Arguments ESimple {V WR}. Arguments ESetWriter {V WR}.
Arguments EBytes {V WR}. Arguments EIsSimple {V WR}. Arguments EGetError {V WR}.
Arguments OFlushed {ER WR}. Arguments OBytes {ER WR}. Arguments OBool {ER WR}. Arguments OErr {ER WR}. Arguments OUnit {ER WR}.
Arguments es_choice {V WR}. Arguments es_ops {V WR}. Arguments mk_esession {V WR}.
Arguments lib_eop {V WR}. Arguments marshal_ops {V WR}. Arguments flush {RT CT ER WR}.
Arguments d_in {DR DC ER}. Arguments d_buf {DR DC ER}. Arguments d_from_reader {DR DC ER}. Arguments d_simple {DR DC ER}.
Arguments d_refer {DR DC ER}. Arguments d_cls {DR DC ER}. Arguments d_err {DR DC ER}. Arguments d_opts {DR DC ER}.
Arguments DDecode {DT}. Arguments DReset {DT}. Arguments DSimple {DT}. Arguments DResetBytes {DT}. Arguments DResetReader {DT}.
Arguments DResetBuffer {DT}. Arguments DSetOpts {DT}. Arguments DGetError {DT}. Arguments DIsSimple {DT}. Arguments DGetOpts {DT}.
Arguments ODecoded {DV ER}. Arguments ODHang {DV ER}. Arguments ODErr {DV ER}. Arguments ODBool {DV ER}. Arguments ODOpts {DV ER}. Arguments ODUnit {DV ER}.
Arguments dss_choice {DT}. Arguments dss_ops {DT}. Arguments mk_dsession {DT}.
Arguments dec_same {DR DC ER}. Arguments one_source {DT}. Arguments is_reset_bytes {DT}. Arguments is_reset_reader {DT}.
