(* Model of rpc/plugins/limiter/rate_limiter.go (C17, rate limiter).
   Executable definitions only; proofs live in Proofs/RateProofs.v.

   The Go text:

     NewRateLimiter(permitsPerSecond, opts...):
         next = time.Now().UnixNano(); maxPermits = +Inf; timeout = 0
         interval = float64(time.Second) / float64(permitsPerSecond)

     func (l *RateLimiter) Acquire(ctx, tokens int) (err error) {
         now := time.Now().UnixNano()
         last := atomic.LoadInt64(&l.next)
         permits := float64(now-last)/l.interval - float64(tokens)
         if permits > l.maxPermits { permits = l.maxPermits }
         atomic.StoreInt64(&l.next, now-int64(permits*l.interval))
         if last <= now { return }
         delay := time.Duration(last - now)
         if l.timeout > 0 && delay > l.timeout { return core.ErrTimeout }
         ctx, cancel := context.WithTimeout(ctx, delay); <-ctx.Done(); cancel()
         return
     }

   Float abstraction (an assumption of the correspondence, not of the theorems): times are
   integer nanoseconds, [interval] is a positive integer number of nanoseconds per permit
   and [max_permits] an integer, and the model computes [permits * interval] exactly as
        credit = (now - last) - tokens * interval          (nanoseconds of unused budget)
   so  next' = now - min(credit, maxPermits*interval) = max(last + tokens*interval,
   now - maxPermits*interval).  When interval is a power of two the Go float computation is
   exact as well; otherwise the quotient is rounded and int64() truncates toward zero, so
   the stored value may differ from the exact one by one nanosecond (the check says which
   family each case is in).

   Note the order of the Go statements, kept here: the debit is stored before the timeout
   test, so a rejected caller has consumed its tokens too. *)
From Coq Require Import List ZArith Bool.
Import ListNotations.
Open Scope Z_scope.

Record rcfg := {
  interval : Z;               (* nanoseconds per permit = 1e9 / permitsPerSecond *)
  max_permits : option Z;     (* None = +Inf (the default) *)
  rtimeout : Z                (* nanoseconds; 0 = wait as long as it takes *)
}.

Inductive verdict :=
| Granted (wait : Z)          (* nil error after sleeping [wait] nanoseconds *)
| TimedOut.                   (* core.ErrTimeout, returned at once *)

(* if permits > l.maxPermits { permits = l.maxPermits }, in nanosecond units *)
Definition capped (c : rcfg) (credit : Z) : Z :=
  match max_permits c with
  | Some m => if credit >? m * interval c then m * interval c else credit
  | None => credit
  end.

(* the value stored into l.next, from the value that was loaded *)
Definition stored (c : rcfg) (last now tokens : Z) : Z :=
  now - capped c ((now - last) - tokens * interval c).

(* what the caller gets, from the value that was loaded *)
Definition decide (c : rcfg) (last now : Z) : verdict :=
  if last <=? now then Granted 0
  else
    let delay := last - now in
    if (rtimeout c >? 0) && (delay >? rtimeout c) then TimedOut else Granted delay.

(* one sequential call of Acquire: state is l.next *)
Definition acquire (c : rcfg) (next now tokens : Z) : Z * verdict :=
  (stored c next now tokens, decide c next now).

(* the wait a caller needs at [now] when the bucket is free again at [last] *)
Definition required_wait (last now : Z) : Z := Z.max 0 (last - now).

(* a request: the clock reading inside Acquire and the number of tokens *)
Definition req := (Z * Z)%type.

(* l.next after a sequence of calls *)
Fixpoint final (c : rcfg) (next : Z) (reqs : list req) : Z :=
  match reqs with
  | [] => next
  | (now, tokens) :: r => final c (fst (acquire c next now tokens)) r
  end.

(* what each call saw and got: (now, tokens, loaded value, verdict) *)
Record entry := { e_now : Z; e_tok : Z; e_last : Z; e_verdict : verdict }.

Fixpoint trace (c : rcfg) (next : Z) (reqs : list req) : list entry :=
  match reqs with
  | [] => []
  | (now, tokens) :: r =>
      let '(next', v) := acquire c next now tokens in
      {| e_now := now; e_tok := tokens; e_last := next; e_verdict := v |} :: trace c next' r
  end.

(* the instant at which a granted caller goes on: now + wait = max now last *)
Definition grant_time (e : entry) : Z := Z.max (e_now e) (e_last e).

Definition is_granted (v : verdict) : bool := match v with Granted _ => true | TimedOut => false end.

Fixpoint sum_tokens (l : list req) : Z :=
  match l with [] => 0 | (_, t) :: r => t + sum_tokens r end.

(* tokens of the calls that were let through *)
Fixpoint granted_tokens (l : list entry) : Z :=
  match l with
  | [] => 0
  | e :: r => (if is_granted (e_verdict e) then e_tok e else 0) + granted_tokens r
  end.

(* every call that was let through went on inside [lo, hi] and asked for at most tmax tokens *)
Definition granted_in_window (lo hi tmax : Z) (l : list entry) : bool :=
  forallb (fun e => if is_granted (e_verdict e)
                    then (lo <=? grant_time e) && (grant_time e <=? hi) && (e_tok e <=? tmax)
                    else true) l.

Fixpoint times_sorted (t0 : Z) (l : list req) : bool :=
  match l with
  | [] => true
  | (now, _) :: r => (t0 <=? now) && times_sorted now r
  end.

Definition tokens_nonneg (l : list req) : bool := forallb (fun r => 0 <=? snd r) l.

(* ------------------------------------------------------------------ *)
(* Any rate.  interval = float64(time.Second) / float64(permitsPerSecond) is the RATIONAL
   1e9 / permitsPerSecond nanoseconds per permit (so interval * rate = one second, whatever
   the rate); it is a whole number only when the rate divides 1e9.  The model keeps it as
   the pair (nanos_per_second, pps) and computes permits * interval exactly:
        credit * pps = (now - last) * pps - tokens * 1e9,
   capped at maxPermits * 1e9; int64(.) truncates toward zero, which is [Z.quot].  When the
   rate divides 1e9 this is the integer model above (Proofs: q_stored_integer). *)

Definition nanos_per_second : Z := 1000000000.

Record qcfg := {
  pps : Z;                    (* permitsPerSecond, > 0 *)
  qmax : option Z;            (* maxPermits; None = +Inf *)
  qtimeout : Z
}.

(* the interval as a numerator / denominator pair *)
Definition q_interval_num (c : qcfg) : Z := nanos_per_second.
Definition q_interval_den (c : qcfg) : Z := pps c.

Definition q_capped (c : qcfg) (credit_scaled : Z) : Z :=
  match qmax c with
  | Some m => if credit_scaled >? m * nanos_per_second then m * nanos_per_second else credit_scaled
  | None => credit_scaled
  end.

Definition q_stored (c : qcfg) (last now tokens : Z) : Z :=
  now - Z.quot (q_capped c ((now - last) * pps c - tokens * nanos_per_second)) (pps c).

Definition q_rcfg (c : qcfg) : rcfg :=      (* only the timeout matters for the decision *)
  {| interval := 0; max_permits := qmax c; rtimeout := qtimeout c |}.

Definition q_acquire (c : qcfg) (next now tokens : Z) : Z * verdict :=
  (q_stored c next now tokens, decide (q_rcfg c) next now).

Fixpoint q_final (c : qcfg) (next : Z) (reqs : list req) : Z :=
  match reqs with
  | [] => next
  | (now, tokens) :: r => q_final c (q_stored c next now tokens) r
  end.

(* the integer-interval configuration of a rate that divides 1e9 *)
Definition q_to_rcfg (c : qcfg) : rcfg :=
  {| interval := nanos_per_second / pps c; max_permits := qmax c; rtimeout := qtimeout c |}.

(* ------------------------------------------------------------------ *)
(* Concurrent callers.  The load and the store of l.next are two separate atomic
   operations, so one call of Acquire is two steps of the LTS.  time.Now() is read just
   before the load; readings are monotone over the whole run ([rclock]), and a caller that
   had to wait cannot start its next call before the wait is over ([tfree]). *)

Record rthread := {
  tpend : option (Z * Z * Z);   (* Some (last, now, tokens) between the load and the store *)
  tfree : Z                     (* earliest clock reading of its next call *)
}.

(* a finished call, in the order of the stores *)
Record gevent := { g_tid : nat; g_now : Z; g_tok : Z; g_last : Z; g_verdict : verdict }.

Record rstate := {
  rnext : Z;
  rclock : Z;
  rthreads : list rthread;
  rlog : list gevent            (* newest first *)
}.

Definition rinit (next0 : Z) (n : nat) : rstate :=
  {| rnext := next0; rclock := next0;
     rthreads := repeat {| tpend := None; tfree := next0 |} n; rlog := [] |}.

Inductive rlabel :=
| LLoad (now tokens : Z)     (* now := time.Now(); last := atomic.LoadInt64(&l.next) *)
| LStore.                    (* atomic.StoreInt64(&l.next, ...) and everything after it *)

Fixpoint rupd_nth {A} (n : nat) (x : A) (l : list A) : list A :=
  match l, n with
  | [], _ => []
  | _ :: r, O => x :: r
  | y :: r, S m => y :: rupd_nth m x r
  end.

Definition rstep (c : rcfg) (s : rstate) (i : nat) (l : rlabel) : option rstate :=
  match nth_error (rthreads s) i with
  | None => None
  | Some t =>
      match tpend t, l with
      | None, LLoad now tokens =>
          if (rclock s <=? now) && (tfree t <=? now) then
            Some {| rnext := rnext s; rclock := now;
                    rthreads := rupd_nth i {| tpend := Some (rnext s, now, tokens); tfree := tfree t |} (rthreads s);
                    rlog := rlog s |}
          else None
      | Some (last, now, tokens), LStore =>
          let v := decide c last now in
          Some {| rnext := stored c last now tokens; rclock := rclock s;
                  rthreads := rupd_nth i {| tpend := None;
                                            tfree := match v with Granted w => now + w | TimedOut => now end |}
                                       (rthreads s);
                  rlog := {| g_tid := i; g_now := now; g_tok := tokens; g_last := last; g_verdict := v |} :: rlog s |}
      | _, _ => None
      end
  end.

Fixpoint rrun (c : rcfg) (s : rstate) (sched : list (nat * rlabel)) : option rstate :=
  match sched with
  | [] => Some s
  | (i, l) :: r => match rstep c s i l with None => None | Some s' => rrun c s' r end
  end.

(* a schedule in which no other step separates a load from its store *)
Fixpoint atomic_sched (calls : list (nat * Z * Z)) : list (nat * rlabel) :=
  match calls with
  | [] => []
  | (i, now, tokens) :: r => (i, LLoad now tokens) :: (i, LStore) :: atomic_sched r
  end.

Definition g_time (g : gevent) : Z := Z.max (g_now g) (g_last g).

Fixpoint log_granted_tokens (l : list gevent) : Z :=
  match l with
  | [] => 0
  | g :: r => (if is_granted (g_verdict g) then g_tok g else 0) + log_granted_tokens r
  end.

Definition all_granted (l : list gevent) : bool := forallb (fun g => is_granted (g_verdict g)) l.

(* every finished call lies in the time window [lo, hi] and asked for at most tmax tokens *)
Definition in_window (lo hi tmax : Z) (l : list gevent) : bool :=
  forallb (fun g => (lo <=? g_time g) && (g_time g <=? hi) && (g_tok g <=? tmax)) l.

Definition thread_idle (t : rthread) : bool := match tpend t with None => true | Some _ => false end.
Definition all_idle (s : rstate) : bool := forallb thread_idle (rthreads s).

Definition entry_of (g : gevent) : entry :=
  {| e_now := g_now g; e_tok := g_tok g; e_last := g_last g; e_verdict := g_verdict g |}.

Definition reqs_of (calls : list (nat * Z * Z)) : list req :=
  map (fun x => match x with (_, now, tokens) => (now, tokens) end) calls.
