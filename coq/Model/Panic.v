(* Model/Panic.v — C11: faults are contained to the call that caused them.

   Executable model only (no proofs).  Three layers:

   1. Go's panic / defer / recover rule, generic.  A goroutine is a stack of frames; a frame
      has deferred functions; a deferred function is a body of instructions.  A panic unwinds
      the stack running the deferred functions of each frame; it is stopped ONLY by a
      recover() executed by a deferred function ITSELF (call depth 0 below the deferred
      function).  A recover() one call deeper (defer func(){ c.Exit(..) }() with the recover
      inside Exit) returns nil and stops nothing.  An unrecovered panic in any goroutine
      terminates the whole process.  (Checked empirically in this sandbox; Go spec
      "Handling panics".)

   2. The reading of the regenerated table Gen/RecoverTable.v (tools/gotables): which
      functions exist, which `go` statements start what, which `defer`s a function executes
      before a given call, and whether the deferred function calls recover() directly.

   3. The hand-written skeleton: for each fault cell (transport x side x worker pool x fault
      class) the goroutine on which the fault surfaces, as a chain of (function, call) links
      keyed by the names that appear in the table.  Every link is checked against the
      table; a goroutine or call that was renamed, moved or removed gives the verdict
      [Broken], which no theorem accepts. *)
From Coq Require Import String List Bool Arith NArith.
From HV Require Import Gen.RecoverTable.
Import ListNotations.
Open Scope string_scope.

(* ------------------------------------------------------------------------------------ *)
(* 1. panic / defer / recover                                                            *)

Inductive instr : Set :=
| IRecover                      (* a call of the builtin recover() *)
| ICall (body : list instr)     (* a call of another function whose body is [body] *)
| IOther.                       (* anything else *)

(* does executing instruction i, [depth] calls below the deferred function, stop the panic? *)
Fixpoint instr_recovers (depth : nat) (i : instr) : bool :=
  match i with
  | IRecover => Nat.eqb depth 0
  | ICall body => existsb (instr_recovers (S depth)) body
  | IOther => false
  end.

Definition dfn := list instr.                 (* a deferred function: its body *)
Definition dfn_recovers (d : dfn) : bool := existsb (instr_recovers 0) d.

Record frame : Set := { fname : string; fdefers : list dfn }.

Definition frame_recovers (f : frame) : bool := existsb dfn_recovers (fdefers f).

(* [unwind stack]: stack innermost frame first.  Some f: the panic is stopped by a deferred
   function of frame f (f then returns normally to its caller).  None: the panic leaves the
   goroutine's outermost frame. *)
Fixpoint unwind (stack : list frame) : option string :=
  match stack with
  | [] => None
  | f :: rest => if frame_recovers f then Some (fname f) else unwind rest
  end.

(* ------------------------------------------------------------------------------------ *)
(* 2. reading the generated table                                                        *)

Definition tbl := list entry.

Definition has_func (t : tbl) (f : string) : bool :=
  existsb (fun e => match e with Func _ n => String.eqb n f | _ => false end) t.

Definition has_go (t : tbl) (encl target : string) : bool :=
  existsb (fun e => match e with Go _ f _ tg => String.eqb f encl && String.eqb tg target | _ => false end) t.

(* sequence number (source order inside f) of the first call of [callee] in f *)
Fixpoint call_seq (t : tbl) (f callee : string) : option nat :=
  match t with
  | [] => None
  | Call f' s c :: r => if String.eqb f' f && String.eqb c callee then Some s else call_seq r f callee
  | _ :: r => call_seq r f callee
  end.

Definition has_call (t : tbl) (f callee : string) : bool :=
  match call_seq t f callee with Some _ => true | None => false end.

(* the body of a deferred function as far as the table describes it *)
Definition dfn_of (direct indirect : bool) : dfn :=
  ((if direct then [IRecover] else []) ++ (if indirect then [ICall [IRecover]] else []) ++ [IOther])%list.

(* deferred functions that f has certainly registered when it executes its call number
   [before]: top-level defer statements that precede the call in source order.  A defer
   nested in an if/for/switch is not counted (it may not have been executed). *)
Fixpoint defers_before (t : tbl) (f : string) (before : nat) : list dfn :=
  match t with
  | [] => []
  | Defer _ f' s top _ direct indirect _ :: r =>
      if String.eqb f' f && top && Nat.ltb s before
      then dfn_of direct indirect :: defers_before r f before
      else defers_before r f before
  | _ :: r => defers_before r f before
  end.

(* function f registers, at its top level, a deferred function that calls recover() directly *)
Definition entry_protected_fn (t : tbl) (f : string) : bool :=
  existsb (fun e => match e with
                    | Defer _ f' _ top _ direct _ _ => String.eqb f' f && top && direct
                    | _ => false
                    end) t.

Definition unresolved_entries (t : tbl) : list entry :=
  filter (fun e => match e with Unresolved _ _ _ => true | _ => false end) t.

(* ------------------------------------------------------------------------------------ *)
(* 3. fault cells                                                                         *)

Inductive transport : Set := TMock | THttp | TFastHttp | TTcp | TUnix | TWebsocket | TUdp.
Inductive side : Set := Server | Client.

Inductive fault : Set :=
(* server side: a request of a healthy client (or of a raw peer) makes ... *)
| FServicePanic        (* the service function panic (any value) *)
| FHostilePanic        (* ... with a value whose own Error()/String() method panics (typed nil pointer, method that
                          panics): formatting the recovered value can raise a second panic.  Server side: the service
                          function; client side: the function provided through reverse.Provider *)
| FNestedHostilePanic  (* ... with a value whose Error() panics with a value whose Error() panics AGAIN (or with itself):
                          fmt.Sprintf gives up on the nested panic and re-panics, so only a recover around the
                          formatting itself (PanicError.Error/String, since 5f07f22) keeps the second panic in *)
| FPanicUnderTimeout   (* the service function panic while the ExecuteTimeout plugin (rpc/plugins/timeout) is installed:
                          the plugin runs the rest of the invoke chain on a goroutine of its own *)
| FInvokePluginPanic   (* an invoke plugin (Service.Use, NextInvokeHandler chain) panic *)
| FIOPluginPanic       (* an IO plugin (Service.Use, NextIOHandler chain) panic *)
| FMissingPanic        (* the missing-method handler panic *)
| FDecodeError         (* arguments that cannot be decoded: ServiceCodec.Decode returns an error *)
| FDecodePanic         (* type-mismatched / count-lying arguments: ServiceCodec.Decode panics *)
| FFrameShort          (* a frame shorter than the transport's header *)
| FFrameBadCrc         (* a header whose checksum is wrong *)
| FFrameLength         (* a header that lies about the body length *)
| FOversizeRequest     (* server: longer than MaxRequestLength; client: too large for the transport to carry *)
| FOversizeResponse    (* a result too large for the transport to carry *)
(* client side: a scripted peer answers a real client with ... *)
| FBadPayload          (* a well-framed response whose Hprose payload is malformed *)
| FProviderPanic       (* reverse.Provider: the provided function panics in the client process *)
| FSubscriberPanic.    (* push.Prosumer: a subscriber callback panics in the client process *)

Record cell : Set := { c_tr : transport; c_side : side; c_pool : bool; c_fault : fault }.

Definition transports := [TMock; THttp; TFastHttp; TTcp; TUnix; TWebsocket; TUdp].
Definition sides := [Server; Client].
Definition pools := [false; true].
Definition faults := [FServicePanic; FHostilePanic; FNestedHostilePanic; FPanicUnderTimeout; FInvokePluginPanic; FIOPluginPanic; FMissingPanic; FDecodeError;
  FDecodePanic; FFrameShort; FFrameBadCrc; FFrameLength; FOversizeRequest; FOversizeResponse;
  FBadPayload; FProviderPanic; FSubscriberPanic].

(* the whole product: 7 transports x 2 sides x pool off/on x 17 fault classes = 476 *)
Definition all_cells : list cell :=
  flat_map (fun tr => flat_map (fun sd => flat_map (fun p => map (fun f =>
    {| c_tr := tr; c_side := sd; c_pool := p; c_fault := f |}) faults) pools) sides) transports.

Definition transport_eqb (a b : transport) : bool :=
  match a, b with
  | TMock, TMock | THttp, THttp | TFastHttp, TFastHttp | TTcp, TTcp | TUnix, TUnix
  | TWebsocket, TWebsocket | TUdp, TUdp => true
  | _, _ => false
  end.
Definition side_eqb (a b : side) : bool :=
  match a, b with Server, Server | Client, Client => true | _, _ => false end.
Definition fault_eqb (a b : fault) : bool :=
  match a, b with
  | FServicePanic, FServicePanic | FHostilePanic, FHostilePanic | FNestedHostilePanic, FNestedHostilePanic
  | FPanicUnderTimeout, FPanicUnderTimeout | FSubscriberPanic, FSubscriberPanic
  | FInvokePluginPanic, FInvokePluginPanic | FIOPluginPanic, FIOPluginPanic
  | FMissingPanic, FMissingPanic | FDecodeError, FDecodeError | FDecodePanic, FDecodePanic
  | FFrameShort, FFrameShort | FFrameBadCrc, FFrameBadCrc | FFrameLength, FFrameLength
  | FOversizeRequest, FOversizeRequest | FOversizeResponse, FOversizeResponse
  | FBadPayload, FBadPayload | FProviderPanic, FProviderPanic => true
  | _, _ => false
  end.
Definition cell_eqb (a b : cell) : bool :=
  transport_eqb (c_tr a) (c_tr b) && side_eqb (c_side a) (c_side b) &&
  Bool.eqb (c_pool a) (c_pool b) && fault_eqb (c_fault a) (c_fault b).

(* does the transport's handler have a Pool option (socket, udp, websocket handlers) *)
Definition has_pool (tr : transport) : bool :=
  match tr with TTcp | TUnix | TWebsocket | TUdp => true | _ => false end.
(* does the transport frame its messages itself (header with index; CRC for socket and udp) *)
Definition framed (tr : transport) : bool := has_pool tr.
Definition has_crc (tr : transport) : bool :=
  match tr with TTcp | TUnix | TUdp => true | _ => false end.
(* does the transport have a wire at all (mock calls the handler in process) *)
Definition has_wire (tr : transport) : bool := match tr with TMock => false | _ => true end.

(* which combinations exist at all.  Server-side faults exist for both pool settings where the
   handler has a Pool; client-side faults do not involve the server's pool. *)
Definition applicable (c : cell) : bool :=
  let tr := c_tr c in
  (if c_pool c then has_pool tr && side_eqb (c_side c) Server else true) &&
  match c_side c, c_fault c with
  | Server, (FServicePanic | FHostilePanic | FNestedHostilePanic | FPanicUnderTimeout | FInvokePluginPanic | FIOPluginPanic | FMissingPanic | FDecodeError | FDecodePanic) => true
  | Server, FFrameShort => framed tr
  | Server, FFrameBadCrc => has_crc tr
  | Server, FFrameLength => has_wire tr           (* http/fasthttp: Content-Length larger than the body sent *)
  | Server, FOversizeRequest => true               (* MaxRequestLength exists for every handler *)
  | Server, FOversizeResponse => transport_eqb tr TUdp   (* only a datagram has a size limit below MaxInt32 *)
  | Server, (FBadPayload | FProviderPanic | FSubscriberPanic) => false
  | Client, FFrameShort => framed tr
  | Client, FFrameBadCrc => has_crc tr
  | Client, FFrameLength => has_wire tr
  | Client, FOversizeRequest => transport_eqb tr TUdp
  | Client, FBadPayload => has_wire tr
  | Client, (FProviderPanic | FHostilePanic | FNestedHostilePanic | FSubscriberPanic) => true
  | Client, _ => false
  end.

Definition cells : list cell := filter applicable all_cells.

(* ------------------------------------------------------------------------------------ *)
(* 4. the skeleton: on which goroutine does the fault surface                             *)

(* where a goroutine comes from *)
Inductive root : Set :=
| RGo (encl target : string)   (* a `go` statement of the library: must be in the table *)
| RNetHTTP                     (* net/http's per-connection goroutine: conn.serve has
                                  `defer func(){ if err := recover() ... c.close }()` — recovers, closes that connection *)
| RFastHTTP                    (* fasthttp's worker goroutine (workerpool.go workerFunc): no recover *)
| RPool                        (* a goroutine of the user's core.WorkerPool: no recover assumed *)
| RCaller.                     (* the application goroutine that calls the client API *)

(* link (f, callee): function f is on the stack and has called [callee]; the next link's
   function must be [callee] itself or what [callee] dispatches to ([dispatch]) *)
Definition link := (string * string)%type.

Record gspec : Set := {
  g_root : root;
  g_chain : list link;                 (* outermost first *)
  g_site : string;                     (* the call during which the panic is raised: searched innermost-first along the chain *)
  g_needs : list (string * string)     (* further calls that must exist (e.g. receive submits task to the pool) *)
}.

(* dynamic dispatch that the table cannot see: values installed at construction time *)
Definition dispatch : list (string * string) := [
  ("dyn:core.NextIOHandler", "core.Service.Process");         (* NewIOManager(service.Process); IO plugins sit in between *)
  ("dyn:core.NextInvokeHandler", "core.Service.Execute");     (* NewInvokeManager(service.Execute); invoke plugins in between *)
  ("dyn:core.NextInvokeHandler", "plugins/reverse.Provider.Execute");
  ("?handler", "mock.Handler.Handler")                        (* Agent.Register(address, h.Handler) *)
].

Definition pkg_of (tr : transport) : string :=
  match tr with
  | TTcp | TUnix => "socket" | TWebsocket => "websocket" | TUdp => "udp"
  | THttp | TFastHttp => "http" | TMock => "mock"
  end.

(* the part of every server-side stack below Service.Handle *)
Definition core_chain : list link := [
  ("core.Service.Handle", "dyn:core.NextIOHandler");
  ("core.Service.Process", "dyn:core.NextInvokeHandler");
  ("core.Service.Execute", "ext:reflect.Value.Call")
].

(* the goroutine that runs Service.Handle for one request *)
Definition server_request_goroutine (tr : transport) (pool : bool) : root * list link * list (string * string) :=
  let p := pkg_of tr in
  match tr with
  | TTcp | TUnix | TWebsocket | TUdp =>
      if pool
      then (RPool, [(p ++ ".Handler.task$1", p ++ ".Handler.run"); (p ++ ".Handler.run", "core.Service.Handle")],
            [(p ++ ".Handler.receive", "iface:core.WorkerPool.Submit"); (p ++ ".Handler.receive", p ++ ".Handler.task")])
      else (RGo (p ++ ".Handler.receive") (p ++ ".Handler.run"),
            [(p ++ ".Handler.run", "core.Service.Handle")], [])
  | THttp => (RNetHTTP, [("http.Handler.ServeHTTP", "core.Service.Handle")], [])
  | TFastHttp => (RFastHTTP, [("http.Handler.ServeFastHTTP", "core.Service.Handle")], [])
  | TMock => (RGo "mock.Transport.Transport" "mock.Transport.Transport$1",
              [("mock.Transport.Transport$1", "mock.agent.Handler"); ("mock.agent.Handler", "?handler");
               ("mock.Handler.Handler", "core.Service.Handle")], [])
  end.

(* the per-connection goroutines of the framed servers *)
Definition server_conn_goroutine (tr : transport) (which : string) : root :=
  let p := pkg_of tr in RGo (p ++ ".Handler.Serve") (p ++ ".Handler." ++ which).
(* the per-connection goroutines of the multiplexing clients *)
Definition client_conn_goroutine (tr : transport) (which : string) : root :=
  let p := pkg_of tr in RGo (p ++ ".Transport.getConn") (p ++ ".conn." ++ which).

(* what a fault does: raise a panic at a site of a goroutine, or take an error path whose
   effect is written down here (hand model of the error handling, validated by the
   correspondence run) *)
Inductive verdict : Set :=
| CallError      (* an error (or nothing) for that call; every other call unaffected *)
| ConnClosed     (* that one connection is closed: calls in flight on it fail; later calls reconnect *)
| ServerStops    (* the server's accept/serve loop ends: no new call can be served *)
| ProcessDies    (* unrecovered panic: the process terminates *)
| Broken (why : string).   (* the skeleton no longer matches the table *)

(* the property on a verdict *)
Definition contained (v : verdict) : bool :=
  match v with CallError | ConnClosed => true | _ => false end.

Inductive behaviour : Set :=
| Panics (g : gspec)
| ErrorPath (v : verdict).

Definition server_panic (tr : transport) (pool : bool) (site : string) : behaviour :=
  let '(r, ch, needs) := server_request_goroutine tr pool in
  Panics {| g_root := r; g_chain := (ch ++ core_chain)%list; g_site := site; g_needs := needs |}.

Definition behaviour_of (c : cell) : behaviour :=
  let tr := c_tr c in
  let p := pkg_of tr in
  match c_side c, c_fault c with
  | Server, (FServicePanic | FHostilePanic | FNestedHostilePanic) => server_panic tr (c_pool c) "ext:reflect.Value.Call"
  | Server, FPanicUnderTimeout =>
      (* ExecuteTimeout.Handler: go func() { result, err := next(ctx, name, args); c <- ... }() — the service function
         runs on that goroutine, not below Service.Process' recover *)
      Panics {| g_root := RGo "plugins/timeout.ExecuteTimeout.Handler" "plugins/timeout.ExecuteTimeout.Handler$1";
                g_chain := [("plugins/timeout.ExecuteTimeout.Handler$1", "dyn:core.NextInvokeHandler");
                            ("core.Service.Execute", "ext:reflect.Value.Call")];
                g_site := "ext:reflect.Value.Call";
                g_needs := [("core.Service.Process$1", "dyn:core.NextInvokeHandler")] |}
  | Server, FMissingPanic => server_panic tr (c_pool c) "dyn:core.missingMethod"
  | Server, FInvokePluginPanic => server_panic tr (c_pool c) "dyn:core.NextInvokeHandler"
  | Server, FIOPluginPanic => server_panic tr (c_pool c) "dyn:core.NextIOHandler"
  | Server, FDecodePanic => server_panic tr (c_pool c) "iface:core.ServiceCodec.Decode"
  | Server, FDecodeError => ErrorPath CallError        (* Decode's error is encoded as the call's error response *)
  | Server, FFrameShort =>
      match tr with
      | TWebsocket => (* data[4:] on a message of fewer than 4 bytes: slice bounds panic in the receive goroutine *)
          Panics {| g_root := server_conn_goroutine tr "receive";
                    g_chain := [("websocket.Handler.receive", "websocket.parseHeader")];
                    g_site := "websocket.parseHeader"; g_needs := [] |}
      | TUdp => ErrorPath CallError                     (* n < 8: onError, the datagram is dropped *)
      | _ => ErrorPath ConnClosed                       (* ReadAtLeast fails when the peer ends the stream: reportError *)
      end
  | Server, FFrameBadCrc =>
      match tr with
      | TUdp => ErrorPath CallError                     (* dropped *)
      | _ => ErrorPath ConnClosed                       (* InvalidRequestError: reportError, Serve returns *)
      end
  | Server, FFrameLength =>
      match tr with
      | TUdp => ErrorPath CallError                     (* body of the declared length is decoded: an error response, or dropped *)
      | _ => ErrorPath ConnClosed                       (* stream out of step / short body: the connection ends *)
      end
  | Server, FOversizeRequest =>
      match tr with
      | TTcp | TUnix | TWebsocket => ErrorPath ConnClosed   (* error frame, then receive returns and send reports it *)
      | TUdp => ErrorPath ConnClosed                        (* error datagram: the CLIENT closes its socket on any error frame *)
      | _ => ErrorPath CallError                            (* 413 / ErrRequestEntityTooLarge for that call *)
      end
  | Server, FOversizeResponse =>
      (* since 7f6e14b: send answers len(body) > len(buffer)-8 with an error datagram for that index and goes on;
         the client's receive loop treats an error frame as fatal for its own socket (Close(err)) and re-dials *)
      ErrorPath ConnClosed
  | Client, FFrameShort =>
      match tr with
      | TWebsocket => (* body[4:] on a short message: panic in the client's Receive goroutine *)
          Panics {| g_root := client_conn_goroutine tr "Receive";
                    g_chain := [("websocket.conn.Receive", "websocket.conn.receive");
                                ("websocket.conn.receive", "websocket.parseHeader")];
                    g_site := "websocket.parseHeader"; g_needs := [] |}
      | _ => ErrorPath ConnClosed
      end
  | Client, FFrameBadCrc => ErrorPath ConnClosed
  | Client, FFrameLength => ErrorPath ConnClosed      (* udp (since 5ee4f50): declared length <> bytes received is an InvalidResponseError *)
  | Client, FOversizeRequest =>
      (* since 7f6e14b: conn.Transport refuses len(request) > maxBodyLength with ErrRequestEntityTooLarge
         before anything is queued: the Send goroutine never sees it *)
      ErrorPath CallError
  | Client, FBadPayload => ErrorPath CallError         (* ClientCodec.Decode returns an error to the caller *)
  | Client, (FProviderPanic | FHostilePanic | FNestedHostilePanic) =>
      Panics {| g_root := RGo "plugins/reverse.Provider.dispatch" "plugins/reverse.Provider.dispatch$1";
                g_chain := [("plugins/reverse.Provider.dispatch$1", "plugins/reverse.Provider.process");
                            ("plugins/reverse.Provider.process", "dyn:core.NextInvokeHandler");
                            ("plugins/reverse.Provider.Execute", "ext:reflect.Value.Call")];
                g_site := "ext:reflect.Value.Call"; g_needs := [] |}
  | Client, FSubscriberPanic =>
      (* Prosumer.message: go p.dispatch(topics); dispatch -> p.call(callback, message) -> callback(...) *)
      Panics {| g_root := RGo "plugins/push.Prosumer.message" "plugins/push.Prosumer.dispatch";
                g_chain := [("plugins/push.Prosumer.dispatch", "plugins/push.Prosumer.call");
                            ("plugins/push.Prosumer.call", "?callback")];
                g_site := "?callback"; g_needs := [] |}
  | _, _ => ErrorPath (Broken "not applicable")
  end.

(* ------------------------------------------------------------------------------------ *)
(* 5. from the skeleton and the table to frames                                           *)

(* The call of [callee] may sit in f itself or in a function literal f$k that f calls
   directly (func() { defer ...; callee(...) }() — the shape of Service.Process).  Result:
   the frames from f inwards, each with the defers registered before the relevant call. *)
Definition lit_names (f : string) : list string :=
  map (fun k => f ++ "$" ++ k) ["1"; "2"; "3"; "4"; "5"; "6"; "7"; "8"; "9"].

Definition frames_to_call (t : tbl) (f callee : string) : option (list frame) :=
  match call_seq t f callee with
  | Some s => Some [ {| fname := f; fdefers := defers_before t f s |} ]
  | None =>
      match find (fun l => has_call t f l && has_call t l callee) (lit_names f) with
      | Some l =>
          match call_seq t f l, call_seq t l callee with
          | Some s1, Some s2 => Some [ {| fname := f; fdefers := defers_before t f s1 |};
                                       {| fname := l; fdefers := defers_before t l s2 |} ]
          | _, _ => None
          end
      | None => None
      end
  end.

Definition dispatches (callee next : string) : bool :=
  String.eqb callee next ||
  existsb (fun d => String.eqb (fst d) callee && String.eqb (snd d) next) dispatch.

(* Walk the chain outermost-first, accumulating the stack (innermost first).  [best] is the
   stack as it is at the innermost site found so far. *)
Fixpoint build (t : tbl) (site : string) (chain : list link) (acc : list frame) (best : option (list frame))
  : option (list frame) + string :=
  match chain with
  | [] => inl best
  | (f, callee) :: rest =>
      if negb (has_func t f) then inr ("function missing: " ++ f) else
      (* is the fault site called from f (or a literal of f)? *)
      let best' := match frames_to_call t f site with
                   | Some fs => Some (rev fs ++ acc)%list
                   | None => best
                   end in
      match rest with
      | [] => inl best'
      | (g, _) :: _ =>
          if negb (dispatches callee g) then inr ("chain does not lead from " ++ callee ++ " to " ++ g) else
          match frames_to_call t f callee with
          | Some fs => build t site rest (rev fs ++ acc)%list best'
          | None => inr ("call missing: " ++ f ++ " -> " ++ callee)
          end
      end
  end.

(* what the recovering function does with the panic it caught (read off the Go text of the
   deferred function; keyed by the function, literals inherit from their function) *)
Inductive scope : Set := SCall | SConn | SServer.

Definition base_name (f : string) : string :=
  match index 0 "$" f with Some n => substring 0 n f | None => f end.

Definition scope_of (f : string) : option scope :=
  let b := base_name f in
  if existsb (String.eqb b) [
       "core.Service.Process";               (* err = NewPanicError(p): encoded as the call's error *)
       "core.Service.Handle";
       "core.PanicError.Error"; "core.PanicError.String";
       (* plugins that turn a panic of the rest of the chain into the call's error (client or service side) *)
       "plugins/circuitbreaker.CircuitBreaker.IOHandler"; "plugins/cluster.Cluster.Handler";
       "plugins/cluster.Forking"; "plugins/cluster.Broadcast";
       "plugins/loadbalance.NginxRoundRobinLoadBalance.Handler"; "plugins/loadbalance.WeightedLeastActiveLoadBalance.Handler";
       "plugins/loadbalance.WeightedRandomLoadBalance.Handler";
       "plugins/log.Log.IOHandler"; "plugins/log.Log.InvokeHandler";
       "plugins/timeout.ExecuteTimeout.Handler";     (* (if it recovers) the panic becomes the result sent on the channel *)
       "plugins/push.Prosumer.dispatch"; "plugins/push.Prosumer.call";   (* (if they recover) that one message's delivery *)   (* falls back to the value's type name: still that call's error text *)
       "plugins/reverse.Provider.process";   (* returnValue with the error text *)
       "mock.Transport.Transport";
       "http.Handler.ServeHTTP"; "http.Handler.ServeFastHTTP"; "mock.Handler.Handler"; "mock.agent.Handler"
     ] then Some SCall
  else if existsb (String.eqb b) [
       (* run: the error frame is written, then send reports it and Serve closes the connection *)
       "socket.Handler.run"; "websocket.Handler.run";
       "socket.Handler.task"; "websocket.Handler.task";
       (* udp run: an error datagram for that index only (the server goes on), but the client's receive
          loop treats every error frame as fatal for its socket: Close(err) fails its pending calls *)
       "udp.Handler.run"; "udp.Handler.task";
       "socket.Handler.receive"; "socket.Handler.send"; "socket.Handler.Serve";
       "websocket.Handler.receive"; "websocket.Handler.send"; "websocket.Handler.Serve";
       (* clients: Close(err): pending calls fail, the next call dials again *)
       "socket.conn.Send"; "socket.conn.Receive"; "socket.conn.send"; "socket.conn.receive";
       "websocket.conn.Send"; "websocket.conn.Receive"; "websocket.conn.send"; "websocket.conn.receive";
       "udp.conn.Send"; "udp.conn.Receive"; "udp.conn.send"; "udp.conn.receive"
     ] then Some SConn
  else if existsb (String.eqb b) [
       (* the UDP server has one socket: reportError ends Serve, which closes it *)
       "udp.Handler.receive"; "udp.Handler.send"; "udp.Handler.Serve"
     ] then Some SServer
  else None.

Definition verdict_of_scope (s : scope) : verdict :=
  match s with SCall => CallError | SConn => ConnClosed | SServer => ServerStops end.

Definition root_ok (t : tbl) (r : root) (chain : list link) : bool :=
  match r, chain with
  | RGo encl target, (f, _) :: _ => has_go t encl target && String.eqb f target
  | RGo _ _, [] => false
  | _, _ => true
  end.

Definition root_verdict (r : root) : verdict :=
  match r with
  | RNetHTTP => ConnClosed      (* net/http recovers, logs, closes that connection *)
  | _ => ProcessDies
  end.

Definition panic_verdict (t : tbl) (g : gspec) : verdict :=
  if negb (root_ok t (g_root g) (g_chain g)) then Broken "goroutine entry not in the table" else
  if negb (forallb (fun n => has_call t (fst n) (snd n)) (g_needs g)) then Broken "required call missing" else
  match build t (g_site g) (g_chain g) [] None with
  | inr why => Broken why
  | inl None => Broken ("fault site not found: " ++ g_site g)
  | inl (Some stack) =>
      match unwind stack with
      | Some f => match scope_of f with
                  | Some s => verdict_of_scope s
                  | None => Broken ("recovering function unknown to the model: " ++ f)
                  end
      | None => root_verdict (g_root g)
      end
  end.

(* ---- formatting the recovered value -------------------------------------------------- *)
(* A recovered panic value becomes the call's error text through PanicError.Error / .String.
   Formatting calls the value's own Error()/String() method, which may panic in turn.  That is
   harmless only while PanicError formats through fmt.Sprintf and nothing else: fmt recovers a
   panic of an Error()/String() method and prints a placeholder ("<nil>" for a nil receiver).
   fmt gives up on a SECOND nested panic — a value whose Error() panics with a value whose
   Error() panics again, or with itself — and re-panics out of Sprintf (net/http's own recover
   handler dies of such a value while logging it).  Against those only a recover inside
   PanicError.Error/String helps: [format_total].  (Without it, further formatting sites
   follow — the handlers' send loops format the error recovered by run — which this model
   does not trace: it reports the verdict of the first unprotected site.) *)
Definition callees_of (t : tbl) (f : string) : list string :=
  flat_map (fun e => match e with Call f' _ c => if String.eqb f' f then [c] else [] | _ => [] end) t.

Definition only_sprintf (t : tbl) (f : string) : bool :=
  match callees_of t f with
  | [] => false
  | cs => forallb (String.eqb "ext:fmt.Sprintf") cs
  end.

(* the formatting is itself under a recover (a hardened PanicError) or goes through fmt only *)
Definition format_shielded (t : tbl) : bool :=
  (entry_protected_fn t "core.PanicError.Error" || only_sprintf t "core.PanicError.Error") &&
  (entry_protected_fn t "core.PanicError.String" || only_sprintf t "core.PanicError.String").

(* the formatting is itself under a recover: safe for EVERY value, however its methods behave *)
Definition format_total (t : tbl) : bool :=
  entry_protected_fn t "core.PanicError.Error" && entry_protected_fn t "core.PanicError.String".

(* what keeps the second panic in, per class of value *)
Definition format_safe (t : tbl) (f : fault) : bool :=
  match f with
  | FHostilePanic => format_shielded t
  | FNestedHostilePanic => format_total t
  | _ => true
  end.

(* WHERE the formatting runs.  Server: Service.Handle encodes the error (ServiceCodec.Encode
   calls err.Error()) after the closure that recovered has returned — the table decides whether
   that call is under a recover of Handle or not.  Provider: Provider.process formats inside
   its deferred function; a panic there leaves process and continues in its caller. *)
Definition format_phase (c : cell) : option gspec :=
  match c_side c, c_fault c with
  | Server, (FHostilePanic | FNestedHostilePanic) =>
      let '(r, ch, needs) := server_request_goroutine (c_tr c) (c_pool c) in
      Some {| g_root := r;
              g_chain := (ch ++ [("core.Service.Handle", "iface:core.ServiceCodec.Encode")])%list;
              g_site := "iface:core.ServiceCodec.Encode"; g_needs := needs |}
  | Client, (FHostilePanic | FNestedHostilePanic) =>
      Some {| g_root := RGo "plugins/reverse.Provider.dispatch" "plugins/reverse.Provider.dispatch$1";
              g_chain := [("plugins/reverse.Provider.dispatch$1", "plugins/reverse.Provider.process")];
              g_site := "plugins/reverse.Provider.process"; g_needs := [] |}
  | _, _ => None
  end.

Definition verdict_of (t : tbl) (c : cell) : verdict :=
  match behaviour_of c with
  | ErrorPath v => v
  | Panics g =>
      let v := panic_verdict t g in
      match format_phase c with
      | Some g2 =>
          (* the first panic is stopped; formatting its value raises a second one unless shielded *)
          if contained v && negb (format_safe t (c_fault c)) then panic_verdict t g2 else v
      | None => v
      end
  end.

(* the frame that stops the panic, for reporting *)
Definition recovering_frame (t : tbl) (c : cell) : option string :=
  match behaviour_of c with
  | ErrorPath _ => None
  | Panics g => match build t (g_site g) (g_chain g) [] None with
                | inl (Some stack) => unwind stack
                | _ => None
                end
  end.

Definition stack_names (t : tbl) (c : cell) : list string :=
  match behaviour_of c with
  | ErrorPath _ => []
  | Panics g => match build t (g_site g) (g_chain g) [] None with
                | inl (Some stack) => map fname stack
                | _ => []
                end
  end.

(* ------------------------------------------------------------------------------------ *)
(* 6. the property on verdicts                                                            *)


(* who is affected by a fault with verdict v *)
Inductive party : Set :=
| PFaultyCall        (* the call that caused the fault *)
| PSameConnInFlight  (* another call in flight on the same connection *)
| POtherConn         (* a call in flight on another connection *)
| PLater.            (* a call issued afterwards (on a new or re-dialled connection) *)

Definition affects (v : verdict) (p : party) : bool :=
  match v, p with
  | CallError, PFaultyCall => true
  | CallError, _ => false
  | ConnClosed, (PFaultyCall | PSameConnInFlight) => true
  | ConnClosed, _ => false
  | _, _ => true
  end.

(* ------------------------------------------------------------------------------------ *)
(* 7. the table is fully accounted for                                                    *)

(* every goroutine the library starts in the anchor files, and its role in the model *)
Definition known_goroutines : list (string * string) := [
  ("socket.Handler.BindContext", "socket.Handler.bind");       (* accept loop: no request data reaches it *)
  ("socket.Handler.bind", "socket.Handler.Serve");             (* per connection: waits for the error channel *)
  ("socket.Handler.Serve", "socket.Handler.receive");
  ("socket.Handler.Serve", "socket.Handler.send");
  ("socket.Handler.receive", "socket.Handler.run");
  ("socket.Transport.getConn", "socket.conn.Send");
  ("socket.Transport.getConn", "socket.conn.Receive");
  ("udp.Handler.BindContext", "udp.Handler.Serve");
  ("udp.Handler.Serve", "udp.Handler.receive");
  ("udp.Handler.Serve", "udp.Handler.send");
  ("udp.Handler.receive", "udp.Handler.run");
  ("udp.Transport.getConn", "udp.conn.Send");
  ("udp.Transport.getConn", "udp.conn.Receive");
  ("websocket.Handler.Serve", "websocket.Handler.receive");
  ("websocket.Handler.Serve", "websocket.Handler.send");
  ("websocket.Handler.receive", "websocket.Handler.run");
  ("websocket.Transport.getConn", "websocket.conn.Send");
  ("websocket.Transport.getConn", "websocket.conn.Receive");
  ("mock.Transport.Transport", "mock.Transport.Transport$1");
  (* since 4b1f091 the fasthttp client transport runs the third-party client on a goroutine of its own so that
     the caller can leave when its context ends; a second goroutine releases req/resp of an abandoned request *)
  ("http/fasthttp.Transport.Transport", "http/fasthttp.Transport.Transport$2");   (* done <- FastHTTPClient.Do / DoDeadline *)
  ("http/fasthttp.Transport.Transport", "http/fasthttp.Transport.Transport$3");   (* <-done; ReleaseRequest; ReleaseResponse *)
  ("plugins/reverse.Provider.dispatch", "plugins/reverse.Provider.dispatch$1");
  ("plugins/reverse.Provider.Listen", "plugins/reverse.Provider.dispatch");
  (* the rest of rpc/core/client.go and of the standard plugins *)
  ("core.Client.Abort", "core.Client.Abort$1");                                   (* transport.Abort() per transport *)
  ("plugins/cluster.Forking", "plugins/cluster.Forking$1");                       (* one attempt per URL, client side *)
  ("plugins/cluster.Broadcast", "plugins/cluster.Broadcast$1");
  ("plugins/oneway.Oneway.Handler", "plugins/oneway.Oneway.Handler$1");           (* the detached rest of the chain *)
  ("plugins/push.Broker.send", "plugins/push.Broker.doHeartBeat");
  ("plugins/push.Broker.timeout", "plugins/push.Broker.doHeartBeat");
  ("plugins/push.Prosumer.message", "plugins/push.Prosumer.dispatch");            (* subscriber callbacks *)
  ("plugins/push.Prosumer.Subscribe", "plugins/push.Prosumer.message");           (* long-poll loop *)
  ("plugins/reverse.Caller.begin$2", "plugins/reverse.Caller.begin$2$1");         (* heartbeat timer *)
  ("plugins/timeout.ExecuteTimeout.Handler", "plugins/timeout.ExecuteTimeout.Handler$1")   (* the rest of the invoke chain *)
].

Definition entry_accounted (e : entry) : bool :=
  match e with
  | Unresolved _ _ _ => false
  | Go _ f _ tg => existsb (fun k => String.eqb (fst k) f && String.eqb (snd k) tg) known_goroutines
  | Defer _ f _ top _ direct indirect _ =>
      (* a deferred function with a recover (effective or not) must sit in a function whose
         recovery action the model knows, and at the top level of that function *)
      if direct || indirect then (match scope_of f with Some _ => true | None => false end) && top else true
  | _ => true
  end.

Definition table_accounted (t : tbl) : bool := forallb entry_accounted t.

(* and conversely: every goroutine the model talks about is still started where it says *)
Definition goroutines_present (t : tbl) : bool :=
  forallb (fun k => has_go t (fst k) (snd k)) known_goroutines.

(* A goroutine entry is protected when its entry function registers, at its top level, a
   deferred function that calls recover() directly: then NO panic raised anywhere on that
   goroutine (in code the fault classes do not name, in callbacks) can end the process. *)
Definition entry_protected (t : tbl) (f : string) : bool :=
  existsb (fun e => match e with
                    | Defer _ f' _ top _ direct _ _ => String.eqb f' f && top && direct
                    | _ => false
                    end) t.

Definition goroutine_eqb (a b : string * string) : bool :=
  String.eqb (fst a) (fst b) && String.eqb (snd a) (snd b).

(* the goroutines whose entry function has no effective recover of its own (tree as repaired).
   None of them is reached by an uncontained fault: see covered_by_inner_frame below. *)
Definition unprotected_goroutines : list (string * string) := [
  ("socket.Handler.BindContext", "socket.Handler.bind");      (* only `defer cancel()`; runs Accept and the OnError callback; no request data reaches it *)
  ("mock.Transport.Transport", "mock.Transport.Transport$1"); (* no defer at all; everything request-dependent it runs is inside Service.Handle's recover *)
  (* The two goroutines of the fasthttp client transport have no recover.  They run no hprose code beyond a channel
     operation: $2 is fasthttp.Client.Do/DoDeadline (writing the request, reading and parsing the HTTP response —
     third-party code, as net/http's client is for the http transport, where it runs on the caller's goroutine and on
     net/http's own), $3 a channel receive and two Release calls.  No request decoding, no service, plugin or codec
     code, no hprose frame parsing runs there; the Hprose payload is decoded by the caller after `err = <-done`.  The
     fault classes that pass through $2 at all are the client-side malformed HTTP responses (frame-length, bad-payload
     on fasthttp): they are error paths of fasthttp's parser, exercised in the correspondence run.  A panic there could
     only come from fasthttp itself or from hooks configured on the public FastHTTPClient field (Dial, RetryIf), which
     are not among the property's fault classes; it WOULD end the process, which is why they are listed here. *)
  ("http/fasthttp.Transport.Transport", "http/fasthttp.Transport.Transport$2");
  ("http/fasthttp.Transport.Transport", "http/fasthttp.Transport.Transport$3");
  ("plugins/reverse.Provider.dispatch", "plugins/reverse.Provider.dispatch$1");  (* runs only Provider.process, which recovers itself *)
  ("plugins/reverse.Provider.Listen", "plugins/reverse.Provider.dispatch");      (* runs proxy.end and the OnError callback *)
  (* no user FUNCTION is reachable from these (table: no Runs entry; C11_user_code_goroutines_accounted): timers, a
     long-poll loop and Abort of the transports; they call event hooks (OnError, OnUnsubscribe, OnClose) at most *)
  ("core.Client.Abort", "core.Client.Abort$1");
  ("plugins/push.Broker.send", "plugins/push.Broker.doHeartBeat");
  ("plugins/push.Broker.timeout", "plugins/push.Broker.doHeartBeat");
  ("plugins/push.Prosumer.Subscribe", "plugins/push.Prosumer.message");
  ("plugins/reverse.Caller.begin$2", "plugins/reverse.Caller.begin$2$1");
  (* these DO run user functions without a recover of their own *)
  ("plugins/oneway.Oneway.Handler", "plugins/oneway.Oneway.Handler$1");          (* see client_chain_goroutines *)
  ("plugins/push.Prosumer.message", "plugins/push.Prosumer.dispatch")            (* fault class FSubscriberPanic: stopped in Prosumer.call *)
].

Definition unprotected (g : string * string) : bool := existsb (goroutine_eqb g) unprotected_goroutines.

(* A fault cell whose panic is raised on a goroutine with an unprotected entry must be stopped
   by a frame further in (Service.Handle / Service.Process / Provider.process). *)
Definition covered_by_inner_frame (t : tbl) (c : cell) : bool :=
  match behaviour_of c with
  | Panics g =>
      match g_root g with
      | RGo encl target =>
          if unprotected (encl, target)
          then match recovering_frame t c with Some _ => true | None => false end
          else true
      | _ => true
      end
  | ErrorPath _ => true
  end.

Definition on_unprotected_goroutine (c : cell) : bool :=
  match behaviour_of c with
  | Panics g => match g_root g with RGo encl target => unprotected (encl, target) | _ => false end
  | ErrorPath _ => false
  end.

(* ---- goroutines that run user functions ---------------------------------------------- *)
(* The table marks (Runs) every goroutine from which a user-supplied function can be reached:
   next(ctx, ...) of a plugin, a provided function, a subscriber callback, a service function.
   Such a goroutine is never harmless by itself.  It must
     - have an effective recover on its entry function, or
     - be the goroutine of some fault cell of the model (then C11_contained / the refuted cells
       say what a panic there does), or
     - be listed in [client_chain_goroutines]: goroutines that run the rest of a CLIENT's
       invoke chain (client plugins, client codec, transport call).  The property names no
       fault class that raises a panic there (malformed responses and oversized requests are
       errors of the codec and the transports, see the bad-payload / frame / oversize cells,
       which the harness also runs through the Oneway plugin); a panic of a user's own client
       plugin on that goroutine WOULD end the process. *)
Definition runs_user_function (t : tbl) (f : string) : bool :=
  existsb (fun e => match e with Runs f' _ => String.eqb f' f | _ => false end) t.

Definition client_chain_goroutines : list string := ["plugins/oneway.Oneway.Handler$1"].

Definition cell_root_target (c : cell) : option string :=
  match behaviour_of c with
  | Panics g => match g_root g with RGo _ target => Some target | _ => None end
  | ErrorPath _ => None
  end.

Definition modelled_goroutine (f : string) : bool :=
  existsb (fun c => applicable c && match cell_root_target c with Some tg => String.eqb tg f | None => false end) all_cells.

Definition user_goroutine_accounted (t : tbl) (e : entry) : bool :=
  match e with
  | Go _ _ _ tg =>
      if runs_user_function t tg
      then entry_protected_fn t tg || modelled_goroutine tg || existsb (String.eqb tg) client_chain_goroutines
      else true
  | _ => true
  end.

Definition user_goroutines_accounted (t : tbl) : bool := forallb (user_goroutine_accounted t) t.

(* ---- tearing a client connection down ------------------------------------------------ *)
(* conn.Exit(onExit, err): onExit unregisters the connection from Transport.conns (and cancels
   its context), Close(err) runs the OnClose hook, closes the socket and fails the pending
   calls.  Calls issued while the connection is being torn down reach a fresh connection only
   if it was unregistered FIRST; otherwise they are queued on the dying one and fail with the
   other call's error. *)
Definition teardown_unregisters_first (t : tbl) (pkg : string) : bool :=
  match call_seq t (pkg ++ ".conn.Exit") "param:onExit", call_seq t (pkg ++ ".conn.Exit") (pkg ++ ".conn.Close") with
  | Some a, Some b => Nat.ltb a b
  | _, _ => false
  end.

Definition mux_packages : list string := ["socket"; "udp"; "websocket"].

(* does a call issued during the teardown of the cell's client connection succeed *)
Definition during_teardown_ok (t : tbl) (c : cell) : bool :=
  if has_pool (c_tr c) then teardown_unregisters_first t (pkg_of (c_tr c)) else true.

(* ---- size limits --------------------------------------------------------------------- *)
(* one UDP datagram over IPv4 carries 65507 bytes; the hprose header takes 8 *)
Definition udp_datagram_capacity : N := 65507.
Definition udp_header_length : N := 8.
Definition udp_max_body : N := udp_datagram_capacity - udp_header_length.
(* a message of n encoded bytes is refused exactly when it exceeds the limit *)
Definition refused (limit n : N) : bool := N.ltb limit n.

(* ------------------------------------------------------------------------------------ *)
(* 8. names for the driver                                                                *)

Definition transport_name (tr : transport) : string :=
  match tr with TMock => "mock" | THttp => "http" | TFastHttp => "fasthttp" | TTcp => "tcp"
              | TUnix => "unix" | TWebsocket => "websocket" | TUdp => "udp" end.
Definition side_name (s : side) : string := match s with Server => "server" | Client => "client" end.
Definition fault_name (f : fault) : string :=
  match f with
  | FServicePanic => "service-panic" | FHostilePanic => "hostile-panic-value"
  | FNestedHostilePanic => "nested-hostile-panic-value" | FInvokePluginPanic => "invoke-plugin-panic"
  | FIOPluginPanic => "io-plugin-panic" | FMissingPanic => "missing-method-panic"
  | FDecodeError => "decode-error" | FDecodePanic => "decode-panic"
  | FFrameShort => "frame-short" | FFrameBadCrc => "frame-bad-crc" | FFrameLength => "frame-length"
  | FOversizeRequest => "oversize-request" | FOversizeResponse => "oversize-response"
  | FBadPayload => "bad-payload" | FProviderPanic => "provider-panic"
  | FPanicUnderTimeout => "panic-under-timeout-plugin" | FSubscriberPanic => "subscriber-panic"
  end.
Definition verdict_name (v : verdict) : string :=
  match v with
  | CallError => "CallError" | ConnClosed => "ConnClosed" | ServerStops => "ServerStops"
  | ProcessDies => "ProcessDies" | Broken why => "Broken: " ++ why
  end.
Definition cell_name (c : cell) : string :=
  transport_name (c_tr c) ++ ":" ++ side_name (c_side c) ++ ":" ++
  (if c_pool c then "pool" else "nopool") ++ ":" ++ fault_name (c_fault c).

Definition find_cell (name : string) : option cell :=
  find (fun c => String.eqb (cell_name c) name) all_cells.

(* one line per applicable cell: name, verdict, recovering frame, stack *)
Definition report (t : tbl) : list (string * string * string * list string) :=
  map (fun c => (cell_name c, verdict_name (verdict_of t c),
                 match recovering_frame t c with Some f => f | None => "-" end,
                 stack_names t c)) cells.

(* ------------------------------------------------------------------------------------ *)
(* 9. the cells whose fault is NOT contained on the tree under check: each has a
      C11_contained_refuted_* theorem in Props/C11.v, C11_contained_partial covers every other
      cell.  When they are repaired in /repo the refutations stop compiling: empty the list,
      delete those theorems and restate C11_contained_partial as the full C11_contained.
      (Earlier escapes — decode / IO-plugin panics under mock and fasthttp, conn.Exit's recover
      one frame too deep, UDP oversize, nested-hostile values — were repaired by 6fc72b7,
      363c1a3, 7f6e14b, 5f07f22.) *)
Definition mk (tr : transport) (sd : side) (p : bool) (f : fault) : cell :=
  {| c_tr := tr; c_side := sd; c_pool := p; c_fault := f |}.

(* none on the tree as repaired (ExecuteTimeout's goroutine and Prosumer.call recover since the c11-fix-* commits) *)
Definition known_escapes : list cell := [].

Definition escaped (c : cell) : bool := existsb (cell_eqb c) known_escapes.
