(* Model of rpc/core/plugin_manager.go, invoke_manager.go, io_manager.go and of
   Use/Unuse/Invoke/Handle/Process in rpc/core/client.go, rpc/core/service.go (C15).
   Executable definitions only; proofs live in Proofs/OnionProofs.v. *)
From Coq Require Import List NArith Bool.
Import ListNotations.

(* ------------------------------------------------------------------ *)
(* Handlers                                                            *)

Inductive side := SInv | SIO.              (* invoke manager / IO manager *)
Inductive node := NClient | NService.
(* the four managers a remote call crosses, outermost first:
   client invoke, client IO, service IO, service invoke *)
Inductive layer := LCI | LCO | LSO | LSI.

(* a Use/Unuse performed by a handler while a call is inside it ("in flight");
   handlers are named by their index in the case's pool *)
Inductive mop :=
| MUse (n : node) (ixs : list nat)
| MUnuse (n : node) (ixs : list nat).

(* what a handler does with a call *)
Inductive beh :=
| BPass        (* return next(request) *)
| BShortOk     (* return a result of its own without calling next *)
| BShortErr    (* return an error of its own without calling next *)
| BAlter       (* append a token to the request, call next, append a token to an ok result *)
| BErrAfter    (* call next, then replace whatever came back by an error of its own *)
| BShortClosed (* return core.ErrClosed (code 9101) without calling next *)
| BCancel.     (* call next with the context replaced by a cancelled one, return what comes back *)

(* [code] is what reflect.ValueOf(h).Pointer() returns for the func value: the code
   pointer.  It is shared by all closures of one func literal and by all method values of
   one method; SeparatePluginHandlers takes handler.InvokeHandler / handler.IOHandler /
   handler.Handler through the interfaces plugin / invokePlugin / ioPlugin, so ALL struct
   plugins of one interface class, whatever their types, share it too (observed by the
   executor, which reports the pointer of every pool entry; the model takes [code] from
   there).  [inst] names the instance (closure / receiver) and labels its trace events. *)
Record handler := { code : N; inst : N; hb : beh; hmid : list mop }.

(* a value handed to Client.Use / Service.Use *)
Inductive pval :=
| VInvokeFn (h : handler)                           (* a func of type InvokeHandler *)
| VIOFn (h : handler)                               (* a func of type IOHandler *)
| VStruct (both : option (handler * handler))       (* methods InvokeHandler and IOHandler *)
          (hm : option (side * handler)).           (* method Handler (invoke or io signature) *)

Definition req := list N.
Inductive res :=
| ROk (t : list N)
| RErr (e : N)
| RWire (e : N)  (* response BYTES that encode error e, with a nil Go error: what Service.Handle
                    makes of a failure, and what travels over the wire and through the client's
                    IO handlers until the client codec turns it into an error again *)
| RPanic      (* a Go panic unwinding through the handlers *)
| RStuck.     (* only in the concurrent LTS: evaluation reached a Handler() read not yet done *)

Inductive ev :=
| EEnter (l : layer) (i : N) (r : req)     (* handler i of layer l received request r *)
| EExit (l : layer) (i : N) (x : res)      (* ... and returns x to its caller *)
| ECore (r : req).                         (* the published function ran with r *)

(* The context a call travels with is either live or done (cancelled / deadline passed).
   It is carried as a marker token at the head of the request: 9001 = context.Canceled,
   9002 = context.DeadlineExceeded, which are also the error codes ctx.Err() shows as.
   (The executor prints the same marker in front of the request tokens of an event when
   ctx.Err() != nil there; real request tokens never start with 9001/9002.) *)
Definition ctx_mark (r : req) : option N :=
  match r with
  | m :: _ => if N.eqb m 9001 || N.eqb m 9002 then Some m else None
  | [] => None
  end.
Definition strip_ctx (r : req) : req := match ctx_mark r with Some _ => tl r | None => r end.
(* context.WithCancel(ctx) + cancel(): a context already done keeps its own error *)
Definition cancel_ctx (r : req) : req := match ctx_mark r with Some _ => r | None => 9001%N :: r end.

(* which published function is called: the marker right after the context marker.
   none = echo (returns the tokens and 99), 8001 = fail (returns the error e77),
   8002 = boom (panics with "e78").  The executor prints the same marker when the call's
   name is fail / boom. *)
Definition meth_mark (r : req) : option N :=
  match strip_ctx r with
  | m :: _ => if N.eqb m 8001 || N.eqb m 8002 then Some m else None
  | [] => None
  end.
Definition strip_meth (r : req) : req :=
  match meth_mark r with Some _ => tl (strip_ctx r) | None => strip_ctx r end.
(* a fault scripted for the innermost client layer (the transport fails the request): the marker
   after the method marker.  7001 core.ErrClosed, 7002 core.ErrTimeout, 7003 context.Canceled,
   7004 context.DeadlineExceeded (both with the call's own context still live),
   7005 core.InvalidResponseError, 7006 a plain error, 7007 the transport panics. *)
Definition fault_mark (r : req) : option N :=
  match strip_meth r with
  | m :: _ => if N.leb 7001 m && N.leb m 7007 then Some m else None
  | [] => None
  end.
Definition fault_res (f : N) : res :=
  if N.eqb f 7001 then RErr 9101 else if N.eqb f 7002 then RErr 9102
  else if N.eqb f 7003 then RErr 9001 else if N.eqb f 7004 then RErr 9002
  else if N.eqb f 7005 then RErr 9103 else if N.eqb f 7006 then RErr 55 else RPanic.
Definition payload (r : req) : req :=
  match fault_mark r with Some _ => tl (strip_meth r) | None => strip_meth r end.
Definition core_res (r : req) : res :=
  match meth_mark r with
  | None => ROk (payload r ++ [99%N])
  | Some m => if N.eqb m 8001 then RErr 77 else RPanic
  end.

Definition returns (x : res) : bool :=
  match x with ROk _ | RErr _ | RWire _ => true | _ => false end.

Definition pre (h : handler) (r : req) : req + res :=
  match hb h with
  | BPass | BErrAfter => inl r
  | BAlter => inl (r ++ [inst h])
  | BCancel => inl (cancel_ctx r)
  | BShortOk => inr (ROk [(inst h + 200)%N])
  | BShortErr => inr (RErr (inst h))
  | BShortClosed => inr (RErr 9101)
  end.

Definition post (h : handler) (x : res) : res :=
  match hb h with
  | BAlter => match x with ROk t => ROk (t ++ [(inst h + 100)%N]) | _ => x end
  | BErrAfter => RErr (inst h)
  | _ => x
  end.

(* ------------------------------------------------------------------ *)
(* Running a handler around a continuation.  [S] is the state a call can change
   through the mid-call operations of its handlers. *)

Section Wrap.
  Context {S : Type}.
  Variable mid : list mop -> S -> option S.

  Definition kont := req -> S -> S * list ev * res.

  (* one handler h with its captured next; what the closure body
       return h(ctx, name, args, n)
     does when h is one of the scripted behaviours *)
  Definition wrap (L : layer) (h : handler) (next : kont) : kont := fun r s =>
    let en := EEnter L (inst h) r in
    match mid (hmid h) s with
    | None => (s, [en], RPanic)
    | Some s1 =>
        match pre h r with
        | inr x => (s1, [en; EExit L (inst h) x], x)
        | inl r' =>
            let '(s2, t, x) := next r' s1 in
            if returns x
            then (s2, en :: t ++ [EExit L (inst h) (post h x)], post h x)
            else (s2, en :: t, x)
        end
    end.

  (* specification of the property text: first added outermost *)
  Definition chain (L : layer) (l : list handler) (core : kont) : kont :=
    fold_right (wrap L) core l.

  (* Service.Execute + the published function: no look at the context *)
  Definition execute : kont := fun r s => (s, [ECore r], core_res r).
  (* What lies between the built-in handler of a layer and the next layer.
     [cut]: below the client IO manager sits Client.Transport -> the transport, which selects on
     ctx.Done(): with a context that is already done it returns ctx.Err() and the response of the
     service (which still runs, detached) is dropped.  Nothing else looks at the context.
     [back]: what the built-in handler makes of the inner layer's result on the way back:
       LCI  Client.Call: Codec.Decode turns error bytes into an error;
       LCO  ... Service.Handle: a failure (no response bytes) is encoded into error bytes,
            returned with a nil error;
       LSO  Service.Process: a panic of the invoke chain / the method is recovered into a
            PanicError, and any error is RETURNED as (nil, err) up the IO chain;
       LSI  Service.Execute: the method's own error. *)
  Definition cut (L : layer) (r : req) : option res :=
    match L with
    | LCO => match fault_mark r with
             | Some f => Some (fault_res f)      (* the scripted transport fault *)
             | None => match ctx_mark r with Some m => Some (RErr m) | None => None end
             end
    | _ => None
    end.
  Definition back (L : layer) (x : res) : res :=
    match L, x with
    | LCI, RWire e => RErr e
    | LCO, RErr e => RWire e
    | LSO, RPanic => RErr 78
    | _, _ => x
    end.
  Definition below (L : layer) (k : kont) : kont := fun r s =>
    match cut L r with
    | Some x => (s, [], x)
    | None => let '(s', t, x) := k r s in (s', t, back L x)
    end.
  Definition stuck : kont := fun r s => (s, [], RStuck).
End Wrap.

(* ------------------------------------------------------------------ *)
(* pluginManager                                                       *)

(* The closures NewInvokeManager/NewIOManager's getNextHandler allocates, defunctionalised:
     return NextInvokeHandler(func(ctx, name, args) { return h(ctx, name, args, n) })
   is a heap object capturing h and n (never reassigned); CDefault is defaultHandler. *)
Inductive clo := CDefault | CWrap (h : handler) (next : clo).

Section Apply.
  Context {S : Type}.
  Variable mid : list mop -> S -> option S.
  Fixpoint apply (L : layer) (core : @kont S) (c : clo) : @kont S :=
    match c with
    | CDefault => core
    | CWrap h n => wrap mid L h (apply L core n)
    end.
End Apply.

Record pm := { handlers : list handler; built : clo }.

(* newPluginManager: handler = defaultHandler, handlers = nil *)
Definition pm_init : pm := {| handlers := []; built := CDefault |}.

(* rebuildHandler:
     next := pm.defaultHandler
     n := len(pm.handlers)
     for i := n - 1; i >= 0; i-- { next = pm.getNextHandler(pm.handlers[i], next) }
     pm.handler = next
   [k] is i+1; an index outside the slice is Go's index-out-of-range panic (None). *)
Fixpoint rebuild_loop (hs : list handler) (k : nat) (next : clo) : option clo :=
  match k with
  | O => Some next
  | S i => match nth_error hs i with
           | None => None
           | Some h => rebuild_loop hs i (CWrap h next)
           end
  end.

Definition rebuild_handler (p : pm) : option pm :=
  match rebuild_loop (handlers p) (length (handlers p)) CDefault with
  | None => None
  | Some c => Some {| handlers := handlers p; built := c |}
  end.

(* Use: pm.handlers = append(pm.handlers, handler...); pm.rebuildHandler() *)
Definition pm_use (hs : list handler) (p : pm) : option pm :=
  rebuild_handler {| handlers := handlers p ++ hs; built := built p |}.

(* inner loop of Unuse:
     for _, h2 := range handler { if hp == reflect.ValueOf(h2).Pointer() { h = nil; rebuild = true; break } } *)
Fixpoint ptr_matches (hp : N) (args : list handler) : bool :=
  match args with
  | [] => false
  | h2 :: r => if N.eqb hp (code h2) then true else ptr_matches hp r
  end.

(* outer loop of Unuse:
     for _, h := range pm.handlers { hp := reflect.ValueOf(h).Pointer(); <inner>;
                                     if h != nil { handlers = append(handlers, h) } } *)
Fixpoint unuse_loop (hs args acc : list handler) (rebuild : bool) : list handler * bool :=
  match hs with
  | [] => (acc, rebuild)
  | h :: r => if ptr_matches (code h) args
              then unuse_loop r args acc true
              else unuse_loop r args (acc ++ [h]) rebuild
  end.

(* Unuse: ...; pm.handlers = handlers; if rebuild { pm.rebuildHandler() }
   (when nothing matched the list is still replaced by its copy, the closure is kept) *)
Definition pm_unuse (args : list handler) (p : pm) : option pm :=
  let '(hs', rb) := unuse_loop (handlers p) args [] false in
  let p' := {| handlers := hs'; built := built p |} in
  if rb then rebuild_handler p' else Some p'.

(* SeparatePluginHandlers: the type switch, case by case, in source order:
     case InvokeHandler / case IOHandler / case plugin (both lists) /
     case invokePlugin / case ioPlugin / default: panic("invalid plugin handler") *)
Fixpoint separate_loop (vs : list pval) (invs ios : list handler)
  : option (list handler * list handler) :=
  match vs with
  | [] => Some (invs, ios)
  | VInvokeFn h :: r => separate_loop r (invs ++ [h]) ios
  | VIOFn h :: r => separate_loop r invs (ios ++ [h])
  | VStruct (Some (hi, ho)) _ :: r => separate_loop r (invs ++ [hi]) (ios ++ [ho])
  | VStruct None (Some (SInv, h)) :: r => separate_loop r (invs ++ [h]) ios
  | VStruct None (Some (SIO, h)) :: r => separate_loop r invs (ios ++ [h])
  | VStruct None None :: r => None
  end.

Definition separate (vs : list pval) := separate_loop vs [] [].

(* ------------------------------------------------------------------ *)
(* Client / Service: a pair of managers each                           *)

Record pmpair := { pinv : pm; pio : pm }.
Definition pair_init : pmpair := {| pinv := pm_init; pio := pm_init |}.

Inductive status :=
| SOk
| SPanicInvalid     (* panic("invalid plugin handler"), before anything was changed *)
| SPanicIndex       (* index out of range in rebuildHandler *)
| SBadIndex.        (* the case names a pool entry that does not exist (not a Go behaviour) *)

Definition nonempty {A} (l : list A) : bool := match l with [] => false | _ => true end.

(* Client.Use / Service.Use / Client.Unuse / Service.Unuse:
     invokeHandlers, ioHandlers := SeparatePluginHandlers(handler)
     if len(invokeHandlers) > 0 { c.invokeManager.Use(invokeHandlers...) }
     if len(ioHandlers) > 0 { c.ioManager.Use(ioHandlers...) } *)
Definition node_op (f : list handler -> pm -> option pm) (vs : list pval) (p : pmpair)
  : pmpair * status :=
  match separate vs with
  | None => (p, SPanicInvalid)
  | Some (invs, ios) =>
      match (if nonempty invs then f invs (pinv p) else Some (pinv p)) with
      | None => (p, SPanicIndex)
      | Some pi =>
          match (if nonempty ios then f ios (pio p) else Some (pio p)) with
          | None => ({| pinv := pi; pio := pio p |}, SPanicIndex)
          | Some po => ({| pinv := pi; pio := po |}, SOk)
          end
      end
  end.

Definition node_use := node_op pm_use.
Definition node_unuse := node_op pm_unuse.

Record sys := { client : pmpair; service : pmpair }.
Definition sys_init : sys := {| client := pair_init; service := pair_init |}.

Definition get_node (n : node) (s : sys) : pmpair :=
  match n with NClient => client s | NService => service s end.
Definition set_node (n : node) (p : pmpair) (s : sys) : sys :=
  match n with
  | NClient => {| client := p; service := service s |}
  | NService => {| client := client s; service := p |}
  end.

Fixpoint resolve (pool : list pval) (ixs : list nat) : option (list pval) :=
  match ixs with
  | [] => Some []
  | i :: r => match nth_error pool i, resolve pool r with
              | Some v, Some vs => Some (v :: vs)
              | _, _ => None
              end
  end.

Definition mop_step (pool : list pval) (m : mop) (s : sys) : sys * status :=
  match m with
  | MUse n ixs =>
      match resolve pool ixs with
      | None => (s, SBadIndex)
      | Some vs => let '(p, st) := node_use vs (get_node n s) in (set_node n p s, st)
      end
  | MUnuse n ixs =>
      match resolve pool ixs with
      | None => (s, SBadIndex)
      | Some vs => let '(p, st) := node_unuse vs (get_node n s) in (set_node n p s, st)
      end
  end.

(* the operations a handler performs while the call is inside it; a panic there
   unwinds the call *)
Fixpoint run_mops (pool : list pval) (ms : list mop) (s : sys) : option sys :=
  match ms with
  | [] => Some s
  | m :: r => match mop_step pool m s with
              | (s', SOk) => run_mops pool r s'
              | _ => None
              end
  end.

(* Handler(): pm.RLock(); defer pm.RUnlock(); return pm.handler *)
Definition read_handler (L : layer) (s : sys) : clo :=
  match L with
  | LCI => built (pinv (client s))     (* Client.InvokeContext *)
  | LCO => built (pio (client s))      (* Client.Request, reached from Client.Call *)
  | LSO => built (pio (service s))     (* Service.Handle *)
  | LSI => built (pinv (service s))    (* Service.Process *)
  end.

Definition layers : list layer := [LCI; LCO; LSO; LSI].

(* A call: each layer reads its manager's Handler() when the call reaches it and runs
   that closure; the built-in handler of a layer leads to the next layer
   (Call -> Request -> Transport -> Handle -> Process -> Execute). *)
Section Call.
  Context {S : Type}.
  Variable mid : list mop -> S -> option S.
  Variable rd : layer -> S -> clo.
  Fixpoint call_from (ls : list layer) : @kont S :=
    match ls with
    | [] => execute
    | L :: ls' => fun r s => apply mid L (below L (call_from ls')) (rd L s) r s
    end.
End Call.

Definition call (pool : list pval) : @kont sys :=
  call_from (run_mops pool) read_handler layers.

Inductive op := OM (m : mop) | OCall (r : req).
Inductive out := OutStatus (st : status) | OutCall (t : list ev) (x : res).

Fixpoint run (pool : list pval) (ops : list op) (s : sys) : list out * sys :=
  match ops with
  | [] => ([], s)
  | OM m :: r =>
      let '(s1, st) := mop_step pool m s in
      let '(os, s2) := run pool r s1 in (OutStatus st :: os, s2)
  | OCall q :: r =>
      let '(s1, t, x) := call pool q s in
      let '(os, s2) := run pool r s1 in (OutCall t x :: os, s2)
  end.

(* observation of a closure: the instances it runs, outermost first *)
Fixpoint clo_insts (c : clo) : list N :=
  match c with CDefault => [] | CWrap h n => inst h :: clo_insts n end.

(* ------------------------------------------------------------------ *)
(* Specification machine, written from the property text: four plain lists.
   Handler identity is the whole {code; inst}. *)

Definition hid_eqb (a b : handler) : bool :=
  N.eqb (code a) (code b) && N.eqb (inst a) (inst b).

Definition spec_use (hs l : list handler) : list handler := l ++ hs.
Definition spec_unuse (hs l : list handler) : list handler :=
  filter (fun h => negb (existsb (hid_eqb h) hs)) l.

Definition pval_valid (v : pval) : bool :=
  match v with VStruct None None => false | _ => true end.

(* the handlers a plugin value contributes to the managers of one side *)
Definition part (sd : side) (v : pval) : list handler :=
  match v, sd with
  | VInvokeFn h, SInv => [h]
  | VIOFn h, SIO => [h]
  | VStruct (Some (hi, _)) _, SInv => [hi]
  | VStruct (Some (_, ho)) _, SIO => [ho]
  | VStruct None (Some (SInv, h)), SInv => [h]
  | VStruct None (Some (SIO, h)), SIO => [h]
  | _, _ => []
  end.

Definition pool_side (sd : side) (pool : list pval) : list handler := flat_map (part sd) pool.

Record spair := { linv : list handler; lio : list handler }.
Record ssys := { sclient : spair; sservice : spair }.
Definition spair_init : spair := {| linv := []; lio := [] |}.
Definition ssys_init : ssys := {| sclient := spair_init; sservice := spair_init |}.

Definition sget (n : node) (t : ssys) : spair :=
  match n with NClient => sclient t | NService => sservice t end.
Definition sset (n : node) (p : spair) (t : ssys) : ssys :=
  match n with
  | NClient => {| sclient := p; sservice := sservice t |}
  | NService => {| sclient := sclient t; sservice := p |}
  end.

Definition spec_node_op (f : list handler -> list handler -> list handler)
  (vs : list pval) (p : spair) : spair * status :=
  if forallb pval_valid vs
  then ({| linv := f (flat_map (part SInv) vs) (linv p);
           lio := f (flat_map (part SIO) vs) (lio p) |}, SOk)
  else (p, SPanicInvalid).

Definition spec_mop_step (pool : list pval) (m : mop) (t : ssys) : ssys * status :=
  match m with
  | MUse n ixs =>
      match resolve pool ixs with
      | None => (t, SBadIndex)
      | Some vs => let '(p, st) := spec_node_op spec_use vs (sget n t) in (sset n p t, st)
      end
  | MUnuse n ixs =>
      match resolve pool ixs with
      | None => (t, SBadIndex)
      | Some vs => let '(p, st) := spec_node_op spec_unuse vs (sget n t) in (sset n p t, st)
      end
  end.

Fixpoint spec_run_mops (pool : list pval) (ms : list mop) (t : ssys) : option ssys :=
  match ms with
  | [] => Some t
  | m :: r => match spec_mop_step pool m t with
              | (t', SOk) => spec_run_mops pool r t'
              | _ => None
              end
  end.

Definition spec_list (L : layer) (t : ssys) : list handler :=
  match L with
  | LCI => linv (sclient t)
  | LCO => lio (sclient t)
  | LSO => lio (sservice t)
  | LSI => linv (sservice t)
  end.

Section SpecCall.
  Context {S : Type}.
  Variable mid : list mop -> S -> option S.
  Variable lst : layer -> S -> list handler.
  Fixpoint onion_from (ls : list layer) : @kont S :=
    match ls with
    | [] => execute
    | L :: ls' => fun r s => chain mid L (lst L s) (below L (onion_from ls')) r s
    end.
End SpecCall.

Definition spec_call (pool : list pval) : @kont ssys :=
  onion_from (spec_run_mops pool) spec_list layers.

Fixpoint spec_run (pool : list pval) (ops : list op) (t : ssys) : list out * ssys :=
  match ops with
  | [] => ([], t)
  | OM m :: r =>
      let '(t1, st) := spec_mop_step pool m t in
      let '(os, t2) := spec_run pool r t1 in (OutStatus st :: os, t2)
  | OCall q :: r =>
      let '(t1, tr, x) := spec_call pool q t in
      let '(os, t2) := spec_run pool r t1 in (OutCall tr x :: os, t2)
  end.

Definition abs_pair (p : pmpair) : spair :=
  {| linv := handlers (pinv p); lio := handlers (pio p) |}.
Definition abs (s : sys) : ssys :=
  {| sclient := abs_pair (client s); sservice := abs_pair (service s) |}.

(* ------------------------------------------------------------------ *)
(* Use/Unuse concurrent with calls.  Atomic steps are the critical sections of the
   manager's RWMutex: one manager's Use, one manager's Unuse, one Handler() read.
   A Client.Use of several values is up to two such steps (invoke manager, then IO
   manager).  A call runs the closures it has read; between two reads it only runs
   handler code, which does not touch the managers (handlers' own mid-call operations
   are not run here: concurrent mutation comes from the mutator threads). *)

Inductive aop :=
| AUse (n : node) (sd : side) (hs : list handler)
| AUnuse (n : node) (sd : side) (hs : list handler).

Definition get_pm (n : node) (sd : side) (s : sys) : pm :=
  match sd with SInv => pinv (get_node n s) | SIO => pio (get_node n s) end.
Definition set_pm (n : node) (sd : side) (p : pm) (s : sys) : sys :=
  match sd with
  | SInv => set_node n {| pinv := p; pio := pio (get_node n s) |} s
  | SIO => set_node n {| pinv := pinv (get_node n s); pio := p |} s
  end.

Definition aop_step (a : aop) (s : sys) : option sys :=
  match a with
  | AUse n sd hs => match pm_use hs (get_pm n sd s) with
                    | None => None | Some p => Some (set_pm n sd p s) end
  | AUnuse n sd hs => match pm_unuse hs (get_pm n sd s) with
                      | None => None | Some p => Some (set_pm n sd p s) end
  end.

(* the atomic steps of one Client/Service Use (use=true) or Unuse; None = the panic of
   SeparatePluginHandlers (no step at all) *)
Definition atomize (use : bool) (n : node) (vs : list pval) : option (list aop) :=
  match separate vs with
  | None => None
  | Some (invs, ios) =>
      let mk sd hs := if use then AUse n sd hs else AUnuse n sd hs in
      Some ((if nonempty invs then [mk SInv invs] else []) ++
            (if nonempty ios then [mk SIO ios] else []))
  end.

Definition layer_pm (L : layer) (s : sys) : pm :=
  match L with
  | LCI => pinv (client s) | LCO => pio (client s)
  | LSO => pio (service s) | LSI => pinv (service s)
  end.

Definition nomid : list mop -> unit -> option unit := fun _ u => Some u.

(* run a call on the closures read so far; RStuck = it reached a read not yet done *)
Fixpoint eval_from (ls : list layer) (snaps : list clo) : @kont unit :=
  match ls with
  | [] => execute
  | L :: ls' => match snaps with
                | [] => stuck
                | c :: snaps' => apply nomid L (below L (eval_from ls' snaps')) c
                end
  end.

(* the same on plain lists (specification side) *)
Fixpoint onion_lists (ls : list layer) (lists : list (list handler)) : @kont unit :=
  match ls with
  | [] => execute
  | L :: ls' => match lists with
                | [] => stuck
                | l :: lists' => chain nomid L l (below L (onion_lists ls' lists'))
                end
  end.

Record caller := {
  creq : req;
  snaps : list clo;                    (* the Handler() results read so far, outermost first *)
  slists : list (list handler);        (* ghost: the manager's list at each of these reads *)
  cdone : option (list ev * res)       (* what the call returned, once it has *)
}.

Inductive thread := TMut (script : list aop) | TCall (c : caller).

Record cstate := { shared : sys; threads : list thread }.

Definition caller_step (s : sys) (c : caller) : option caller :=
  match cdone c with
  | Some _ => None
  | None =>
      match nth_error layers (length (snaps c)) with
      | None => None
      | Some L =>
          let sn := snaps c ++ [built (layer_pm L s)] in
          let '(_, t, x) := eval_from layers sn (creq c) tt in
          Some {| creq := creq c; snaps := sn;
                  slists := slists c ++ [handlers (layer_pm L s)];
                  cdone := match x with RStuck => None | _ => Some (t, x) end |}
      end
  end.

Fixpoint upd_nth {A} (n : nat) (x : A) (l : list A) : list A :=
  match l, n with
  | [], _ => []
  | _ :: r, O => x :: r
  | y :: r, S m => y :: upd_nth m x r
  end.

Definition cstep (cs : cstate) (i : nat) : option cstate :=
  match nth_error (threads cs) i with
  | None => None
  | Some (TMut []) => None
  | Some (TMut (a :: r)) =>
      match aop_step a (shared cs) with
      | None => None
      | Some s' => Some {| shared := s'; threads := upd_nth i (TMut r) (threads cs) |}
      end
  | Some (TCall c) =>
      match caller_step (shared cs) c with
      | None => None
      | Some c' => Some {| shared := shared cs; threads := upd_nth i (TCall c') (threads cs) |}
      end
  end.

(* a schedule: which thread takes its next atomic step *)
Fixpoint crun (cs : cstate) (sched : list nat) : option cstate :=
  match sched with
  | [] => Some cs
  | i :: r => match cstep cs i with None => None | Some cs' => crun cs' r end
  end.

(* the shared states a mutator script goes through (for validating observed traces) *)
Fixpoint script_states (script : list aop) (s : sys) : list sys :=
  match script with
  | [] => [s]
  | a :: r => s :: match aop_step a s with None => [] | Some s' => script_states r s' end
  end.

(* ------------------------------------------------------------------ *)
(* Several mutators on ONE manager: whatever the interleaving, the manager executes their
   critical sections in some total order, i.e. it runs one merged operation sequence. *)
Inductive pop := PUse (hs : list handler) | PUnuse (hs : list handler).
Definition pop_handlers (o : pop) : list handler := match o with PUse hs | PUnuse hs => hs end.
Definition pm_step (o : pop) (p : pm) : option pm :=
  match o with PUse hs => pm_use hs p | PUnuse hs => pm_unuse hs p end.
Fixpoint pm_run (ops : list pop) (p : pm) : option pm :=
  match ops with
  | [] => Some p
  | o :: r => match pm_step o p with None => None | Some p' => pm_run r p' end
  end.
(* the same on a plain list (Unuse by code pointer, as the code does) *)
Definition hstep (o : pop) (l : list handler) : list handler :=
  match o with
  | PUse hs => l ++ hs
  | PUnuse hs => filter (fun h => negb (ptr_matches (code h) hs)) l
  end.
Definition hrun (ops : list pop) (l : list handler) : list handler := fold_left (fun l o => hstep o l) ops l.
(* a mutator owns the code pointers satisfying [own] *)
Definition is_mine (own : N -> bool) (o : pop) : bool := forallb (fun h => own (code h)) (pop_handlers o).
Definition is_other (own : N -> bool) (o : pop) : bool := forallb (fun h => negb (own (code h))) (pop_handlers o).
