(* Meaning of a wire tree: references resolved, classes looked up, counts checked.
   Written from the format description: every string, byte string, guid, date, time,
   list, map and object takes the next reference index in stream order, and so does
   every field-name string of a class definition.  Definitions only. *)
From Coq Require Import List NArith ZArith Strings.Byte Bool.
From HV Require Import Lib.Dec Lib.Utf8 Model.Wire.
Import ListNotations.
Open Scope N_scope.

Inductive dval :=
| DNull
| DBool (b : bool)
| DInt (z : Z)
| DDouble (txt : bytes)
| DNaN
| DInf (neg : bool)
| DStr (s : bytes)
| DBytes (b : bytes)
| DGuid (g : bytes)
| DDate (y mo d : N) (tm : option (N * N * N * list N)) (utc : bool)
| DTime (h mi s : N) (frac : list N) (utc : bool)
| DList (vs : list dval)
| DMap (kvs : list dval)                       (* alternating keys and values *)
| DObj (name : bytes) (fields : list bytes) (vs : list dval)
| DErr (v : dval)
| DCycle (up : nat).                           (* back-reference to a container still open, [up] levels above *)

Inductive refentry :=
| RDone (v : dval)
| ROpen (depth : nat).

Record rstate := {
  refs : list refentry;                        (* index k = k-th referable item of the stream *)
  classes : list (bytes * list bytes);
  depth : nat
}.

Definition rinit : rstate := {| refs := []; classes := []; depth := 0 |}.

Definition push (st : rstate) (e : refentry) : rstate :=
  {| refs := refs st ++ [e]; classes := classes st; depth := depth st |}.

Fixpoint set_nth {A} (n : nat) (x : A) (l : list A) : list A :=
  match l, n with
  | [], _ => []
  | _ :: r, O => x :: r
  | y :: r, S m => y :: set_nth m x r
  end.

Definition open_container (st : rstate) : rstate * nat :=
  ({| refs := refs st ++ [ROpen (depth st)]; classes := classes st; depth := S (depth st) |},
   length (refs st)).

Definition close_container (st : rstate) (idx : nat) (v : dval) : rstate :=
  {| refs := set_nth idx (RDone v) (refs st); classes := classes st; depth := pred (depth st) |}.

Fixpoint denote_list (den : rstate -> wire -> option (dval * rstate)) (st : rstate) (ws : list wire)
  : option (list dval * rstate) :=
  match ws with
  | [] => Some ([], st)
  | w :: r =>
      match den st w with
      | Some (v, st1) =>
          match denote_list den st1 r with
          | Some (vs, st2) => Some (v :: vs, st2)
          | None => None
          end
      | None => None
      end
  end.

Fixpoint denote (fuel : nat) (st : rstate) (w : wire) : option (dval * rstate) :=
  match fuel with
  | O => None
  | S f =>
      match w with
      | WNull => Some (DNull, st)
      | WEmpty => Some (DStr [], st)
      | WTrue => Some (DBool true, st)
      | WFalse => Some (DBool false, st)
      | WNaN => Some (DNaN, st)
      | WInf neg => Some (DInf neg, st)
      | WDigit d => Some (DInt (Z.of_N d), st)
      | WInt z => Some (DInt z, st)
      | WLong z => Some (DInt z, st)
      | WDouble txt => Some (DDouble txt, st)
      | WChar c => Some (DStr c, st)
      | WStr s => Some (DStr s, push st (RDone (DStr s)))
      | WBytes b => Some (DBytes b, push st (RDone (DBytes b)))
      | WGuid g => Some (DGuid g, push st (RDone (DGuid g)))
      | WDate y mo d tm utc => let v := DDate y mo d tm utc in Some (v, push st (RDone v))
      | WTime h mi s fr utc => let v := DTime h mi s fr utc in Some (v, push st (RDone v))
      | WList ws =>
          let '(st1, idx) := open_container st in
          match denote_list (denote f) st1 ws with
          | Some (vs, st2) => let v := DList vs in Some (v, close_container st2 idx v)
          | None => None
          end
      | WMap ws =>
          if Nat.even (length ws) then
            let '(st1, idx) := open_container st in
            match denote_list (denote f) st1 ws with
            | Some (vs, st2) => let v := DMap vs in Some (v, close_container st2 idx v)
            | None => None
            end
          else None
      | WClass name fields next =>
          let st1 := fold_left (fun s fld => push s (RDone (DStr fld))) fields st in
          let st2 := {| refs := refs st1; classes := classes st1 ++ [(name, fields)]; depth := depth st1 |} in
          denote f st2 next
      | WObj cls ws =>
          match nth_error (classes st) (N.to_nat cls) with
          | Some (name, fields) =>
              if Nat.eqb (length fields) (length ws) then
                let '(st1, idx) := open_container st in
                match denote_list (denote f) st1 ws with
                | Some (vs, st2) => let v := DObj name fields vs in Some (v, close_container st2 idx v)
                | None => None
                end
              else None
          | None => None
          end
      | WRef k =>
          match nth_error (refs st) (N.to_nat k) with
          | Some (RDone v) => Some (v, st)
          | Some (ROpen d) => Some (DCycle (depth st - d), st)
          | None => None
          end
      | WErr w' =>
          match denote f st w' with
          | Some (v, st1) => Some (DErr v, st1)
          | None => None
          end
      end
  end.

(* a whole stream that is one value *)
Definition denote_top (w : wire) : option dval :=
  match denote (wsize w) rinit w with Some (v, _) => Some v | None => None end.

(* several values written to one encoder share the reference and class tables *)
Fixpoint denote_seq (st : rstate) (ws : list wire) : option (list dval) :=
  match ws with
  | [] => Some []
  | w :: r =>
      match denote (wsize w) st w with
      | Some (v, st1) => match denote_seq st1 r with Some vs => Some (v :: vs) | None => None end
      | None => None
      end
  end.
