(* Catalogue of decoder actions: what one case arm of a Go `decodeX` switch does, as a small
   inductive.  Shared by the hand-written model (Model/DecVal.v interprets these) and by the
   table regenerated from the Go sources on every run (Gen/DecTables.v): theorem
   C06_switch_matches_model says the two tables are equal.  Definitions only. *)
From Coq Require Import List NArith ZArith Strings.Byte Bool.
From HV Require Import Model.Enc.
Import ListNotations.

(* byte-string literals without Coq.Strings.String (keeps the extracted code free of a module
   called String): "..."%bstr *)
Inductive bstr := BStr (l : list byte).
Definition bstr_of (l : list byte) : bstr := BStr l.
Definition bstr_to (s : bstr) : list byte := match s with BStr l => l end.
Declare Scope bstr_scope.
Delimit Scope bstr_scope with bstr.
String Notation bstr bstr_of bstr_to : bstr_scope.

(* where the value goes: the destination "manner" of the Go conversion around the reader *)
Inductive nty :=
| NtBool
| NtI (k : ikind)                 (* T(x) for an integer type T *)
| NtF32 | NtF64                   (* float32(x) / float64(x) or no conversion from the float reader *)
| NtC64 | NtC128                  (* complex(float32(x), 0) / complex(float64(x), 0) *)
| NtBigInt | NtBigFloat | NtBigRat  (* big.NewInt / big.NewFloat / big.NewRat(x, 1) and friends *)
| NtTime                          (* time.Unix(0, int64(x)) *)
| NtStr                           (* string(tag) *)
| NtUuid | NtBytes
| NtIface.                        (* boxed into interface{} with the reader's own type *)

Inductive cst :=
| C0 | C1 | CFalse | CTrue | CNil
| CStrEmpty | CStrTrue | CStrFalse | CStrNaN
| CNaN                            (* NaN of the destination float/complex type *)
| CBytesEmpty                     (* []byte{} *)
| CUuidNil
| CBig0 | CBig1                   (* bigXZero / bigXOne *)
| CTime0 | CTime1                 (* time.Unix(0, 0) / time.Unix(0, 1) *)
| CZero                           (* zero value of a container: empty array, zero struct *)
| CEmptySlice | CEmptyMap | CNewList.

(* strconv-like parsers applied to a string token *)
Inductive pfn := PBool | PInt | PUint | PF32 | PF64 | PC64 | PC128 | PBigInt | PBigFloat | PBigRat | PTime | PUuid.

(* what is read for string / bytes / time / uuid destinations *)
Inductive rsrc :=
| RUntil                          (* text up to ';' *)
| RChar                           (* one character: readSafeString(1) / readStringAsSafeBytes(1) / readUnsafeString(1) *)
| RString                         (* ReadString (reference) resp. ReadUnsafeString / ReadStringAsBytes in simple mode *)
| RBytes                          (* ReadBytes (reference) resp. readUnsafeBytes *)
| RTime | RDate | RGuid           (* ReadTime / ReadDateTime / ReadUUID *)
| RInf                            (* "+Inf" / "-Inf" by the sign byte *)
| RUint8Slice                     (* readUint8Slice *)
(* the same reads WITHOUT a private copy (UnsafeUntil, readUnsafeString, ReadUnsafeString, readUnsafeBytes):
   the result aliases the decoder's read buffer.  Never in the model's tables for a value that outlives
   the call; recognised so that such an arm in the Go source is a mismatch, not merely unknown. *)
| RUntilUnsafe | RCharUnsafe | RStringUnsafe | RBytesUnsafe.

(* sub-routines a case arm delegates to *)
Inductive callee :=
| FLongAsIface | FNaNAsIface | FInfAsIface | FDoubleAsIface | FListAsIface | FMapAsIface
| FReadObject | FReadReference | FClassThenDecode | FErrorString | FDecodeError
| FSliceList | FArrayList | FByteArrayBytes | FByteArrayChar | FByteArrayString | FArrayFallback
| FMap | FListAsMap | FObjectAsMap | FObject | FMapAsObject | FListList
| FPtrNull | FPtrElem | FPtrRef
| FComplexList.

Inductive action :=
| ADigit (d : nty)                          (* digit prelude: *p = d(i) *)
| AConst (c : cst)
| AReadInt (r : ikind) (d : nty)            (* d(dec.Read<r>()) *)
| AReadFloat (bits32 : bool) (d : nty)      (* d(dec.ReadFloat32/64()); an integer d is the truncating conversion *)
| AReadBigInt (d : nty)                     (* dec.readBigInt(t), possibly wrapped (Rat.SetInt) *)
| AReadBigFloat (d : nty)                   (* dec.readBigFloat(t) *)
| AReadBigFloatInt (maxbits : N)            (* bf := dec.readBigFloat(t); a CastError when bf.MantExp(nil) > maxbits (the constant
                                               maxBigIntBits, read from the source); else *p, _ = bf.Int(nil) *)
| AParseChar (p : pfn) (bits : Z) (d : nty) (* d(dec.stringToX(dec.readUnsafeString(1), bits)) *)
| AParseStr (p : pfn) (bits : Z) (d : nty)  (* the same on ReadUnsafeString() / ReadString() by mode *)
| AInf (d : nty)                            (* readInf / sign byte *)
| ABoolText                                 (* bool from the text of i/l/d: "" false, one char != '0', longer true *)
| ASkipTrue                                 (* dec.Skip(); *p = true *)
| ARead (s : rsrc)                          (* string/bytes/time/uuid/interface destinations: read s, store it in the destination's own form *)
| ANaN (d : nty)                            (* NaN of type d *)
| AFail                                     (* sets dec.Error unconditionally (NaN as *big.Float) *)
| ACall (f : callee)
| ADefault                                  (* dec.defaultDecode(t, p, tag) *)
| AInvalidTag                               (* interface{}: invalid tag error *)
| AUnknown (src : bstr).

(* a switch table: explicit tag bytes, then the default arm *)
Record switch := { sw_cases : list (N * action); sw_default : action }.

Fixpoint assoc_tag (l : list (N * action)) (t : N) : option action :=
  match l with
  | [] => None
  | (t', a) :: r => if N.eqb t t' then Some a else assoc_tag r t
  end.

Definition sw_lookup (s : switch) (t : N) : action :=
  match assoc_tag (sw_cases s) t with Some a => a | None => sw_default s end.

(* decodeXPtr-style wrappers *)
Inductive wrapper :=
| WPtrFresh (inner : bstr)       (* if tag == TagNull { *p = nil; return }; var x T; dec.<inner>(t, tag, &x); *p = &x *)
| WNilToZero (inner : bstr)      (* var pp *T; dec.<inner>(t, tag, &pp); if pp == nil { *p = *zero } else { *p = *pp } *)
| WUnknownWrapper (src : bstr).

(* integer readers: ReadInt8 = int8(dec.ReadInt64()) *)
Inductive reader :=
| RdConv (k : ikind) (base : bstr)        (* return T(dec.<base>()) *)
| RdPrimitive                            (* the digit loops: ReadInt64 / ReadUint64 / readUint64 (body recognised verbatim) *)
| RdParseFloat (bits : N)                (* strconv.ParseFloat(<text up to ';'>, bits), error recorded, result converted to that width *)
| RdOwn (copy : bool) (prim : bstr)      (* bytes/string taken from dec.<prim>: copy = true when the result is a private copy
                                            whenever the primitive returned a window of the read buffer, false = alias *)
| RdGuarded (prim : bstr)                (* a window from dec.<prim>(count) handed to skipAfter: copied when skipping the closing
                                            quote needs a refill, else still a window (to be used before the next read) *)
| RdSkipAfter                            (* skipAfter itself, recognised verbatim: copy iff !safe && head == tail && reader != nil; Skip *)
| RdVia (callee : bstr) (ref : bool)     (* forwards to <callee> (count read, closing quote skipped), ref: appended to the reference list *)
| RdUnknown (src : bstr).

(* the string parsers behind the 'u' / 's' arms and the converters: which library function, which arguments *)
Inductive parser :=
| PsStrconv (fn : bstr) (base : N) (bits_param : bool)    (* strconv.<fn>(s[, base][, bitSize]) ; error -> dec.Error *)
| PsFloat (bits : N)                                      (* strconv.ParseFloat(s, bits), result converted to that width *)
| PsComplex (bits : N)                                    (* complexconv.ParseComplex(s, bits) *)
| PsBig (ty : bstr) (base10 : bool)                       (* new(big.<ty>).SetString(s[, 10]); !ok -> decodeStringError, nil *)
| PsBigGuarded (ty : bstr) (maxexp : N)                   (* the same behind !exponentTooLarge(s): that helper recognised verbatim, with
                                                             the constant maxTextExponent read from the source *)
| PsUnknown (src : bstr).
