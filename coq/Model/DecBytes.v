(* C04 -- byte-level model of io.Decoder.Decode into a destination SHAPE, in-memory input
   (NewDecoder / ResetBytes: reader == nil, so loadMore always fails and sets io.EOF).
   Built on the contiguous-bytes specifications of Model/DecStream.v (s_nextByte, s_readInt64,
   s_until, s_next, s_skip, s_readHMS, s_readDateTime), which Props/C05.v proves the buffer
   primitives refine.  The model decides, for ANY byte string: the outcome class (value / error /
   panic site), the steps, the allocation driven by wire data, and the iterations executed after
   the input is exhausted ("spin").  Definitions only; proofs in Proofs/DecBytesProofs.v.

   Go panics are explicit: [RHaz h s k] is "the tree's code panics at site h in state s; code that
   checks first (hooks/c04-fix-*.patch) continues with k".  Nothing is hidden by a default. *)
From Coq Require Import List ZArith NArith Bool Init.Byte.
From HV Require Import Model.DecStream.
Import ListNotations.

Definition bytes := list byte.

(* ------------------------------------------------------------------ destination shapes *)

Inductive nkind := KBool | KInt (bits : N) | KUint (bits : N) | KF32 | KF64.   (* bits 0 = int/uint *)
Inductive bigk := BInt | BFloat | BRat.

Inductive shape :=
| SIface                                   (* interface{} *)
| SNum (k : nkind)
| SString
| SBytes                                   (* []byte *)
| SBig (b : bigk)                          (* *big.Int, *big.Float, *big.Rat *)
| SBigV (b : bigk)                         (* big.Int ... : only as the type of a class (ReadStruct strips pointers) *)
| STime | SUuid
| SSlice (e : shape)
| SArray (n : nat) (e : shape)
| SMap (k v : shape)
| SStruct (name : bytes) (fs : fields)     (* fields by alias, in declaration order *)
| SPtr (e : shape)
with fields := FNil | FCons (n : bytes) (s : shape) (r : fields).

Fixpoint bytes_eqb (a b : bytes) : bool :=
  match a, b with
  | [], [] => true
  | x :: a', y :: b' => Byte.eqb x y && bytes_eqb a' b'
  | _, _ => false
  end.

Definition nkind_eqb (a b : nkind) : bool :=
  match a, b with
  | KBool, KBool | KF32, KF32 | KF64, KF64 => true
  | KInt x, KInt y | KUint x, KUint y => (x =? y)%N
  | _, _ => false
  end.
Definition bigk_eqb (a b : bigk) : bool :=
  match a, b with BInt, BInt | BFloat, BFloat | BRat, BRat => true | _, _ => false end.

(* Go type identity of the described types *)
Fixpoint shape_eqb (a b : shape) : bool :=
  match a, b with
  | SIface, SIface | SString, SString | SBytes, SBytes | STime, STime | SUuid, SUuid => true
  | SNum x, SNum y => nkind_eqb x y
  | SBig x, SBig y | SBigV x, SBigV y => bigk_eqb x y
  | SSlice x, SSlice y | SPtr x, SPtr y => shape_eqb x y
  | SArray n x, SArray m y => Nat.eqb n m && shape_eqb x y
  | SMap k v, SMap k' v' => shape_eqb k k' && shape_eqb v v'
  | SStruct n f, SStruct m g => bytes_eqb n m && fields_eqb f g
  | _, _ => false
  end
with fields_eqb (a b : fields) : bool :=
  match a, b with
  | FNil, FNil => true
  | FCons n s r, FCons m t q => bytes_eqb n m && shape_eqb s t && fields_eqb r q
  | _, _ => false
  end.

Fixpoint flookup (nm : bytes) (f : fields) : option shape :=
  match f with
  | FNil => None
  | FCons n s r => if bytes_eqb n nm then Some s else flookup nm r
  end.

(* unsafe.Sizeof on amd64 *)
Fixpoint size (s : shape) : N :=
  match s with
  | SIface | SString | SUuid => 16
  | SNum KBool => 1
  | SNum (KInt b) | SNum (KUint b) => if (b =? 0)%N then 8 else b / 8
  | SNum KF32 => 4 | SNum KF64 => 8
  | SBytes | SSlice _ | STime => 24
  | SBig _ | SMap _ _ | SPtr _ => 8
  | SBigV _ => 32
  | SArray n e => N.of_nat n * size e
  | SStruct _ f => fsize f
  end
with fsize (f : fields) : N :=
  match f with FNil => 0 | FCons _ s r => size s + fsize r end.

Fixpoint depth (s : shape) : nat :=
  match s with
  | SSlice e | SArray _ e | SPtr e => S (depth e)
  | SMap k v => S (Nat.max (depth k) (depth v))
  | SStruct _ f => S (fdepth f)
  | _ => 1
  end
with fdepth (f : fields) : nat :=
  match f with FNil => 0 | FCons _ s r => Nat.max (depth s) (fdepth r) end.

(* What fmt.Sprint follows inside a value of this type (slices, arrays, struct fields, interfaces; a pointer only at
   the top): a map (which can contain itself through references), or an interface{} whose content the type does not tell. *)
Inductive reach := RchNo | RchDyn | RchMap.
Definition rjoin (a b : reach) : reach :=
  match a, b with RchMap, _ | _, RchMap => RchMap | RchDyn, _ | _, RchDyn => RchDyn | _, _ => RchNo end.
Fixpoint reach_of (s : shape) : reach :=
  match s with
  | SMap _ _ => RchMap
  | SIface => RchDyn
  | SSlice e | SArray _ e => reach_of e
  | SStruct _ f => freach f
  | _ => RchNo
  end
with freach (f : fields) : reach :=
  match f with FNil => RchNo | FCons _ s r => rjoin (reach_of s) (freach r) end.

Definition struct_kind (s : shape) : bool :=
  match s with SStruct _ _ | STime | SBigV _ => true | _ => false end.
Definition ptr_kind (s : shape) : bool :=
  match s with SPtr _ | SBig _ => true | _ => false end.

(* ------------------------------------------------------------------ decoder state *)

Inductive ek := KEOF | KUtf8 | KCast | KDecode | KParse.     (* class of dec.Error *)

(* decoderRefer.ref entries: what later `r<k>;` can fetch *)
Inductive rent :=
| RStr (s : bytes)              (* string *)
| RBytes (c : option bytes)     (* []byte (content known for b<n>"..") *)
| RTime | RUuid
| RPtr (sh : shape)             (* pointer to a destination of that shape *)
| RMapSI                        (* the map[string]interface{} built by readObjectAsMap, itself *)
| RNil.                         (* AddReference(nil) of the client codec *)

(* dec.ref entries (structInfo): field names read from the wire, how many further "" names a spin
   added, and the struct type the class resolves to (None: objects become map[string]interface{}) *)
Record cinfo := mkci { cnames : list bytes; cextra : N; ctype : option shape }.

Record st := mkst {
  rest : bytes;                  (* dec.buf[dec.head:dec.tail] *)
  err : option ek;               (* dec.Error *)
  simple : bool;
  rrefs : list rent;              (* decoderRefer.ref, most recent first *)
  rclasses : list cinfo;          (* dec.ref, most recent first *)
  alloc : N;                     (* bytes allocated because the wire said so *)
  steps : N;
  spin : N;                      (* loop iterations executed with the input exhausted and Error set *)
  excess : N;                    (* announced counts / lengths beyond what the input delivered *)
  um : N;                        (* the largest single allocation unit so far (an element, a pair, a pointer target ...) *)
  rsv : N;                       (* bytes reserved up front by count-driven make / grow (reporting only: [alloc] charges them slot by slot) *)
  corrupt : bool;                (* a value that violates Go's own invariants was produced *)
  lstop : bool }.                (* this decoder's element loops stop at the first error (fixed for a run: fx_loop) *)

Definition set_rest (s : st) (r : bytes) (e : option ek) (d : N) : st :=
  mkst r e (simple s) (rrefs s) (rclasses s) (alloc s) (steps s + d) (spin s) (excess s) (um s) (rsv s) (corrupt s) (lstop s).
Definition set_error (s : st) (k : ek) : st :=              (* if dec.Error == nil { dec.Error = k } *)
  mkst (rest s) (match err s with None => Some k | e => e end) (simple s) (rrefs s) (rclasses s)
       (alloc s) (steps s) (spin s) (excess s) (um s) (rsv s) (corrupt s) (lstop s).
Definition force_error (s : st) (k : ek) : st :=            (* dec.Error = k *)
  mkst (rest s) (Some k) (simple s) (rrefs s) (rclasses s) (alloc s) (steps s) (spin s) (excess s) (um s) (rsv s) (corrupt s) (lstop s).
Definition add_ref (s : st) (r : rent) : st :=              (* dec.AddReference(o) *)
  if simple s then s else
  mkst (rest s) (err s) (simple s) (r :: rrefs s) (rclasses s) (alloc s) (steps s) (spin s) (excess s) (um s) (rsv s) (corrupt s) (lstop s).
Definition force_ref (s : st) (r : rent) : st :=            (* dec.refer.Add(o) without the IsSimple test: never used by /repo *)
  mkst (rest s) (err s) (simple s) (r :: rrefs s) (rclasses s) (alloc s) (steps s) (spin s) (excess s) (um s) (rsv s) (corrupt s) (lstop s).
Definition add_class (s : st) (c : cinfo) : st :=
  mkst (rest s) (err s) (simple s) (rrefs s) (c :: rclasses s) (alloc s) (steps s) (spin s) (excess s) (um s) (rsv s) (corrupt s) (lstop s).
(* an allocation of n bytes for one unit (pointer target, box, element slot): it is also a step *)
Definition add_alloc (s : st) (n : N) : st :=
  mkst (rest s) (err s) (simple s) (rrefs s) (rclasses s) (alloc s + n) (steps s + 1) (spin s) (excess s)
       (N.max (um s) n) (rsv s) (corrupt s) (lstop s).
(* the slot a count-driven allocation reserved for the iteration that starts now (nothing for slot 0) *)
Definition charge (s : st) (slot : N) : st := if (slot =? 0)%N then s else add_alloc s slot.
Definition add_rsv (s : st) (n : N) : st :=
  mkst (rest s) (err s) (simple s) (rrefs s) (rclasses s) (alloc s) (steps s) (spin s) (excess s) (um s) (rsv s + n) (corrupt s) (lstop s).
Definition add_excess (s : st) (n : N) : st :=
  mkst (rest s) (err s) (simple s) (rrefs s) (rclasses s) (alloc s) (steps s) (spin s) (excess s + n) (um s) (rsv s) (corrupt s) (lstop s).
Definition add_steps (s : st) (n : N) : st :=
  mkst (rest s) (err s) (simple s) (rrefs s) (rclasses s) (alloc s) (steps s + n) (spin s) (excess s) (um s) (rsv s) (corrupt s) (lstop s).
Definition set_corrupt (s : st) : st :=
  mkst (rest s) (err s) (simple s) (rrefs s) (rclasses s) (alloc s) (steps s) (spin s) (excess s) (um s) (rsv s) true (lstop s).
Definition set_simple (s : st) (b : bool) : st :=           (* dec.Simple(b): also dec.Reset() *)
  mkst (rest s) (err s) b [] [] (alloc s) (steps s) (spin s) (excess s) (um s) (rsv s) (corrupt s) (lstop s).
Definition reset_refs (s : st) : st :=                      (* dec.Reset() *)
  mkst (rest s) (err s) (simple s) [] [] (alloc s) (steps s) (spin s) (excess s) (um s) (rsv s) (corrupt s) (lstop s).
(* n iterations of a loop in a state where nothing can change any more: each costs a step and
   [per] bytes *)
Definition spin_by (s : st) (n : N) (per : N) : st :=
  mkst (rest s) (err s) (simple s) (rrefs s) (rclasses s) (alloc s + n * per) (steps s + n) (spin s + n)
       (excess s + n) (N.max (um s) per) (rsv s) (corrupt s) (lstop s).
(* n iterations not run at all (repaired loops stop on error): their slots were allocated all the same *)
Definition skip_by (s : st) (n : N) (slot : N) : st :=
  mkst (rest s) (err s) (simple s) (rrefs s) (rclasses s) (alloc s + n * slot) (steps s) (spin s)
       (excess s + n) (N.max (um s) slot) (rsv s) (corrupt s) (lstop s).
(* the input ended [ex] units short of an announced length: everything left is consumed, io.EOF is set,
   and [a] = unit * (what was announced) bytes were reserved *)
Definition short_by (s : st) (e : option ek) (ex : N) (a : N) (unit : N) : st :=
  mkst [] e (simple s) (rrefs s) (rclasses s) (alloc s + a) (steps s + 1) (spin s) (excess s + ex)
       (N.max (um s) unit) (rsv s) (corrupt s) (lstop s).

Definition has_err (s : st) : bool := match err s with Some _ => true | None => false end.
(* input exhausted and the sticky error set: NextByte returns 0 and every decoder ends in decodeError,
   which does nothing once Error is set *)
Definition stuck (s : st) : bool := match rest s with [] => has_err s | _ => false end.

Definition set_lstop (s : st) (b : bool) : st :=
  mkst (rest s) (err s) (simple s) (rrefs s) (rclasses s) (alloc s) (steps s) (spin s) (excess s) (um s) (rsv s) (corrupt s) b.
Definition init (bs : bytes) (smp : bool) : st := mkst bs None smp [] [] 0 0 0 0 0 0 false false.

(* ------------------------------------------------------------------ results *)

(* hazard sites: where the code of the pinned tree panics (innermost /repo frame : class) *)
Inductive msite := MNames | MUint8 | MArgs | MSlice | MMap | MListMap | MObjMap | MArray | MNext | MStr.
Inductive site :=
| HRefIndex        (* decoderRefer.Read: r.ref[i] *)
| HClassIndex      (* Decoder.getStructInfo: dec.ref[index] *)
| HMakeNeg (m : msite)     (* make(.., count) with count < 0 *)
| HAllocRange (m : msite)  (* count * elemsize beyond the runtime's maxAlloc: makeslice / allocation size out of range *)
| HNextNeg         (* Decoder.next: dec.buf[head:head+n] with n < 0 *)
| HStrIndex        (* checkUTF8String: buf[off] beyond the window (utf16Length*3 overflowed) *)
| HStrSlice        (* fastReadStringAsBytes: buf[:off] beyond the window (4-byte character where one unit is left) *)
| HBigRatNil       (* decodeBigRat: new(big.Rat).SetInt(nil) *)
| HUnhashable      (* mapDecoder.decodeMap: UnsafeSetIndex with a slice / map / []byte key in map[interface{}] *)
| HRefNilSet       (* ReadReference of the nil the client codec registered, into interface{}: assignTo, reflect Set of a zero Value *)
| HRefNilKind      (* the same into another type: GetConverter calls src.Kind() on a nil reflect.Type *)
| HObjMapField     (* mapDecoder.decodeObjectAsMap: fields[name] missing -> field.Type is nil *)
| HObjMapKey       (* mapDecoder.decodeObjectAsMap into map[interface{}]..: the key pointer is a *string, read as an
                      interface{} header: memory corruption, the runtime dies (fatal error, not a panic) *)
| HArrayNeg        (* arrayDecoder.Decode: count < 0 -> for i := count; i < length; i++ { UnsafeSetIndex(array, i, ..) }
                      writes before the array: memory corruption (SIGSEGV for a large |count|, silent damage for a small one) *)
| HBigExp          (* decodeBigInt (TagDouble): bf.Int(nil) of a float text with a huge exponent; stringToBigRat: Rat.SetString
                      of such a text: the number is built in full, exponentially larger than its text (no panic: the
                      unchecked behaviour is a cost failure, time and memory out of proportion to the input) *)
| HClientCount.    (* clientCodec.Decode: for i := count; i < n; i++ { results[i] = .. } with count < 0 *)

(* texts handed to library parsers: answered by a finite table per case (DESIGN 3: oracles) *)
Inductive okind :=
| OF64 | OF32 | OF64Z | OInt (bits : N) | OUint (bits : N) | OBool | OBig (b : bigk)
| OUuid | OUuidB | OUuidP | OTime
| OExpInt          (* the text is a big.Float whose binary exponent exceeds what a *big.Int destination accepts *)
| OExpRat.         (* the text carries a decimal / binary exponent beyond what a *big.Rat destination accepts *)

Inductive out (A : Type) :=
| ROk (a : A) (s : st)
| RHaz (h : site) (s : st) (k : out A)
| RAsk (k : okind) (txt : bytes)          (* the table has no answer for this text *)
| RUnmod (why : N)                        (* outside the modelled domain *)
| RFuel.
Arguments ROk {A}. Arguments RHaz {A}. Arguments RAsk {A}. Arguments RUnmod {A}. Arguments RFuel {A}.

Fixpoint bnd {A B} (r : out A) (k : A -> st -> out B) : out B :=
  match r with
  | ROk a s => k a s
  | RHaz h s r' => RHaz h s (bnd r' k)
  | RAsk o t => RAsk o t
  | RUnmod w => RUnmod w
  | RFuel => RFuel
  end.

(* behaviour switches for the repairs that do not replace a panic (count checks, loops, allocations) *)
Record fixes := mkfx {
  fx_count : msite -> bool;   (* per site: a negative count is a decode error and nothing is sized by the wire alone *)
  fx_loop : bool;       (* every element loop stops at the first decode error *)
  fx_next : bool;       (* next(n) does not allocate n bytes when the in-memory input is shorter *)
  fx_str : bool;        (* readStringAsBytes does not allocate utf16Length*3 when the in-memory input ended *)
  fx_strmap : bool;     (* a reference to a map is not formatted with fmt.Sprint into a string (it may contain itself) *)
  fx_refnil : bool;     (* a reference to the valueless slot of the client codec is a decode error for every destination *)
  fx_strwalk : bool }.  (* strConverter refuses every value in which fmt.Sprint would reach a map, whatever the container on top *)
Definition pinned : fixes := mkfx (fun _ => false) false false false false false false.
Definition repaired : fixes := mkfx (fun _ => true) true true true true true true.

(* abstract values: just enough for map keys (hashable?), field / method names and the "simple" header *)
Inductive aval :=
| ANil | ABool (b : bool) | ANum (nonzero : bool) | AFloat (txt : bytes) | AStr (s : bytes)
| AOther (hashable : bool)
| AMap (kvs : list (bytes * aval)).

Definition hashable (v : aval) : bool :=
  match v with AOther h => h | AMap _ => false | _ => true end.

(* ------------------------------------------------------------------ primitives on the state *)

Definition ek_of (e : errk) : ek := match e with EEOF => KEOF | EInvalidUTF8 => KUtf8 | ENegLen => KDecode end.
Definition merge (old : option ek) (new : option errk) : option ek :=
  match old with Some _ => old | None => option_map ek_of new end.

(* dec.NextByte() *)
Definition next_byte (s : st) : byte * st :=
  let '(b, (r, e)) := s_nextByte (rest s, None) in (b, set_rest s r (merge (err s) e) 1).
(* dec.Skip() *)
Definition skip1 (s : st) : st :=
  let '(r, e) := s_skip (rest s, None) in set_rest s r (merge (err s) e) 1.
(* dec.ReadInt() / ReadInt64() / ReadUint64(): same bytes consumed *)
Definition read_int (s : st) : Z * st :=
  let '(z, (r, e)) := s_readInt64 (rest s, None) in (z, set_rest s r (merge (err s) e) 1).
(* dec.Until(';') / UnsafeUntil(';') *)
Definition semi : byte := x3b.
Definition until_semi (s : st) : bytes * st :=
  let '(x, (r, e)) := s_until semi (rest s, None) in
  (match x with Some t => t | None => [] end, set_rest s r (merge (err s) e) 1).

(* n <= length l, walking at most n cells *)
Fixpoint fits (l : bytes) (n : Z) : bool :=
  if (n <=? 0)%Z then true else match l with [] => false | _ :: r => fits r (n - 1) end.

Definition max_alloc : N := 281474976710656.     (* runtime maxAlloc on linux/amd64: 1<<48 *)

(* dec.next(n): the bytes, or the panic of dec.buf[head:head+n] for n < 0.  When the input is
   shorter than n the tree's code first does make([]byte, remain, n). *)
Definition next_n (fx : fixes) (n : Z) (s : st) : out (option bytes) :=
  match rest s with
  | [] => ROk None (set_rest s [] (merge (err s) (Some EEOF)) 1)
  | w =>
    if (n <? 0)%Z then RHaz HNextNeg s (ROk None (set_error s KDecode))
    else if fits w n then
      let k := Z.to_nat n in ROk (Some (firstn k w)) (set_rest s (skipn k w) (err s) 1)
    else
      (* remain < n: data = make([]byte, remain, n); copy; loadMore fails: everything left, io.EOF *)
      let e := merge (err s) (Some EEOF) in
      let ex := Z.to_N (n - Z.of_nat (length w)) in
      (* repaired: the copy reserves min(n, remain + len(dec.buf)) and append grows it *)
      if fx_next fx then ROk (Some w) (short_by s e 0 (N.min (Z.to_N n) (2 * N.of_nat (length w))) 2)
      else if (max_alloc <? Z.to_N n)%N then RHaz (HAllocRange MNext) s (ROk (Some w) (short_by s e ex 0 1))
      else ROk (Some w) (short_by s e ex (Z.to_N n) 1)
  end.
(* = s_next of Model/DecStream.v wherever that is computable (next_n_spec in Proofs/DecBytesProofs.v);
   written with [fits] so that an announced length of 10^11 is not turned into a unary number *)

(* int arithmetic of Go: utf16Length*3 in a 64-bit int *)
Definition two63 : Z := 9223372036854775808.
Definition wrap_int (z : Z) : Z := ((z + two63) mod (2 * two63) - two63)%Z.

(* the scan of checkUTF8String over the window: [n] units wanted, [off] bytes passed.
   fast = true : fastReadStringAsBytes   (for ; n > 0; n--)            index checked against the window
   fast = false: the slow path's loop    (for ; n > 0 && off < length; n--) *)
Inductive scanres := ScDone (off : nat) (n : Z) | ScBad (off : nat) | ScIndex.
Fixpoint str_scan (fuel : nat) (fast : bool) (w : bytes) (off : nat) (n : Z) : scanres :=
  match fuel with
  | O => ScDone off n        (* not reached: fuel = S (length w) *)
  | S f =>
    if (0 <? n)%Z && (fast || (off <? length w)) then
      match nth_error w off with
      | None => ScIndex
      | Some b =>
        match lead b with
        | None => ScBad off
        | Some (k, u) => str_scan f fast w (off + k) (n - u)
        end
      end
    else ScDone off n
  end.

(* the slow path of readStringAsBytes on an in-memory input (loadMore fails) *)
Definition read_str_slow (fx : fixes) (n : Z) (w : bytes) (s : st) : out (option bytes) :=
  let len := length w in
  match str_scan (S len) false w 0 n with
  | ScIndex => RUnmod 1                    (* not reached: off < length is tested first *)
  | ScBad _ => ROk None (set_error s KUtf8)
  | ScDone off n1 =>
    if (off <? len) || ((off =? len) && (n1 <=? 0)%Z) then
      ROk (Some (firstn off w)) (set_rest s (skipn off w) (err s) 1)
    else
      (* the input ended inside the string: data = make([]byte, 0, utf16Length*3); append; loadMore fails *)
      let want := wrap_int (n1 * 3) in
      let e := merge (err s) (Some EEOF) in
      let ex := Z.to_N n1 in
      (* repaired: capacity = utf16Length*3 unless that overflowed or exceeds len(buf)+len(dec.buf) *)
      if fx_str fx then ROk (Some w) (short_by s e 0 (N.min (3 * ex) (2 * N.of_nat (length w))) 3)
      else if (want <? 0)%Z then RHaz (HMakeNeg MStr) s (ROk (Some w) (short_by s e ex 0 3))
      else if (max_alloc <? Z.to_N want)%N then RHaz (HAllocRange MStr) s (ROk (Some w) (short_by s e ex 0 3))
      else ROk (Some w) (short_by s e ex (N.min (Z.to_N want) (3 * ex)) 3)
  end.

(* dec.readStringAsBytes(n) on an in-memory input; result: the bytes (None = nil slice) *)
Definition read_str (fx : fixes) (n : Z) (s : st) : out (option bytes) :=
  if (n =? 0)%Z then ROk None s else
  match rest s with
  | [] => ROk None (set_error s KEOF)
  | w =>
    let len := length w in
    if (wrap_int (n * 3) <=? Z.of_nat len)%Z then       (* length >= utf16Length*3, in Go's 64-bit int *)
      match str_scan (S len) true w 0 n with
      | ScIndex =>
        (* only when utf16Length*3 overflowed: code comparing without overflow takes the slow path *)
        RHaz HStrIndex s (read_str_slow fx n w s)
      | ScBad _ => ROk None (set_error s KUtf8)
      | ScDone off _ =>
        if len <? off then RHaz HStrSlice s (ROk None (set_error s KUtf8))
        else ROk (Some (firstn off w)) (set_rest s (skipn off w) (err s) 1)
      end
    else read_str_slow fx n w s
  end.

Definition bytes_of (x : option bytes) : bytes := match x with Some b => b | None => [] end.

(* ReadSafeString / ReadUnsafeString: readSafeString(dec.ReadInt()); dec.Skip() *)
Definition read_string_body (fx : fixes) (s : st) : out bytes :=
  let '(n, s1) := read_int s in
  bnd (read_str fx n s1) (fun x s2 => ROk (bytes_of x) (skip1 s2)).
(* ReadString: the same, then dec.refer.Add(s) unless simple *)
Definition read_string (fx : fixes) (s : st) : out bytes :=
  bnd (read_string_body fx s) (fun t s1 => ROk t (add_ref s1 (RStr t))).
(* readBytes: dec.Next(dec.ReadInt()); dec.Skip()  -- ReadBytes adds the reference *)
Definition read_bytes_body (fx : fixes) (s : st) : out (option bytes) :=
  let '(n, s1) := read_int s in
  bnd (next_n fx n s1) (fun x s2 => ROk x (skip1 s2)).
Definition read_bytes (fx : fixes) (s : st) : out (option bytes) :=
  bnd (read_bytes_body fx s) (fun x s1 => ROk x (add_ref s1 (RBytes (Some (bytes_of x))))).

(* ReadTime / ReadDateTime: fixed digit fields through NextByte; time.Date normalises anything *)
Definition read_time (s : st) : st :=
  let '(_, _, (r, e)) := s_readHMS (rest s, None) in
  add_ref (set_rest s r (merge (err s) e) 1) RTime.
Definition read_datetime (s : st) : st :=
  let '(_, _, (r, e)) := s_readDateTime (rest s, None) in
  add_ref (set_rest s r (merge (err s) e) 1) RTime.
(* a time read into a time.Time destination (readTime(p), then refer.Add unless simple) has the same effect *)

Section Oracle.
(* the library parsers (strconv, math/big, uuid, time): a finite table per case *)
Variable orc : okind -> bytes -> option bool.
(* the classes io.RegisterName published: wire name -> struct shape *)
Variable registry : list (bytes * shape).
Variable fx : fixes.

Definition ask {A} (k : okind) (t : bytes) (f : bool -> out A) : out A :=
  match orc k t with Some b => f b | None => RAsk k t end.

(* ReadUUID: uuid.ParseBytes(dec.UnsafeNext(38)); AddReference; dec.Error = err *)
Definition read_uuid (fx : fixes) (s : st) : out unit :=
  bnd (next_n fx 38 s) (fun x s1 =>
  let s2 := add_ref s1 RUuid in
  ask OUuidP (bytes_of x) (fun ok => ROk tt (if ok then s2 else force_error s2 KParse))).

(* strconv.ParseFloat(UnsafeUntil(';')): if dec.Error == nil && err != nil { dec.Error = err } *)
Definition read_float (k : okind) (s : st) : out bytes :=
  let '(t, s1) := until_semi s in
  ask k t (fun ok => ROk t (if ok then s1 else set_error s1 KParse)).

(* stringToInt64 and friends: dec.Error = err (overwrites) *)
Definition parse_force (k : okind) (t : bytes) (s : st) : out unit :=
  ask k t (fun ok => ROk tt (if ok then s else force_error s KParse)).
(* stringToBigInt / stringToTime: decodeStringError (first error wins); answers whether it parsed *)
Definition parse_soft (k : okind) (t : bytes) (s : st) : out bool :=
  ask k t (fun ok => ROk ok (if ok then s else set_error s KDecode)).

(* The library builds a number written with an exponent in full: bf.Int(nil) for a float text handed to a
   *big.Int, Rat.SetString for a rational.  "d1e100000000;" is 13 bytes and a 332-million-bit integer.  The
   size of the exponent is the library's business (an oracle); that the conversion happens at all is a hazard. *)
Definition parse_rat (t : bytes) (s : st) : out bool :=
  ask OExpRat t (fun huge =>
    if huge then RHaz HBigExp s (ROk false (set_error s KDecode)) else parse_soft (OBig BRat) t s).
Definition parse_big (b : bigk) (t : bytes) (s : st) : out bool :=
  match b with BRat => parse_rat t s | _ => parse_soft (OBig b) t s end.
(* decodeBigInt, TagDouble: readBigFloat, then bf.Int(nil) *)
Definition float_to_int (t : bytes) (s : st) : out bool :=
  bnd (parse_soft (OBig BFloat) t s) (fun good s1 =>
  if good then ask OExpInt t (fun huge =>
    if huge then RHaz HBigExp s1 (ROk false (set_error s1 KCast)) else ROk true s1)
  else ROk false s1).

(* ------------------------------------------------------------------ references *)

Definition src_shape (r : rent) : option shape :=
  match r with
  | RStr _ => Some SString | RBytes _ => Some SBytes | RTime => Some STime | RUuid => Some SUuid
  | RPtr sh => Some (SPtr sh) | RMapSI => Some (SMap SString SIface) | RNil => None
  end.

Definition aval_of_ref (r : rent) : aval :=
  match r with
  | RStr t => AStr t
  | RBytes _ | RMapSI => AOther false
  | _ => AOther true
  end.

Definition okind_of_num (k : nkind) : okind :=
  match k with KBool => OBool | KInt b => OInt b | KUint b => OUint b | KF32 => OF32 | KF64 => OF64 end.

Definition is_src (r : rent) (sh : shape) : bool :=
  match src_shape r with Some x => shape_eqb x sh | None => false end.

(* Every pointer layer behaves alike for a tag that is neither null nor (generic) reference: allocate the
   target, decode into it with the same tag.  So **T allocates both targets and decodes the core. *)
Fixpoint ptr_core (e : shape) : N * shape :=
  match e with
  | SPtr e' => let '(a, c) := ptr_core e' in ((a + size e')%N, c)
  | _ => (0%N, e)
  end.

(* GetConverter(reflect.TypeOf(o), dest) applied to o; None: no converter (nil).
   [ch]: the targets of all the pointer layers of dest are charged once, at the outermost layer.
   Structural in [dest] (ptrConverter recurses on dest.Elem()). *)
Fixpoint convert (ch : bool) (r : rent) (dest : shape) (s : st) : out (option aval) :=
  match r, dest with
  (* converters registered in init() *)
  | RStr t, SBig b => bnd (parse_big b t s) (fun _ s1 => ROk (Some (AOther true)) s1)
  | RStr t, SBigV b => bnd (parse_big b t s) (fun _ s1 => ROk (Some (AOther true)) s1)
  | RStr t, SBytes => ROk (Some (AOther false)) s
  | RBytes c, SString => ROk (Some (match c with Some t => AStr t | None => AOther true end)) s
  | RStr t, STime => bnd (parse_soft OTime t s) (fun _ s1 => ROk (Some (AOther true)) s1)
  | RStr t, SUuid => bnd (parse_force OUuid t s) (fun _ s1 => ROk (Some (AOther true)) s1)
  (* dest == interfaceType: assignTo *)
  | _, SIface =>
    match r with
    | RNil => RHaz HRefNilSet s (ROk (Some ANil) (set_error s KDecode))
    | _ => ROk (Some (aval_of_ref r)) s
    end
  (* reflect.String: strConverter (fmt.Sprint for everything that is not a string) *)
  | _, SString =>
    match r with
    | RMapSI => if fx_strmap fx then ROk None s else ROk (Some (AOther true)) s   (* fmt.Sprint(map): unbounded if it contains itself *)
    | RStr t => ROk (Some (AStr t)) s
    | RPtr sh =>
      if fx_strwalk fx then
        match reach_of sh with
        | RchMap => ROk None s                    (* a map is in reach whatever the input: CastError *)
        | RchDyn => RUnmod 7                      (* whether a map is in reach depends on the values read into interface{}:
                                                     the model does not keep the value graph *)
        | RchNo => ROk (Some (AOther true)) s
        end
      else ROk (Some (AOther true)) s
    | _ => ROk (Some (AOther true)) s
    end
  (* reflect.Ptr *)
  | _, SPtr e =>
    if (is_src r dest && struct_kind e) || (is_src r e && negb (ptr_kind e)) then ROk (Some (AOther true)) s
    else bnd (convert false r e (if ch then add_alloc s (size e + fst (ptr_core e)) else s)) (fun _ s1 => ROk (Some (AOther true)) s1)
  | _, SBig b =>
    (* ptrConverter into big.X: only *big.X itself (dataCopy) or nothing at all *)
    match r with
    | RNil => RHaz HRefNilKind s (ROk (Some ANil) (set_error s KDecode))
    | _ => ROk (Some (AOther true)) (if ch then add_alloc s 32 else s)
    end
  (* every other kind *)
  | _, _ =>
    match r with
    | RNil => RHaz HRefNilKind s (ROk (Some ANil) (set_error s KDecode))
    | _ =>
      if is_src r dest || is_src r (SPtr dest) then ROk (Some (AOther true)) s
      else match r, dest with
           | RStr t, SNum k => bnd (parse_force (okind_of_num k) t s) (fun _ s1 => ROk (Some (AOther true)) s1)
           | _, _ => ROk None s
           end
    end
  end.

(* dec.ReadReference(p) *)
Definition read_reference (dest : shape) (s : st) : out aval :=
  let '(i, s1) := read_int s in
  let fixed := ROk ANil (set_error s1 KDecode) in
  if (i <? 0)%Z || (Z.of_nat (length (rrefs s1)) <=? i)%Z then RHaz HRefIndex s1 fixed else
  match nth_error (rrefs s1) (length (rrefs s1) - 1 - Z.to_nat i) with
  | None => RHaz HRefIndex s1 fixed
  | Some r =>
    if match r with RNil => fx_refnil fx | _ => false end then fixed else
    bnd (convert true r dest s1) (fun v s2 =>
    match v with
    | Some a => ROk a s2
    | None => ROk ANil (set_error s2 KCast)
    end)
  end.

(* ------------------------------------------------------------------ counts and loops *)


Fixpoint reg_lookup (nm : bytes) (l : list (bytes * shape)) : option shape :=
  match l with
  | [] => None
  | (n, s) :: r => if bytes_eqb n nm then Some s else reg_lookup nm r
  end.

(* a count read from the wire, about to size an allocation of [per] bytes per element at site [m].
   Result: the count the loop will run to. *)
Definition prealloc_max : N := 16.     (* minPrealloc of io/count.go *)

Definition counted (m : msite) (per : N) (negpanics : bool) (n : Z) (s : st) : out Z :=
  if fx_count fx m then
    (* repaired (mode-independent): a negative count is a decode error; at most prealloc_max elements are
       reserved on the word of the wire, the container grows as the elements really arrive *)
    if (n <? 0)%Z then ROk 0%Z (set_error s KDecode)
    else ROk n (add_rsv s (N.min (Z.to_N n) prealloc_max * per))
  else if (n <? 0)%Z then
    if negpanics then RHaz (HMakeNeg m) s (ROk 0%Z (set_error s KDecode)) else ROk n s
  else if (max_alloc <? Z.to_N n * per)%N then
    match m with
    | MMap | MListMap | MObjMap | MArray => ROk n s       (* makemap: overflow || mem > maxAlloc -> hint = 0; no allocation at all for the others *)
    | _ => RHaz (HAllocRange m) s (ROk 0%Z (set_error s KDecode))
    end
  else ROk n (add_rsv s (Z.to_N n * per)).       (* [alloc] is charged slot by slot as the loop runs, spins or is cut short *)

(* for i := 0; i < n; i++ { body }   -- k bounds the iterations that can still consume input;
   [slot]: bytes the count-driven allocation reserved per iteration (charged as the iterations go by),
   [per]: what an iteration allocates when nothing is left to read *)
Fixpoint loop (k : nat) (body : st -> out unit) (slot per : N) (n : Z) (s : st) : out unit :=
  if (n <=? 0)%Z then ROk tt s
  else if lstop s && has_err s then ROk tt s
  else if stuck s then ROk tt (spin_by s (Z.to_N n) (slot + per))
  else match k with
       | O => RFuel
       | S k' => bnd (body (charge s slot)) (fun _ s1 => loop k' body slot per (n - 1) s1)
       end.

(* for _, name := range structInfo.names { body(name) } *)
Fixpoint iter_names (body : bytes -> st -> out unit) (slot : N) (l : list bytes) (s : st) : out unit :=
  match l with
  | [] => ROk tt s
  | nm :: r =>
    if lstop s && has_err s then ROk tt s
    else if stuck s then ROk tt (spin_by s (N.of_nat (length l)) slot)
    else bnd (body nm (charge s slot)) (fun _ s1 => iter_names body slot r s1)
  end.
Definition over_names (lf : nat) (body : bytes -> st -> out unit) (slot : N) (c : cinfo) (s : st) : out unit :=
  bnd (iter_names body slot (cnames c) s) (fun _ s1 =>
  loop lf (body []) slot 0 (Z.of_N (cextra c)) s1).

(* what a decode into [sh] allocates when the input is exhausted (tag 0): pointer targets *)
Fixpoint stuck_alloc (sh : shape) : N :=
  match sh with
  | SIface => 0
  | SPtr e => size e + stuck_alloc e
  | _ => 16          (* decodeError's  var skipped interface{}  *)
  end.

Definition str_of (v : aval) : bytes := match v with AStr t => t | _ => [] end.

Section Body.
(* dec_val at lower fuel: NextByte, then decode; dec_tag at lower fuel: decode with a tag in hand *)
Variable rv : shape -> st -> out aval.
Variable rt : shape -> byte -> st -> out aval.
Variable lf : nat.      (* bound on the iterations of one loop that can still consume input: the fuel left *)

Definition unit_of (r : out aval) : out unit := bnd r (fun _ s => ROk tt s).

(* dec.ReadStruct(t) *)
Fixpoint names_loop (k : nat) (n : Z) (acc : list bytes) (s : st) : out (list bytes * N) :=
  if (n <=? 0)%Z then ROk (rev acc, 0%N) s
  else if lstop s && has_err s then ROk (rev acc, 0%N) s
  else if stuck s then ROk (rev acc, Z.to_N n) (spin_by s (Z.to_N n) 16)
  else match k with
       | O => RFuel
       | S k' => bnd (rv SString (add_alloc s 16)) (fun v s1 => names_loop k' (n - 1) (str_of v :: acc) s1)
       end.

Fixpoint strip_ptr (sh : shape) : shape :=
  match sh with SPtr e => strip_ptr e | SBig b => SBigV b | _ => sh end.

Definition read_struct (sh : shape) (s : st) : out unit :=
  bnd (read_string_body fx s) (fun name s1 =>
  let '(n, s2) := read_int s1 in
  bnd (counted MNames 16 true n s2) (fun n' s3 =>
  bnd (names_loop lf n' [] s3) (fun '(names, extra) s4 =>
  let s5 := skip1 s4 in
  let ty := match reg_lookup name registry with
            | Some t => Some t
            | None => let t := strip_ptr sh in if struct_kind t then Some t else None
            end in
  ROk tt (add_class s5 (mkci names extra ty))))).

(* dec.getStructInfo(dec.ReadInt()) *)
Definition get_class (s : st) (k : cinfo -> st -> out aval) : out aval :=
  let '(i, s1) := read_int s in
  let fixed := ROk ANil (set_error s1 KDecode) in
  if (i <? 0)%Z || (Z.of_nat (length (rclasses s1)) <=? i)%Z then RHaz HClassIndex s1 fixed else
  match nth_error (rclasses s1) (length (rclasses s1) - 1 - Z.to_nat i) with
  | None => RHaz HClassIndex s1 fixed
  | Some c => k c s1
  end.

Definition struct_fields (t : shape) : fields := match t with SStruct _ f => f | _ => FNil end.

(* field.Decode, or decodeInterface for a name the struct does not have *)
Definition decode_field (f : fields) (nm : bytes) (s : st) : out unit :=
  match flookup nm f with
  | Some fs => unit_of (rv fs s)
  | None => unit_of (rv SIface s)
  end.

(* dec.ReadObject() *)
Definition read_object (s : st) : out aval :=
  get_class s (fun c s1 =>
  match ctype c with
  | None =>
    let s2 := add_ref s1 RMapSI in
    bnd (over_names lf (fun _ x => unit_of (rv SIface x)) 48 c s2) (fun _ s3 => ROk (AOther false) (skip1 s3))
  | Some t =>
    let s2 := add_ref (add_alloc s1 (size t)) (RPtr t) in
    bnd (over_names lf (decode_field (struct_fields t)) 0 c s2) (fun _ s3 => ROk (AOther true) (skip1 s3))
  end).

(* dec.decodeError(t, tag): the value is decoded as interface{} and dropped; the first error is kept
   (/repo e28188f: also when an error is already set, so that the value is consumed) *)
Definition decode_error (tag : byte) (s : st) : out aval :=
  bnd (rt SIface tag s) (fun _ s1 => ROk ANil (set_error s1 KCast)).

Definition tag_is (t : byte) (c : byte) : bool := Byte.eqb t c.
Definition is_dig (t : byte) : bool := match digit t with Some _ => true | None => false end.

(* dec.defaultDecode(t, p, tag) *)
Definition default_decode (sh : shape) (tag : byte) (s : st) : out aval :=
  if tag_is tag "r" then read_reference sh s
  else if tag_is tag "c" then bnd (read_struct sh s) (fun _ s1 => rv sh s1)
  else if tag_is tag "E" then bnd (rv SString s) (fun _ s1 => ROk ANil (force_error s1 KDecode))
  else decode_error tag s.

(* the string of a `u`, `s` tag for the scalar decoders:
   readUnsafeString(1)  |  IsSimple ? ReadUnsafeString() : ReadString() *)
Definition str_u (s : st) : out bytes := bnd (read_str fx 1 s) (fun x s1 => ROk (bytes_of x) s1).
Definition str_s (s : st) : out bytes := if simple s then read_string_body fx s else read_string fx s.

Definition inf_txt (s : st) : aval * st :=
  let '(b, s1) := next_byte s in (AStr (if tag_is b "-" then ["-";"I";"n";"f"]%byte else ["+";"I";"n";"f"]%byte), s1).

(* ---- interface{} : decodeInterface *)
Definition list_iface (s : st) : out aval :=
  (* ifsdec.Decode(dec, &result, 'a') *)
  let '(n, s1) := read_int s in
  bnd (counted MSlice 16 false n s1) (fun n' s2 =>
  let s3 := if (n' <? 0)%Z then set_corrupt s2 else s2 in
  let s4 := add_ref s3 (RPtr (SSlice SIface)) in
  bnd (loop lf (fun x => unit_of (rv SIface x)) 16 0 n' s4) (fun _ s5 =>
  ROk (AOther false) (skip1 s5))).

Definition map_entry (ks vs : shape) : N := 16 + size ks + size vs.

Fixpoint map_loop (k : nat) (ks vs : shape) (per : N) (n : Z) (acc : list (bytes * aval)) (s : st)
  : out (list (bytes * aval)) :=
  if (n <=? 0)%Z then ROk (rev acc) s
  else if lstop s && has_err s then ROk (rev acc) s
  else if stuck s then ROk (rev acc) (spin_by s (Z.to_N n) (map_entry ks vs + per))
  else match k with
       | O => RFuel
       | S k' =>
         bnd (rv ks (add_alloc s (map_entry ks vs))) (fun kv s1 =>
         bnd (rv vs s1) (fun vv s2 =>
         let go := map_loop k' ks vs per (n - 1) ((str_of kv, vv) :: acc) s2 in
         match ks with
         | SIface => if hashable kv then go else RHaz HUnhashable s2 (map_loop k' ks vs per (n - 1) acc (set_error s2 KDecode))
         | _ => go
         end))
       end.


(* mapDecoder.decodeMap *)
Definition decode_map (ks vs : shape) (s : st) : out aval :=
  let '(n, s1) := read_int s in
  bnd (counted MMap (map_entry ks vs) false n s1) (fun n0 s2 =>
  let n' := Z.max n0 0 in
  let s3 := add_ref s2 (RPtr (SMap ks vs)) in
  bnd (map_loop lf ks vs (stuck_alloc ks + stuck_alloc vs) n' [] s3) (fun kvs s4 =>
  ROk (match ks with SString => AMap kvs | _ => AOther false end) (skip1 s4))).

Definition dec_iface (tag : byte) (s : st) : out aval :=
  if is_dig tag then ROk (ANum (negb (tag_is tag "0"))) s
  else if tag_is tag "n" then ROk ANil s
  else if tag_is tag "e" then ROk (AStr []) s
  else if tag_is tag "f" then ROk (ABool false) s
  else if tag_is tag "t" then ROk (ABool true) s
  else if tag_is tag "i" || tag_is tag "l" then let '(z, s1) := read_int s in ROk (ANum (negb (z =? 0)%Z)) s1
  else if tag_is tag "N" then ROk (ANum true) s
  else if tag_is tag "I" then let '(_, s1) := next_byte s in ROk (ANum true) s1
  else if tag_is tag "d" then bnd (read_float OF64 s) (fun t s1 => ROk (AFloat t) s1)
  else if tag_is tag "T" then ROk (AOther true) (read_time s)
  else if tag_is tag "D" then ROk (AOther true) (read_datetime s)
  else if tag_is tag "g" then bnd (read_uuid fx s) (fun _ s1 => ROk (AOther true) s1)
  else if tag_is tag "u" then bnd (str_u s) (fun t s1 => ROk (AStr t) s1)
  else if tag_is tag "s" then bnd (read_string fx s) (fun t s1 => ROk (AStr t) s1)
  else if tag_is tag "b" then bnd (read_bytes fx s) (fun _ s1 => ROk (AOther false) s1)
  else if tag_is tag "a" then list_iface s
  else if tag_is tag "m" then bnd (decode_map SIface SIface s) (fun _ s1 => ROk (AOther false) s1)
  else if tag_is tag "o" then read_object s
  else if tag_is tag "r" then read_reference SIface s
  else if tag_is tag "c" then bnd (read_struct SIface s) (fun _ s1 => rv SIface s1)
  else if tag_is tag "E" then bnd (rv SString s) (fun _ s1 => ROk ANil (force_error s1 KDecode))
  else ROk ANil (set_error s KDecode).

(* ---- numbers: decodeBool, decodeInt.., decodeUint.., decodeFloat32/64 *)
Definition dec_num (k : nkind) (tag : byte) (s : st) : out aval :=
  let sh := SNum k in
  let parsed (r : out bytes) := bnd r (fun t s1 => bnd (parse_force (okind_of_num k) t s1) (fun _ s2 => ROk (AOther true) s2)) in
  if is_dig tag || tag_is tag "n" || tag_is tag "e" || tag_is tag "f" || tag_is tag "t" then ROk (AOther true) s
  else if tag_is tag "u" then parsed (str_u s)
  else if tag_is tag "s" then parsed (str_s s)
  else match k with
  | KBool =>
    if tag_is tag "N" then ROk (AOther true) s
    else if tag_is tag "i" || tag_is tag "l" || tag_is tag "d" then let '(_, s1) := until_semi s in ROk (AOther true) s1
    else if tag_is tag "I" then ROk (AOther true) (skip1 s)
    else default_decode sh tag s
  | KInt _ | KUint _ =>
    if tag_is tag "i" || tag_is tag "l" then let '(_, s1) := read_int s in ROk (AOther true) s1
    else if tag_is tag "d" then bnd (read_float OF64 s) (fun _ s1 => ROk (AOther true) s1)
    else default_decode sh tag s
  | KF32 | KF64 =>
    if tag_is tag "i" then let '(_, s1) := read_int s in ROk (AOther true) s1
    else if tag_is tag "l" || tag_is tag "d" then bnd (read_float (okind_of_num k) s) (fun _ s1 => ROk (AOther true) s1)
    else if tag_is tag "N" then ROk (AOther true) s
    else if tag_is tag "I" then let '(_, s1) := next_byte s in ROk (AOther true) s1
    else default_decode sh tag s
  end.

(* ---- string: decodeString *)
Definition dec_string (tag : byte) (s : st) : out aval :=
  if is_dig tag then ROk (AStr [tag]) s
  else if tag_is tag "n" || tag_is tag "e" then ROk (AStr []) s
  else if tag_is tag "t" then ROk (AStr ["t";"r";"u";"e"]%byte) s
  else if tag_is tag "f" then ROk (AStr ["f";"a";"l";"s";"e"]%byte) s
  else if tag_is tag "N" then ROk (AStr ["N";"a";"N"]%byte) s
  else if tag_is tag "I" then let '(v, s1) := inf_txt s in ROk v s1
  else if tag_is tag "i" || tag_is tag "l" || tag_is tag "d" then let '(t, s1) := until_semi s in ROk (AStr t) s1
  else if tag_is tag "u" then bnd (str_u s) (fun t s1 => ROk (AStr t) s1)
  else if tag_is tag "s" then bnd (read_string fx s) (fun t s1 => ROk (AStr t) s1)
  else if tag_is tag "b" then bnd (read_bytes fx s) (fun x s1 => ROk (AStr (bytes_of x)) s1)
  else if tag_is tag "T" then ROk (AOther true) (read_time s)
  else if tag_is tag "D" then ROk (AOther true) (read_datetime s)
  else if tag_is tag "g" then bnd (read_uuid fx s) (fun _ s1 => ROk (AOther true) s1)
  else default_decode SString tag s.

(* ---- []byte: decodeBytes *)
Definition uint8_slice (s : st) : out aval :=
  let '(n, s1) := read_int s in
  bnd (counted MUint8 1 true n s1) (fun n' s2 =>
  let s3 := add_ref s2 (RBytes None) in
  bnd (loop lf (fun x => unit_of (rv (SNum (KUint 8)) x)) 1 0 n' s3) (fun _ s4 =>
  ROk (AOther false) (skip1 s4))).

Definition dec_bytes (tag : byte) (s : st) : out aval :=
  if tag_is tag "n" || tag_is tag "e" then ROk (AOther false) s
  else if tag_is tag "b" then bnd (read_bytes fx s) (fun _ s1 => ROk (AOther false) s1)
  else if tag_is tag "a" then uint8_slice s
  else if tag_is tag "u" then bnd (str_u s) (fun _ s1 => ROk (AOther false) s1)
  else if tag_is tag "s" then bnd (str_s s) (fun _ s1 => ROk (AOther false) s1)
  else if tag_is tag "g" then bnd (read_uuid fx s) (fun _ s1 => ROk (AOther false) s1)
  else default_decode SBytes tag s.

(* ---- *big.Int / *big.Float / *big.Rat *)
Definition dec_big (b : bigk) (tag : byte) (s : st) : out aval :=
  let sh := SBig b in
  let ok (s1 : st) := ROk (AOther true) s1 in
  let parsed (r : out bytes) := bnd r (fun t s1 => bnd (parse_big b t s1) (fun _ s2 => ok s2)) in
  if is_dig tag || tag_is tag "n" || tag_is tag "e" || tag_is tag "f" || tag_is tag "t" then ok s
  else if tag_is tag "i" then let '(_, s1) := read_int s in ok s1
  else if tag_is tag "u" then parsed (str_u s)
  else if tag_is tag "s" then parsed (str_s s)
  else match b with
  | BInt =>
    if tag_is tag "l" then let '(t, s1) := until_semi s in bnd (parse_soft (OBig BInt) t s1) (fun _ s2 => ok s2)
    else if tag_is tag "d" then let '(t, s1) := until_semi s in bnd (float_to_int t s1) (fun _ s2 => ok s2)
    else default_decode sh tag s
  | BFloat =>
    if tag_is tag "l" || tag_is tag "d" then let '(t, s1) := until_semi s in bnd (parse_soft (OBig BFloat) t s1) (fun _ s2 => ok s2)
    else if tag_is tag "I" then let '(_, s1) := next_byte s in ok s1
    else default_decode sh tag s
  | BRat =>
    if tag_is tag "l" then
      let '(t, s1) := until_semi s in
      bnd (parse_soft (OBig BInt) t s1) (fun good s2 =>
      if good then ok s2 else RHaz HBigRatNil s2 (ok s2))     (* new(big.Rat).SetInt(nil) *)
    else if tag_is tag "d" then bnd (read_float OF64 s) (fun _ s1 => ok s1)
    else default_decode sh tag s
  end.

(* ---- time.Time, uuid.UUID *)
Definition dec_time (tag : byte) (s : st) : out aval :=
  let ok (s1 : st) := ROk (AOther true) s1 in
  if is_dig tag || tag_is tag "n" || tag_is tag "e" || tag_is tag "f" || tag_is tag "t" then ok s
  else if tag_is tag "i" || tag_is tag "l" then let '(_, s1) := read_int s in ok s1
  else if tag_is tag "d" then bnd (read_float OF64 s) (fun _ s1 => ok s1)
  else if tag_is tag "T" then ok (read_time s)
  else if tag_is tag "D" then ok (read_datetime s)
  else if tag_is tag "s" then bnd (str_s s) (fun t s1 => bnd (parse_soft OTime t s1) (fun _ s2 => ok s2))
  else default_decode STime tag s.

Definition dec_uuid (tag : byte) (s : st) : out aval :=
  let ok (s1 : st) := ROk (AOther true) s1 in
  if tag_is tag "n" || tag_is tag "e" then ok s
  else if tag_is tag "g" then bnd (read_uuid fx s) (fun _ s1 => ok s1)
  else if tag_is tag "b" then
    bnd (if simple s then read_bytes_body fx s else read_bytes fx s) (fun x s1 =>
    bnd (parse_force OUuidB (bytes_of x) s1) (fun _ s2 => ok s2))
  else if tag_is tag "s" then bnd (str_s s) (fun t s1 => bnd (parse_force OUuid t s1) (fun _ s2 => ok s2))
  else default_decode SUuid tag s.

(* ---- []T : sliceDecoder *)
Definition dec_slice (e : shape) (tag : byte) (s : st) : out aval :=
  let sh := SSlice e in
  if tag_is tag "n" || tag_is tag "e" then ROk (AOther false) s
  else if tag_is tag "a" then
    let '(n, s1) := read_int s in
    bnd (counted MSlice (size e) false n s1) (fun n' s2 =>
    let s3 := if (n' <? 0)%Z then set_corrupt s2 else s2 in    (* UnsafeGrow: header.Len = count *)
    let s4 := add_ref s3 (RPtr sh) in
    bnd (loop lf (fun x => unit_of (rv e x)) (size e) (stuck_alloc e) n' s4) (fun _ s5 =>
    ROk (AOther false) (skip1 s5)))
  else default_decode sh tag s.

(* ---- [N]T : arrayDecoder, byteArrayDecoder *)
Definition dec_array_list (n : nat) (e : shape) (s : st) : out aval :=
  let '(c0, s1) := read_int s in
  let bad := fx_count fx MArray && (c0 <? 0)%Z in
  let c := if bad then 0%Z else c0 in
  let s2 := add_ref (if bad then set_error s1 KDecode else s1) (RPtr (SArray n e)) in
  let body := fun x => unit_of (rv e x) in
  if (c <? 0)%Z then
    (* n = count < 0: no element is read; for i := n; i < length; i++ { UnsafeSetIndex(array, i, emptyElem) } *)
    if Nat.eqb n 0 then ROk (AOther true) (skip1 s2)
    else RHaz HArrayNeg s2 (ROk (AOther true) (skip1 (set_error s2 KDecode)))
  else
    let m := Z.min (Z.of_nat n) c in
    bnd (loop lf body 0 (stuck_alloc e) m s2) (fun _ s3 =>
    bnd (loop lf body 0 (stuck_alloc e) (c - m) s3) (fun _ s4 =>
    ROk (AOther true) (skip1 s4))).

Definition is_u8 (e : shape) : bool := match e with SNum (KUint 8) => true | _ => false end.

Definition dec_array (n : nat) (e : shape) (tag : byte) (s : st) : out aval :=
  let sh := SArray n e in
  let ok (s1 : st) := ROk (AOther true) s1 in
  let generic :=
    if tag_is tag "n" || tag_is tag "e" then ok s
    else if tag_is tag "a" then dec_array_list n e s
    else default_decode sh tag s in
  if is_u8 e then
    if tag_is tag "b" then bnd (read_bytes_body fx s) (fun _ s1 => ok (add_ref s1 (RPtr sh)))
    else if tag_is tag "u" then bnd (str_u s) (fun _ s1 => ok s1)
    else if tag_is tag "s" then bnd (str_s s) (fun _ s1 => ok s1)
    else generic
  else generic.

(* ---- map[K]V : mapDecoder *)
Definition list_as_map_ok (ks : shape) : bool :=
  match ks with SString | SIface => true | SNum KBool => false | SNum _ => true | _ => false end.
Definition obj_as_map_ok (ks vs : shape) : bool :=
  match ks, vs with (SString | SIface), SIface => true | _, _ => false end.

Definition dec_map (ks vs : shape) (tag : byte) (s : st) : out aval :=
  let sh := SMap ks vs in
  if tag_is tag "n" || tag_is tag "e" then ROk (match ks with SString => AMap [] | _ => AOther false end) s
  else if tag_is tag "m" then decode_map ks vs s
  else if tag_is tag "a" then
    if list_as_map_ok ks then
      let '(n, s1) := read_int s in
      bnd (counted MListMap (map_entry ks vs) false n s1) (fun n0 s2 =>
      let n' := Z.max n0 0 in
      let s3 := add_ref s2 (RPtr sh) in
      bnd (loop lf (fun x => unit_of (rv vs x)) (map_entry ks vs) (stuck_alloc vs) n' s3) (fun _ s4 =>
      ROk (AOther false) (skip1 s4)))
    else decode_error tag s
  else if tag_is tag "o" then
    if obj_as_map_ok ks vs then
      get_class s (fun c s1 =>
      let cnt := (N.of_nat (length (cnames c)) + cextra c)%N in
      let s2 := add_ref s1 (RPtr sh) in
      let guard (r : out aval) := match ks with SIface => if (0 <? cnt)%N then RHaz HObjMapKey s2 r else r | _ => r end in
      guard
      match ctype c with
      | Some t =>
        let f := struct_fields t in
        bnd (over_names lf (fun nm x =>
               match flookup nm f with
               | Some fs => unit_of (rv fs (add_alloc (add_alloc x (map_entry ks vs)) (size fs)))
               | None => RHaz HObjMapField x (unit_of (rv SIface (add_alloc x (map_entry ks vs))))
               end) 0 c s2) (fun _ s3 => ROk (AOther false) (skip1 s3))
      | None =>
        bnd (over_names lf (fun _ x => unit_of (rv SIface x)) (map_entry ks vs) c s2) (fun _ s3 => ROk (AOther false) (skip1 s3))
      end)
    else decode_error tag s
  else default_decode sh tag s.

(* ---- struct : structDecoder *)
Definition dec_struct (nm : bytes) (f : fields) (tag : byte) (s : st) : out aval :=
  let sh := SStruct nm f in
  if tag_is tag "o" then
    get_class s (fun c s1 =>
    let s2 := add_ref s1 (RPtr sh) in
    bnd (over_names lf (decode_field f) 0 c s2) (fun _ s3 => ROk (AOther true) (skip1 s3)))
  else if tag_is tag "m" then
    let '(n0, s1) := read_int s in
    bnd (counted MObjMap 0 false n0 s1) (fun n s1' =>
    let s2 := add_ref s1' (RPtr sh) in
    bnd (loop lf (fun x => bnd (rv SString x) (fun v x1 => decode_field f (str_of v) x1)) 32 0 n s2) (fun _ s3 =>
    ROk (AOther true) (skip1 s3)))
  else if tag_is tag "e" then ROk (AOther true) s
  else default_decode sh tag s.

(* ---- *T : ptrDecoder and the typed pointer decoders *)
(* pointers decoded by the generic ptrDecoder (the others have typed decoders: decodeIntPtr ...) *)
Definition generic_ptr (e : shape) : bool :=
  match e with SNum _ | SString | SIface | SBytes => false | _ => true end.

Definition dec_ptr (e : shape) (tag : byte) (s : st) : out aval :=
  if tag_is tag "n" then ROk ANil s
  else if tag_is tag "r" && generic_ptr e then read_reference (SPtr e) s     (* ptrDecoder: case TagRef *)
  else let '(a, c) := ptr_core e in
       bnd (rt c tag (add_alloc s (size e + a)%N)) (fun _ s1 => ROk (AOther true) s1).

Definition dec_tag_body (sh : shape) (tag : byte) (s : st) : out aval :=
  match sh with
  | SIface => dec_iface tag s
  | SNum k => dec_num k tag s
  | SString => dec_string tag s
  | SBytes => dec_bytes tag s
  | SBig b => dec_big b tag s
  | SBigV _ => RUnmod 2
  | STime => dec_time tag s
  | SUuid => dec_uuid tag s
  | SSlice e => dec_slice e tag s
  | SArray n e => dec_array n e tag s
  | SMap k v => dec_map k v tag s
  | SStruct nm f => dec_struct nm f tag s
  | SPtr e => dec_ptr e tag s
  end.
End Body.

(* decoding with a tag in hand; every level of recursion takes one unit of fuel *)
Fixpoint dec_tag (fuel : nat) (sh : shape) (tag : byte) (s : st) : out aval :=
  match fuel with
  | O => RFuel
  | S f =>
    dec_tag_body
      (fun sh' s' =>
         (* a decode when nothing is left: NextByte gives 0, every decoder falls to decodeError, which
            does nothing once Error is set; only pointer destinations are allocated *)
         if stuck s' then ROk ANil (add_alloc s' (stuck_alloc sh'))
         else let '(t, s1) := next_byte s' in dec_tag f sh' t s1)
      (dec_tag f) f sh tag (add_steps s 1)
  end.

(* dec.Decode(p): NextByte, decode *)
Definition dec_val (fuel : nat) (sh : shape) (s : st) : out aval :=
  if stuck s then ROk ANil (add_alloc s (stuck_alloc sh))
  else let '(t, s1) := next_byte s in dec_tag fuel sh t s1.

(* the decoder at the start of a run *)
Definition start (bs : bytes) (smp : bool) : st := set_lstop (init bs smp) (fx_loop fx).

(* io.Unmarshal(data, &v) / Formatter{Simple: false}.Unmarshal: decoder.Decode(v); return decoder.Error *)
Definition unmarshal (fuel : nat) (bs : bytes) (smp : bool) (sh : shape) : out aval :=
  dec_val fuel sh (start bs smp).

(* ------------------------------------------------------------------ RPC codecs (rpc/core) *)

Definition lower_byte (b : byte) : byte :=
  let n := Byte.to_N b in
  if (65 <=? n)%N && (n <=? 90)%N then match Byte.of_N (n + 32) with Some c => c | None => b end else b.
Definition ascii (t : bytes) : bool := forallb (fun b => (Byte.to_N b <? 128)%N) t.

(* strconv.ParseBool *)
Definition parse_bool (t : bytes) : option bool :=
  if bytes_eqb t ["1"]%byte || bytes_eqb t ["t"]%byte || bytes_eqb t ["T"]%byte || bytes_eqb t ["T";"R";"U";"E"]%byte
     || bytes_eqb t ["t";"r";"u";"e"]%byte || bytes_eqb t ["T";"r";"u";"e"]%byte then Some true
  else if bytes_eqb t ["0"]%byte || bytes_eqb t ["f"]%byte || bytes_eqb t ["F"]%byte || bytes_eqb t ["F";"A";"L";"S";"E"]%byte
     || bytes_eqb t ["f";"a";"l";"s";"e"]%byte || bytes_eqb t ["F";"a";"l";"s";"e"]%byte then Some false
  else None.

Fixpoint last_of (key : bytes) (kvs : list (bytes * aval)) (acc : option aval) : option aval :=
  match kvs with
  | [] => acc
  | (k, v) :: r => last_of key r (if bytes_eqb k key then Some v else acc)
  end.

Definition k_simple : bytes := ["s";"i";"m";"p";"l";"e"]%byte.

(* context.RequestHeaders().GetBool("simple") after NewDict(h).CopyTo(..) *)
Definition header_simple {A} (h : aval) (k : bool -> out A) : out A :=
  match h with
  | AMap kvs =>
    match last_of k_simple kvs None with
    | Some (ABool b) => k b
    | Some (ANum nz) => k nz
    | Some (AFloat t) => ask OF64Z t (fun z => k (negb z))
    | Some (AStr t) => k (match parse_bool t with Some b => b | None => false end)
    | _ => k false
    end
  | _ => k false
  end.

Definition hdr_shape : shape := SMap SString SIface.

(* tag := NextByte(); if tag == TagHeader { Decode(&h); CopyTo; decoder.Reset(); tag = NextByte() } *)
Definition read_header (fuel : nat) (s : st) (k : byte -> aval -> st -> out bool) : out bool :=
  let '(tag, s1) := next_byte s in
  if tag_is tag "H" then
    bnd (dec_val fuel hdr_shape s1) (fun h s2 =>
    let '(tag2, s3) := next_byte (reset_refs s2) in k tag2 h s3)
  else k tag ANil s1.

Record method := mkm { mname : bytes; mparams : list shape; mvariadic : bool }.
(* mparams of a variadic method: the last entry is the ELEMENT type of the ...T parameter *)

Fixpoint find_method (nm : bytes) (ms : list method) : option method :=
  match ms with
  | [] => None
  | m :: r => if bytes_eqb (mname m) nm then Some m else find_method nm r
  end.

Definition param_at (m : method) (i : nat) : shape :=
  let n := length (mparams m) in
  if mvariadic m && (n - 1 <=? i) then nth (n - 1) (mparams m) SIface
  else nth i (mparams m) SIface.        (* beyond the parameters: paramTypes[i] == nil -> interface{} *)

Fixpoint args_loop (fuel k : nat) (m : method) (i : nat) (n : Z) (s : st) : out unit :=
  if (n <=? 0)%Z then ROk tt s
  else if lstop s && has_err s then ROk tt s
  else if stuck s then ROk tt (spin_by s (Z.to_N n) 32)
  else match k with
       | O => RFuel
       | S k' =>
         let sh := param_at m i in
         bnd (dec_val fuel sh (add_alloc (add_alloc s 32) (size sh))) (fun _ s1 => args_loop fuel k' m (S i) (n - 1) s1)
       end.

(* serviceCodec.decodeArguments *)
Definition decode_arguments (fuel : nat) (missing : bool) (m : method) (s : st) : out bool :=
  let '(tag, s1) := next_byte s in
  if negb (tag_is tag "a") then ROk (has_err s1) s1 else     (* return nil, decoder.Error  (/repo b5ed508) *)
  let s2 := reset_refs s1 in
  if missing then bnd (dec_tag fuel (SSlice SIface) tag s2) (fun _ s3 => ROk (has_err s3) s3)
  else
    let '(n, s3) := read_int s2 in
    bnd (counted MArgs 32 true n s3) (fun n' s4 =>
    let s5 := add_ref s4 (RPtr (SSlice SIface)) in
    bnd (args_loop fuel fuel m 0 n' s5) (fun _ s6 =>
    let s7 := skip1 s6 in ROk (has_err s7) s7)).

Definition tilde : bytes := ["~"]%byte.
Definition names_method : method := mkm tilde [] false.

(* serviceCodec.Decode(request, context): true = an error is returned *)
Definition service_decode (fuel : nat) (methods : list method) (missing : bool) (bs : bytes) : out bool :=
  match bs with
  | [] => ROk false (start bs false)
  | _ =>
    read_header fuel (start bs false) (fun tag h s =>
    if tag_is tag "C" then
      header_simple h (fun smp =>
      let s1 := if smp then set_simple s true else s in
      bnd (dec_val fuel SString s1) (fun nv s2 =>
      match nv with
      | AStr nm =>
        if negb (ascii nm) then RUnmod 3 else
        match find_method (map lower_byte nm) (names_method :: methods) with
        | Some m => decode_arguments fuel false m s2
        | None => if missing then decode_arguments fuel true names_method s2 else ROk true s2
        end
      | _ => RUnmod 4          (* a name produced by time / uuid / reference formatting *)
      end))
    else if tag_is tag "z" then ROk false s
    else ROk true s)
  end.

Fixpoint results_loop (fuel : nat) (rts : list shape) (n : Z) (s : st) : out unit :=
  match rts with
  | [] => ROk tt s
  | sh :: r =>
    if (n <=? 0)%Z then ROk tt s
    else bnd (dec_val fuel sh (add_alloc s (size sh))) (fun _ s1 => results_loop fuel r (n - 1) s1)
  end.

(* clientCodec.Decode(response, context): true = an error is returned *)
Definition client_decode (fuel : nat) (rts : list shape) (bs : bytes) : out bool :=
  read_header fuel (start bs false) (fun tag h s =>
  if tag_is tag "R" then
    header_simple h (fun smp =>
    let s1 := if smp then set_simple s true else s in
    match rts with
    | [] => ROk (has_err s1) s1
    | [sh] => bnd (dec_val fuel sh (add_alloc s1 (size sh))) (fun _ s2 => ROk (has_err s2) s2)
    | sh :: _ =>
      let '(t, s2) := next_byte s1 in
      if tag_is t "a" then
        let '(n, s3) := read_int s2 in
        let s4 := add_ref s3 RNil in
        bnd (results_loop fuel rts n s4) (fun _ s5 =>
        if (n <? 0)%Z then RHaz HClientCount s5 (ROk true (set_error s5 KDecode)) else ROk (has_err s5) s5)
      else bnd (dec_tag fuel sh t (add_alloc s2 (size sh))) (fun _ s3 => ROk (has_err s3) s3)
    end)
  else if tag_is tag "E" then bnd (dec_val fuel SString s) (fun _ s1 => ROk true s1)
  else if tag_is tag "z" then ROk false s
  else ROk true s).

End Oracle.

(* ------------------------------------------------------------------ reading a result *)

(* what the code of the tree does: it panics at the first hazard whose check it does not have *)
Inductive verdict (A : Type) :=
| VDone (a : A) (s : st)
| VPanic (h : site) (s : st)
| VAsk (k : okind) (t : bytes)
| VUnmod (w : N)
| VFuel.
Arguments VDone {A}. Arguments VPanic {A}. Arguments VAsk {A}. Arguments VUnmod {A}. Arguments VFuel {A}.

Fixpoint interp {A} (checked : site -> bool) (r : out A) : verdict A :=
  match r with
  | ROk a s => VDone a s
  | RHaz h s k => if checked h then interp checked k else VPanic h s
  | RAsk k t => VAsk k t
  | RUnmod w => VUnmod w
  | RFuel => VFuel
  end.

Fixpoint hazards {A} (r : out A) : list site :=
  match r with RHaz h _ k => h :: hazards k | _ => [] end.

Definition no_checks (h : site) : bool := false.
Definition all_checks (h : site) : bool := true.

(* fuel that always suffices (Proofs/DecBytesProofs.v) *)
Fixpoint reg_depth (l : list (bytes * shape)) : nat :=
  match l with [] => 0 | (_, s) :: r => Nat.max (depth s) (reg_depth r) end.
Definition fuel_for (registry : list (bytes * shape)) (bs : bytes) (d : nat) : nat :=
  (length bs + 2) * (reg_depth registry + 4) + d + 4.
