(* Model of the Go decoder (io/decoder.go and the *_decoder.go files) over wire trees.
   Where the Go decoder reads bytes, the model reads the wire tree that [Wire.parse] gives for
   those bytes; everything else follows the Go code: per-type routines chosen by route tables,
   per-tag switch arms (the action tables below are proved equal to the tables regenerated
   from the Go sources), destination passing (a decode is an update of a place in memory),
   the reference list appended at the sites where the Go code appends, converters of
   converter.go for 'r'.  Definitions only; proofs in Proofs/DecValProofs.v. *)
From Coq Require Import List NArith ZArith Strings.Byte Bool.
From HV Require Import Lib.Dec Lib.Utf8 Model.Wire Model.WireSem Model.Enc Model.DecAct.
Import ListNotations.
Open Scope Z_scope.

(* ------------------------------------------------------------------ types *)

Inductive gtype :=
| TBool | TInt (k : ikind) | TF32 | TF64 | TC64 | TC128 | TString
| TBytes                                  (* []byte *)
| TBigInt | TBigFloat | TBigRat           (* big.Int, big.Float, big.Rat (values; *big.X is TPtr) *)
| TTime | TUuid
| TSlice (e : gtype) | TArray (n : nat) (e : gtype) | TMap (k v : gtype) | TPtr (e : gtype)
| TIface
| TStruct (name : bytes)                  (* resolved through the type environment *)
| TList.                                  (* *list.List *)

Definition ikind_eqb (a b : ikind) : bool :=
  match a, b with
  | KInt, KInt | KInt8, KInt8 | KInt16, KInt16 | KInt32, KInt32 | KInt64, KInt64
  | KUint, KUint | KUint8, KUint8 | KUint16, KUint16 | KUint32, KUint32 | KUint64, KUint64
  | KUintptr, KUintptr => true
  | _, _ => false
  end.

Fixpoint gtype_eqb (a b : gtype) : bool :=
  match a, b with
  | TBool, TBool | TF32, TF32 | TF64, TF64 | TC64, TC64 | TC128, TC128 | TString, TString
  | TBytes, TBytes | TBigInt, TBigInt | TBigFloat, TBigFloat | TBigRat, TBigRat
  | TTime, TTime | TUuid, TUuid | TIface, TIface | TList, TList => true
  | TInt k, TInt k' => ikind_eqb k k'
  | TSlice e, TSlice e' => gtype_eqb e e'
  | TArray n e, TArray n' e' => Nat.eqb n n' && gtype_eqb e e'
  | TMap k v, TMap k' v' => gtype_eqb k k' && gtype_eqb v v'
  | TPtr e, TPtr e' => gtype_eqb e e'
  | TStruct n, TStruct n' => bytes_eqb n n'
  | _, _ => false
  end.

(* struct definitions: field alias (as getFields computes it) and field type, in declaration order *)
Definition sdef := list (bytes * gtype).
Definition tenv := list (bytes * sdef).

Fixpoint find_struct (te : tenv) (name : bytes) : option sdef :=
  match te with
  | [] => None
  | (n, d) :: r => if bytes_eqb n name then Some d else find_struct r name
  end.

Fixpoint find_field (d : sdef) (alias : bytes) (i : nat) : option (nat * gtype) :=
  match d with
  | [] => None
  | (a, t) :: r => if bytes_eqb a alias then Some (i, t) else find_field r alias (S i)
  end.

(* ------------------------------------------------------------------ values *)

Inductive xval :=
| XNil                                       (* nil pointer / slice / map / interface / list *)
| XBool (b : bool)
| XInt (k : ikind) (z : Z)
| XF32 (f : fval) | XF64 (f : fval)
| XC64 (re im : fval) | XC128 (re im : fval)
| XStr (s : bytes)
| XBytes (b : bytes)                         (* non-nil []byte (immutable once read) *)
| XBigInt (z : Z)
| XBigFloat (txt : bytes)                    (* Text('g', -1) (oracle) *)
| XBigRat (txt : bytes)                      (* String(): "a/b" (oracle) *)
| XTime (y mo d h mi s ns : Z) (utc : bool)
| XUuid (txt : bytes)                        (* canonical lower-case text *)
| XArr (vs : list xval)                      (* array value (inline); also the content of a backing-array cell *)
| XStruct (name : bytes) (vs : list xval)    (* struct value (inline) *)
| XIface (t : gtype) (v : xval)              (* non-nil interface{}: dynamic type and value *)
(* heap forms *)
| XPtrTo (c : nat) (path : list nat)         (* pointer to a place *)
| XSliceH (c : nat) (len : nat)              (* slice header: backing-array cell, length; capacity = length of the cell *)
| XMapH (c : nat)                            (* map: cell holding [XMap] *)
| XListH (c : nat)                           (* *list.List: cell holding [XList] *)
(* resolved forms (results, and contents of map/list cells) *)
| XPtr (v : xval)
| XSlice (vs : list xval)
| XMap (kvs : list (xval * xval))
| XList (vs : list xval)
| XCycle (up : nat).

Definition place := (nat * list nat)%type.

(* ------------------------------------------------------------------ options, results *)

Inductive longty := LtInt | LtUint | LtInt64 | LtUint64 | LtBigInt.
Inductive realty := RlF64 | RlF32 | RlBigFloat.

Record dopts := {
  o_simple : bool;
  o_long : longty;
  o_real : realty;
  o_simap : bool;          (* MapTypeSIMap *)
  o_structval : bool;      (* StructTypeValue *)
  o_listslice : bool;      (* ListTypeSlice *)
  o_registered : list bytes (* class names registered with io.Register (class name = struct type name) *)
}.

Inductive eclass := ECast | EParse | ENaNInf | ETagError | EInvalidTag | EOther.

Inductive psite :=
| PRefIndex            (* decoderRefer.Read: index out of range *)
| PClassIndex          (* getStructInfo: index out of range *)
| PMem                 (* model-internal: a place that does not exist (proved unreachable) *)
| PUnhashable          (* map assignment with an unhashable dynamic key type *)
| PObjAsMapField       (* decodeObjectAsMap: class field unknown to the registered type: nil FieldAccessor *)
| PObjIntoIIMap        (* decodeObjectAsMap into map[interface{}]interface{}: string header written as interface key *)
| PMapCopy             (* mapCopy / ptrCopy applied to a map value (not a pointer to a map) *)
| PShape.              (* wire shape the byte-level decoder would mis-read (object/field count mismatch) *)

Record rentry := { r_ty : gtype; r_val : xval }.          (* one interface{} stored by decoderRefer.Add *)
Record cinfo := { c_name : bytes; c_names : list bytes; c_type : option bytes }.   (* structInfo *)

Record dstate := { mem : list xval; refs : list rentry; clss : list cinfo }.

Definition dinit : dstate := {| mem := []; refs := []; clss := [] |}.

Inductive dres :=
| DOk (st : dstate)
| DErr (e : eclass)
| DPanic (p : psite)
| DFuel
| DMiss (fn arg : bytes)     (* oracle table has no entry: the driver fetches it and re-runs *)
| DUnk (why : N).            (* path outside the modelled fragment (listed in the evidence) *)

(* ------------------------------------------------------------------ integers *)

Definition ik_bits (k : ikind) : Z :=
  match k with
  | KInt8 | KUint8 => 8 | KInt16 | KUint16 => 16 | KInt32 | KUint32 => 32 | _ => 64
  end.
Definition ik_signed (k : ikind) : bool :=
  match k with KInt | KInt8 | KInt16 | KInt32 | KInt64 => true | _ => false end.

Definition wrap_u (bits z : Z) : Z := z mod 2 ^ bits.
Definition wrap_s (bits z : Z) : Z := (z + 2 ^ (bits - 1)) mod 2 ^ bits - 2 ^ (bits - 1).
(* the Go conversion T(x) between integer types *)
Definition wrap_k (k : ikind) (z : Z) : Z :=
  if ik_signed k then wrap_s (ik_bits k) z else wrap_u (ik_bits k) z.
Definition ik_min (k : ikind) : Z := if ik_signed k then - 2 ^ (ik_bits k - 1) else 0.
Definition ik_max (k : ikind) : Z := if ik_signed k then 2 ^ (ik_bits k - 1) - 1 else 2 ^ ik_bits k - 1.
Definition in_range_k (k : ikind) (z : Z) : bool := (ik_min k <=? z) && (z <=? ik_max k).

(* ------------------------------------------------------------------ strconv: integers, bool (exact) *)

Fixpoint digits_val (l : bytes) (acc : N) : option N :=
  match l with
  | [] => Some acc
  | x :: r => match digit_val x with Some d => digits_val r (acc * 10 + d)%N | None => None end
  end.

Definition parse_digits (l : bytes) : option N :=
  match l with [] => None | _ => digits_val l 0%N end.

(* the syntax of strconv.ParseInt(s, 10, _) and big.Int.SetString(s, 10): [+-]? digit+ *)
Definition parse_int (s : bytes) : option Z :=
  match s with
  | [] => None
  | x :: r =>
      if Byte.eqb x b_minus then match parse_digits r with Some n => Some (- Z.of_N n) | None => None end
      else if Byte.eqb x b_plus then match parse_digits r with Some n => Some (Z.of_N n) | None => None end
      else match parse_digits s with Some n => Some (Z.of_N n) | None => None end
  end.

(* strconv.ParseUint: no sign *)
Definition parse_uint (s : bytes) : option Z :=
  match parse_digits s with Some n => Some (Z.of_N n) | None => None end.

Definition bits_or_64 (bits : Z) : Z := if bits =? 0 then 64 else bits.

Definition go_parse_int (s : bytes) (bits : Z) : option Z :=
  match parse_int s with
  | Some z => let b := bits_or_64 bits in
              if (- 2 ^ (b - 1) <=? z) && (z <=? 2 ^ (b - 1) - 1) then Some z else None
  | None => None
  end.

Definition go_parse_uint (s : bytes) (bits : Z) : option Z :=
  match parse_uint s with
  | Some z => if z <=? 2 ^ bits_or_64 bits - 1 then Some z else None
  | None => None
  end.

Definition bs (s : bstr) : bytes := bstr_to s.
Arguments bs s%bstr_scope.

Definition mem_bytes (s : bytes) (l : list bytes) : bool := existsb (bytes_eqb s) l.

(* strconv.ParseBool *)
Definition parse_bool (s : bytes) : option bool :=
  if mem_bytes s [bs "1"; bs "t"; bs "T"; bs "TRUE"; bs "true"; bs "True"] then Some true
  else if mem_bytes s [bs "0"; bs "f"; bs "F"; bs "FALSE"; bs "false"; bs "False"] then Some false
  else None.

(* big_decoder.go: the cost limits of the exact destinations (read from the source into the tables:
   AReadBigFloatInt / PsBigGuarded carry them) *)
Definition max_bigint_bits : N := 65536.
Definition max_text_exponent : N := 16384.

(* exponentTooLarge(s): the text after the last exponent mark (e E p P; only p P behind a 0x prefix), when it is
   a decimal int64, exceeds the limit in magnitude *)
Definition exp_mark (hex : bool) (b : byte) : bool :=
  Byte.eqb b "p" || Byte.eqb b "P" || (negb hex && (Byte.eqb b "e" || Byte.eqb b "E")).

Fixpoint after_last_mark (hex : bool) (s : bytes) : option bytes :=
  match s with
  | [] => None
  | x :: r => match after_last_mark hex r with
              | Some t => Some t
              | None => if exp_mark hex x then Some r else None
              end
  end.

Definition hex_prefix (s : bytes) : bool :=
  let m := match s with x :: r => if Byte.eqb x b_plus || Byte.eqb x b_minus then r else s | [] => s end in
  match m with
  | a :: b :: _ => Byte.eqb a "0" && (Byte.eqb b "x" || Byte.eqb b "X")
  | _ => false
  end.

Definition exponent_too_large (limit : N) (s : bytes) : bool :=
  match after_last_mark (hex_prefix s) s with
  | None => false
  | Some t => match go_parse_int t 64 with
              | Some n => (Z.of_N limit <? n) || (n <? - Z.of_N limit)
              | None => false
              end
  end.

(* ------------------------------------------------------------------ oracles (standard library, hardware)
   One function parameter: [orc fn arg] = the status byte '+' (success) or '!' (the Go function
   reported failure) followed by the result text; None = not in the table.  The functions:
     pf64/pf32  strconv.ParseFloat(arg, bits), result formatted with FormatFloat(f, 'g', -1, bits)
                as N | P | M | F<text>
     f2i:<kind> T(f) for f = ParseFloat(arg, 64): the Go (hardware) float-to-integer conversion
     pc64/pc128 complexconv.ParseComplex: <re>,<im>
     bf         new(big.Float).SetString(arg) -> Text('g', -1);  bfint: its Int(nil);  bfexp: its MantExp(nil)
     nf         big.NewFloat(float64(arg as int64)).Text('g', -1)
     rat        new(big.Rat).SetString(arg).String();  ratf: SetFloat64(ParseFloat(arg, 64))
     unix       time.Unix(0, arg) in the Local zone: y,mo,d,h,mi,s,ns,utc
     ptime      Decoder.stringToTime(arg): the same fields
     tstr       Time.String() of the time whose fields are arg
     uuid       uuid.Parse(arg) -> canonical text
   Laws used by the theorems are stated where they are used. *)

Inductive ores := OMiss | OFail | OVal (payload : bytes).

Section Oracle.
Variable orc : bytes -> bytes -> option bytes.

Definition o_call (fn arg : bytes) : ores :=
  match orc fn arg with
  | None => OMiss
  | Some [] => OFail
  | Some (x :: r) => if Byte.eqb x b_plus then OVal r else OFail
  end.

Definition fval_of_payload (p : bytes) : option fval :=
  match p with
  | x :: r =>
      if Byte.eqb x "N" then Some FNaN
      else if Byte.eqb x "P" then Some (FInf false)
      else if Byte.eqb x "M" then Some (FInf true)
      else if Byte.eqb x "F" then Some (FFin r)
      else None
  | [] => None
  end.

(* split at the first comma *)
Fixpoint split_comma (l : bytes) : bytes * bytes :=
  match l with
  | [] => ([], [])
  | x :: r => if Byte.eqb x "," then ([], r) else let '(a, b) := split_comma r in (x :: a, b)
  end.

Fixpoint split_all (fuel : nat) (l : bytes) : list bytes :=
  match fuel with
  | O => [l]
  | S f => let '(a, b) := split_comma l in
           match b with [] => if existsb (Byte.eqb ",") l then [a; []] else [a] | _ => a :: split_all f b end
  end.

Definition z_of_text (t : bytes) : option Z :=
  match scanZ t with Some (z, []) => Some z | _ => None end.

Inductive oresult (A : Type) := ROk (a : A) | RFail | RMiss (fn arg : bytes).
Arguments ROk {A}. Arguments RFail {A}. Arguments RMiss {A}.

Definition o_float (b32 : bool) (txt : bytes) : oresult fval :=
  let fn := if b32 then bs "pf32" else bs "pf64" in
  match o_call fn txt with
  | OMiss => RMiss fn txt
  | OFail => RFail
  | OVal p => match fval_of_payload p with Some f => ROk f | None => RMiss fn txt end
  end.

Definition ik_name (k : ikind) : bytes :=
  match k with
  | KInt => bs "int" | KInt8 => bs "int8" | KInt16 => bs "int16" | KInt32 => bs "int32" | KInt64 => bs "int64"
  | KUint => bs "uint" | KUint8 => bs "uint8" | KUint16 => bs "uint16" | KUint32 => bs "uint32"
  | KUint64 => bs "uint64" | KUintptr => bs "uintptr"
  end.

Definition o_int (fn arg : bytes) : oresult Z :=
  match o_call fn arg with
  | OMiss => RMiss fn arg
  | OFail => RFail
  | OVal p => match z_of_text p with Some z => ROk z | None => RMiss fn arg end
  end.

Definition o_f2i (k : ikind) (txt : bytes) : oresult Z := o_int (bs "f2i:" ++ ik_name k) txt.

Definition o_text (fn arg : bytes) : oresult bytes :=
  match o_call fn arg with OMiss => RMiss fn arg | OFail => RFail | OVal p => ROk p end.

Definition o_complex (b64 : bool) (s : bytes) : oresult (fval * fval) :=
  let fn := if b64 then bs "pc64" else bs "pc128" in
  match o_call fn s with
  | OMiss => RMiss fn s
  | OFail => RFail
  | OVal p => let '(a, b) := split_comma p in
              match fval_of_payload a, fval_of_payload b with
              | Some re, Some im => ROk (re, im)
              | _, _ => RMiss fn s
              end
  end.

Definition time_of_payload (p : bytes) : option xval :=
  match map z_of_text (split_all 9 p) with
  | [Some y; Some mo; Some d; Some h; Some mi; Some s; Some ns; Some u] => Some (XTime y mo d h mi s ns (negb (u =? 0)))
  | _ => None
  end.

Definition o_time (fn arg : bytes) : oresult xval :=
  match o_call fn arg with
  | OMiss => RMiss fn arg
  | OFail => RFail
  | OVal p => match time_of_payload p with Some t => ROk t | None => RMiss fn arg end
  end.

End Oracle.
Arguments ROk {A}. Arguments RFail {A}. Arguments RMiss {A}.

(* ------------------------------------------------------------------ dates, uuids *)

Definition is_leap (y : Z) : bool := ((y mod 4 =? 0) && negb (y mod 100 =? 0)) || (y mod 400 =? 0).
Definition days_in (y mo : Z) : Z :=
  if (mo =? 2) then (if is_leap y then 29 else 28)
  else if (mo =? 4) || (mo =? 6) || (mo =? 9) || (mo =? 11) then 30 else 31.
Definition valid_date (y mo d : N) : bool :=
  let y := Z.of_N y in let mo := Z.of_N mo in let d := Z.of_N d in
  (1 <=? mo) && (mo <=? 12) && (1 <=? d) && (d <=? days_in y mo).
Definition valid_clock (h mi s : N) : bool := ((h <? 24) && (mi <? 60) && (s <? 60))%N.

Definition nsec_of (fr : list N) : Z :=
  match fr with
  | [] => 0
  | [a] => Z.of_N a * 1000000
  | [a; b] => Z.of_N a * 1000000 + Z.of_N b * 1000
  | a :: b :: c :: _ => Z.of_N a * 1000000 + Z.of_N b * 1000 + Z.of_N c
  end.

(* readDateTime / readTime: time.Date(...) of the fields (no normalisation needed on valid fields) *)
Definition time_of_date (y mo d : N) (tm : option (N * N * N * list N)) (utc : bool) : xval :=
  match tm with
  | None => XTime (Z.of_N y) (Z.of_N mo) (Z.of_N d) 0 0 0 0 utc
  | Some (h, mi, s, fr) => XTime (Z.of_N y) (Z.of_N mo) (Z.of_N d) (Z.of_N h) (Z.of_N mi) (Z.of_N s) (nsec_of fr) utc
  end.
Definition time_of_clock (h mi s : N) (fr : list N) (utc : bool) : xval :=
  XTime 1970 1 1 (Z.of_N h) (Z.of_N mi) (Z.of_N s) (nsec_of fr) utc.

Definition hex_val (b : byte) : option N :=
  let n := Byte.to_N b in
  if ((48 <=? n) && (n <=? 57))%N then Some (n - 48)%N
  else if ((97 <=? n) && (n <=? 102))%N then Some (n - 87)%N
  else if ((65 <=? n) && (n <=? 70))%N then Some (n - 55)%N
  else None.
Definition is_hex (b : byte) : bool := match hex_val b with Some _ => true | None => false end.
Definition lower (b : byte) : byte :=
  let n := Byte.to_N b in
  if ((65 <=? n) && (n <=? 90))%N then match Byte.of_N (n + 32) with Some c => c | None => b end else b.

Fixpoint uuid_shape (i : nat) (g : bytes) : bool :=
  match g with
  | [] => Nat.eqb i 36
  | x :: r =>
      (if Nat.eqb i 8 || Nat.eqb i 13 || Nat.eqb i 18 || Nat.eqb i 23 then Byte.eqb x b_minus else is_hex x)
      && uuid_shape (S i) r
  end.
Definition uuid_syntax (g : bytes) : bool := uuid_shape 0 g.
Definition uuid_lower (g : bytes) : bytes := map lower g.

Fixpoint hex_pairs (l : bytes) : list byte :=
  match l with
  | a :: b :: r =>
      match hex_val a, hex_val b with
      | Some x, Some y => match Byte.of_N (x * 16 + y) with Some c => c :: hex_pairs r | None => hex_pairs r end
      | _, _ => hex_pairs r
      end
  | _ => []
  end.
(* uuid.MarshalBinary: the 16 bytes *)
Definition uuid_binary (g : bytes) : bytes := hex_pairs (filter (fun x => negb (Byte.eqb x b_minus)) g).

Definition hex_digit (n : N) : byte :=
  match Byte.of_N (if (n <? 10)%N then n + 48 else n + 87)%N with Some c => c | None => "0"%byte end.
Fixpoint hex_text (i : nat) (l : bytes) : bytes :=
  match l with
  | [] => []
  | x :: r =>
      let n := Byte.to_N x in
      (if Nat.eqb i 4 || Nat.eqb i 6 || Nat.eqb i 8 || Nat.eqb i 10 then [b_minus] else []) ++
      hex_digit (n / 16) :: hex_digit (n mod 16) :: hex_text (S i) r
  end.
(* uuid of 16 raw bytes, as text *)
Definition uuid_of_binary (b : bytes) : bytes := hex_text 0 b.
Definition uuid_nil : bytes := bs "00000000-0000-0000-0000-000000000000".

(* ------------------------------------------------------------------ memory *)

Fixpoint upd_nth {A} (n : nat) (x : A) (l : list A) : option (list A) :=
  match l, n with
  | [], _ => None
  | _ :: r, O => Some (x :: r)
  | y :: r, S m => match upd_nth m x r with Some r' => Some (y :: r') | None => None end
  end.

Fixpoint rd_path (v : xval) (path : list nat) : option xval :=
  match path with
  | [] => Some v
  | i :: r =>
      match v with
      | XArr vs | XStruct _ vs => match nth_error vs i with Some e => rd_path e r | None => None end
      | _ => None
      end
  end.

Fixpoint wr_path (v : xval) (path : list nat) (nv : xval) : option xval :=
  match path with
  | [] => Some nv
  | i :: r =>
      match v with
      | XArr vs =>
          match nth_error vs i with
          | Some e => match wr_path e r nv with
                      | Some e' => match upd_nth i e' vs with Some vs' => Some (XArr vs') | None => None end
                      | None => None
                      end
          | None => None
          end
      | XStruct n vs =>
          match nth_error vs i with
          | Some e => match wr_path e r nv with
                      | Some e' => match upd_nth i e' vs with Some vs' => Some (XStruct n vs') | None => None end
                      | None => None
                      end
          | None => None
          end
      | _ => None
      end
  end.

Definition rd (m : list xval) (p : place) : option xval :=
  match nth_error m (fst p) with Some v => rd_path v (snd p) | None => None end.

Definition wr (m : list xval) (p : place) (nv : xval) : option (list xval) :=
  match nth_error m (fst p) with
  | Some v => match wr_path v (snd p) nv with Some v' => upd_nth (fst p) v' m | None => None end
  | None => None
  end.

Definition sub (p : place) (i : nat) : place := (fst p, snd p ++ [i]).

Definition st_alloc (st : dstate) (v : xval) : dstate * nat :=
  ({| mem := mem st ++ [v]; refs := refs st; clss := clss st |}, length (mem st)).

Definition st_wr (st : dstate) (p : place) (v : xval) : option dstate :=
  match wr (mem st) p v with
  | Some m' => Some {| mem := m'; refs := refs st; clss := clss st |}
  | None => None
  end.

Definition st_rd (st : dstate) (p : place) : option xval := rd (mem st) p.

Definition st_addref (st : dstate) (t : gtype) (v : xval) : dstate :=
  {| mem := mem st; refs := refs st ++ [{| r_ty := t; r_val := v |}]; clss := clss st |}.

Definition st_setref (st : dstate) (i : nat) (t : gtype) (v : xval) : dstate :=
  {| mem := mem st; refs := set_nth i {| r_ty := t; r_val := v |} (refs st); clss := clss st |}.

Definition st_addclass (st : dstate) (c : cinfo) : dstate :=
  {| mem := mem st; refs := refs st; clss := clss st ++ [c] |}.

(* ------------------------------------------------------------------ zero values *)

Definition fzero : fval := FFin [digit_of 0].
Definition fone : fval := FFin [digit_of 1].

Fixpoint zero_val (te : tenv) (fuel : nat) (t : gtype) {struct fuel} : xval :=
  match t with
  | TBool => XBool false
  | TInt k => XInt k 0
  | TF32 => XF32 fzero | TF64 => XF64 fzero
  | TC64 => XC64 fzero fzero | TC128 => XC128 fzero fzero
  | TString => XStr []
  | TBigInt => XBigInt 0
  | TBigFloat => XBigFloat [digit_of 0]
  | TBigRat => XBigRat (bs "0/1")
  | TTime => XTime 1 1 1 0 0 0 0 true
  | TUuid => XUuid uuid_nil
  | TArray n e =>
      match fuel with
      | O => XArr []
      | S f => XArr (repeat (zero_val te f e) n)
      end
  | TStruct name =>
      match fuel with
      | O => XStruct name []
      | S f =>
          match find_struct te name with
          | Some d => XStruct name (map (fun at_ => zero_val te f (snd at_)) d)
          | None => XStruct name []
          end
      end
  | TBytes | TSlice _ | TMap _ _ | TPtr _ | TIface | TList => XNil
  end.

(* ------------------------------------------------------------------ routes: type -> leaf routine
   leaf_top  : Decoder.decode       (fastDecode, fastDecodePtr, getValueDecoder)
   leaf_val  : getValueDecoder      (the elemDecoder of ptrDecoder)
   leaf_elem : GetDecodeHandler     (struct fields, slice/array elements, map keys and values)
   C06_routes_agree (over the regenerated tables) is what licenses one leaf per kind. *)

Inductive sleaf :=
| SBool | SInt (k : ikind) | SF32 | SF64 | SC64 | SC128 | SString | SBytes | STime | SUuid
| SBigIntP | SBigFloatP | SBigRatP          (* destinations *big.Int ...: decodeBigInt ... *)
| SBigIntV | SBigFloatV | SBigRatV          (* destinations big.Int ...: decodeBigIntValue ... *)
| SIface.

Inductive leaf :=
| LS (s : sleaf)                 (* decodeX *)
| LSPtr (s : sleaf)              (* decodeXPtr: 'n' -> nil, else a fresh variable *)
| LGenPtr (e : gtype)            (* ptrDecoder: 'n' -> nil, else reuse or allocate the pointee *)
| LSlice (e : gtype) | LArray (n : nat) (e : gtype) | LByteArray (n : nat)
| LMap (k v : gtype) | LStruct (name : bytes) | LList.

Inductive route := RTop | RVal | RElem.

(* scalar types with a decodeX / decodeXPtr pair reachable from the type switches *)
Definition sleaf_of (t : gtype) : option sleaf :=
  match t with
  | TBool => Some SBool | TInt k => Some (SInt k) | TF32 => Some SF32 | TF64 => Some SF64
  | TC64 => Some SC64 | TC128 => Some SC128 | TString => Some SString | TBytes => Some SBytes
  | TTime => Some STime | TUuid => Some SUuid
  | TBigInt => Some SBigIntV | TBigFloat => Some SBigFloatV | TBigRat => Some SBigRatV
  | TIface => Some SIface
  | TSlice (TInt KUint8) => Some SBytes      (* getSliceDecoder: element kind uint8 -> bytesDecoder *)
  | _ => None
  end.

(* getPtrDecoder / fastDecodePtr for *t *)
Definition ptr_leaf (r : route) (t : gtype) : leaf :=
  match t with
  | TBigInt => LS SBigIntP | TBigFloat => LS SBigFloatP | TBigRat => LS SBigRatP   (* registered: *big.X *)
  | TBool | TInt _ | TF32 | TF64 | TC64 | TC128 | TString | TIface =>
      match sleaf_of t with Some s => LSPtr s | None => LGenPtr t end
  | TBytes => LSPtr SBytes                                    (* registered bytesPtrDecoder / fastDecodePtr *)
  | TTime => match r with RTop => LSPtr STime | _ => LGenPtr t end   (* **time.Time only in fastDecodePtr *)
  | TUuid => match r with RTop => LSPtr SUuid | _ => LGenPtr t end
  | _ => LGenPtr t
  end.

Definition leaf_of (r : route) (t : gtype) : leaf :=
  match t with
  | TPtr e => ptr_leaf r e
  | TSlice (TInt KUint8) => LS SBytes
  | TSlice e => LSlice e
  | TArray n (TInt KUint8) => LByteArray n
  | TArray n e => LArray n e
  | TMap k v => LMap k v
  | TStruct name => LStruct name
  | TList => LList
  | _ => match sleaf_of t with Some s => LS s | None => LList end
  end.

(* ------------------------------------------------------------------ tokens *)

Definition tg (b : byte) : N := Byte.to_N b.

Definition tag_of (w : wire) : N :=
  match w with
  | WNull => tg "n" | WEmpty => tg "e" | WTrue => tg "t" | WFalse => tg "f" | WNaN => tg "N"
  | WInf _ => tg "I" | WDigit d => (48 + d)%N | WInt _ => tg "i" | WLong _ => tg "l"
  | WDouble _ => tg "d" | WChar _ => tg "u" | WStr _ => tg "s" | WBytes _ => tg "b"
  | WGuid _ => tg "g" | WDate _ _ _ _ _ => tg "D" | WTime _ _ _ _ _ => tg "T"
  | WList _ => tg "a" | WMap _ => tg "m" | WClass _ _ _ => tg "c" | WObj _ _ => tg "o"
  | WRef _ => tg "r" | WErr _ => tg "E"
  end.

(* the text between the tag and ';' *)
Definition num_text (w : wire) : bytes :=
  match w with
  | WInt z | WLong z => to_decZ z
  | WDouble txt => txt
  | _ => []
  end.

(* ------------------------------------------------------------------ the switch tables of the model
   (one per Go routine; C06_switch_matches_model: equal to the regenerated tables) *)

Inductive routine :=
| RtBool | RtInt (k : ikind) | RtF32 | RtF64 | RtC64 | RtC128
| RtBigInt | RtBigFloat | RtBigRat | RtString | RtBytes | RtTime | RtUuid | RtIface
| RtDefault | RtSlice | RtArray | RtByteArray | RtMap | RtStruct | RtList | RtPtr.

Definition on (tags : list byte) (a : action) : list (N * action) := map (fun b => (tg b, a)) tags.
Definition digit_tags : list byte := ["0"; "1"; "2"; "3"; "4"; "5"; "6"; "7"; "8"; "9"]%byte.

Definition int_bits (k : ikind) : Z :=
  match k with
  | KInt | KUint => 0 | KInt8 | KUint8 => 8 | KInt16 | KUint16 => 16 | KInt32 | KUint32 => 32
  | KInt64 | KUint64 | KUintptr => 64
  end.
(* the reader an integer routine calls: decodeUintptr uses uintptr(dec.ReadUint64()) *)
Definition int_reader (k : ikind) : ikind := match k with KUintptr => KUint64 | _ => k end.

Definition sw (cases : list (N * action)) : switch := {| sw_cases := cases; sw_default := ADefault |}.

Definition model_switch (r : routine) : switch :=
  match r with
  | RtBool => sw (
      on digit_tags (ADigit NtBool) ++ on ["n"; "e"; "f"]%byte (AConst CFalse) ++ on ["t"; "N"]%byte (AConst CTrue) ++
      on ["i"; "l"; "d"]%byte ABoolText ++ on ["I"]%byte ASkipTrue ++
      on ["u"]%byte (AParseChar PBool 0 NtBool) ++ on ["s"]%byte (AParseStr PBool 0 NtBool))
  | RtInt k =>
      let p := if ik_signed k then PInt else PUint in
      sw (
      on digit_tags (ADigit (NtI k)) ++ on ["n"; "e"; "f"]%byte (AConst C0) ++ on ["t"]%byte (AConst C1) ++
      on ["i"; "l"]%byte (AReadInt (int_reader k) (NtI k)) ++ on ["d"]%byte (AReadFloat false (NtI k)) ++
      on ["u"]%byte (AParseChar p (int_bits k) (NtI k)) ++ on ["s"]%byte (AParseStr p (int_bits k) (NtI k)))
  | RtF32 => sw (
      on digit_tags (ADigit NtF32) ++ on ["n"; "e"; "f"]%byte (AConst C0) ++ on ["t"]%byte (AConst C1) ++
      on ["i"]%byte (AReadInt KInt NtF32) ++ on ["l"; "d"]%byte (AReadFloat true NtF32) ++
      on ["N"]%byte (ANaN NtF32) ++ on ["I"]%byte (AInf NtF32) ++
      on ["u"]%byte (AParseChar PF32 0 NtF32) ++ on ["s"]%byte (AParseStr PF32 0 NtF32))
  | RtF64 => sw (
      on digit_tags (ADigit NtF64) ++ on ["n"; "e"; "f"]%byte (AConst C0) ++ on ["t"]%byte (AConst C1) ++
      on ["i"]%byte (AReadInt KInt NtF64) ++ on ["l"; "d"]%byte (AReadFloat false NtF64) ++
      on ["N"]%byte (ANaN NtF64) ++ on ["I"]%byte (AInf NtF64) ++
      on ["u"]%byte (AParseChar PF64 0 NtF64) ++ on ["s"]%byte (AParseStr PF64 0 NtF64))
  | RtC64 => sw (
      on digit_tags (ADigit NtC64) ++ on ["n"; "e"; "f"]%byte (AConst C0) ++ on ["t"]%byte (AConst C1) ++
      on ["N"]%byte (ANaN NtC64) ++ on ["i"]%byte (AReadInt KInt32 NtC64) ++
      on ["l"; "d"]%byte (AReadFloat true NtC64) ++ on ["I"]%byte (AInf NtC64) ++ on ["a"]%byte (ACall FComplexList) ++
      on ["u"]%byte (AParseChar PC64 0 NtC64) ++ on ["s"]%byte (AParseStr PC64 0 NtC64))
  | RtC128 => sw (
      on digit_tags (ADigit NtC128) ++ on ["e"; "f"]%byte (AConst C0) ++ on ["t"]%byte (AConst C1) ++
      on ["N"]%byte (ANaN NtC128) ++ on ["i"]%byte (AReadInt KInt32 NtC128) ++
      on ["l"; "d"]%byte (AReadFloat false NtC128) ++ on ["I"]%byte (AInf NtC128) ++ on ["a"]%byte (ACall FComplexList) ++
      on ["u"]%byte (AParseChar PC128 0 NtC128) ++ on ["s"]%byte (AParseStr PC128 0 NtC128))
  | RtBigInt => sw (
      on digit_tags (ADigit NtBigInt) ++ on ["n"]%byte (AConst CNil) ++ on ["e"; "f"]%byte (AConst CBig0) ++
      on ["t"]%byte (AConst CBig1) ++ on ["i"]%byte (AReadInt KInt64 NtBigInt) ++
      on ["l"]%byte (AReadBigInt NtBigInt) ++ on ["d"]%byte (AReadBigFloatInt max_bigint_bits) ++
      on ["u"]%byte (AParseChar PBigInt 0 NtBigInt) ++ on ["s"]%byte (AParseStr PBigInt 0 NtBigInt))
  | RtBigFloat => sw (
      on digit_tags (ADigit NtBigFloat) ++ on ["n"]%byte (AConst CNil) ++ on ["e"; "f"]%byte (AConst CBig0) ++
      on ["t"]%byte (AConst CBig1) ++ on ["i"]%byte (AReadInt KInt64 NtBigFloat) ++
      on ["l"; "d"]%byte (AReadBigFloat NtBigFloat) ++ on ["I"]%byte (AInf NtBigFloat) ++
      on ["u"]%byte (AParseChar PBigFloat 0 NtBigFloat) ++ on ["s"]%byte (AParseStr PBigFloat 0 NtBigFloat))
  | RtBigRat => sw (
      on digit_tags (ADigit NtBigRat) ++ on ["n"]%byte (AConst CNil) ++ on ["e"; "f"]%byte (AConst CBig0) ++
      on ["t"]%byte (AConst CBig1) ++ on ["i"]%byte (AReadInt KInt64 NtBigRat) ++
      on ["l"]%byte (AReadBigInt NtBigRat) ++ on ["d"]%byte (AReadFloat false NtBigRat) ++
      on ["u"]%byte (AParseChar PBigRat 0 NtBigRat) ++ on ["s"]%byte (AParseStr PBigRat 0 NtBigRat))
  | RtString => sw (
      on digit_tags (ADigit NtStr) ++ on ["n"; "e"]%byte (AConst CStrEmpty) ++ on ["t"]%byte (AConst CStrTrue) ++
      on ["f"]%byte (AConst CStrFalse) ++ on ["N"]%byte (AConst CStrNaN) ++ on ["I"]%byte (ARead RInf) ++
      on ["i"; "l"; "d"]%byte (ARead RUntil) ++ on ["u"]%byte (ARead RChar) ++ on ["s"]%byte (ARead RString) ++
      on ["b"]%byte (ARead RBytes) ++ on ["T"]%byte (ARead RTime) ++ on ["D"]%byte (ARead RDate) ++
      on ["g"]%byte (ARead RGuid))
  | RtBytes => sw (
      on ["n"]%byte (AConst CNil) ++ on ["e"]%byte (AConst CBytesEmpty) ++ on ["b"]%byte (ARead RBytes) ++
      on ["a"]%byte (ARead RUint8Slice) ++ on ["u"]%byte (ARead RChar) ++ on ["s"]%byte (ARead RString) ++
      on ["g"]%byte (ARead RGuid))
  | RtTime => sw (
      on digit_tags (ADigit NtTime) ++ on ["n"; "e"; "f"]%byte (AConst CTime0) ++ on ["t"]%byte (AConst CTime1) ++
      on ["i"; "l"]%byte (AReadInt KInt64 NtTime) ++ on ["d"]%byte (AReadFloat false NtTime) ++
      on ["T"]%byte (ARead RTime) ++ on ["D"]%byte (ARead RDate) ++ on ["s"]%byte (AParseStr PTime 0 NtTime))
  | RtUuid => sw (
      on ["e"; "n"]%byte (AConst CUuidNil) ++ on ["g"]%byte (ARead RGuid) ++ on ["b"]%byte (ARead RBytes) ++
      on ["s"]%byte (AParseStr PUuid 0 NtUuid))
  | RtIface => {| sw_cases :=
      on digit_tags (ADigit NtIface) ++ on ["n"]%byte (AConst CNil) ++ on ["e"]%byte (AConst CStrEmpty) ++
      on ["f"]%byte (AConst CFalse) ++ on ["t"]%byte (AConst CTrue) ++ on ["i"]%byte (AReadInt KInt NtIface) ++
      on ["l"]%byte (ACall FLongAsIface) ++ on ["N"]%byte (ACall FNaNAsIface) ++ on ["I"]%byte (ACall FInfAsIface) ++
      on ["d"]%byte (ACall FDoubleAsIface) ++ on ["T"]%byte (ARead RTime) ++ on ["D"]%byte (ARead RDate) ++
      on ["g"]%byte (ARead RGuid) ++ on ["u"]%byte (ARead RChar) ++ on ["s"]%byte (ARead RString) ++
      on ["b"]%byte (ARead RBytes) ++ on ["a"]%byte (ACall FListAsIface) ++ on ["m"]%byte (ACall FMapAsIface) ++
      on ["o"]%byte (ACall FReadObject) ++ on ["r"]%byte (ACall FReadReference) ++
      on ["c"]%byte (ACall FClassThenDecode) ++ on ["E"]%byte (ACall FErrorString);
      sw_default := AInvalidTag |}
  | RtDefault => {| sw_cases :=
      on ["r"]%byte (ACall FReadReference) ++ on ["c"]%byte (ACall FClassThenDecode) ++
      on ["E"]%byte (ACall FErrorString);
      sw_default := ACall FDecodeError |}
  | RtSlice => sw (on ["n"]%byte (AConst CNil) ++ on ["e"]%byte (AConst CEmptySlice) ++ on ["a"]%byte (ACall FSliceList))
  | RtArray => sw (on ["n"; "e"]%byte (AConst CZero) ++ on ["a"]%byte (ACall FArrayList))
  | RtByteArray => {| sw_cases :=
      on ["b"]%byte (ACall FByteArrayBytes) ++ on ["u"]%byte (ACall FByteArrayChar) ++
      on ["s"]%byte (ACall FByteArrayString);
      sw_default := ACall FArrayFallback |}
  | RtMap => sw (
      on ["n"]%byte (AConst CNil) ++ on ["m"]%byte (ACall FMap) ++ on ["e"]%byte (AConst CEmptyMap) ++
      on ["a"]%byte (ACall FListAsMap) ++ on ["o"]%byte (ACall FObjectAsMap))
  | RtStruct => sw (on ["o"]%byte (ACall FObject) ++ on ["m"]%byte (ACall FMapAsObject) ++ on ["e"]%byte (AConst CZero))
  | RtList => sw (on ["n"]%byte (AConst CNil) ++ on ["e"]%byte (AConst CNewList) ++ on ["a"]%byte (ACall FListList))
  | RtPtr => {| sw_cases := on ["n"]%byte (ACall FPtrNull) ++ on ["r"]%byte (ACall FPtrRef); sw_default := ACall FPtrElem |}
  end.

(* switches on decoder options inside decodeInterface's helpers *)
Definition long_action (l : longty) : action :=
  match l with
  | LtInt => AReadInt KInt NtIface | LtUint => AReadInt KUint NtIface
  | LtInt64 => AReadInt KInt64 NtIface | LtUint64 => AReadInt KUint64 NtIface
  | LtBigInt => AReadBigInt NtIface
  end.
Definition nan_action (r : realty) : action :=
  match r with RlF32 => ANaN NtF32 | RlF64 => ANaN NtF64 | RlBigFloat => AFail end.
Definition inf_action (r : realty) : action :=
  match r with RlF32 => AInf NtF32 | RlF64 => AInf NtF64 | RlBigFloat => AInf NtBigFloat end.
Definition double_action (r : realty) : action :=
  match r with RlF32 => AReadFloat true NtIface | RlF64 => AReadFloat false NtIface | RlBigFloat => AReadBigFloat NtIface end.

Definition routine_of (s : sleaf) : routine :=
  match s with
  | SBool => RtBool | SInt k => RtInt k | SF32 => RtF32 | SF64 => RtF64 | SC64 => RtC64 | SC128 => RtC128
  | SString => RtString | SBytes => RtBytes | STime => RtTime | SUuid => RtUuid
  | SBigIntP | SBigIntV => RtBigInt | SBigFloatP | SBigFloatV => RtBigFloat | SBigRatP | SBigRatV => RtBigRat
  | SIface => RtIface
  end.

(* ------------------------------------------------------------------ one switch arm on a scalar token *)

Inductive sres :=
| SV (v : xval)              (* the value assigned to *p (resolved form: XPtr v = pointer to a fresh variable) *)
| SE (e : eclass)
| SMissO (fn arg : bytes)
| SDefaultArm
| SCallee (f : callee)
| SSlice8                    (* readUint8Slice *)
| SUnk (why : N).

Section Scalar.
Variable orc : bytes -> bytes -> option bytes.

Definition lift {A} (r : oresult A) (k : A -> sres) : sres :=
  match r with ROk a => k a | RFail => SE EParse | RMiss fn arg => SMissO fn arg end.

Definition comma : bytes := bs ",".
Definition time_fields_text (t : xval) : bytes :=
  match t with
  | XTime y mo d h mi s ns utc =>
      to_decZ y ++ comma ++ to_decZ mo ++ comma ++ to_decZ d ++ comma ++ to_decZ h ++ comma ++ to_decZ mi ++ comma ++
      to_decZ s ++ comma ++ to_decZ ns ++ comma ++ (if utc then bs "1" else bs "0")
  | _ => []
  end.

Definition unix_time (ns : Z) : sres := lift (o_time orc (bs "unix") (to_decZ ns)) SV.
Definition rat_of_int (z : Z) : xval := XBigRat (to_decZ z ++ bs "/1").
Definition inf_text (neg : bool) : bytes := if neg then bs "-Inf" else bs "+Inf".

(* the Go conversion named by [d] applied to the integer [v] that reader [r] returned *)
Definition conv_int (r : ikind) (d : nty) (v : Z) : sres :=
  match d with
  | NtI k => SV (XInt k (wrap_k k v))
  | NtF32 => lift (o_float orc true (to_decZ v)) (fun f => SV (XF32 f))
  | NtF64 => lift (o_float orc false (to_decZ v)) (fun f => SV (XF64 f))
  | NtC64 => lift (o_float orc true (to_decZ v)) (fun f => SV (XC64 f fzero))
  | NtC128 => lift (o_float orc false (to_decZ v)) (fun f => SV (XC128 f fzero))
  | NtBigInt => SV (XPtr (XBigInt v))
  | NtBigFloat => lift (o_text orc (bs "nf") (to_decZ v)) (fun t => SV (XPtr (XBigFloat t)))
  | NtBigRat => SV (XPtr (rat_of_int v))
  | NtTime => unix_time v
  | NtIface => SV (XInt r v)
  | NtBool => SV (XBool (negb (v =? 0)))
  | NtStr | NtUuid | NtBytes => SUnk 1
  end.

Definition digit_val_of (d : nty) (n : N) : sres :=
  let z := Z.of_N n in
  let t := [digit_of n] in
  match d with
  | NtBool => SV (XBool (0 <? z))
  | NtI k => SV (XInt k z)
  | NtF32 => SV (XF32 (FFin t)) | NtF64 => SV (XF64 (FFin t))
  | NtC64 => SV (XC64 (FFin t) fzero) | NtC128 => SV (XC128 (FFin t) fzero)
  | NtBigInt => SV (XPtr (XBigInt z))
  | NtBigFloat => SV (XPtr (XBigFloat t))
  | NtBigRat => SV (XPtr (rat_of_int z))
  | NtTime => unix_time z
  | NtStr => SV (XStr t)
  | NtIface => SV (XInt KInt z)
  | NtUuid | NtBytes => SUnk 1
  end.

Definition is_bigint (s : sleaf) : bool := match s with SBigIntP | SBigIntV => true | _ => false end.
Definition is_bigfloat (s : sleaf) : bool := match s with SBigFloatP | SBigFloatV => true | _ => false end.
Definition is_bigrat (s : sleaf) : bool := match s with SBigRatP | SBigRatV => true | _ => false end.

Definition num_const (s : sleaf) (one : bool) : sres :=
  let z := if one then 1 else 0 in
  let f := if one then fone else fzero in
  match s with
  | SInt k => SV (XInt k z)
  | SF32 => SV (XF32 f) | SF64 => SV (XF64 f)
  | SC64 => SV (XC64 f fzero) | SC128 => SV (XC128 f fzero)
  | _ => SUnk 2
  end.

Definition const_val (s : sleaf) (c : cst) : sres :=
  match c with
  | C0 => num_const s false
  | C1 => num_const s true
  | CFalse => SV (XBool false)
  | CTrue => SV (XBool true)
  | CNil => SV XNil
  | CStrEmpty => SV (XStr [])
  | CStrTrue => SV (XStr (bs "true"))
  | CStrFalse => SV (XStr (bs "false"))
  | CStrNaN => SV (XStr (bs "NaN"))
  | CNaN =>
      match s with
      | SF32 => SV (XF32 FNaN) | SF64 => SV (XF64 FNaN)
      | SC64 => SV (XC64 FNaN fzero) | SC128 => SV (XC128 FNaN fzero)
      | _ => SUnk 2
      end
  | CBytesEmpty => SV (XBytes [])
  | CUuidNil => SV (XUuid uuid_nil)
  | CBig0 =>
      if is_bigint s then SV (XPtr (XBigInt 0)) else if is_bigfloat s then SV (XPtr (XBigFloat [digit_of 0]))
      else if is_bigrat s then SV (XPtr (rat_of_int 0)) else SUnk 2
  | CBig1 =>
      if is_bigint s then SV (XPtr (XBigInt 1)) else if is_bigfloat s then SV (XPtr (XBigFloat [digit_of 1]))
      else if is_bigrat s then SV (XPtr (rat_of_int 1)) else SUnk 2
  | CTime0 => unix_time 0
  | CTime1 => unix_time 1
  | CZero | CEmptySlice | CEmptyMap | CNewList => SUnk 2
  end.

Definition conv_float (b32 : bool) (d : nty) (text : bytes) : sres :=
  lift (o_float orc b32 text) (fun f =>
    match d with
    | NtF32 => SV (XF32 f) | NtF64 => SV (XF64 f)
    | NtC64 => SV (XC64 f fzero) | NtC128 => SV (XC128 f fzero)
    | NtI k => lift (o_f2i orc k text) (fun z => SV (XInt k z))
    | NtTime => lift (o_f2i orc KInt64 text) unix_time
    | NtBigRat =>
        match o_text orc (bs "ratf") text with
        | ROk t => SV (XPtr (XBigRat t))
        | RFail => SV XNil
        | RMiss fn arg => SMissO fn arg
        end
    | NtIface => SV (if b32 then XF32 f else XF64 f)
    | _ => SUnk 3
    end).

Definition parse_str (p : pfn) (bits : Z) (d : nty) (s : bytes) : sres :=
  match p with
  | PBool => match parse_bool s with Some b => SV (XBool b) | None => SE EParse end
  | PInt =>
      match d, go_parse_int s bits with
      | NtI k, Some z => SV (XInt k z)
      | NtI _, None => SE EParse
      | _, _ => SUnk 4
      end
  | PUint =>
      match d, go_parse_uint s bits with
      | NtI k, Some z => SV (XInt k z)
      | NtI _, None => SE EParse
      | _, _ => SUnk 4
      end
  | PF32 => lift (o_float orc true s) (fun f => SV (XF32 f))
  | PF64 => lift (o_float orc false s) (fun f => SV (XF64 f))
  | PC64 => lift (o_complex orc true s) (fun c => SV (XC64 (fst c) (snd c)))
  | PC128 => lift (o_complex orc false s) (fun c => SV (XC128 (fst c) (snd c)))
  | PBigInt => match parse_int s with Some z => SV (XPtr (XBigInt z)) | None => SE EParse end
  | PBigFloat => lift (o_text orc (bs "bf") s) (fun t => SV (XPtr (XBigFloat t)))
  | PBigRat => if exponent_too_large max_text_exponent s then SE EParse
               else lift (o_text orc (bs "rat") s) (fun t => SV (XPtr (XBigRat t)))
  | PTime => lift (o_time orc (bs "ptime") s) SV
  | PUuid => lift (o_text orc (bs "uuid") s) (fun t => SV (XUuid t))
  end.

Definition read_src (s : sleaf) (src : rsrc) (w : wire) : sres :=
  match src, w with
  | RUntil, (WInt _ | WLong _ | WDouble _) => SV (XStr (num_text w))
  | RChar, WChar c => match s with SBytes => SV (XBytes c) | _ => SV (XStr c) end
  | RString, WStr str =>
      (* readStringAsBytes(0) / ToUnsafeBytes("") give a nil slice *)
      match s with SBytes => SV (match str with [] => XNil | _ => XBytes str end) | _ => SV (XStr str) end
  | RBytes, WBytes b =>
      match s with
      | SString => SV (XStr b)
      | SUuid => if Nat.eqb (length b) 16 then SV (XUuid (uuid_of_binary b))
                 else lift (o_text orc (bs "uuid") b) (fun t => SV (XUuid t))
      | _ => SV (XBytes b)
      end
  | RTime, WTime h mi sec fr utc =>
      if valid_clock h mi sec then
        let t := time_of_clock h mi sec fr utc in
        match s with
        | SString => lift (o_text orc (bs "tstr") (time_fields_text t)) (fun x => SV (XStr x))
        | _ => SV t
        end
      else SUnk 5
  | RDate, WDate y mo d tm utc =>
      if valid_date y mo d && match tm with Some (h, mi, sec, _) => valid_clock h mi sec | None => true end then
        let t := time_of_date y mo d tm utc in
        match s with
        | SString => lift (o_text orc (bs "tstr") (time_fields_text t)) (fun x => SV (XStr x))
        | _ => SV t
        end
      else SUnk 5
  | RGuid, WGuid g =>
      if uuid_syntax g then
        match s with
        | SString => SV (XStr (uuid_lower g))
        | SBytes => SV (XBytes (uuid_binary g))
        | _ => SV (XUuid (uuid_lower g))
        end
      else SE EParse
  | RInf, WInf neg => SV (XStr (inf_text neg))
  | RUint8Slice, WList _ => SSlice8
  | _, _ => SUnk 6
  end.

Definition run_action (s : sleaf) (a : action) (w : wire) : sres :=
  match a with
  | ADigit d => match w with WDigit n => digit_val_of d n | _ => SUnk 7 end
  | AConst c => const_val s c
  | AReadInt r d => match w with WInt z | WLong z => conv_int r d (wrap_k r z) | _ => SUnk 7 end
  | AReadFloat b32 d => match w with WInt _ | WLong _ | WDouble _ => conv_float b32 d (num_text w) | _ => SUnk 7 end
  | AReadBigInt d =>
      match w with
      | WInt z | WLong z =>
          match d with
          | NtBigInt | NtIface => SV (XPtr (XBigInt z))
          | NtBigRat => SV (XPtr (rat_of_int z))
          | _ => SUnk 8
          end
      | _ => SUnk 7
      end
  | AReadBigFloat d =>
      match w with
      | WInt _ | WLong _ | WDouble _ =>
          let text := num_text w in
          lift (o_text orc (bs "bf") text) (fun t =>
            match d with
            | NtBigFloat | NtIface => SV (XPtr (XBigFloat t))
            | _ => SUnk 8
            end)
      | _ => SUnk 7
      end
  | AReadBigFloatInt limit =>
      match w with
      | WInt _ | WLong _ | WDouble _ =>
          let text := num_text w in
          lift (o_text orc (bs "bf") text) (fun _ =>
          lift (o_int orc (bs "bfexp") text) (fun e =>
            if Z.of_N limit <? e then SE ECast      (* refused before bf.Int builds every bit *)
            else lift (o_int orc (bs "bfint") text) (fun z => SV (XPtr (XBigInt z)))))
      | _ => SUnk 7
      end
  | AParseChar p bits d => match w with WChar c => parse_str p bits d c | _ => SUnk 7 end
  | AParseStr p bits d => match w with WStr str => parse_str p bits d str | _ => SUnk 7 end
  | AInf d =>
      match w with
      | WInf neg =>
          match d with
          | NtF32 => SV (XF32 (FInf neg)) | NtF64 => SV (XF64 (FInf neg))
          | NtC64 => SV (XC64 (FInf neg) fzero) | NtC128 => SV (XC128 (FInf neg) fzero)
          | NtBigFloat => SV (XPtr (XBigFloat (inf_text neg)))
          | _ => SUnk 8
          end
      | _ => SUnk 7
      end
  | ANaN d =>
      match d with
      | NtF32 => SV (XF32 FNaN) | NtF64 => SV (XF64 FNaN)
      | NtC64 => SV (XC64 FNaN fzero) | NtC128 => SV (XC128 FNaN fzero)
      | _ => SUnk 8
      end
  | AFail => SE ENaNInf
  | ABoolText =>
      match num_text w with
      | [] => SV (XBool false)
      | [x] => SV (XBool (negb (Byte.eqb x "0")))
      | _ => SV (XBool true)
      end
  | ASkipTrue => SV (XBool true)
  | ARead src => read_src s src w
  | ACall f => SCallee f
  | ADefault => SDefaultArm
  | AInvalidTag => SE EInvalidTag
  | AUnknown _ => SUnk 9
  end.

End Scalar.

(* the value an interface{} holds: dynamic type of a scalar result *)
Definition box (v : xval) : xval :=
  match v with
  | XNil => XNil
  | XBool _ => XIface TBool v
  | XInt k _ => XIface (TInt k) v
  | XF32 _ => XIface TF32 v | XF64 _ => XIface TF64 v
  | XStr _ => XIface TString v
  | XBytes _ => XIface TBytes v
  | XTime _ _ _ _ _ _ _ _ => XIface TTime v
  | XUuid _ => XIface TUuid v
  | XPtr (XBigInt _) => XIface (TPtr TBigInt) v
  | XPtr (XBigFloat _) => XIface (TPtr TBigFloat) v
  | XPtr (XBigRat _) => XIface (TPtr TBigRat) v
  | _ => v
  end.

(* the interface{} value a referable scalar token leaves in the reference list *)
Definition token_ref (w : wire) : option rentry :=
  match w with
  | WStr s => Some {| r_ty := TString; r_val := XStr s |}
  | WBytes b => Some {| r_ty := TBytes; r_val := XBytes b |}
  | WGuid g => Some {| r_ty := TUuid; r_val := XUuid (uuid_lower g) |}
  | WDate y mo d tm utc => Some {| r_ty := TTime; r_val := time_of_date y mo d tm utc |}
  | WTime h mi s fr utc => Some {| r_ty := TTime; r_val := time_of_clock h mi s fr utc |}
  | _ => None
  end.

(* ------------------------------------------------------------------ the decoder proper *)

Definition bindd (r : dres) (k : dstate -> dres) : dres := match r with DOk st => k st | e => e end.

Definition wr_or_panic (st : dstate) (pl : place) (v : xval) : dres :=
  match st_wr st pl v with Some st' => DOk st' | None => DPanic PMem end.

(* store a resolved value: a fresh variable for every XPtr *)
Fixpoint inject (st : dstate) (v : xval) : dstate * xval :=
  match v with
  | XPtr x => let '(st1, x') := inject st x in let '(st2, c) := st_alloc st1 x' in (st2, XPtrTo c [])
  | XIface t x => let '(st1, x') := inject st x in (st1, XIface t x')
  | _ => (st, v)
  end.

(* Go map keys: == on the key type; unhashable dynamic types panic *)
Definition zero_text (t : bytes) : bool := bytes_eqb t (bs "0") || bytes_eqb t (bs "-0").
Definition fval_key_eqb (a b : fval) : bool :=
  match a, b with
  | FFin x, FFin y => bytes_eqb x y || (zero_text x && zero_text y)
  | FInf n, FInf m => Bool.eqb n m
  | _, _ => false
  end.

Fixpoint list_eqb {A} (f : A -> A -> bool) (a b : list A) : bool :=
  match a, b with
  | [], [] => true
  | x :: a', y :: b' => f x y && list_eqb f a' b'
  | _, _ => false
  end.

Fixpoint key_eqb (a b : xval) {struct a} : bool :=
  let fix all2 (xs ys : list xval) {struct xs} : bool :=
    match xs, ys with
    | [], [] => true
    | x :: xr, y :: yr => key_eqb x y && all2 xr yr
    | _, _ => false
    end in
  match a with
  | XNil => match b with XNil => true | _ => false end
  | XBool x => match b with XBool y => Bool.eqb x y | _ => false end
  | XInt k x => match b with XInt k' y => ikind_eqb k k' && (x =? y) | _ => false end
  | XF32 x => match b with XF32 y => fval_key_eqb x y | _ => false end
  | XF64 x => match b with XF64 y => fval_key_eqb x y | _ => false end
  | XC64 x1 x2 => match b with XC64 y1 y2 => fval_key_eqb x1 y1 && fval_key_eqb x2 y2 | _ => false end
  | XC128 x1 x2 => match b with XC128 y1 y2 => fval_key_eqb x1 y1 && fval_key_eqb x2 y2 | _ => false end
  | XStr x => match b with XStr y => bytes_eqb x y | _ => false end
  | XUuid x => match b with XUuid y => bytes_eqb x y | _ => false end
  | XTime y1 mo1 d1 h1 mi1 s1 ns1 u1 =>
      match b with
      | XTime y2 mo2 d2 h2 mi2 s2 ns2 u2 =>
          (y1 =? y2) && (mo1 =? mo2) && (d1 =? d2) && (h1 =? h2) && (mi1 =? mi2) && (s1 =? s2) && (ns1 =? ns2) && Bool.eqb u1 u2
      | _ => false
      end
  | XArr xs => match b with XArr ys => all2 xs ys | _ => false end
  | XStruct n xs => match b with XStruct n' ys => bytes_eqb n n' && all2 xs ys | _ => false end
  | XIface t x => match b with XIface t' y => gtype_eqb t t' && key_eqb x y | _ => false end
  | XPtrTo c p => match b with XPtrTo c' p' => Nat.eqb c c' && list_eqb Nat.eqb p p' | _ => false end
  | XListH c => match b with XListH c' => Nat.eqb c c' | _ => false end
  | _ => false
  end.

Fixpoint hashable (v : xval) : bool :=
  match v with
  | XSliceH _ _ | XMapH _ | XSlice _ | XMap _ | XBytes _ | XBigInt _ | XBigFloat _ | XBigRat _ => false
  | XIface t x => match t, x with TSlice _, XNil | TMap _ _, XNil | TBytes, XNil => false | _, _ => hashable x end
  | XArr vs | XStruct _ vs => forallb hashable vs
  | _ => true
  end.

Fixpoint kv_set (kvs : list (xval * xval)) (k v : xval) : list (xval * xval) :=
  match kvs with
  | [] => [(k, v)]
  | (k', v') :: r =>
      (* an equal key is overwritten too (runtime needkeyupdate: +0 and -0 are equal floats) *)
      if key_eqb k k' then (k, v) :: r else (k', v') :: kv_set r k v
  end.

Definition map_set (st : dstate) (c : nat) (k v : xval) : dres :=
  if hashable k then
    match nth_error (mem st) c with
    | Some (XMap kvs) => wr_or_panic st (c, []) (XMap (kv_set kvs k v))
    | _ => DPanic PMem
    end
  else DPanic PUnhashable.

(* reflect2 UnsafeGrow / calcNewCap *)
Fixpoint grow_cap (fuel cap expected : nat) : nat :=
  match fuel with
  | O => expected
  | S f => if Nat.leb expected cap then cap
           else grow_cap f (if Nat.ltb cap 1024 then cap + cap else cap + Nat.div cap 4)%nat expected
  end.
Definition calc_new_cap (cap expected : nat) : nat :=
  if Nat.eqb cap 0 then expected else grow_cap 64 cap expected.

Fixpoint strip_ptr (t : gtype) : gtype := match t with TPtr e => strip_ptr e | _ => t end.

Definition is_ptr_kind (t : gtype) : bool := match t with TPtr _ | TList => true | _ => false end.
Definition is_struct_ty (t : gtype) : bool := match t with TStruct _ => true | _ => false end.
Definition is_num_or_bool (t : gtype) : bool :=
  match t with TBool | TInt _ | TF32 | TF64 | TC64 | TC128 => true | _ => false end.
Definition str_registered_dest (t : gtype) : bool :=
  match t with
  | TBigInt | TBigFloat | TBigRat | TPtr TBigInt | TPtr TBigFloat | TPtr TBigRat | TBytes | TTime | TUuid => true
  | _ => false
  end.

(* GetConverter(src, dest) != nil *)
Definition conv_exists (s t : gtype) : bool :=
  (match s with TString => str_registered_dest t | TBytes => gtype_eqb t TString | _ => false end) ||
  match t with
  | TIface | TString | TPtr _ | TList => true
  | _ => gtype_eqb s t || gtype_eqb s (TPtr t) || (gtype_eqb s TString && is_num_or_bool t)
  end.

Definition fuel_zero : nat := 64.

Section Dec.
Variable orc : bytes -> bytes -> option bytes.
Variable opts : dopts.
Variable te : tenv.

Definition zero_of (t : gtype) : xval := zero_val te fuel_zero t.

Definition add_ref (st : dstate) (t : gtype) (v : xval) : dstate :=
  if o_simple opts then st else st_addref st t v.

Definition add_tok_ref (st : dstate) (w : wire) : dstate :=
  match token_ref w with Some e => add_ref st (r_ty e) (r_val e) | None => st end.

(* the result of a parser applied by a converter to a referenced string *)
Definition store_sres (r : sres) (deref : bool) (zero : xval) (pl : place) (st : dstate) : dres :=
  match r with
  | SV v =>
      let v1 := if deref then match v with XPtr x => x | XNil => zero | _ => v end else v in
      let '(st1, v2) := inject st v1 in wr_or_panic st1 pl v2
  | SE e => DErr e
  | SMissO fn arg => DMiss fn arg
  | SUnk n => DUnk n
  | _ => DUnk 30
  end.

(* converter.go: GetConverter(src, dest)(dec, o, p) *)
Fixpoint convert (s : gtype) (o : xval) (t : gtype) (pl : place) (st : dstate) {struct t} : dres :=
  let str := match o with XStr x => x | _ => [] end in
  if gtype_eqb s TString && str_registered_dest t then
    match t with
    | TBigInt => store_sres (parse_str orc PBigInt 0 NtBigInt str) true (XBigInt 0) pl st
    | TBigFloat => store_sres (parse_str orc PBigFloat 0 NtBigFloat str) true (zero_of TBigFloat) pl st
    | TBigRat => store_sres (parse_str orc PBigRat 0 NtBigRat str) true (zero_of TBigRat) pl st
    | TPtr TBigInt => store_sres (parse_str orc PBigInt 0 NtBigInt str) false XNil pl st
    | TPtr TBigFloat => store_sres (parse_str orc PBigFloat 0 NtBigFloat str) false XNil pl st
    | TPtr TBigRat => store_sres (parse_str orc PBigRat 0 NtBigRat str) false XNil pl st
    | TBytes => wr_or_panic st pl (match str with [] => XNil | _ => XBytes str end)
    | TTime => store_sres (parse_str orc PTime 0 NtTime str) false XNil pl st
    | _ => store_sres (parse_str orc PUuid 0 NtUuid str) false XNil pl st
    end
  else if gtype_eqb s TBytes && gtype_eqb t TString then
    wr_or_panic st pl (XStr (match o with XBytes b => b | _ => [] end))
  else
  match t with
  | TIface => wr_or_panic st pl (XIface s o)                       (* assignTo *)
  | TString =>                                                      (* strConverter *)
      match s with
      | TString => wr_or_panic st pl o
      | TTime => store_sres (lift (o_text orc (bs "tstr") (time_fields_text o)) (fun x => SV (XStr x))) false XNil pl st
      | TUuid => wr_or_panic st pl (XStr (match o with XUuid x => x | _ => [] end))
      | _ => DUnk 20                                               (* fmt.Sprint of a pointer / map / list *)
      end
  | TList => if gtype_eqb s TList then wr_or_panic st pl o else DUnk 21
  | TPtr d =>
      if gtype_eqb s t && is_struct_ty d then wr_or_panic st pl o   (* ptrCopy: alias *)
      else if gtype_eqb s d && negb (is_ptr_kind s) then
        (* pointer to a variable holding the value (for a map: reflect.New + Set) *)
        let '(st1, c) := st_alloc st o in wr_or_panic st1 pl (XPtrTo c [])
      else                                                          (* ptrConverter *)
        match st_rd st pl with
        | None => DPanic PMem
        | Some old =>
            let go (st1 : dstate) (target : place) :=
              if conv_exists s d then convert s o d target st1 else DOk st1 in
            match old with
            | XPtrTo c p => go st (c, p)
            | _ =>
                let '(st1, c) := st_alloc st (zero_of d) in
                bindd (wr_or_panic st1 pl (XPtrTo c [])) (fun st2 => go st2 (c, []))
            end
        end
  | _ =>
      if gtype_eqb s t || gtype_eqb s (TPtr t) then
        (* arrayCopy / sliceCopy / mapCopy / dataCopy: the current content behind a pointer, else the value *)
        match o with
        | XPtrTo c p =>
            if gtype_eqb s (TPtr t) then
              match st_rd st (c, p) with Some cur => wr_or_panic st pl cur | None => DPanic PMem end
            else wr_or_panic st pl o
        | _ => wr_or_panic st pl o           (* also a map value held directly by the reference list *)
        end
      else if gtype_eqb s TString && is_num_or_bool t then
        match sleaf_of t with
        | Some sl =>
            match sw_lookup (model_switch (routine_of sl)) (tg "s") with
            | AParseStr p bits d => store_sres (parse_str orc p bits d str) false XNil pl st
            | _ => DUnk 22
            end
        | None => DUnk 22
        end
      else DErr ECast
  end.

Variable rec : route -> gtype -> wire -> place -> dstate -> dres.

(* ReadStruct(t): field names are strings (references); the class resolves to the registered
   type of that name, else to the destination's struct type *)
Definition push_class (st : dstate) (name : bytes) (fields : list bytes) (t : gtype) : dstate :=
  let st1 := fold_left (fun s f => add_ref s TString (XStr f)) fields st in
  let typ := if mem_bytes name (o_registered opts) then Some name
             else match strip_ptr t with TStruct n => Some n | _ => None end in
  st_addclass st1 {| c_name := name; c_names := fields; c_type := typ |}.

Definition read_reference (t : gtype) (k : N) (pl : place) (st : dstate) : dres :=
  match nth_error (refs st) (N.to_nat k) with
  | None => DErr EOther        (* reference index out of range: a decode error *)
  | Some e => if conv_exists (r_ty e) t then convert (r_ty e) (r_val e) t pl st else DErr ECast
  end.

(* decodeError: the value is first decoded as interface{} (consuming it), then the cast error is set *)
Definition decode_error (w : wire) (st : dstate) : dres :=
  let '(st1, c) := st_alloc st XNil in
  match rec RTop TIface w (c, []) st1 with
  | DOk _ => DErr (match w with WNaN | WInf _ => ENaNInf | _ => ECast end)
  | other => other
  end.

Definition default_decode (t : gtype) (w : wire) (pl : place) (st : dstate) : dres :=
  match sw_lookup (model_switch RtDefault) (tag_of w), w with
  | ACall FReadReference, WRef k => read_reference t k pl st
  | ACall FClassThenDecode, WClass name fields next => rec RTop t next pl (push_class st name fields t)
  | ACall FErrorString, WErr _ => DErr ETagError
  | ACall FDecodeError, _ => decode_error w st
  | _, _ => DUnk 31
  end.

(* elements decoded one after another into consecutive places *)
Fixpoint dec_elems (e : gtype) (ws : list wire) (mk : nat -> place) (i : nat) (st : dstate) : dres :=
  match ws with
  | [] => DOk st
  | w :: r => bindd (rec RElem e w (mk i) st) (dec_elems e r mk (S i))
  end.

(* decode and discard: var v interface{}; dec.decodeInterface(dec.NextByte(), &v) *)
Definition skip_value (w : wire) (st : dstate) : dres :=
  let '(st1, c) := st_alloc st XNil in rec RElem TIface w (c, []) st1.

(* structDecoder.decodeField / readObject's field loop *)
Definition decode_field (d : sdef) (pl : place) (name : bytes) (w : wire) (st : dstate) : dres :=
  match find_field d name 0 with
  | Some (i, ft) => rec RElem ft w (sub pl i) st
  | None => skip_value w st
  end.

Fixpoint decode_fields (d : sdef) (pl : place) (names : list bytes) (ws : list wire) (st : dstate) : dres :=
  match names, ws with
  | [], [] => DOk st
  | n :: nr, w :: wr_ => bindd (decode_field d pl n w st) (decode_fields d pl nr wr_)
  | _, _ => DPanic PShape
  end.

(* sliceDecoder: UnsafeGrow(slice, count) *)
Definition slice_grow (e : gtype) (pl : place) (count : nat) (st : dstate) : dres * nat :=
  match st_rd st pl with
  | None => (DPanic PMem, O)
  | Some old =>
      let fresh (keep : list xval) (cap : nat) :=
        let newcap := calc_new_cap cap count in
        let '(st1, c) := st_alloc st (XArr (keep ++ repeat (zero_of e) (newcap - length keep))) in
        (wr_or_panic st1 pl (XSliceH c count), c) in
      match old with
      | XSliceH c len =>
          match nth_error (mem st) c with
          | Some (XArr vs) =>
              if Nat.leb count (length vs) then (wr_or_panic st pl (XSliceH c count), c)
              else fresh (firstn len vs) (length vs)
          | _ => (DPanic PMem, O)
          end
      | _ => if Nat.eqb count 0 then (DOk st, O) else fresh [] O
      end
  end.

Definition byte_elems (b : bytes) : list xval := map (fun x => XInt KUint8 (Z.of_N (Byte.to_N x))) b.

(* byteArrayDecoder.copy *)
Definition byte_array_copy (n : nat) (data : bytes) (pl : place) (st : dstate) : dres :=
  let d := firstn n data in
  wr_or_panic st pl (XArr (byte_elems d ++ repeat (XInt KUint8 0) (n - length d))).

Definition can_list_as_map (k : gtype) : bool :=
  match k with TString | TIface | TInt _ | TF32 | TF64 | TC64 | TC128 => true | _ => false end.

(* mapDecoder.convertKey *)
Definition convert_key (k : gtype) (i : nat) : sres :=
  let z := Z.of_nat i in
  match k with
  | TString => SV (XStr (to_decZ z))
  | TIface => SV (XIface (TInt KInt) (XInt KInt z))
  | TInt kk => SV (XInt kk (wrap_k kk z))
  | TF32 => conv_int orc KInt NtF32 z | TF64 => conv_int orc KInt NtF64 z
  | TC64 => conv_int orc KInt NtC64 z | TC128 => conv_int orc KInt NtC128 z
  | _ => SUnk 40
  end.

Definition iface_pack (ft : gtype) (v : xval) : xval :=
  match ft with TIface => v | _ => XIface ft v end.

Definition rd_or (st : dstate) (pl : place) (k : xval -> dres) : dres :=
  match st_rd st pl with Some v => k v | None => DPanic PMem end.

(* hashableType of map_decoder.go: slices and maps, also nested in arrays and structs, are not hashable *)
Fixpoint hashable_gtype (te : tenv) (fuel : nat) (t : gtype) {struct fuel} : bool :=
  match fuel with
  | O => true
  | S f =>
      match t with
      | TSlice _ | TMap _ _ | TBytes => false
      | TArray _ e => hashable_gtype te f e
      | TStruct n => match find_struct te n with
                     | Some d => forallb (fun at_ => hashable_gtype te f (snd at_)) d
                     | None => true
                     end
      | TBigInt | TBigFloat | TBigRat => false
      | _ => true
      end
  end.

(* hashableKey(key): by the dynamic type of the interface{} value *)
Definition hashable_dyn (te : tenv) (v : xval) : bool :=
  match v with XIface t _ => hashable_gtype te fuel_zero t | _ => true end.

(* needsFreshStorage(kind): pointer, slice, map, struct, array, interface kinds *)
Definition needs_fresh (t : gtype) : bool :=
  match t with TBool | TInt _ | TF32 | TF64 | TC64 | TC128 | TString => false | _ => true end.

(* storage for the next entry: a new variable for the kinds above, else the previous one *)
Definition next_temp (t : gtype) (first : bool) (prev : nat) (st : dstate) : dstate * nat :=
  if negb first && needs_fresh t then st_alloc st (zero_of t) else (st, prev).

Fixpoint map_pairs (k v : gtype) (mc kp vp : nat) (first : bool) (kvs : list wire) (st : dstate) : dres :=
  match kvs with
  | [] => DOk st
  | kw :: vw :: r =>
      let '(sta, kp) := next_temp k first kp st in
      let '(stb, vp) := next_temp v first vp sta in
      bindd (rec RElem k kw (kp, []) stb) (fun st1 =>
      bindd (rec RElem v vw (vp, []) st1) (fun st2 =>
      rd_or st2 (kp, []) (fun kx => rd_or st2 (vp, []) (fun vx =>
      (* interface{} keys: hashableKey of the key, else dec.Error (the entry is skipped) *)
      if match k with TIface => negb (hashable_dyn te kx) | _ => false end then DErr EOther
      else bindd (map_set st2 mc kx vx) (map_pairs k v mc kp vp false r)))))
  | _ => DPanic PShape
  end.

Fixpoint list_as_map (k v : gtype) (mc kp vp : nat) (ws : list wire) (i : nat) (st : dstate) : dres :=
  match ws with
  | [] => DOk st
  | w :: r =>
      match convert_key k i with
      | SV kx =>
          let '(sta, vp) := next_temp v (Nat.eqb i 0) vp st in
          bindd (wr_or_panic sta (kp, []) kx) (fun st0 =>
          bindd (rec RElem v w (vp, []) st0) (fun st1 =>
          rd_or st1 (vp, []) (fun vx =>
          bindd (map_set st1 mc kx vx) (list_as_map k v mc kp vp r (S i)))))
      | SMissO fn arg => DMiss fn arg
      | _ => DUnk 41
      end
  end.

Definition new_map (pl : place) (st : dstate) : dres * nat :=
  let '(st1, c) := st_alloc st (XMap []) in (wr_or_panic st1 pl (XMapH c), c).

(* decodeObjectAsMap: a class field of the resolved type is decoded with its field type and boxed;
   any other field is decoded as interface{}; the key has the map's key type *)
Definition obj_key (k : gtype) (n : bytes) : xval :=
  match k with TIface => XIface TString (XStr n) | _ => XStr n end.

Fixpoint obj_fields_as_map (k : gtype) (d : sdef) (mc : nat) (names : list bytes) (ws : list wire) (st : dstate) : dres :=
  match names, ws with
  | [], [] => DOk st
  | n :: nr, w :: wr_ =>
      match find_field d n 0 with
      | None =>
          let '(st1, vp) := st_alloc st XNil in
          bindd (rec RElem TIface w (vp, []) st1) (fun st2 =>
          rd_or st2 (vp, []) (fun vx =>
          bindd (map_set st2 mc (obj_key k n) vx) (obj_fields_as_map k d mc nr wr_)))
      | Some (_, ft) =>
          let '(st1, vp) := st_alloc st (zero_of ft) in
          bindd (rec RElem ft w (vp, []) st1) (fun st2 =>
          rd_or st2 (vp, []) (fun vx =>
          bindd (map_set st2 mc (obj_key k n) (iface_pack ft vx)) (obj_fields_as_map k d mc nr wr_)))
      end
  | _, _ => DPanic PShape
  end.

(* readObjectAsMap / decodeObjectAsMap without a type *)
Fixpoint obj_ifaces_as_map (k : gtype) (mc : nat) (names : list bytes) (ws : list wire) (st : dstate) : dres :=
  match names, ws with
  | [], [] => DOk st
  | n :: nr, w :: wr_ =>
      let '(st1, vp) := st_alloc st XNil in
      bindd (rec RElem TIface w (vp, []) st1) (fun st2 =>
      rd_or st2 (vp, []) (fun vx =>
      bindd (map_set st2 mc (obj_key k n) vx) (obj_ifaces_as_map k mc nr wr_)))
  | _, _ => DPanic PShape
  end.

Fixpoint map_as_object (d : sdef) (pl : place) (kvs : list wire) (st : dstate) : dres :=
  match kvs with
  | [] => DOk st
  | kw :: vw :: r =>
      let '(st1, np) := st_alloc st (XStr []) in
      bindd (rec RTop TString kw (np, []) st1) (fun st2 =>
      rd_or st2 (np, []) (fun nx =>
      bindd (decode_field d pl (match nx with XStr s => s | _ => [] end) vw st2) (map_as_object d pl r)))
  | _ => DPanic PShape
  end.

Fixpoint list_elems (lc : nat) (ws : list wire) (st : dstate) : dres :=
  match ws with
  | [] => DOk st
  | w :: r =>
      let '(st1, vp) := st_alloc st XNil in
      bindd (rec RElem TIface w (vp, []) st1) (fun st2 =>
      rd_or st2 (vp, []) (fun vx =>
      match nth_error (mem st2) lc with
      | Some (XList vs) => bindd (wr_or_panic st2 (lc, []) (XList (vs ++ [vx]))) (list_elems lc r)
      | _ => DPanic PMem
      end))
  end.

(* decodeListAsInterface under ListTypeSlice: the common dynamic type of the non-nil elements *)
Definition is_nil_iface (v : xval) : bool :=
  match v with
  | XNil => true
  | XIface (TPtr _ | TSlice _ | TMap _ _ | TBytes | TList | TIface) XNil => true
  | _ => false
  end.

Fixpoint common_type (vs : list xval) (acc : option gtype) : option (option gtype) :=
  match vs with
  | [] => Some acc
  | v :: r =>
      if is_nil_iface v then common_type r acc
      else match v with
           | XIface t _ =>
               match acc with
               | None => common_type r (Some t)
               | Some t0 => if gtype_eqb t t0 then common_type r acc else None
               end
           | _ => None
           end
  end.

Definition unbox_or_zero (t : gtype) (v : xval) : xval :=
  if is_nil_iface v then zero_of t else match v with XIface _ x => x | _ => v end.

End Dec.

(* ------------------------------------------------------------------ the leaf routines *)

Section Leaves.
Variable orc : bytes -> bytes -> option bytes.
Variable opts : dopts.
Variable te : tenv.
Variable rec : route -> gtype -> wire -> place -> dstate -> dres.

Local Notation zero_of := (zero_of te).
Local Notation add_ref := (add_ref opts).
Local Notation default_decode := (default_decode orc opts te rec).
Local Notation decode_error := (decode_error rec).

Definition class_info (st : dstate) (idx : N) (k : cinfo -> dres) : dres :=
  match nth_error (clss st) (N.to_nat idx) with Some ci => k ci | None => DErr EOther end.   (* class index out of range: a decode error *)

(* decodeListAsInterface after the []interface{} has been decoded into cell r0 *)
Definition list_as_iface_finish (r0 : nat) (n : nat) (pl : place) (st : dstate) : dres :=
  rd_or st (r0, []) (fun h =>
    let plain := wr_or_panic st pl (XIface (TSlice TIface) h) in
    if Nat.eqb n 0 || negb (o_listslice opts) then plain
    else
      match h with
      | XSliceH c len =>
          match nth_error (mem st) c with
          | Some (XArr vs) =>
              let els := firstn len vs in
              match common_type els None with
              | Some (Some t) =>
                  let '(st1, c') := st_alloc st (XArr (map (unbox_or_zero te t) els)) in
                  wr_or_panic st1 pl (XIface (TSlice t) (XSliceH c' len))
              | _ => plain
              end
          | _ => DPanic PMem
          end
      | _ => plain
      end).

(* the sub-routines of decodeInterface (and the 'r' / 'c' / 'E' arms shared with defaultDecode) *)
Definition iface_call (f : callee) (w : wire) (pl : place) (st : dstate) : dres :=
  match f, w with
  | FListAsIface, WList ws =>
      let '(st1, r0) := st_alloc st XNil in
      bindd (rec RTop (TSlice TIface) w (r0, []) st1) (list_as_iface_finish r0 (length ws) pl)
  | FMapAsIface, WMap _ =>
      let mt := if o_simap opts then TMap TString TIface else TMap TIface TIface in
      let '(st1, r0) := st_alloc st XNil in
      bindd (rec RTop mt w (r0, []) st1) (fun st2 =>
      rd_or st2 (r0, []) (fun h => wr_or_panic st2 pl (XIface mt h)))
  | FReadObject, WObj idx ws =>
      class_info st idx (fun ci =>
        match c_type ci with
        | None =>
            let '(st1, mc) := st_alloc st (XMap []) in
            let st2 := add_ref st1 (TMap TString TIface) (XMapH mc) in
            bindd (obj_ifaces_as_map rec TString mc (c_names ci) ws st2) (fun st3 =>
            wr_or_panic st3 pl (XIface (TMap TString TIface) (XMapH mc)))
        | Some tn =>
            match find_struct te tn with
            | None => DUnk 50
            | Some d =>
                let '(st1, oc) := st_alloc st (zero_of (TStruct tn)) in
                let st2 := add_ref st1 (TPtr (TStruct tn)) (XPtrTo oc []) in
                bindd (decode_fields rec d (oc, []) (c_names ci) ws st2) (fun st3 =>
                if o_structval opts then
                  rd_or st3 (oc, []) (fun v => wr_or_panic st3 pl (XIface (TStruct tn) v))
                else wr_or_panic st3 pl (XIface (TPtr (TStruct tn)) (XPtrTo oc [])))
            end
        end)
  | FReadReference, WRef k => read_reference orc te TIface k pl st
  | FClassThenDecode, WClass name fields next => rec RTop TIface next pl (push_class opts st name fields TIface)
  | FErrorString, WErr _ => DErr ETagError
  | _, _ => DUnk 51
  end.

(* readUint8Slice *)
Fixpoint u8_elems (ws : list wire) (tmp : nat) (acc : bytes) (st : dstate) : dres * bytes :=
  match ws with
  | [] => (DOk st, acc)
  | w :: r =>
      match rec RElem (TInt KUint8) w (tmp, []) st with
      | DOk st1 =>
          match st_rd st1 (tmp, []) with
          | Some (XInt _ z) =>
              match Byte.of_N (Z.to_N z) with
              | Some b => u8_elems r tmp (acc ++ [b]) st1
              | None => (DPanic PMem, acc)
              end
          | _ => (DPanic PMem, acc)
          end
      | other => (other, acc)
      end
  end.

Definition apply_iface_opts (a : action) : action :=
  match a with
  | ACall FLongAsIface => long_action (o_long opts)
  | ACall FNaNAsIface => nan_action (o_real opts)
  | ACall FInfAsIface => inf_action (o_real opts)
  | ACall FDoubleAsIface => double_action (o_real opts)
  | _ => a
  end.

(* decodeX on the place *)
Definition dec_scalar (s : sleaf) (t : gtype) (w : wire) (pl : place) (st : dstate) : dres :=
  let a0 := sw_lookup (model_switch (routine_of s)) (tag_of w) in
  let a := match s with SIface => apply_iface_opts a0 | _ => a0 end in
  match run_action orc s a w with
  | SV v =>
      let v1 := match s with
                | SBigIntV | SBigFloatV | SBigRatV => match v with XPtr x => x | XNil => zero_of t | _ => v end
                | SIface => box v
                | _ => v
                end in
      let '(st1, v2) := inject (add_tok_ref opts st w) v1 in
      wr_or_panic st1 pl v2
  | SE e => DErr e
  | SMissO fn arg => DMiss fn arg
  | SUnk n => DUnk n
  | SDefaultArm => default_decode t w pl st
  | SSlice8 =>
      match w with
      | WList ws =>
          (* slice := make([]byte, count); dec.AddReference(slice); elements; the entry shares the array *)
          let idx := length (refs st) in
          let st0 := add_ref st TBytes (XBytes []) in
          let '(st1, tmp) := st_alloc st0 (XInt KUint8 0) in
          match u8_elems ws tmp [] st1 with
          | (DOk st2, b) =>
              let st3 := if o_simple opts then st2 else st_setref st2 idx TBytes (XBytes b) in
              wr_or_panic st3 pl (XBytes b)
          | (other, _) => other
          end
      | _ => DUnk 52
      end
  | SCallee FComplexList =>
      (* var pair []floatN; dec.decode(&pair, tag); two elements -> complex(pair[0], pair[1]) *)
      let ft := match s with SC64 => TF32 | _ => TF64 end in
      let '(st1, pc) := st_alloc st XNil in
      bindd (rec RTop (TSlice ft) w (pc, []) st1) (fun st2 =>
      rd_or st2 (pc, []) (fun h =>
        match h with
        | XSliceH c 2 =>
            match nth_error (mem st2) c, s with
            | Some (XArr (XF32 re :: XF32 im :: _)), SC64 => wr_or_panic st2 pl (XC64 re im)
            | Some (XArr (XF64 re :: XF64 im :: _)), SC128 => wr_or_panic st2 pl (XC128 re im)
            | _, _ => DPanic PMem
            end
        | _ => DErr ECast
        end))
  | SCallee f => match s with SIface => iface_call f w pl st | _ => DUnk 53 end
  end.

(* decodeXPtr: nil on 'n', else a fresh variable *)
Definition dec_scalar_ptr (s : sleaf) (t : gtype) (w : wire) (pl : place) (st : dstate) : dres :=
  match w with
  | WNull => wr_or_panic st pl XNil
  | _ =>
      let et := match t with TPtr e => e | _ => t end in
      let '(st1, c) := st_alloc st (zero_of et) in
      bindd (dec_scalar s et w (c, []) st1) (fun st2 => wr_or_panic st2 pl (XPtrTo c []))
  end.

Definition container_const (c : cst) (t : gtype) (pl : place) (st : dstate) : dres :=
  match c with
  | CNil => wr_or_panic st pl XNil
  | CZero => wr_or_panic st pl (zero_of t)
  | CEmptySlice => let '(st1, c') := st_alloc st (XArr []) in wr_or_panic st1 pl (XSliceH c' 0)
  | CEmptyMap => fst (new_map pl st)
  | CNewList => let '(st1, c') := st_alloc st (XList []) in wr_or_panic st1 pl (XListH c')
  | _ => DUnk 54
  end.

Definition min_prealloc : nat := 16.

(* sliceHeader(slice).Len = i *)
Definition slice_set_len (pl : place) (i : nat) (st : dstate) : dres :=
  rd_or st pl (fun h => match h with XSliceH c _ => wr_or_panic st pl (XSliceH c i) | _ => DOk st end).

Fixpoint slice_elems (e : gtype) (ws : list wire) (pl : place) (i n : nat) (st : dstate) : dres :=
  match ws with
  | [] => slice_set_len pl i st
  | w :: r =>
      let '(grown, n1) := if Nat.leb n i then (fst (slice_grow te e pl (S i) st), S i) else (DOk st, n) in
      bindd grown (fun st1 =>
      rd_or st1 pl (fun h =>
        match h with
        | XSliceH c _ => bindd (rec RElem e w (c, [i]) st1) (slice_elems e r pl (S i) n1)
        | _ => DPanic PMem
        end))
  end.

Definition dec_slice (e : gtype) (w : wire) (pl : place) (st : dstate) : dres :=
  let t := TSlice e in
  match sw_lookup (model_switch RtSlice) (tag_of w), w with
  | AConst c, _ => container_const c t pl st
  | ACall FSliceList, WList ws =>
      (* count := ReadCount(); n := min(count, minPrealloc); UnsafeGrow(slice, n); AddReference(p); elements
         (growing one by one beyond n); Len = number of elements decoded *)
      let n0 := Nat.min (length ws) min_prealloc in
      match slice_grow te e pl n0 st with
      | (DOk st1, _) => slice_elems e ws pl 0 n0 (add_ref st1 (TPtr t) (XPtrTo (fst pl) (snd pl)))
      | (other, _) => other
      end
  | ADefault, _ => default_decode t w pl st
  | _, _ => DUnk 55
  end.

Fixpoint zero_from (ze : xval) (pl : place) (i n : nat) (st : dstate) : dres :=
  match n with
  | O => DOk st
  | S m => bindd (wr_or_panic st (sub pl i) ze) (zero_from ze pl (S i) m)
  end.

Definition dec_array_list (n : nat) (e : gtype) (ws : list wire) (pl : place) (st : dstate) : dres :=
  let st0 := add_ref st (TPtr (TArray n e)) (XPtrTo (fst pl) (snd pl)) in
  let count := length ws in
  let m := Nat.min n count in
  bindd (dec_elems rec e (firstn m ws) (sub pl) 0 st0) (fun st1 =>
  if Nat.ltb m n then zero_from (zero_of e) pl m (n - m) st1
  else if Nat.ltb m count then
    let '(st2, tmp) := st_alloc st1 (zero_of e) in
    dec_elems rec e (skipn m ws) (fun _ => (tmp, [])) 0 st2
  else DOk st1).

Definition dec_array (n : nat) (e : gtype) (w : wire) (pl : place) (st : dstate) : dres :=
  let t := TArray n e in
  match sw_lookup (model_switch RtArray) (tag_of w), w with
  | AConst c, _ => container_const c t pl st
  | ACall FArrayList, WList ws => dec_array_list n e ws pl st
  | ADefault, _ => default_decode t w pl st
  | _, _ => DUnk 56
  end.

Definition dec_byte_array (n : nat) (w : wire) (pl : place) (st : dstate) : dres :=
  let t := TArray n (TInt KUint8) in
  match sw_lookup (model_switch RtByteArray) (tag_of w), w with
  | ACall FByteArrayBytes, WBytes b =>
      bindd (byte_array_copy n b pl st) (fun st1 => DOk (add_ref st1 (TPtr t) (XPtrTo (fst pl) (snd pl))))
  | ACall FByteArrayChar, WChar c => byte_array_copy n c pl st
  | ACall FByteArrayString, WStr s => byte_array_copy n s pl (add_tok_ref opts st w)
  | ACall FArrayFallback, _ => dec_array n (TInt KUint8) w pl st
  | _, _ => DUnk 57
  end.

Definition dec_map (k v : gtype) (w : wire) (pl : place) (st : dstate) : dres :=
  let t := TMap k v in
  let self := XPtrTo (fst pl) (snd pl) in
  match sw_lookup (model_switch RtMap) (tag_of w), w with
  | AConst c, _ => container_const c t pl st
  | ACall FMap, WMap kvs =>
      match new_map pl st with
      | (DOk st1, mc) =>
          let st2 := add_ref st1 (TPtr t) self in
          let '(st3, kp) := st_alloc st2 (zero_of k) in
          let '(st4, vp) := st_alloc st3 (zero_of v) in
          map_pairs te rec k v mc kp vp true kvs st4
      | (other, _) => other
      end
  | ACall FListAsMap, WList ws =>
      if can_list_as_map k then
        match new_map pl st with
        | (DOk st1, mc) =>
            let st2 := add_ref st1 (TPtr t) self in
            let '(st3, kp) := st_alloc st2 (zero_of k) in
            let '(st4, vp) := st_alloc st3 (zero_of v) in
            list_as_map orc te rec k v mc kp vp ws 0 st4
        | (other, _) => other
        end
      else decode_error w st
  | ACall FObjectAsMap, WObj idx ws =>
      let kok := match k with TString | TIface => true | _ => false end in
      let vok := match v with TIface => true | _ => false end in
      if kok && vok then
        class_info st idx (fun ci =>
          match new_map pl st with
          | (DOk st1, mc) =>
              let st2 := add_ref st1 (TPtr t) self in
              match c_type ci with
              | Some tn =>
                  match find_struct te tn with
                  | Some d => obj_fields_as_map te rec k d mc (c_names ci) ws st2
                  | None => DUnk 58
                  end
              | None => obj_ifaces_as_map rec k mc (c_names ci) ws st2
              end
          | (other, _) => other
          end)
      else decode_error w st
  | ADefault, _ => default_decode t w pl st
  | _, _ => DUnk 59
  end.

Definition dec_struct (name : bytes) (w : wire) (pl : place) (st : dstate) : dres :=
  let t := TStruct name in
  let self := XPtrTo (fst pl) (snd pl) in
  match find_struct te name with
  | None => DUnk 60
  | Some d =>
      match sw_lookup (model_switch RtStruct) (tag_of w), w with
      | ACall FObject, WObj idx ws =>
          class_info st idx (fun ci => decode_fields rec d pl (c_names ci) ws (add_ref st (TPtr t) self))
      | ACall FMapAsObject, WMap kvs => map_as_object rec d pl kvs (add_ref st (TPtr t) self)
      | AConst c, _ => container_const c t pl st
      | ADefault, _ => default_decode t w pl st
      | _, _ => DUnk 61
      end
  end.

Definition dec_list (w : wire) (pl : place) (st : dstate) : dres :=
  match sw_lookup (model_switch RtList) (tag_of w), w with
  | AConst c, _ => container_const c TList pl st
  | ACall FListList, WList ws =>
      let '(st1, lc) := st_alloc st (XList []) in
      bindd (wr_or_panic st1 pl (XListH lc)) (fun st2 => list_elems rec lc ws (add_ref st2 TList (XListH lc)))
  | ADefault, _ => default_decode TList w pl st
  | _, _ => DUnk 62
  end.

(* ptrDecoder: nil on 'n'; else the existing pointee, or a new one *)
Definition dec_gen_ptr (e : gtype) (w : wire) (pl : place) (st : dstate) : dres :=
  match sw_lookup (model_switch RtPtr) (tag_of w) with
  | ACall FPtrNull => wr_or_panic st pl XNil
  | ACall FPtrRef =>
      (* the referenced object is shared: ReadReference(p) with the pointer type as destination *)
      match w with WRef k => read_reference orc te (TPtr e) k pl st | _ => DUnk 64 end
  | ACall FPtrElem =>
      rd_or st pl (fun old =>
        match old with
        | XPtrTo c p => rec RVal e w (c, p) st
        | _ =>
            let '(st1, c) := st_alloc st (zero_of e) in
            bindd (wr_or_panic st1 pl (XPtrTo c [])) (rec RVal e w (c, []))
        end)
  | _ => DUnk 63
  end.

Definition dec_step (r : route) (t : gtype) (w : wire) (pl : place) (st : dstate) : dres :=
  match leaf_of r t with
  | LS s => dec_scalar s t w pl st
  | LSPtr s => dec_scalar_ptr s t w pl st
  | LGenPtr e => dec_gen_ptr e w pl st
  | LSlice e => dec_slice e w pl st
  | LArray n e => dec_array n e w pl st
  | LByteArray n => dec_byte_array n w pl st
  | LMap k v => dec_map k v w pl st
  | LStruct name => dec_struct name w pl st
  | LList => dec_list w pl st
  end.

End Leaves.

Fixpoint dec (orc : bytes -> bytes -> option bytes) (opts : dopts) (te : tenv) (fuel : nat)
             (r : route) (t : gtype) (w : wire) (pl : place) (st : dstate) {struct fuel} : dres :=
  match fuel with
  | O => DFuel
  | S f => dec_step orc opts te (dec orc opts te f) r t w pl st
  end.

(* ------------------------------------------------------------------ results: the destination unfolded *)

Definition place_eqb (a b : place) : bool := Nat.eqb (fst a) (fst b) && list_eqb Nat.eqb (snd a) (snd b).

Fixpoint index_of (p : place) (l : list place) (i : nat) : option nat :=
  match l with
  | [] => None
  | q :: r => if place_eqb p q then Some i else index_of p r (S i)
  end.

Fixpoint unfold (m : list xval) (fuel : nat) (stack : list place) (v : xval) {struct fuel} : xval :=
  match fuel with
  | O => XCycle 0
  | S f =>
      let go := unfold m f stack in
      match v with
      | XPtrTo c p =>
          match index_of (c, p) stack 0 with
          | Some k => XCycle k
          | None =>
              match rd m (c, p) with
              | Some x => XPtr (unfold m f ((c, p) :: stack) x)
              | None => XCycle 0
              end
          end
      | XSliceH c len =>
          match nth_error m c with
          | Some (XArr vs) => XSlice (map go (firstn len vs))
          | _ => XCycle 0
          end
      | XMapH c =>
          match nth_error m c with
          | Some (XMap kvs) => XMap (map (fun kv => (go (fst kv), go (snd kv))) kvs)
          | _ => XCycle 0
          end
      | XListH c =>
          match nth_error m c with
          | Some (XList vs) => XList (map go vs)
          | _ => XCycle 0
          end
      | XArr vs => XArr (map go vs)
      | XStruct n vs => XStruct n (map go vs)
      | XIface t x => XIface t (go x)
      | _ => v
      end
  end.

Inductive outcome :=
| OOk (v : xval)
| OErr (e : eclass)
| OPanic (p : psite)
| OFuel
| OOracle (fn arg : bytes)
| OUnmodelled (why : N).

(* Decode one value into a zero-initialised variable of type t *)
Definition dec_top (orc : bytes -> bytes -> option bytes) (opts : dopts) (te : tenv) (fuel : nat)
                   (t : gtype) (w : wire) : outcome :=
  let '(st0, c) := st_alloc dinit (zero_val te fuel_zero t) in
  match dec orc opts te fuel RTop t w (c, []) st0 with
  | DOk st =>
      match st_rd st (c, []) with
      | Some v => OOk (unfold (mem st) fuel [] v)
      | None => OPanic PMem
      end
  | DErr e => OErr e
  | DPanic p => OPanic p
  | DFuel => OFuel
  | DMiss fn arg => OOracle fn arg
  | DUnk n => OUnmodelled n
  end.
