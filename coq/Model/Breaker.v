(* Model of rpc/plugins/circuitbreaker/circuitbreaker.go (C20).
   Executable definitions only; proofs live in Proofs/BreakerProofs.v. *)
From Coq Require Import List ZArith Bool.
Import ListNotations.
Open Scope Z_scope.

(* configuration: New(WithThreshold t, WithRecoverTime r, WithMockService m) *)
Record cfg := { threshold : Z; recover : Z; has_mock : bool }.

(* the two atomics of the plugin *)
Record st := { fail : Z; last : Z }.
Definition init : st := {| fail := 0; last := 0 |}.

(* what the downstream handler does when it is reached *)
Inductive outcome := OOk | OErr | OPanic.

(* what IOHandler did with one call *)
Inductive decision := Rejected | Forwarded (o : outcome).

(* One call of IOHandler.  [now0] is time.Now() at the entry test, [now1] is
   time.Now() in the deferred function (only read when the call failed).
   Mirrors the Go text statement by statement:
     if failCount > threshold {
        if now0 - lastFailTime < recoverTime { return ErrBreaker }
        failCount = threshold >> 1 }
     response, err = next(...)   // panic recovered into err
     if err == nil { failCount = 0 } else { failCount++; lastFailTime = now1 } *)
Definition io_step (c : cfg) (s : st) (now0 now1 : Z) (o : outcome) : st * decision :=
  let tripped := fail s >? threshold c in
  if tripped && (now0 - last s <? recover c) then (s, Rejected)
  else
    let f0 := if tripped then Z.shiftr (threshold c) 1 else fail s in
    match o with
    | OOk => ({| fail := 0; last := last s |}, Forwarded OOk)
    | _ => ({| fail := f0 + 1; last := now1 |}, Forwarded o)
    end.

(* What the caller of the whole plugin (InvokeHandler over IOHandler) sees. *)
Inductive result := RBreak | RMock | RDown (o : outcome).

Definition call (c : cfg) (s : st) (now0 now1 : Z) (o : outcome) : st * result :=
  let '(s', d) := io_step c s now0 now1 o in
  (s', match d with
       | Rejected => if has_mock c then RMock else RBreak
       | Forwarded o' => RDown o'
       end).

(* a history: per call the two clock readings and the scripted downstream outcome *)
Definition event := (Z * Z * outcome)%type.

Fixpoint run (c : cfg) (s : st) (h : list event) : list result * st :=
  match h with
  | [] => ([], s)
  | (n0, n1, o) :: h' =>
      let '(s', r) := call c s n0 n1 o in
      let '(rs, s'') := run c s' h' in (r :: rs, s'')
  end.

Fixpoint run_dec (c : cfg) (s : st) (h : list event) : list decision * st :=
  match h with
  | [] => ([], s)
  | (n0, n1, o) :: h' =>
      let '(s', d) := io_step c s n0 n1 o in
      let '(ds, s'') := run_dec c s' h' in (d :: ds, s'')
  end.

(* ------------------------------------------------------------------ *)
(* Specification machine, written from the property text, not the code *)

Inductive spec_st :=
| Closed (k : Z)        (* k consecutive failures so far, k <= threshold *)
| Open (since : Z).     (* tripped; last failure at [since] *)

Definition spec_after_fail (c : cfg) (k : Z) (now1 : Z) : spec_st :=
  if k + 1 >? threshold c then Open now1 else Closed (k + 1).

Definition spec_step (c : cfg) (s : spec_st) (now0 now1 : Z) (o : outcome) : spec_st * decision :=
  match s with
  | Closed k =>
      match o with
      | OOk => (Closed 0, Forwarded OOk)
      | _ => (spec_after_fail c k now1, Forwarded o)
      end
  | Open since =>
      if now0 - since <? recover c then (Open since, Rejected)
      else (* recovery time elapsed: let the call through; the breaker restarts
              its failure count at half the threshold *)
        match o with
        | OOk => (Closed 0, Forwarded OOk)
        | _ => (spec_after_fail c (Z.shiftr (threshold c) 1) now1, Forwarded o)
        end
  end.

Fixpoint spec_run (c : cfg) (s : spec_st) (h : list event) : list decision * spec_st :=
  match h with
  | [] => ([], s)
  | (n0, n1, o) :: h' =>
      let '(s', d) := spec_step c s n0 n1 o in
      let '(ds, s'') := spec_run c s' h' in (d :: ds, s'')
  end.

Definition abs (c : cfg) (s : st) : spec_st :=
  if fail s >? threshold c then Open (last s) else Closed (fail s).

(* ------------------------------------------------------------------ *)
(* Concurrent callers: the plugin's atomic operations as an LTS.
   Each thread runs IOHandler once; pc says where it is. *)

Inductive pc :=
| PStart                      (* before LoadUint64(failCount) *)
| PLoadedTripped              (* failCount > threshold seen; before LoadInt64(lastFailTime) *)
| PStoreHalf                  (* interval >= recover seen; before StoreUint64(threshold>>1) *)
| PCallNext                   (* about to run next *)
| PSettleOk                   (* next returned nil error; before Store 0 *)
| PSettleFailAdd              (* error/panic; before AddUint64 *)
| PSettleFailTime             (* before StoreInt64(lastFailTime) *)
| PDone (d : decision).

Record thread := { tpc : pc; tout : outcome }.

Record cstate := { shared : st; threads : list thread }.

(* one atomic step of thread [t] at clock reading [now] *)
Definition tstep (c : cfg) (s : st) (t : thread) (now : Z) : option (st * thread) :=
  let mk p := {| tpc := p; tout := tout t |} in
  match tpc t with
  | PStart => Some (s, mk (if fail s >? threshold c then PLoadedTripped else PCallNext))
  | PLoadedTripped =>
      Some (s, mk (if now - last s <? recover c then PDone Rejected else PStoreHalf))
  | PStoreHalf => Some ({| fail := Z.shiftr (threshold c) 1; last := last s |}, mk PCallNext)
  | PCallNext => Some (s, mk (match tout t with OOk => PSettleOk | _ => PSettleFailAdd end))
  | PSettleOk => Some ({| fail := 0; last := last s |}, mk (PDone (Forwarded OOk)))
  | PSettleFailAdd => Some ({| fail := fail s + 1; last := last s |}, mk PSettleFailTime)
  | PSettleFailTime => Some ({| fail := fail s; last := now |}, mk (PDone (Forwarded (tout t))))
  | PDone _ => None
  end.

Fixpoint upd_nth {A} (n : nat) (x : A) (l : list A) : list A :=
  match l, n with
  | [], _ => []
  | _ :: r, O => x :: r
  | y :: r, S m => y :: upd_nth m x r
  end.

Definition cstep (c : cfg) (cs : cstate) (i : nat) (now : Z) : option cstate :=
  match nth_error (threads cs) i with
  | None => None
  | Some t =>
      match tstep c (shared cs) t now with
      | None => None
      | Some (s', t') => Some {| shared := s'; threads := upd_nth i t' (threads cs) |}
      end
  end.

(* a schedule: which thread moves, and the clock reading it would see *)
Fixpoint crun (c : cfg) (cs : cstate) (sched : list (nat * Z)) : option cstate :=
  match sched with
  | [] => Some cs
  | (i, now) :: r => match cstep c cs i now with None => None | Some cs' => crun c cs' r end
  end.
