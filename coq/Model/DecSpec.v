(* C06, the specification side: [representable] - when can a destination type hold the value a
   wire tree denotes exactly, and as what.  Written from the property text and the Hprose
   conventions, not from the decoder: it looks only at the denotation (WireSem.dval), never at the
   spelling of the token.  Three answers:
     RSome v   the destination can represent the value exactly: the decoder must produce v
               (up to [xeqv]: nil/empty containers, map order, the integer type chosen for interface{})
     RNone     it cannot: the decoder must report an error (not a value, not a panic)
     RUnspec   a documented coercion of the library for which "exactly" has no meaning (anything
               into bool, null/bool/empty string into a non-nullable scalar, numbers into time, a
               float text into string, lists of another length into arrays ...): any value or an
               error is accepted, a panic is not.
   Floating point: a denoted number goes into a float destination correctly rounded (that is what
   the strconv oracle returns); a double goes into an integer only if it is integral and in range.
   Definitions only. *)
From Coq Require Import List NArith ZArith Strings.Byte Bool.
From HV Require Import Lib.Dec Lib.Utf8 Model.Wire Model.WireSem Model.Enc Model.DecAct Model.DecVal.
Import ListNotations.
Open Scope Z_scope.

Inductive rep :=
| RSome (v : xval)
| RNone
| RUnspec
| RMissO (fn arg : bytes).

Definition rep_map (f : xval -> xval) (r : rep) : rep := match r with RSome v => RSome (f v) | x => x end.

(* all elements representable -> the list; a refused element refuses the whole; unspecified wins over values *)
Fixpoint rep_all (l : list rep) : rep * list xval :=
  match l with
  | [] => (RSome XNil, [])
  | r :: rest =>
      let '(rr, vs) := rep_all rest in
      match r, rr with
      | RMissO f a, _ => (RMissO f a, [])
      | _, RMissO f a => (RMissO f a, [])
      | RNone, _ => (RNone, [])
      | _, RNone => (RNone, [])
      | RUnspec, _ => (RUnspec, [])
      | _, RUnspec => (RUnspec, [])
      | RSome v, RSome _ => (RSome XNil, v :: vs)
      end
  end.

Definition with_all (l : list rep) (k : list xval -> rep) : rep :=
  match rep_all l with (RSome _, vs) => k vs | (r, _) => r end.

Section Spec.
Variable orc : bytes -> bytes -> option bytes.
Variable opts : dopts.
Variable te : tenv.

Definition of_o {A} (r : oresult A) (k : A -> rep) (onfail : rep) : rep :=
  match r with ROk a => k a | RFail => onfail | RMiss fn arg => RMissO fn arg end.

Definition fkey_eq (a b : fval) : bool := fval_key_eqb a b.

(* the double denoted by [txt] as an integer of kind k: integral and in range *)
Definition int_of_double (k : ikind) (txt : bytes) : rep :=
  let wide := if ik_signed k then KInt64 else KUint64 in
  of_o (o_float orc false txt) (fun f =>
    of_o (o_f2i orc wide txt) (fun z =>
      of_o (o_float orc false (to_decZ z)) (fun fz =>
        if fkey_eq f fz && in_range_k k z then RSome (XInt k z) else RNone) RNone) RNone) RNone.

(* Stated exclusion (cost): an integral double whose integer needs more than max_bigint_bits (65536) binary
   digits IS representable as a *big.Int in principle - a dozen bytes of text would denote an integer of
   hundreds of megabytes - and the specification leaves the outcome open there (RUnspec) rather than
   demanding that the decoder build it; likewise a string into *big.Rat whose written exponent exceeds
   max_text_exponent (16384) in magnitude.  Below the limits the cells are specified as before. *)
Definition bigint_of_double (txt : bytes) : rep :=
  of_o (o_text orc (bs "bf") txt) (fun t =>
   of_o (o_int orc (bs "bfexp") txt) (fun e =>
    if Z.of_N max_bigint_bits <? e then RUnspec else
    of_o (o_int orc (bs "bfint") txt) (fun z =>
      of_o (o_text orc (bs "bf") (to_decZ z)) (fun tz =>
        if bytes_eqb t tz || (zero_text t && zero_text tz) then RSome (XBigInt z) else RNone) RNone) RNone) RNone) RNone.

Definition empty_or_none (s : bytes) : rep := match s with [] => RUnspec | _ => RNone end.

Definition rep_float (b32 : bool) (mk : fval -> xval) (d : dval) : rep :=
  match d with
  | DInt z => of_o (o_float orc b32 (to_decZ z)) (fun f => RSome (mk f)) RNone
  | DDouble txt => of_o (o_float orc b32 txt) (fun f => RSome (mk f)) RNone
  | DNaN => RSome (mk FNaN)
  | DInf neg => RSome (mk (FInf neg))
  | DStr s => of_o (o_float orc b32 s) (fun f => RSome (mk f)) (empty_or_none s)
  | DBool _ | DNull => RUnspec
  | _ => RNone
  end.

Definition time_of_dval (d : dval) : option xval :=
  match d with
  | DDate y mo dd tm utc =>
      if valid_date y mo dd && match tm with Some (h, mi, s, _) => valid_clock h mi s | None => true end
      then Some (time_of_date y mo dd tm utc) else None
  | DTime h mi s fr utc => if valid_clock h mi s then Some (time_of_clock h mi s fr utc) else None
  | _ => None
  end.

Definition all_small_ints (ds : list dval) : option bytes :=
  fold_right (fun d acc =>
    match d, acc with
    | DInt z, Some l => if (0 <=? z) && (z <=? 255) then match Byte.of_N (Z.to_N z) with Some b => Some (b :: l) | None => None end else None
    | _, _ => None
    end) (Some []) ds.

(* scalar destinations *)
Definition rep_scalar_core (t : gtype) (d : dval) : rep :=
  match t with
  | TBool =>
      match d with
      | DBool b => RSome (XBool b)
      | DNull | DInt _ | DDouble _ | DStr _ | DNaN | DInf _ => RUnspec
      | _ => RNone
      end
  | TInt k =>
      match d with
      | DInt z => if in_range_k k z then RSome (XInt k z) else RNone
      | DDouble txt => int_of_double k txt
      | DStr s =>
          match (if ik_signed k then parse_int s else parse_uint s) with
          | Some z => if in_range_k k z then RSome (XInt k z) else RNone
          | None => empty_or_none s
          end
      | DBool _ | DNull => RUnspec
      | _ => RNone
      end
  | TF32 => rep_float true XF32 d
  | TF64 => rep_float false XF64 d
  | TC64 =>
      match d with
      | DStr s => of_o (o_complex orc true s) (fun c => RSome (XC64 (fst c) (snd c))) (empty_or_none s)
      | DList [a; b] =>
          (* the list form of a complex number: real and imaginary part *)
          match rep_float true XF32 a, rep_float true XF32 b with
          | RSome (XF32 re), RSome (XF32 im) => RSome (XC64 re im)
          | RMissO f x, _ | _, RMissO f x => RMissO f x
          | RNone, _ | _, RNone => RNone
          | _, _ => RUnspec
          end
      | DList _ => RNone
      | _ => rep_float true (fun f => XC64 f fzero) d
      end
  | TC128 =>
      match d with
      | DStr s => of_o (o_complex orc false s) (fun c => RSome (XC128 (fst c) (snd c))) (empty_or_none s)
      | DList [a; b] =>
          match rep_float false XF64 a, rep_float false XF64 b with
          | RSome (XF64 re), RSome (XF64 im) => RSome (XC128 re im)
          | RMissO f x, _ | _, RMissO f x => RMissO f x
          | RNone, _ | _, RNone => RNone
          | _, _ => RUnspec
          end
      | DList _ => RNone
      | _ => rep_float false (fun f => XC128 f fzero) d
      end
  | TString =>
      match d with
      | DStr s => RSome (XStr s)
      | DInt z => RSome (XStr (to_decZ z))
      | DBytes b => RSome (XStr b)
      | DGuid g => if uuid_syntax g then RSome (XStr (uuid_lower g)) else RUnspec
      | DNull | DBool _ | DDouble _ | DNaN | DInf _ | DDate _ _ _ _ _ | DTime _ _ _ _ _ => RUnspec
      | _ => RNone
      end
  | TBytes =>
      match d with
      | DNull => RSome XNil
      | DBytes b => RSome (XBytes b)
      | DStr s => RSome (XBytes s)
      | DList ds => match all_small_ints ds with Some b => RSome (XBytes b) | None => RUnspec end
      | DGuid _ => RUnspec
      | _ => RNone
      end
  | TBigInt =>
      match d with
      | DInt z => RSome (XBigInt z)
      | DDouble txt => bigint_of_double txt
      | DStr s => match parse_int s with Some z => RSome (XBigInt z) | None => empty_or_none s end
      | DBool _ | DNull => RUnspec
      | _ => RNone
      end
  | TBigFloat =>
      match d with
      | DInt z => of_o (o_text orc (bs "bf") (to_decZ z)) (fun t => RSome (XBigFloat t)) RNone
      | DDouble txt => of_o (o_text orc (bs "bf") txt) (fun t => RSome (XBigFloat t)) RNone
      | DInf neg => RSome (XBigFloat (inf_text neg))
      | DStr s => of_o (o_text orc (bs "bf") s) (fun t => RSome (XBigFloat t)) (empty_or_none s)
      | DBool _ | DNull => RUnspec
      | _ => RNone
      end
  | TBigRat =>
      match d with
      | DInt z => RSome (rat_of_int z)
      | DDouble txt =>
          of_o (o_float orc false txt) (fun _ => of_o (o_text orc (bs "ratf") txt) (fun t => RSome (XBigRat t)) RUnspec) RNone
      | DStr s => if exponent_too_large max_text_exponent s then RUnspec
                  else of_o (o_text orc (bs "rat") s) (fun t => RSome (XBigRat t)) (empty_or_none s)
      | DBool _ | DNull => RUnspec
      | _ => RNone
      end
  | TTime =>
      match d with
      | DDate _ _ _ _ _ | DTime _ _ _ _ _ => match time_of_dval d with Some t => RSome t | None => RUnspec end
      | DStr _ | DInt _ | DDouble _ | DBool _ | DNull => RUnspec
      | _ => RNone
      end
  | TUuid =>
      match d with
      | DGuid g => if uuid_syntax g then RSome (XUuid (uuid_lower g)) else RNone
      | DStr s => if uuid_syntax s then RSome (XUuid (uuid_lower s)) else RUnspec
      | DBytes b => if Nat.eqb (length b) 16 then RSome (XUuid (uuid_of_binary b)) else RUnspec
      | DNull => RUnspec
      | _ => RNone
      end
  | _ => RUnspec
  end.

(* the empty string into anything but a string or byte string: the library's "empty means zero" *)
Definition rep_scalar (t : gtype) (d : dval) : rep :=
  match t, d with
  | TString, _ | TBytes, _ => rep_scalar_core t d
  | _, DStr [] => RUnspec
  | _, _ => rep_scalar_core t d
  end.

Definition is_scalar_type (t : gtype) : bool :=
  match t with
  | TBool | TInt _ | TF32 | TF64 | TC64 | TC128 | TString | TBytes | TBigInt | TBigFloat | TBigRat | TTime | TUuid => true
  | _ => false
  end.

(* the integer an interface{} receives: int when it fits, else whatever the LongType setting can hold *)
Definition iface_int (z : Z) : rep :=
  if in_range_k KInt z then RSome (XIface (TInt KInt) (XInt KInt z))
  else match o_long opts with
       | LtUint => if in_range_k KUint z then RSome (XIface (TInt KUint) (XInt KUint z)) else RNone
       | LtUint64 => if in_range_k KUint64 z then RSome (XIface (TInt KUint64) (XInt KUint64 z)) else RNone
       | LtBigInt => RSome (XIface (TPtr TBigInt) (XPtr (XBigInt z)))
       | _ => RNone
       end.

Definition iface_double (txt : bytes) : rep :=
  match o_real opts with
  | RlF64 => of_o (o_float orc false txt) (fun f => RSome (XIface TF64 (XF64 f))) RNone
  | RlF32 => of_o (o_float orc true txt) (fun f => RSome (XIface TF32 (XF32 f))) RNone
  | RlBigFloat => of_o (o_text orc (bs "bf") txt) (fun t => RSome (XIface (TPtr TBigFloat) (XPtr (XBigFloat t)))) RNone
  end.

Fixpoint pairs_of {A} (l : list A) : option (list (A * A)) :=
  match l with
  | [] => Some []
  | k :: v :: r => match pairs_of r with Some ps => Some ((k, v) :: ps) | None => None end
  | _ => None
  end.

Definition key_dup (kvs : list (xval * xval)) : bool :=
  (fix go (l : list (xval * xval)) : bool :=
     match l with
     | [] => false
     | (k, _) :: r => existsb (fun kv => key_eqb k (fst kv)) r || go r
     end) kvs.

Definition key_type_ok (k : gtype) : bool :=
  match k with TString | TIface | TInt _ | TF32 | TF64 | TC64 | TC128 => true | _ => false end.

Definition index_key (k : gtype) (i : nat) : rep :=
  let z := Z.of_nat i in
  match k with
  | TString => RSome (XStr (to_decZ z))
  | TIface => RSome (XIface (TInt KInt) (XInt KInt z))
  | TInt kk => if in_range_k kk z then RSome (XInt kk z) else RNone
  | TF32 => of_o (o_float orc true (to_decZ z)) (fun f => RSome (XF32 f)) RNone
  | TF64 => of_o (o_float orc false (to_decZ z)) (fun f => RSome (XF64 f)) RNone
  | TC64 => of_o (o_float orc true (to_decZ z)) (fun f => RSome (XC64 f fzero)) RNone
  | TC128 => of_o (o_float orc false (to_decZ z)) (fun f => RSome (XC128 f fzero)) RNone
  | _ => RNone
  end.

Fixpoint assoc_field {A} (names : list bytes) (vs : list A) (alias : bytes) : option A :=
  match names, vs with
  | n :: nr, v :: vr => if bytes_eqb n alias then Some v else assoc_field nr vr alias
  | _, _ => None
  end.

Fixpoint has_dup (l : list bytes) : bool :=
  match l with [] => false | x :: r => mem_bytes x r || has_dup r end.

Definition str_of_key (d : dval) : option bytes :=
  match d with DStr s => Some s | DInt z => Some (to_decZ z) | _ => None end.

Fixpoint representable (fuel : nat) (t : gtype) (d : dval) {struct fuel} : rep :=
  match fuel with
  | O => RUnspec
  | S f =>
      let self := representable f in
      (* object fields by alias: extra fields skipped, missing fields zero, any order *)
      let struct_of (name : bytes) (names : list bytes) (ds : list dval) : rep :=
        match find_struct te name with
        | None => RUnspec
        | Some def =>
            if has_dup names then RUnspec else
            with_all (map (fun at_ => match assoc_field names ds (fst at_) with
                                      | Some fd => self (snd at_) fd
                                      | None => RSome (zero_val te fuel_zero (snd at_))
                                      end) def)
                     (fun vs => RSome (XStruct name vs))
        end in
      match d with
      | DCycle _ => RUnspec
      | WireSem.DErr _ => RNone
      | _ =>
      match t with
      | TPtr e => match d with DNull => RSome XNil | _ => rep_map XPtr (self e d) end
      | TIface =>
          match d with
          | DNull => RSome XNil
          | DBool b => RSome (XIface TBool (XBool b))
          | DInt z => iface_int z
          | DDouble txt => iface_double txt
          | DNaN => match o_real opts with
                    | RlF64 => RSome (XIface TF64 (XF64 FNaN)) | RlF32 => RSome (XIface TF32 (XF32 FNaN)) | RlBigFloat => RNone end
          | DInf neg => match o_real opts with
                        | RlF64 => RSome (XIface TF64 (XF64 (FInf neg))) | RlF32 => RSome (XIface TF32 (XF32 (FInf neg)))
                        | RlBigFloat => RSome (XIface (TPtr TBigFloat) (XPtr (XBigFloat (inf_text neg)))) end
          | DStr s => RSome (XIface TString (XStr s))
          | DBytes b => RSome (XIface TBytes (XBytes b))
          | DGuid g => if uuid_syntax g then RSome (XIface TUuid (XUuid (uuid_lower g))) else RNone
          | DDate _ _ _ _ _ | DTime _ _ _ _ _ =>
              match time_of_dval d with Some x => RSome (XIface TTime x) | None => RUnspec end
          | DList ds =>
              if o_listslice opts then RUnspec
              else with_all (map (self TIface) ds) (fun vs => RSome (XIface (TSlice TIface) (XSlice vs)))
          | DMap kvs =>
              match pairs_of kvs with
              | None => RNone
              | Some ps =>
                  let kt := if o_simap opts then TString else TIface in
                  with_all (map (fun kv => self kt (fst kv)) ps) (fun ks =>
                  with_all (map (fun kv => self TIface (snd kv)) ps) (fun vs =>
                    if forallb hashable ks then
                      if key_dup (combine ks vs) then RUnspec
                      else RSome (XIface (TMap kt TIface) (XMap (combine ks vs)))
                    else RNone))
              end
          | DObj name names ds =>
              if mem_bytes name (o_registered opts) then
                match struct_of name names ds with
                | RSome v => if o_structval opts then RSome (XIface (TStruct name) v)
                             else RSome (XIface (TPtr (TStruct name)) (XPtr v))
                | r => r
                end
              else
                with_all (map (self TIface) ds) (fun vs =>
                  RSome (XIface (TMap TString TIface) (XMap (combine (map XStr names) vs))))
          | _ => RUnspec
          end
      | TSlice (TInt KUint8) => rep_scalar TBytes d
      | TSlice e =>
          match d with
          | DNull => RSome XNil
          | DList ds => with_all (map (self e) ds) (fun vs => RSome (XSlice vs))
          | DStr [] => RUnspec
          | _ => RNone
          end
      | TArray n e =>
          match d with
          | DList ds => if Nat.eqb (length ds) n then with_all (map (self e) ds) (fun vs => RSome (XArr vs)) else RUnspec
          | DNull | DStr _ | DBytes _ => RUnspec
          | _ => RNone
          end
      | TMap k v =>
          match d with
          | DNull => RSome XNil
          | DMap kvs =>
              match pairs_of kvs with
              | None => RNone
              | Some ps =>
                  with_all (map (fun kv => self k (fst kv)) ps) (fun ks =>
                  with_all (map (fun kv => self v (snd kv)) ps) (fun vs =>
                    if forallb hashable ks then
                      if key_dup (combine ks vs) then RUnspec else RSome (XMap (combine ks vs))
                    else RNone))
              end
          | DList ds =>
              if key_type_ok k then
                with_all (map (index_key k) (seq 0 (length ds))) (fun ks =>
                with_all (map (self v) ds) (fun vs => RSome (XMap (combine ks vs))))
              else RNone
          | DObj name names ds =>
              match k, v with
              | TString, TIface =>
                  (* an object standing in for a map: its fields as interface{} values *)
                  if mem_bytes name (o_registered opts) then RUnspec
                  else with_all (map (self TIface) ds) (fun vs => RSome (XMap (combine (map XStr names) vs)))
              | TIface, TIface =>
                  (* the same with the field names boxed as interface{} keys *)
                  if mem_bytes name (o_registered opts) then RUnspec
                  else with_all (map (self TIface) ds) (fun vs =>
                         RSome (XMap (combine (map (fun n => XIface TString (XStr n)) names) vs)))
              | _, _ => RNone
              end
          | DStr [] => RUnspec
          | _ => RNone
          end
      | TStruct name =>
          match d with
          | DObj _ names ds => struct_of name names ds
          | DMap kvs =>
              match pairs_of kvs with
              | None => RNone
              | Some ps =>
                  match fold_right (fun kv acc => match str_of_key (fst kv), acc with
                                                  | Some s, Some l => Some (s :: l) | _, _ => None end) (Some []) ps with
                  | Some names => struct_of name names (map snd ps)
                  | None => RUnspec
                  end
              end
          | DStr [] => RUnspec
          | _ => RNone
          end
      | TList =>
          match d with
          | DNull => RSome XNil
          | DList ds => with_all (map (self TIface) ds) (fun vs => RSome (XList vs))
          | DStr [] => RUnspec
          | _ => RNone
          end
      | _ => rep_scalar t d
      end
      end
  end.

End Spec.

(* ------------------------------------------------------------------ equality up to the stated normalisations *)

Definition int_payload (v : xval) : option Z :=
  match v with
  | XIface (TInt _) (XInt _ z) => Some z
  | XIface (TPtr TBigInt) (XPtr (XBigInt z)) => Some z
  | _ => None
  end.

Definition fval_same (a b : fval) : bool :=
  match a, b with
  | FNaN, FNaN => true
  | FInf n, FInf m => Bool.eqb n m
  | FFin x, FFin y => bytes_eqb x y
  | _, _ => false
  end.

Definition is_empty_container (v : xval) : bool :=
  match v with XNil | XSlice [] | XMap [] | XBytes [] | XList [] => true | _ => false end.

Fixpoint xeqv (fuel : nat) (a b : xval) {struct fuel} : bool :=
  match fuel with
  | O => false
  | S f =>
      let all2 := fix all2 (xs ys : list xval) : bool :=
        match xs, ys with
        | [], [] => true
        | x :: xr, y :: yr => xeqv f x y && all2 xr yr
        | _, _ => false
        end in
      (* every entry of xs has an equivalent entry in ys (keys are distinct on both sides) *)
      let sub := fun (xs ys : list (xval * xval)) =>
        forallb (fun kv => existsb (fun kv' => xeqv f (fst kv) (fst kv') && xeqv f (snd kv) (snd kv')) ys) xs in
      match int_payload a, int_payload b with
      | Some x, Some y => x =? y
      | _, _ =>
      if is_empty_container a && is_empty_container b then
        match a, b with
        | XNil, _ | _, XNil => true
        | XSlice _, XSlice _ | XMap _, XMap _ | XBytes _, XBytes _ | XList _, XList _ => true
        | _, _ => false
        end
      else
      match a, b with
      | XBool x, XBool y => Bool.eqb x y
      | XInt k x, XInt k' y => ikind_eqb k k' && (x =? y)
      | XF32 x, XF32 y | XF64 x, XF64 y => fval_same x y
      | XC64 x1 x2, XC64 y1 y2 | XC128 x1 x2, XC128 y1 y2 => fval_same x1 y1 && fval_same x2 y2
      | XStr x, XStr y | XBytes x, XBytes y | XUuid x, XUuid y | XBigFloat x, XBigFloat y | XBigRat x, XBigRat y => bytes_eqb x y
      | XBigInt x, XBigInt y => x =? y
      | XTime y1 mo1 d1 h1 mi1 s1 ns1 u1, XTime y2 mo2 d2 h2 mi2 s2 ns2 u2 =>
          (y1 =? y2) && (mo1 =? mo2) && (d1 =? d2) && (h1 =? h2) && (mi1 =? mi2) && (s1 =? s2) && (ns1 =? ns2) && Bool.eqb u1 u2
      | XArr xs, XArr ys | XSlice xs, XSlice ys | XList xs, XList ys => all2 xs ys
      | XStruct n xs, XStruct n' ys => bytes_eqb n n' && all2 xs ys
      | XIface (TPtr t) (XPtr x), XIface t' y =>
          (match b with
           | XIface (TPtr t'') (XPtr y') => gtype_eqb t t'' && xeqv f x y'
           | _ => gtype_eqb t t' && xeqv f x y        (* an interface{} holding a pointer to the value *)
           end)
      | XIface t x, XIface (TPtr t') (XPtr y) => gtype_eqb t t' && xeqv f x y
      | XIface t x, XIface t' y => gtype_eqb t t' && xeqv f x y
      | XPtr x, XPtr y => xeqv f x y
      | XMap xs, XMap ys => Nat.eqb (length xs) (length ys) && sub xs ys && sub ys xs
      | XCycle x, XCycle y => Nat.eqb x y
      | _, _ => false
      end
      end
  end.

Definition spec_fuel : nat := 200.

Inductive verdict := VOk | VWrongValue | VMissingError | VSpuriousError | VPanic | VUnspec | VSpecMiss (fn arg : bytes).

(* the property's verdict on an observed behaviour *)
Definition judge (r : rep) (o : outcome) : verdict :=
  match o with
  | OPanic _ => VPanic
  | OFuel | OOracle _ _ | OUnmodelled _ => VUnspec
  | OOk v =>
      match r with
      | RSome w => if xeqv spec_fuel v w then VOk else VWrongValue
      | RNone => VMissingError
      | RUnspec => VUnspec
      | RMissO f a => VSpecMiss f a
      end
  | OErr _ =>
      match r with
      | RSome _ => VSpuriousError
      | RNone => VOk
      | RUnspec => VUnspec
      | RMissO f a => VSpecMiss f a
      end
  end.
