(* C14, part 2: the lazy per-type registries of struct coders as a labelled transition system
   at sync.Map-operation granularity (io/value_encoder.go, io/struct_encoder.go,
   io/encode_handler.go; decoder side io/struct_decoder.go).

   Encoder side (no lock):
     getStructEncoder(t):        structEncoderMap.Load(t)            hit -> encoder
                                 miss -> newNamedStructEncoder(t)
     newNamedStructEncoder(t):   encoder := &structEncoder{}                       (fields == nil)
                                 namedStructEncoderMap.Store(t, encoder)           <- published EARLY
                                 fields := getFields(t)   per struct-typed field u (value or pointer):
                                     getStruct[Ptr]EncodeHandler(u):
                                         namedStructEncoderMap.Load(u)  hit -> encoder.Write (method value:
                                                                               holds the POINTER, reads
                                                                               encoder.fields when called)
                                         miss -> getStructEncoder(u).Write
                                 encoder.fields = fields ; encoder.metadata = metadata
                                 structEncoderMap.Store(t, encoder)
     structEncoder.Write(v):     fields := valenc.fields ; n := len(fields)      <- the read
                                 class definition (metadata) on first use; o<r>{ fields... }
   The early publication is what makes  type N struct{ Next *N }  terminate: the handler of the
   field finds the placeholder instead of building N again.

   Decoder side: the same shape, but newNamedStructDecoder holds decoder.Lock() from before the
   Store until fields are assigned and decodeField takes RLock() around the read of fields:
   the read BLOCKS while the coder is half built ([locked] = true).  [locked] = true is also
   the encoder after hooks/c14-fix-struct-encoder-publish.patch.

   Atomic steps = one sync.Map method, one assignment/read of the fields word.  Sequential
   consistency is assumed (see the limits in checks/meta/C14.json).  Definitions only. *)
From Coq Require Import List Arith Bool.
Import ListNotations.

Definition tid := nat.                 (* struct type *)
Definition eid := nat.                 (* structEncoder object (index in the heap) *)
Definition thr := nat.                 (* goroutine *)

(* type environment: for each struct type, the types of its struct-typed fields (by value or
   by pointer, any depth of slices in between is irrelevant here); recursive and mutually
   recursive types are ordinary entries *)
Definition tenv := list (list tid).
Definition fields_of (te : tenv) (t : tid) : list tid := nth t te [].

(* a value to encode: its struct type and, for each non-nil struct-typed field that is
   written, (field index, value) *)
Inductive sval := SV (t : tid) (kids : list (nat * sval)).
Definition ty_of (v : sval) : tid := match v with SV t _ => t end.

Record encobj := mk_encobj {
  eo_type : tid;
  eo_owner : thr;                       (* the goroutine that allocated it (ghost) *)
  eo_fields : option (list eid)         (* None: fields/metadata not assigned yet *)
}.

Record shared := mk_shared {
  heap : list encobj;
  named : list (tid * eid);             (* namedStructEncoderMap (latest Store first) *)
  complete : list (tid * eid)           (* structEncoderMap *)
}.

Fixpoint lookup (m : list (tid * eid)) (t : tid) : option eid :=
  match m with
  | [] => None
  | (t', e) :: r => if Nat.eqb t t' then Some e else lookup r t
  end.

(* what a call wrote for one struct value *)
Inductive tok :=
| Full (t : tid)        (* class definition (first time) + o<r>{ all fields } *)
| Half (t : tid)        (* written through a half-built encoder: no class definition, o<r>{} with zero fields *)
| Stuck.                (* model error: handler index out of range (never reached from well-formed states) *)

Inductive instr :=
| CGet (t : tid)                          (* getStructEncoder(t): Load structEncoderMap; result pushed *)
| CNew (t : tid)                          (* newNamedStructEncoder(t): allocate + Store namedStructEncoderMap *)
| CHandler (u : tid)                      (* getStruct[Ptr]EncodeHandler(u): Load namedStructEncoderMap; result pushed *)
| CAssign (t : tid) (e : eid) (n : nat)   (* encoder.fields = (the n handlers on the stack) *)
| CPublish (t : tid) (e : eid)            (* structEncoderMap.Store(t, encoder); push encoder *)
| CWriteTop (v : sval)                    (* pop the encoder; encoder.Write(v) *)
| CWrite (e : eid) (v : sval)             (* e.Write(v) *)
| CStuck.                                 (* model error marker (emits Stuck) *)

Record thread := mk_thread { code : list instr; vst : list eid; out : list tok }.

Record state := mk_state { sh : shared; threads : list thread }.

(* Marshal(v) for a struct value (or pointer to struct) *)
Definition marshal (v : sval) : thread := mk_thread [CGet (ty_of v); CWriteTop v] [] [].

Fixpoint set_nth {A} (n : nat) (x : A) (l : list A) : list A :=
  match n, l with
  | _, [] => []
  | O, _ :: r => x :: r
  | S k, y :: r => y :: set_nth k x r
  end.

Definition assign (h : list encobj) (e : eid) (hs : list eid) : list encobj :=
  match nth_error h e with
  | Some o => set_nth e (mk_encobj (eo_type o) (eo_owner o) (Some hs)) h
  | None => h
  end.

Section Step.
Variable te : tenv.
Variable locked : bool.    (* true: the fields word is read under RLock and the builder holds Lock *)

(* one atomic step of goroutine [i]; None = not enabled (finished, or blocked on the lock) *)
Definition tstep (i : thr) (s : shared) (th : thread) : option (shared * thread) :=
  match code th with
  | [] => None
  | CGet t :: k =>
      match lookup (complete s) t with
      | Some e => Some (s, mk_thread k (e :: vst th) (out th))
      | None => Some (s, mk_thread (CNew t :: k) (vst th) (out th))
      end
  | CNew t :: k =>
      let e := length (heap s) in
      let fs := fields_of te t in
      Some (mk_shared (heap s ++ [mk_encobj t i None]) ((t, e) :: named s) (complete s),
            mk_thread (map CHandler fs ++ CAssign t e (length fs) :: CPublish t e :: k) (vst th) (out th))
  | CHandler u :: k =>
      match lookup (named s) u with
      | Some e => Some (s, mk_thread k (e :: vst th) (out th))
      | None => Some (s, mk_thread (CGet u :: k) (vst th) (out th))
      end
  | CAssign t e n :: k =>
      Some (mk_shared (assign (heap s) e (rev (firstn n (vst th)))) (named s) (complete s),
            mk_thread k (skipn n (vst th)) (out th))
  | CPublish t e :: k =>
      Some (mk_shared (heap s) (named s) ((t, e) :: complete s), mk_thread k (e :: vst th) (out th))
  | CWriteTop v :: k =>
      match vst th with
      | e :: r => Some (s, mk_thread (CWrite e v :: k) r (out th))
      | [] => Some (s, mk_thread k [] (out th ++ [Stuck]))
      end
  | CStuck :: k => Some (s, mk_thread k (vst th) (out th ++ [Stuck]))
  | CWrite e (SV t kids) :: k =>
      match nth_error (heap s) e with
      | None => Some (s, mk_thread k (vst th) (out th ++ [Stuck]))
      | Some o =>
          match eo_fields o with
          | None =>
              if locked then None                                          (* RLock waits for the builder *)
              else Some (s, mk_thread k (vst th) (out th ++ [Half t]))     (* n = 0: no class, no fields *)
          | Some hs =>
              let calls := map (fun p : nat * sval =>
                                  match nth_error hs (fst p) with
                                  | Some h => CWrite h (snd p)
                                  | None => CStuck                         (* unreachable when well-formed *)
                                  end) kids in
              Some (s, mk_thread (calls ++ k) (vst th) (out th ++ [Full t]))
          end
      end
  end.

Definition step (st : state) (i : thr) : option state :=
  match nth_error (threads st) i with
  | None => None
  | Some th =>
      match tstep i (sh st) th with
      | None => None
      | Some (s', th') => Some (mk_state s' (set_nth i th' (threads st)))
      end
  end.

(* a schedule: which goroutine moves at each instant; a disabled choice ends the run *)
Fixpoint run (st : state) (sched : list thr) : option state :=
  match sched with
  | [] => Some st
  | i :: r => match step st i with
              | Some st' => run st' r
              | None => None
              end
  end.

End Step.

Definition init_shared : shared := mk_shared [] [] [].
Definition init (vs : list sval) : state := mk_state init_shared (map marshal vs).

Definition finished (st : state) : bool := forallb (fun th => match code th with [] => true | _ => false end) (threads st).

(* the bytes the call produces when it runs alone: every struct value written in full, in
   field order *)
Fixpoint seq_out (v : sval) : list tok :=
  match v with
  | SV t kids => Full t :: flat_map (fun p : nat * sval => seq_out (snd p)) kids
  end.

(* values well-formed for the environment: field indices in range and of the right type *)
Fixpoint wf_val (te : tenv) (v : sval) : Prop :=
  match v with
  | SV t kids =>
      t < length te /\
      (fix all (l : list (nat * sval)) : Prop :=
         match l with
         | [] => True
         | (i, k) :: r => nth_error (fields_of te t) i = Some (ty_of k) /\ wf_val te k /\ all r
         end) kids
  end.

Fixpoint wf_valb (te : tenv) (v : sval) : bool :=
  match v with
  | SV t kids =>
      Nat.ltb t (length te) &&
      (fix all (l : list (nat * sval)) : bool :=
         match l with
         | [] => true
         | (i, k) :: r =>
             match nth_error (fields_of te t) i with
             | Some u => Nat.eqb u (ty_of k)
             | None => false
             end && wf_valb te k && all r
         end) kids
  end.

(* every field type mentioned exists *)
Definition wf_tenv (te : tenv) : Prop := Forall (Forall (fun u => u < length te)) te.

(* guard of the partial theorem for fresh types: a goroutine moves only while no OTHER goroutine
   has a struct coder published but not yet assigned (first uses are serialised) *)
Definition others_built (s : shared) (i : thr) : bool :=
  forallb (fun o => match eo_fields o with Some _ => true | None => Nat.eqb (eo_owner o) i end) (heap s).

Fixpoint isolated (te : tenv) (st : state) (sched : list thr) : bool :=
  match sched with
  | [] => true
  | i :: r => others_built (sh st) i &&
              match step te false st i with
              | Some st' => isolated te st' r
              | None => true
              end
  end.

(* warm registry: every type has a complete, closed encoder in structEncoderMap *)
Definition assigned_all (s : shared) : bool :=
  forallb (fun o => match eo_fields o with Some _ => true | None => false end) (heap s).
