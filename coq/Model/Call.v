(* Model of one remote call (rpc/core/proxy.go, invocation.go, client.go, service.go, method_manager.go)
   on top of the codec model: proxy argument handling, name mangling, lookup, reflective execution
   with the panics reflect raises, result/error split, result shaping, and the proxy's result handling.
   The published functions are one abstract [impl : id -> args -> outcome]; every invocation is logged.
   The transport is two section variables: which requests the service handler is run on for one request
   sent ([tr_req]) and what the caller receives for the response produced ([tr_resp]); the properties are
   proved under C12's and C09's conclusions about them.  Definitions only; proofs in Proofs/CallProofs.v. *)
From Coq Require Import String.
From Coq Require Import List NArith ZArith Strings.Byte Bool.
From HV Require Import Lib.Dec Lib.Utf8 Model.Wire Model.WireSem Model.Enc Model.Codec.
Import ListNotations.
Open Scope N_scope.

(* ------------------------------------------------------------------ client side: proxies *)

(* an argument handed to a proxy function *)
Inductive parg :=
| ACtx                        (* a context.Context, *ClientContext or *rpcContext *)
| AVal (v : gval).

(* the Go func type of a proxy field *)
Record psig := {
  p_variadic : bool;          (* ft.IsVariadic() *)
  p_outs : list pty;          (* result types without a trailing error *)
  p_err : bool                (* the last result is exactly `error` *)
}.

Definition slice_elems (a : parg) : list parg :=
  match a with AVal (GSlice vs) => map AVal vs | _ => [] end.       (* in[n].Len() of a nil slice is 0 *)

(* proxyBuilder.in: the variadic tail is flattened *)
Definition proxy_in (variadic : bool) (ins : list parg) : list parg :=
  if variadic then
    match rev ins with
    | [] => []
    | last :: front => rev front ++ slice_elems last
    end
  else ins.

(* invocation.Invoke: a leading context is taken out of the argument list *)
Definition strip_ctx (args : list parg) : list parg :=
  match args with ACtx :: r => r | _ => args end.

(* what is left must be plain values (a context anywhere else would be handed to the encoder) *)
Fixpoint plain (args : list parg) : option (list gval) :=
  match args with
  | [] => Some []
  | AVal v :: r => match plain r with Some l => Some (v :: l) | None => None end
  | ACtx :: _ => None
  end.

Definition b_dot : byte := ".".
Definition b_us : byte := "_".

Definition dots_to_underscores (s : bytes) : bytes :=
  map (fun b => if Byte.eqb b b_dot then b_us else b) s.

(* invocation.Invoke: the `name:"..."` tag wins over the field path; "." -> "_"; namespace prefix *)
Definition mangle (ns tag field : bytes) : bytes :=
  let n := dots_to_underscores (match tag with [] => field | _ => tag end) in
  match ns with [] => n | _ => ns ++ b_us :: n end.

(* proxyBuilder.build: the field path of a nested proxy struct *)
Definition field_path (outer inner : bytes) : bytes :=
  match outer with [] => inner | _ => outer ++ b_dot :: inner end.

Definition msg_too_few : bytes := Eval compute in bs "reflect: Call with too few input arguments"%string.
Definition msg_too_many : bytes := Eval compute in bs "reflect: Call with too many input arguments"%string.

(* ------------------------------------------------------------------ the method table entry of a function *)

(* a result type of a published Go function, as far as makeMethod looks at it *)
Inductive rdesc :=
| RPlain (t : pty)              (* a type that does not implement error *)
| RErrorIface                   (* the interface type `error` *)
| RConcreteError (t : pty).     (* a concrete type implementing error: a pointer to a struct, a named slice, map or
                                   string type, ... (nillable or not) *)

(* t.Out(n-1).Implements(errorType) *)
Definition implements_error (r : rdesc) : bool :=
  match r with RPlain _ => false | RErrorIface | RConcreteError _ => true end.

Definition rdesc_type (r : rdesc) : pty :=
  match r with RPlain t | RConcreteError t => t | RErrorIface => TIface end.

(* rpc/core/method.go makeMethod: a leading context.Context is not a parameter; the LAST result is the call's
   error slot exactly when its type implements error (not only when it is the interface type `error`) *)
Definition make_method (id : N) (name : bytes) (ctx : bool) (params : list pty) (velem : option pty)
                       (outs : list rdesc) : method :=
  let last_is_error := match rev outs with r :: _ => implements_error r | [] => false end in
  {| m_id := id; m_name := name; m_missing := false; m_ctx := ctx; m_params := params; m_velem := velem;
     m_results := map rdesc_type (if last_is_error then removelast outs else outs);
     m_err := last_is_error |}.

(* what the caller of a remote call gets *)
Inductive rres :=
| RRes (vs : list gval)
| RErr (msg : bytes) (is_timeout : bool)
| RFail.                      (* the codecs could not encode or decode (encoder error, invalid response, decode error) *)

Inductive pout :=
| PRet (vs : list gval) (err : option bytes)      (* the values of the result slots, and the error slot *)
| PPanic (msg : bytes).                           (* the proxy function panics in the caller *)

Section Call.
Variable fuel : nat.
Variable hp : heap.
Variable lower : bytes -> bytes.
Variable io_dec : dopts -> bool -> pty -> wire -> option gval.
Variable io_dec_hdrs : dopts -> bool -> wire -> option headers.
Variable zero : pty -> gval.

(* the published functions *)
Inductive fout :=
| FRet (vs : list gval) (err : option bytes)      (* results without the error slot; the error slot: None when it holds the ZERO
                                                     value of its type (Execute: out[n-1].IsZero()), else its Error() text *)
| FPanic (msg : bytes).                           (* fmt.Sprintf("%v", recovered value) *)
Variable impl : N -> list gval -> fout.
Variable stack : bytes.                           (* runtime.Stack text (only visible with Debug) *)
Variable dec_err_text : bytes.                    (* decoder.Error.Error() *)

Definition log := list (N * list gval).

Inductive xres := XRes (vs : list gval) | XErr (e : errv).

Definition arity (m : method) (n : nat) : comparison :=
  match m_velem m with
  | Some _ => if Nat.leb (pred (length (m_params m))) n then Eq else Lt
  | None => Nat.compare n (length (m_params m))
  end.

Definition of_fout (id : N) (a : list gval) (r : fout) : xres * log :=
  match r with
  | FRet vs None => (XRes vs, [(id, a)])
  | FRet _ (Some e) => (XErr (EPlain e), [(id, a)])
  | FPanic p => (XErr (EPanicE p stack), [(id, a)])         (* recover() in Service.Process -> NewPanicError(p) *)
  end.

(* Service.Execute under Service.Process' recover *)
Definition execute (m : method) (name : bytes) (args : list gval) : xres * log :=
  if m_missing m then
    (* method.(missingMethod)(name, args): the handler gets the name as decoded and the argument list *)
    let a := [GString name; GSlice args] in
    of_fout (m_id m) a (impl (m_id m) a)
  else
    (* f.Call(in): reflect checks the argument count before the function runs; a nil argument is handed over
       as the zero value of its parameter type (for an interface{} parameter: nil) *)
    match arity m (length args) with
    | Lt => (XErr (EPanicE msg_too_few stack), [])
    | Gt => (XErr (EPanicE msg_too_many stack), [])
    | Eq => of_fout (m_id m) args (impl (m_id m) args)
    end.

Definition invalid_request_pre : bytes := Eval compute in bs "hprose/rpc/core: invalid request:"%string.
Definition invalid_request_text (req : bytes) : bytes := invalid_request_pre ++ crlf ++ req.

Definition tilde : bytes := Eval compute in bs "~"%string.

(* Service.Handle / Process for one request; [rh] = the response headers set while handling *)
Definition handle (o : sopts) (svc : registry) (rh : headers) (req : bytes) : option bytes * log :=
  let reply (r : gval + errv) (l : log) :=
    match service_encode fuel hp o r rh with
    | CEOk ops => (Some (emit_ops ops), l)
    | CEFail _ => (None, l)
    end in
  match fst (service_decode lower io_dec io_dec_hdrs o svc req) with
  | SDOk r =>
      let '(x, l) := execute (rq_method r) (rq_name r) (rq_args r) in
      match x with
      | XRes vs => reply (inl (shape vs)) l
      | XErr e => reply (inr e) l
      end
  | SDNoMethod _ name => reply (inr (EPlain (cant_find name))) []
  | SDDecodeError => reply (inr (EPlain dec_err_text)) []
  | SDInvalid => reply (inr (EPlain (invalid_request_text req))) []
  | SDEmpty _ =>
      match lookup lower svc tilde with
      | Some m =>
          let '(x, l) := execute m tilde [] in
          match x with XRes vs => reply (inl (shape vs)) l | XErr e => reply (inr e) l end
      | None => reply (inr (EPlain (cant_find tilde))) []
      end
  end.

(* Several requests, whatever their interleaving on a connection: every request is handled in a context of its
   own (core.NewServiceContext per request: the method found by the codec, the headers), so the answer to a
   request is a function of that request alone *)
Definition serve_all (o : sopts) (svc : registry) (rh : headers) (reqs : list bytes) : list (option bytes * log) :=
  map (handle o svc rh) reqs.

(* the transport *)
Variable tr_req : bytes -> list bytes.      (* the requests the service handler runs on when the client sends one *)
Variable tr_resp : bytes -> bytes.          (* what this caller receives when the handler answered *)

(* Client.InvokeContext: Encode, transport, Decode *)
Definition invoke (co : copts) (so : sopts) (svc : registry) (rh : headers)
                  (rts : list pty) (name : bytes) (args : list gval) (h : headers) : rres * log :=
  match client_encode fuel hp co name args h with
  | CEFail _ => (RFail, [])
  | CEOk ops =>
      match tr_req (emit_ops ops) with
      | [] => (RFail, [])
      | r0 :: more =>
          let '(resp, l0) := handle so svc rh r0 in
          let l := l0 ++ flat_map (fun r => snd (handle so svc rh r)) more in
          match resp with
          | None => (RFail, l)
          | Some b =>
              match fst (client_decode io_dec io_dec_hdrs zero co rts (tr_resp b)) with
              | CDRes _ vs => (RRes vs, l)
              | CDErr _ msg t => (RErr msg t, l)
              | CDDecodeError | CDInvalid => (RFail, l)
              end
          end
      end
  end.

(* proxyBuilder.out / method: results copied into the declared slots, zero values for the rest, the error slot;
   without an error slot an error becomes a panic in the caller; a nil result is the zero value of its slot *)
Definition proxy_out (s : psig) (r : rres) : pout :=
  match r with
  | RRes vs =>
      let n := length (p_outs s) in
      let m := Nat.min (length vs) n in
      PRet (firstn m vs ++ map zero (skipn m (p_outs s))) None
  | RErr msg _ =>
      if p_err s then PRet (map zero (p_outs s)) (Some msg)
      else PPanic msg                                   (* panic(err) *)
  | RFail =>
      if p_err s then PRet (map zero (p_outs s)) (Some []) else PPanic []
  end.

(* a call through a proxy built by Client.UseService(&proxy, ns) *)
Definition proxy_call (co : copts) (so : sopts) (svc : registry) (rh : headers)
                      (s : psig) (ns tag field : bytes) (ins : list parg) (h : headers) : pout * log :=
  match plain (strip_ctx (proxy_in (p_variadic s) ins)) with
  | None => (PPanic [], [])
  | Some args =>
      let '(r, l) := invoke co so svc rh (p_outs s) (mangle ns tag field) args h in
      (proxy_out s r, l)
  end.

End Call.
