(* Model of rpc/plugins/loadbalance/*.go (C18): the seven load balancers as state machines.
   Executable definitions only; proofs live in Proofs/Balance*.v.

   Conventions: Go ints that take part in arithmetic (RoundRobin.index, WeightedRoundRobin.index,
   weights, counters) are Z; loop counters that only walk a slice are nat.  Every Go panic on a
   modelled path (slice index, integer division by zero, rand.Intn(0)) is the explicit result
   [Panic]; an exhausted loop budget is [OutOfFuel]; an environment script that breaks its own
   contract (rand value outside the range the code asked for, finishing a call that is not in
   flight) is [BadScript].  rand is an oracle: the value drawn is an input. *)
From Coq Require Import List ZArith Bool.
Import ListNotations.
Open Scope Z_scope.

(* what the downstream handler (next) does with a call *)
Inductive outcome := OOk | OErr | OPanic.

Inductive res (A : Type) : Type :=
| Ok (a : A)
| Panic
| OutOfFuel
| BadScript.
Arguments Ok {A} a.
Arguments Panic {A}.
Arguments OutOfFuel {A}.
Arguments BadScript {A}.

Definition bind {A B} (r : res A) (f : A -> res B) : res B :=
  match r with
  | Ok a => f a
  | Panic => Panic
  | OutOfFuel => OutOfFuel
  | BadScript => BadScript
  end.

(* ------------------------------------------------------------------ *)
(* slices *)

Definition len (l : list Z) : Z := Z.of_nat (length l).

Fixpoint upd_nth {A} (n : nat) (x : A) (l : list A) : list A :=
  match l, n with
  | [], _ => []
  | _ :: r, O => x :: r
  | y :: r, S m => y :: upd_nth m x r
  end.

Definition zth (l : list Z) (i : Z) : option Z :=
  if i <? 0 then None else nth_error l (Z.to_nat i).

Definition in_range (n i : Z) : bool := (0 <=? i) && (i <? n).

(* l[i] += d ; panics when i is out of range *)
Definition add_at (l : list Z) (i : nat) (d : Z) : res (list Z) :=
  match nth_error l i with
  | Some x => Ok (upd_nth i (x + d) l)
  | None => Panic
  end.

(* urls[i] for a slice of n URLs *)
Definition url_at (n : nat) (i : Z) : res nat :=
  if in_range (Z.of_nat n) i then Ok (Z.to_nat i) else Panic.

Definition url_at_nat (n : nat) (i : nat) : res nat :=
  if Nat.ltb i n then Ok i else Panic.

(* rand.Intn(n): panics for n <= 0, otherwise the oracle value r must lie in [0,n) *)
Definition rand_intn (n : nat) (r : Z) : res nat :=
  if Nat.eqb n 0 then Panic
  else if in_range (Z.of_nat n) r then Ok (Z.to_nat r) else BadScript.

(* ------------------------------------------------------------------ *)
(* int_slice.go
     func (nums int64Slice) Aggregate(f) int64 {
       n := len(nums); if n == 0 { return 0 }
       current := nums[0]; for i := 1; i < n; i++ { current = f(current, nums[i]) }; return current } *)
Definition aggregate (f : Z -> Z -> Z) (nums : list Z) : Z :=
  match nums with
  | [] => 0
  | x :: r => fold_left f r x
  end.

Definition zsum : list Z -> Z := aggregate Z.add.
(* Min: if x > y { return y }; return x *)
Definition min2 (x y : Z) : Z := if x >? y then y else x.
(* Max: if x > y { return x }; return y *)
Definition max2 (x y : Z) : Z := if x >? y then x else y.
Definition zmin : list Z -> Z := aggregate min2.
Definition zmax : list Z -> Z := aggregate max2.

(* func gcd(x, y int64) int64 {
     if x < y { x, y = y, x }
     for y != 0 { x, y = y, x%y }
     return x }
   Go's % truncates: Z.rem.  The loop is recursion on fuel; the budget is y+1. *)
Fixpoint gcd_loop (fuel : nat) (x y : Z) : res Z :=
  match fuel with
  | O => OutOfFuel
  | S f => if y =? 0 then Ok x else gcd_loop f y (Z.rem x y)
  end.

Definition go_gcd (x y : Z) : res Z :=
  let '(x, y) := if x <? y then (y, x) else (x, y) in
  gcd_loop (S (Z.to_nat y)) x y.

(* GCD: nums.Aggregate(gcd) *)
Definition zgcd (nums : list Z) : res Z :=
  match nums with
  | [] => Ok 0
  | x :: r => fold_left (fun acc y => bind acc (fun a => go_gcd a y)) r (Ok x)
  end.

(* ------------------------------------------------------------------ *)
(* k consecutive picks of a deterministic picker *)
Fixpoint pick_run {S} (pick : S -> res (nat * S)) (k : nat) (s : S) : res (list nat * S) :=
  match k with
  | O => Ok ([], s)
  | S k' =>
      bind (pick s) (fun is =>
      bind (pick_run pick k' (snd is)) (fun ls => Ok (fst is :: fst ls, snd ls)))
  end.

(* ------------------------------------------------------------------ *)
(* round_robin_loadbalance.go
     NewRoundRobinLoadBalance: index: -1
     func (lb) getIndex(n int64) int64 {
       if n > 1 {
         if i := atomic.AddInt64(&lb.index, 1); i < n { return i }
         atomic.StoreInt64(&lb.index, 0)
       }
       return 0 }
     Handler: clientContext.URL = urls[lb.getIndex(int64(len(urls)))] *)
Definition rr_init : Z := -1.

(* returns (result, new value of lb.index) *)
Definition rr_get (n idx : Z) : Z * Z :=
  if n >? 1 then
    let i := idx + 1 in
    if i <? n then (i, i) else (0, 0)
  else (0, idx).

Definition rr_pick (n : nat) (idx : Z) : res (nat * Z) :=
  let '(i, idx') := rr_get (Z.of_nat n) idx in
  bind (url_at n i) (fun k => Ok (k, idx')).

Definition rr_run (k n : nat) (idx : Z) : res (list nat * Z) := pick_run (rr_pick n) k idx.

(* Concurrent callers: AddInt64 and StoreInt64 are two separate atomic steps. *)
Inductive rr_pc :=
| RStart               (* before AddInt64 (or before the n > 1 test) *)
| RStore               (* saw i >= n; before StoreInt64(&lb.index, 0) *)
| RDone (k : nat)      (* urls[k] selected *)
| RPanicked.           (* urls[i] out of range *)

Definition rr_fin (n : nat) (i : Z) : rr_pc :=
  match url_at n i with Ok k => RDone k | _ => RPanicked end.

Definition rr_tstep (n : nat) (idx : Z) (p : rr_pc) : option (Z * rr_pc) :=
  match p with
  | RStart =>
      if Z.of_nat n >? 1 then
        let i := idx + 1 in
        Some (i, if i <? Z.of_nat n then rr_fin n i else RStore)
      else Some (idx, rr_fin n 0)
  | RStore => Some (0, rr_fin n 0)
  | RDone _ => None
  | RPanicked => None
  end.

Record rr_cstate := { rr_shared : Z; rr_threads : list rr_pc }.

Definition rr_cstep (n : nat) (cs : rr_cstate) (t : nat) : option rr_cstate :=
  match nth_error (rr_threads cs) t with
  | None => None
  | Some p =>
      match rr_tstep n (rr_shared cs) p with
      | None => None
      | Some (idx', p') => Some {| rr_shared := idx'; rr_threads := upd_nth t p' (rr_threads cs) |}
      end
  end.

(* a schedule: which thread takes its next atomic step *)
Fixpoint rr_crun (n : nat) (cs : rr_cstate) (sched : list nat) : option rr_cstate :=
  match sched with
  | [] => Some cs
  | t :: r => match rr_cstep n cs t with None => None | Some cs' => rr_crun n cs' r end
  end.

(* ------------------------------------------------------------------ *)
(* random_loadbalance.go:  clientContext.URL = urls[rand.Intn(len(urls))] *)
Definition rnd_pick (n : nat) (r : Z) : res nat :=
  bind (rand_intn n r) (fun i => url_at_nat n i).

(* ------------------------------------------------------------------ *)
(* least_active_loadbalance.go.  State: lb.actives (nil at first). *)

(* if len(lb.actives) < n { actives := make([]int64, n); copy(actives, lb.actives); lb.actives = actives }
   (since /repo 905f441; before it the counters were dropped: la_prepare_old) *)
Definition la_prepare (n : nat) (actives : list Z) : list Z :=
  if Nat.ltb (length actives) n then actives ++ repeat 0 (n - length actives) else actives.

(* the code before 905f441: if len(lb.actives) < n { lb.actives = make([]int64, n) } *)
Definition la_prepare_old (n : nat) (actives : list Z) : list Z :=
  if Nat.ltb (length actives) n then repeat 0 n else actives.

(* if len(lb.actives) > n { leastActive = lb.actives[:n].Min() } else { leastActive = lb.actives.Min() } *)
Definition la_least (n : nat) (actives : list Z) : Z :=
  if Nat.ltb n (length actives) then zmin (firstn n actives) else zmin actives.

(* for i := 0; i < n; i++ { if lb.actives[i] == leastActive { append(leastActiveIndexes, i) } }
   [k] iterations remain, the next index is [i] *)
Fixpoint eq_indexes (k i : nat) (a : list Z) (least : Z) : res (list nat) :=
  match k with
  | O => Ok []
  | S k' =>
      match a with
      | [] => Panic
      | x :: r => bind (eq_indexes k' (S i) r least)
                       (fun t => Ok (if x =? least then i :: t else t))
      end
  end.

Definition la_candidates (n : nat) (actives : list Z) : res (list nat) :=
  eq_indexes n 0 actives (la_least n actives).

(* index := leastActiveIndexes[0]; count := len(..); if count > 1 { index = leastActiveIndexes[rand.Intn(count)] } *)
Definition choose (cands : list nat) (r : Z) : res nat :=
  match cands with
  | [] => Panic
  | c0 :: _ =>
      if Nat.ltb 1 (length cands) then
        bind (rand_intn (length cands) r)
             (fun j => match nth_error cands j with Some c => Ok c | None => Panic end)
      else Ok c0
  end.

Definition la_select (n : nat) (actives : list Z) (r : Z) : res nat :=
  bind (la_candidates n actives) (fun cands => choose cands r).

(* everything before next(): prepare, select, urls[index], lb.actives[index]++ *)
Definition la_start (n : nat) (actives : list Z) (r : Z) : res (nat * list Z) :=
  let a := la_prepare n actives in
  bind (la_select n a r) (fun i =>
  bind (url_at_nat n i) (fun _ =>
  bind (add_at a i 1) (fun a' => Ok (i, a')))).

(* defer func() { lb.actives[index]-- }()  -- runs whatever next did, also when it panicked *)
Definition la_finish (actives : list Z) (i : nat) (o : outcome) : res (list Z) :=
  add_at actives i (-1).

(* ------------------------------------------------------------------ *)
(* weighted_loadbalance.go: MakeWeightedLoadBalance panics on a weight <= 0.
   The weights are given in the order of lb.URLs (Go's map iteration order). *)
Definition mk_weighted (ws : list Z) : res (list Z) :=
  if forallb (fun w => 0 <? w) ws then Ok ws else Panic.

(* the deferred bookkeeping shared by Nginx / WeightedRandom / WeightedLeastActive:
     if e := recover(); e != nil { err = core.NewPanicError(e) }
     if err == nil { if eff[index] < Weights[index] { eff[index]++ } }
     else if eff[index] > 0 { eff[index]-- } *)
Definition eff_update (W eff : list Z) (i : nat) (o : outcome) : res (list Z) :=
  match nth_error eff i with
  | None => Panic
  | Some e =>
      match o with
      | OOk =>
          match nth_error W i with
          | None => Panic
          | Some w => Ok (if e <? w then upd_nth i (e + 1) eff else eff)
          end
      | _ => Ok (if e >? 0 then upd_nth i (e - 1) eff else eff)
      end
  end.

(* ------------------------------------------------------------------ *)
(* weighted_round_robin_loadbalance.go
     New: index: -1, currentWeight: 0, maxWeight = Weights.Max(), gcdWeight = Weights.GCD()
     func (lb) getIndex() int {
       n := len(lb.URLs)
       for {
         lb.index = (lb.index + 1) % n
         if lb.index == 0 {
           lb.currentWeight -= lb.gcdWeight
           if lb.currentWeight <= 0 { lb.currentWeight = lb.maxWeight } }
         if lb.Weights[lb.index] >= lb.currentWeight { return lb.index } } } *)
Record wrr_cfg := { wr_weights : list Z; wr_max : Z; wr_gcd : Z }.
Record wrr_st := { wr_index : Z; wr_cw : Z }.

Definition wrr_new (ws : list Z) : res (wrr_cfg * wrr_st) :=
  bind (mk_weighted ws) (fun w =>
  bind (zgcd w) (fun g =>
    Ok ({| wr_weights := w; wr_max := zmax w; wr_gcd := g |},
        {| wr_index := -1; wr_cw := 0 |}))).

(* one iteration of the for loop: new state and whether it returns *)
Definition wrr_iter (c : wrr_cfg) (s : wrr_st) : res (wrr_st * bool) :=
  let n := len (wr_weights c) in
  if n =? 0 then Panic (* integer divide by zero *)
  else
    let i1 := Z.rem (wr_index s + 1) n in
    let cw1 := if i1 =? 0
               then (let d := wr_cw s - wr_gcd c in if d <=? 0 then wr_max c else d)
               else wr_cw s in
    match zth (wr_weights c) i1 with
    | None => Panic
    | Some w => Ok ({| wr_index := i1; wr_cw := cw1 |}, w >=? cw1)
    end.

Fixpoint wrr_loop (fuel : nat) (c : wrr_cfg) (s : wrr_st) : res (nat * wrr_st) :=
  match fuel with
  | O => OutOfFuel
  | S f =>
      bind (wrr_iter c s) (fun sh =>
        if snd sh then bind (url_at (length (wr_weights c)) (wr_index (fst sh))) (fun k => Ok (k, fst sh))
        else wrr_loop f c (fst sh))
  end.

(* the loop budget: one more than the number of servers *)
Definition wrr_pick (c : wrr_cfg) (s : wrr_st) : res (nat * wrr_st) :=
  wrr_loop (S (length (wr_weights c))) c s.

Definition wrr_run (k : nat) (c : wrr_cfg) (s : wrr_st) : res (list nat * wrr_st) :=
  pick_run (wrr_pick c) k s.

(* ------------------------------------------------------------------ *)
(* nginx_round_robin_loadbalance.go
     New: currentWeights = zeros, effectiveWeights = copy(Weights)
     func (lb) getIndex() int {
       n := len(lb.URLs)
       totalWeight := lb.effectiveWeights.Sum()
       if totalWeight > 0 {
         var index int
         currentWeight := int64(math.MinInt64)
         for i := 0; i < n; i++ {
           lb.currentWeights[i] += lb.effectiveWeights[i]
           weight := lb.currentWeights[i]
           if currentWeight < weight { currentWeight = weight; index = i } }
         lb.currentWeights[index] = currentWeight - totalWeight
         return index }
       return rand.Intn(n) } *)
Record ng_st := { ng_eff : list Z; ng_cur : list Z }.

Definition min_int64 : Z := -9223372036854775808.

Definition ng_new (ws : list Z) : res ng_st :=
  bind (mk_weighted ws) (fun w => Ok {| ng_eff := w; ng_cur := map (fun _ => 0) w |}).

(* the for loop: returns the updated currentWeights, the maximum and its first index *)
Fixpoint ng_scan (cur eff : list Z) (i : nat) (best : Z) (bi : nat) : res (list Z * (Z * nat)) :=
  match cur, eff with
  | [], [] => Ok ([], (best, bi))
  | c :: cr, e :: er =>
      let w := c + e in
      let bb := if best <? w then (w, i) else (best, bi) in
      bind (ng_scan cr er (S i) (fst bb) (snd bb)) (fun lb => Ok (w :: fst lb, snd lb))
  | _, _ => Panic
  end.

Definition ng_get (s : ng_st) (r : Z) : res (nat * ng_st) :=
  let n := length (ng_eff s) in
  let total := zsum (ng_eff s) in
  if total >? 0 then
    bind (ng_scan (ng_cur s) (ng_eff s) 0 min_int64 0) (fun lb =>
      let cur1 := fst lb in
      let best := fst (snd lb) in
      let bi := snd (snd lb) in
      if Nat.ltb bi (length cur1)
      then Ok (bi, {| ng_eff := ng_eff s; ng_cur := upd_nth bi (best - total) cur1 |})
      else Panic)
  else bind (rand_intn n r) (fun i => Ok (i, s)).

(* Handler up to next(): index := getIndex(); URL = lb.URLs[index] *)
Definition ng_pick (s : ng_st) (r : Z) : res (nat * ng_st) :=
  bind (ng_get s r) (fun is => bind (url_at_nat (length (ng_eff s)) (fst is)) (fun _ => Ok is)).

(* the deferred function *)
Definition ng_settle (W : list Z) (s : ng_st) (i : nat) (o : outcome) : res ng_st :=
  bind (eff_update W (ng_eff s) i o) (fun e => Ok {| ng_eff := e; ng_cur := ng_cur s |}).

(* one whole call whose downstream handler succeeds *)
Definition ng_call_ok (W : list Z) (s : ng_st) : res (nat * ng_st) :=
  bind (ng_pick s 0) (fun is =>
  bind (ng_settle W (snd is) (fst is) OOk) (fun s1 => Ok (fst is, s1))).

Definition ng_run_ok (k : nat) (W : list Z) (s : ng_st) : res (list nat * ng_st) :=
  pick_run (ng_call_ok W) k s.

(* ------------------------------------------------------------------ *)
(* weighted_random_loadbalance.go
     func (lb) getIndex() int {
       n := len(lb.URLs); index := n - 1
       totalWeight := lb.effectiveWeights.Sum()
       if totalWeight <= 0 { return rand.Intn(n) }
       currentWeight := rand.Int63n(totalWeight)
       for i := 0; i < n; i++ {
         currentWeight -= lb.effectiveWeights[i]
         if currentWeight < 0 { index = i; break } }
       return index } *)
Fixpoint wr_scan (eff : list Z) (i : nat) (cw : Z) (dflt : nat) : nat :=
  match eff with
  | [] => dflt
  | e :: r => let cw' := cw - e in if cw' <? 0 then i else wr_scan r (S i) cw' dflt
  end.

Definition wr_get (eff : list Z) (r : Z) : res nat :=
  let n := length eff in
  let total := zsum eff in
  if total <=? 0 then rand_intn n r
  else if in_range total r then Ok (wr_scan eff 0 r (n - 1)) else BadScript.

Definition wr_pick (eff : list Z) (r : Z) : res (nat * list Z) :=
  bind (wr_get eff r) (fun i => bind (url_at_nat (length eff) i) (fun _ => Ok (i, eff))).

Definition wr_settle (W eff : list Z) (i : nat) (o : outcome) : res (list Z) := eff_update W eff i o.

(* the indices some rand value can select, and a rand value selecting a given one *)
Definition positive_indexes (eff : list Z) : list nat :=
  filter (fun i => match nth_error eff i with Some e => 0 <? e | None => false end) (seq 0 (length eff)).

Definition wr_admissible (eff : list Z) : res (list nat) :=
  if zsum eff <=? 0 then (if Nat.eqb (length eff) 0 then Panic else Ok (seq 0 (length eff)))
  else Ok (positive_indexes eff).

Definition wr_oracle (eff : list Z) (i : nat) : Z :=
  if zsum eff <=? 0 then Z.of_nat i else fold_right Z.add 0 (firstn i eff).

(* ------------------------------------------------------------------ *)
(* weighted_least_active_loadbalance.go
     func (lb) getIndex() int {
       n := len(lb.URLs)
       RLock
       leastActive := lb.actives.Min()
       var totalWeight int64
       for i := 0; i < n; i++ {
         if lb.actives[i] == leastActive { append(leastActiveIndexes, i); totalWeight += lb.effectiveWeights[i] } }
       RUnlock
       index := leastActiveIndexes[0]; count := len(leastActiveIndexes)
       if count <= 1 { return index }
       if totalWeight <= 0 { return leastActiveIndexes[rand.Intn(count)] }
       currentWeight := rand.Int63n(totalWeight)
       RLock
       for i := 0; i < count; i++ {
         currentWeight -= lb.effectiveWeights[leastActiveIndexes[i]]
         if currentWeight < 0 { index = leastActiveIndexes[i]; break } }
       RUnlock
       return index } *)
Record wla_st := { wl_act : list Z; wl_eff : list Z }.

Definition wla_new (ws : list Z) : res wla_st :=
  bind (mk_weighted ws) (fun w => Ok {| wl_act := map (fun _ => 0) w; wl_eff := w |}).

Fixpoint wla_scan1 (k i : nat) (act eff : list Z) (least : Z) : res (list nat * Z) :=
  match k with
  | O => Ok ([], 0)
  | S k' =>
      match act with
      | [] => Panic
      | a :: ar =>
          if a =? least then
            match eff with
            | [] => Panic
            | e :: er => bind (wla_scan1 k' (S i) ar er least) (fun tt => Ok (i :: fst tt, e + snd tt))
            end
          else wla_scan1 k' (S i) ar (tl eff) least
      end
  end.

Fixpoint wla_scan2 (cands : list nat) (eff : list Z) (cw : Z) (dflt : nat) : res nat :=
  match cands with
  | [] => Ok dflt
  | c :: r =>
      match nth_error eff c with
      | None => Panic
      | Some e => let cw' := cw - e in if cw' <? 0 then Ok c else wla_scan2 r eff cw' dflt
      end
  end.

(* [eff1] is what the first read-locked section sees, [eff2] what the second one sees; a
   sequential caller has eff1 = eff2 *)
Definition wla_get (n : nat) (act eff1 eff2 : list Z) (r : Z) : res nat :=
  let least := zmin act in
  bind (wla_scan1 n 0 act eff1 least) (fun ct =>
    let cands := fst ct in
    let total := snd ct in
    match cands with
    | [] => Panic
    | c0 :: _ =>
        if Nat.leb (length cands) 1 then Ok c0
        else if total <=? 0 then
          bind (rand_intn (length cands) r)
               (fun j => match nth_error cands j with Some c => Ok c | None => Panic end)
        else if in_range total r then wla_scan2 cands eff2 r c0 else BadScript
    end).

(* Handler up to next(): getIndex, URLs[index], actives[index]++ *)
Definition wla_pick (s : wla_st) (r : Z) : res (nat * wla_st) :=
  let n := length (wl_eff s) in
  bind (wla_get n (wl_act s) (wl_eff s) (wl_eff s) r) (fun i =>
  bind (url_at_nat n i) (fun _ =>
  bind (add_at (wl_act s) i 1) (fun a => Ok (i, {| wl_act := a; wl_eff := wl_eff s |})))).

(* deferred: actives[index]--, then the effective-weight bookkeeping *)
Definition wla_settle (W : list Z) (s : wla_st) (i : nat) (o : outcome) : res wla_st :=
  bind (add_at (wl_act s) i (-1)) (fun a =>
  bind (eff_update W (wl_eff s) i o) (fun e => Ok {| wl_act := a; wl_eff := e |})).

Definition wla_admissible (s : wla_st) : res (list nat) :=
  bind (wla_scan1 (length (wl_eff s)) 0 (wl_act s) (wl_eff s) (zmin (wl_act s))) (fun ct =>
    let cands := fst ct in
    match cands with
    | [] => Panic
    | c0 :: _ =>
        if Nat.leb (length cands) 1 then Ok [c0]
        else if snd ct <=? 0 then Ok cands
        else Ok (filter (fun c => match nth_error (wl_eff s) c with Some e => 0 <? e | None => false end) cands)
    end).

Fixpoint pos_of (x : nat) (l : list nat) : nat :=
  match l with
  | [] => O
  | y :: r => if Nat.eqb x y then O else S (pos_of x r)
  end.

(* sum of eff[c] over the candidates before [x] *)
Fixpoint weight_before (x : nat) (cands : list nat) (eff : list Z) : Z :=
  match cands with
  | [] => 0
  | c :: r => if Nat.eqb x c then 0
              else (match nth_error eff c with Some e => e | None => 0 end) + weight_before x r eff
  end.

Definition wla_oracle (s : wla_st) (i : nat) : Z :=
  match wla_scan1 (length (wl_eff s)) 0 (wl_act s) (wl_eff s) (zmin (wl_act s)) with
  | Ok ct => if snd ct <=? 0 then Z.of_nat (pos_of i (fst ct)) else weight_before i (fst ct) (wl_eff s)
  | _ => 0
  end.

(* ------------------------------------------------------------------ *)
(* The seven balancers behind one interface, and histories of concurrent calls at the
   granularity of the plugins' critical sections: [EStart r] runs a Handler up to its call of
   next (drawing r if it asks rand), [EFinish k o] lets call number k return from next with
   outcome o and runs the deferred part.  Any interleaving of calls is such a history. *)
Record machine (S : Type) := Machine {
  m_pick : S -> Z -> res (nat * S);
  m_settle : S -> nat -> outcome -> res S;
  m_adm : S -> res (list nat);          (* the indices m_pick may return in this state *)
  m_oracle : S -> nat -> Z;             (* a rand value making m_pick return that index *)
  m_draw : S -> Z * Z;                  (* the rand call m_pick makes in this state:
                                           (0,_) none, (1,a) rand.Intn(a), (2,a) rand.Int63n(a) *)
  m_obs : S -> list Z                   (* the plugin's fields, flattened, for comparison *)
}.
Arguments m_pick {S}. Arguments m_settle {S}. Arguments m_adm {S}.
Arguments m_oracle {S}. Arguments m_draw {S}. Arguments m_obs {S}.

Definition no_draw : Z * Z := (0, 0).

Definition la_draw (n : nat) (a : list Z) : Z * Z :=
  match la_candidates n (la_prepare n a) with
  | Ok cands => if Nat.ltb 1 (length cands) then (1, Z.of_nat (length cands)) else no_draw
  | _ => no_draw
  end.

Definition ng_draw (s : ng_st) : Z * Z :=
  if zsum (ng_eff s) >? 0 then no_draw else (1, Z.of_nat (length (ng_eff s))).

Definition wr_draw (eff : list Z) : Z * Z :=
  if zsum eff <=? 0 then (1, Z.of_nat (length eff)) else (2, zsum eff).

Definition wla_draw (s : wla_st) : Z * Z :=
  match wla_scan1 (length (wl_eff s)) 0 (wl_act s) (wl_eff s) (zmin (wl_act s)) with
  | Ok ct => if Nat.leb (length (fst ct)) 1 then no_draw
             else if snd ct <=? 0 then (1, Z.of_nat (length (fst ct))) else (2, snd ct)
  | _ => no_draw
  end.

Inductive event := EStart (r : Z) | EFinish (k : nat) (o : outcome).

(* calls: per call number, Some i while in flight on server i, None once finished *)
Fixpoint run {S} (m : machine S) (s : S) (calls : list (option nat)) (h : list event)
  : res (list nat * (S * list (option nat))) :=
  match h with
  | [] => Ok ([], (s, calls))
  | EStart r :: h' =>
      bind (m_pick m s r) (fun is =>
      bind (run m (snd is) (calls ++ [Some (fst is)]) h') (fun x => Ok (fst is :: fst x, snd x)))
  | EFinish k o :: h' =>
      match nth_error calls k with
      | Some (Some i) => bind (m_settle m s i o) (fun s1 => run m s1 (upd_nth k None calls) h')
      | _ => BadScript
      end
  end.

Definition adm_of_pick {S} (pick : S -> Z -> res (nat * S)) (s : S) : res (list nat) :=
  bind (pick s 0) (fun is => Ok [fst is]).

Definition rr_machine (n : nat) : machine Z :=
  {| m_pick := fun s _ => rr_pick n s;
     m_settle := fun s _ _ => Ok s;
     m_adm := adm_of_pick (fun s _ => rr_pick n s);
     m_oracle := fun _ i => Z.of_nat i;
     m_draw := fun _ => no_draw;
     m_obs := fun s => [s] |}.

Definition rnd_machine (n : nat) : machine unit :=
  {| m_pick := fun s r => bind (rnd_pick n r) (fun i => Ok (i, s));
     m_settle := fun s _ _ => Ok s;
     m_adm := fun _ => if Nat.eqb n 0 then Panic else Ok (seq 0 n);
     m_oracle := fun _ i => Z.of_nat i;
     m_draw := fun _ => (1, Z.of_nat n);
     m_obs := fun _ => [] |}.

Definition la_machine (n : nat) : machine (list Z) :=
  {| m_pick := la_start n;
     m_settle := la_finish;
     m_adm := fun a => la_candidates n (la_prepare n a);
     m_oracle := fun a i => match la_candidates n (la_prepare n a) with
                            | Ok cands => Z.of_nat (pos_of i cands) | _ => 0 end;
     m_draw := la_draw n;
     m_obs := fun a => a |}.

Definition wrr_machine (c : wrr_cfg) : machine wrr_st :=
  {| m_pick := fun s _ => wrr_pick c s;
     m_settle := fun s _ _ => Ok s;
     m_adm := adm_of_pick (fun s _ => wrr_pick c s);
     m_oracle := fun _ i => Z.of_nat i;
     m_draw := fun _ => no_draw;
     m_obs := fun s => [wr_index s; wr_cw s] |}.

Definition ng_machine (W : list Z) : machine ng_st :=
  {| m_pick := ng_pick;
     m_settle := ng_settle W;
     m_adm := fun s => if zsum (ng_eff s) >? 0 then adm_of_pick ng_pick s
                       else if Nat.eqb (length (ng_eff s)) 0 then Panic
                       else Ok (seq 0 (length (ng_eff s)));
     m_oracle := fun _ i => Z.of_nat i;
     m_draw := ng_draw;
     m_obs := fun s => ng_eff s ++ ng_cur s |}.

Definition wrand_machine (W : list Z) : machine (list Z) :=
  {| m_pick := wr_pick;
     m_settle := wr_settle W;
     m_adm := wr_admissible;
     m_oracle := wr_oracle;
     m_draw := wr_draw;
     m_obs := fun e => e |}.

Definition wla_machine (W : list Z) : machine wla_st :=
  {| m_pick := wla_pick;
     m_settle := wla_settle W;
     m_adm := wla_admissible;
     m_oracle := wla_oracle;
     m_draw := wla_draw;
     m_obs := fun s => wl_act s ++ wl_eff s |}.

(* ------------------------------------------------------------------ *)
(* Replaying an observed history: the implementation's choice at each start is given; the
   model reports its admissible set, draws the rand value selecting the observed choice (or its
   own first admissible one when the observed choice is not admissible), and goes on. *)
(* Histories in which the client's URL list changes between calls ([CConfig n]: from now on
   len(urls) = n).  RoundRobin, Random and LeastActive read the list at every call; the four
   weighted balancers keep their own list from construction and do not look at it.  Picks are
   recorded together with the n in force when they were made. *)
Inductive cevent := CEv (e : event) | CConfig (n : nat).

Fixpoint run_cfg {S} (mk : nat -> machine S) (n : nat) (s : S) (calls : list (option nat))
  (h : list cevent) : res (list (nat * nat) * (S * list (option nat))) :=
  match h with
  | [] => Ok ([], (s, calls))
  | CConfig n' :: h' => run_cfg mk n' s calls h'
  | CEv (EStart r) :: h' =>
      bind (m_pick (mk n) s r) (fun is =>
      bind (run_cfg mk n (snd is) (calls ++ [Some (fst is)]) h') (fun x => Ok ((fst is, n) :: fst x, snd x)))
  | CEv (EFinish k o) :: h' =>
      match nth_error calls k with
      | Some (Some i) => bind (m_settle (mk n) s i o) (fun s1 => run_cfg mk n s1 (upd_nth k None calls) h')
      | _ => BadScript
      end
  end.

Inductive oevent := OStart (chosen : nat) | OFinish (k : nat) (o : outcome) | OConfig (n : nat).

Record step_obs := { so_adm : list nat; so_pick : option nat; so_state : list Z; so_draw : Z * Z }.

Fixpoint run_obs {S} (mk : nat -> machine S) (n : nat) (s : S) (calls : list (option nat)) (h : list oevent)
  : list (res step_obs) :=
  match h with
  | [] => []
  | OConfig n' :: h' =>
      Ok {| so_adm := []; so_pick := None; so_state := m_obs (mk n') s; so_draw := no_draw |}
      :: run_obs mk n' s calls h'
  | OStart chosen :: h' =>
      let m := mk n in
      match m_adm m s with
      | Ok adm =>
          let c := if existsb (Nat.eqb chosen) adm then chosen else hd chosen adm in
          match m_pick m s (m_oracle m s c) with
          | Ok (i, s1) =>
              Ok {| so_adm := adm; so_pick := Some i; so_state := m_obs m s1; so_draw := m_draw m s |}
              :: run_obs mk n s1 (calls ++ [Some i]) h'
          | Panic => [Panic] | OutOfFuel => [OutOfFuel] | BadScript => [BadScript]
          end
      | Panic => [Panic] | OutOfFuel => [OutOfFuel] | BadScript => [BadScript]
      end
  | OFinish k o :: h' =>
      let m := mk n in
      match nth_error calls k with
      | Some (Some i) =>
          match m_settle m s i o with
          | Ok s1 => Ok {| so_adm := []; so_pick := None; so_state := m_obs m s1; so_draw := no_draw |}
                     :: run_obs mk n s1 (upd_nth k None calls) h'
          | Panic => [Panic] | OutOfFuel => [OutOfFuel] | BadScript => [BadScript]
          end
      | _ => [BadScript]
      end
  end.

