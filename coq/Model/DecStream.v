(* Model of the decoder's refillable read buffer (C05):
   /repo/io/decoder.go, num_decoder.go, string_decoder.go, bytes_decoder.go, time_decoder.go.
   Executable definitions only; proofs live in Proofs/DecStreamProofs.v. *)
From Coq Require Import List ZArith NArith Bool Init.Byte.
Import ListNotations.

(* dec.Error classes that the buffer primitives can produce *)
Inductive errk := EEOF | EInvalidUTF8 | ENegLen.      (* ENegLen: DecodeError("hprose/io: negative length") *)

(* places where Go would panic on the modelled paths *)
Inductive psite :=
| PIndex            (* buf[i] with i >= len(buf) *)
| PNextNeg          (* dec.buf[head:head+n] with n < 0 *)
| PNextMake         (* next: make([]byte, remain, n) with head > tail *)
| PSlice            (* a slice expression out of range, other than the ones below *)
| PStrWindow        (* readStringAsBytes: buf := dec.buf[dec.head:dec.tail] with head > tail *)
| PStrExtra         (* readStringAsBytes: dec.buf[dec.head:dec.head-remains] beyond cap *)
| PStrMake          (* readStringAsBytes: make([]byte, 0, utf16Length*3) with negative cap *)
| PStrFast.         (* fastReadStringAsBytes: buf[:off] beyond cap *)

Inductive res (A : Type) := Ok (a : A) | Panic (s : psite) | OutOfFuel.
Arguments Ok {A}. Arguments Panic {A}. Arguments OutOfFuel {A}.

(* Decoder{buf, head, tail, reader, Error}.  [buf] keeps whatever earlier reads left
   beyond [tail].  The reader is scripted: the chunks it will still hand out (an empty
   chunk is a Read returning (0, nil)); after the last one it returns (0, io.EOF).
   isreader = false is NewDecoder(input): reader == nil. *)
Record dst := mk {
  buf : list byte; head : nat; tail : nat;
  pending : list (list byte); isreader : bool; err : option errk }.

Definition or_err (e : option errk) (k : errk) : option errk :=
  match e with None => Some k | Some _ => e end.       (* if dec.Error == nil { dec.Error = k } *)
Definition set_err (d : dst) (k : errk) : dst :=
  mk (buf d) (head d) (tail d) (pending d) (isreader d) (or_err (err d) k).
Definition set_head (d : dst) (h : nat) : dst :=
  mk (buf d) h (tail d) (pending d) (isreader d) (err d).

(* Go slice expression b[lo:hi] on a slice whose capacity is length b *)
Definition slice (b : list byte) (lo hi : nat) : option (list byte) :=
  if (lo <=? hi) && (hi <=? length b) then Some (firstn (hi - lo) (skipn lo b)) else None.

(* copy(buf, c): overwrite a prefix, keep the stale rest *)
Definition overwrite (b c : list byte) : list byte := c ++ skipn (length c) b.

(* the part of the buffer not yet consumed, and everything still to come *)
Definition window (d : dst) : list byte := firstn (tail d - head d) (skipn (head d) (buf d)).
Definition remaining (d : dst) : list byte := window d ++ concat (pending d).

(* The next non-empty delivery of reader.Read(p) with len(p) = cap: empty chunks are
   (0,nil) reads and are retried; a chunk longer than cap is handed out in pieces. *)
Fixpoint deliver (cap : nat) (p : list (list byte)) : option (list byte * list (list byte)) :=
  match p with
  | [] => None
  | [] :: r => deliver cap r
  | c :: r => if length c <=? cap then Some (c, r) else Some (firstn cap c, skipn cap c :: r)
  end.

(* func (dec *Decoder) loadMore() bool {
     if dec.reader == nil { dec.head = dec.tail; if dec.Error == nil { dec.Error = io.EOF }; return false }
     for { n, err := dec.reader.Read(dec.buf); dec.head = 0; dec.tail = n
           if n > 0 { return true }
           if err != nil { if dec.Error == nil { dec.Error = err }; return false } } } *)
Definition loadMore (d : dst) : res (bool * dst) :=
  if isreader d then
    match length (buf d) with
    | O => match concat (pending d) with
           | [] => Ok (false, mk (buf d) 0 0 [] true (or_err (err d) EEOF))
           | _ => OutOfFuel      (* Read into an empty buffer returns (0,nil) for ever *)
           end
    | S _ =>
      match deliver (length (buf d)) (pending d) with
      | None => Ok (false, mk (buf d) 0 0 [] true (or_err (err d) EEOF))
      | Some (c, p') => Ok (true, mk (overwrite (buf d) c) 0 (length c) p' true (err d))
      end
    end
  else Ok (false, mk (buf d) (tail d) (tail d) (pending d) false (or_err (err d) EEOF)).

(* the common prologue  (dec.head == dec.tail) && !dec.loadMore()  *)
Definition ensure (d : dst) : res (bool * dst) :=
  if head d =? tail d then loadMore d else Ok (true, d).

(* an upper bound on the number of successful refills still possible *)
Definition fuel_of (d : dst) : nat := S (length (pending d) + length (concat (pending d))).

Definition zero : byte := x00.

(* func (dec *Decoder) NextByte() (b byte) *)
Definition nextByte (d : dst) : res (byte * dst) :=
  match ensure d with
  | Ok (false, d1) => Ok (zero, d1)
  | Ok (true, d1) =>
      match nth_error (buf d1) (head d1) with
      | Some b => Ok (b, set_head d1 (S (head d1)))
      | None => Panic PIndex
      end
  | Panic s => Panic s | OutOfFuel => OutOfFuel
  end.

(* func (dec *Decoder) Skip() *)
Definition skip (d : dst) : res dst :=
  match ensure d with
  | Ok (false, d1) => Ok d1
  | Ok (true, d1) => Ok (set_head d1 (S (head d1)))
  | Panic s => Panic s | OutOfFuel => OutOfFuel
  end.

(* the loop of next(n):
     for { if !dec.loadMore() { return }
           if dec.tail >= n { dec.head = n; data = append(data, dec.buf[0:n]...); return }
           data = append(data, dec.buf[:dec.tail]...); n -= dec.tail } *)
Fixpoint next_loop (fuel : nat) (d : dst) (n : nat) (data : list byte) : res (list byte * dst) :=
  match fuel with
  | O => OutOfFuel
  | S f =>
    match loadMore d with
    | Ok (false, d1) => Ok (data, d1)
    | Ok (true, d1) =>
        if n <=? tail d1 then
          match slice (buf d1) 0 n with
          | Some x => Ok (data ++ x, set_head d1 n)
          | None => Panic PSlice
          end
        else
          match slice (buf d1) 0 (tail d1) with
          | Some x => next_loop f d1 (n - tail d1) (data ++ x)
          | None => Panic PSlice
          end
    | Panic s => Panic s | OutOfFuel => OutOfFuel
    end
  end.

(* func (dec *Decoder) next(n int) (data []byte, safe bool); None is the nil slice.
   After the emptiness test:  if n < 0 { if dec.Error == nil { dec.Error = DecodeError("negative length") }; return nil, true }
   and the copy is made with capacity min(n, remain+len(dec.buf)) -- append grows it (no observable effect). *)
Definition next (n : Z) (d : dst) : res (option (list byte) * bool * dst) :=
  match ensure d with
  | Ok (false, d1) => Ok (None, true, d1)
  | Ok (true, d1) =>
      if (n <? 0)%Z then Ok (None, true, set_err d1 ENegLen) else
      let remain := (Z.of_nat (tail d1) - Z.of_nat (head d1))%Z in
      if (n <=? remain)%Z then
          let k := Z.to_nat n in
          match slice (buf d1) (head d1) (head d1 + k) with
          | Some x => Ok (Some x, false, set_head d1 (head d1 + k))
          | None => Panic PSlice
          end
      else
        if (remain <? 0)%Z then Panic PNextMake      (* make([]byte, remain, ..) with remain < 0 *)
        else
          match slice (buf d1) (head d1) (tail d1) with
          | Some x =>
              match next_loop (fuel_of d1) d1 (Z.to_nat (n - remain)) x with
              | Ok (dt, d2) => Ok (Some dt, true, d2)
              | Panic s => Panic s | OutOfFuel => OutOfFuel
              end
          | None => Panic PSlice
          end
  | Panic s => Panic s | OutOfFuel => OutOfFuel
  end.

(* bytes.IndexByte *)
Fixpoint index_byte (b : list byte) (c : byte) : option nat :=
  match b with
  | [] => None
  | x :: r => if Byte.eqb x c then Some O else option_map S (index_byte r c)
  end.

(* the loop of until(delim):
     for { data = append(data, dec.buf[dec.head:dec.tail]...)
           if !dec.loadMore() { return }
           if i := bytes.IndexByte(dec.buf[dec.head:dec.tail], delim); i >= 0 {
              data = append(data, dec.buf[dec.head:dec.head+i]...); dec.head += i + 1; return } } *)
Fixpoint until_loop (fuel : nat) (delim : byte) (d : dst) (data : list byte) : res (list byte * dst) :=
  match fuel with
  | O => OutOfFuel
  | S f =>
    match slice (buf d) (head d) (tail d) with
    | None => Panic PSlice
    | Some w =>
      let data1 := data ++ w in
      match loadMore d with
      | Ok (false, d1) => Ok (data1, d1)
      | Ok (true, d1) =>
          match slice (buf d1) (head d1) (tail d1) with
          | None => Panic PSlice
          | Some w1 =>
            match index_byte w1 delim with
            | Some i =>
                match slice (buf d1) (head d1) (head d1 + i) with
                | Some x => Ok (data1 ++ x, set_head d1 (head d1 + i + 1))
                | None => Panic PSlice
                end
            | None => until_loop f delim d1 data1
            end
          end
      | Panic s => Panic s | OutOfFuel => OutOfFuel
      end
    end
  end.

(* func (dec *Decoder) until(delim byte) (data []byte, safe bool) *)
Definition until (delim : byte) (d : dst) : res (option (list byte) * bool * dst) :=
  match ensure d with
  | Ok (false, d1) => Ok (None, true, d1)
  | Ok (true, d1) =>
      match slice (buf d1) (head d1) (tail d1) with
      | None => Panic PSlice
      | Some w =>
        match index_byte w delim with
        | Some i =>
            match slice (buf d1) (head d1) (head d1 + i) with
            | Some x => Ok (Some x, false, set_head d1 (head d1 + i + 1))
            | None => Panic PSlice
            end
        | None =>
            match until_loop (fuel_of d1) delim d1 [] with
            | Ok (dt, d2) => Ok (Some dt, true, d2)
            | Panic s => Panic s | OutOfFuel => OutOfFuel
            end
        end
      end
  | Panic s => Panic s | OutOfFuel => OutOfFuel
  end.

(* the loop of Remains():
     for { data = append(data, dec.buf[dec.head:dec.tail]...); if !dec.loadMore() { return } } *)
Fixpoint remains_loop (fuel : nat) (d : dst) (data : list byte) : res (list byte * dst) :=
  match fuel with
  | O => OutOfFuel
  | S f =>
    match slice (buf d) (head d) (tail d) with
    | None => Panic PSlice
    | Some w =>
      match loadMore d with
      | Ok (false, d1) => Ok (data ++ w, d1)
      | Ok (true, d1) => remains_loop f d1 (data ++ w)
      | Panic s => Panic s | OutOfFuel => OutOfFuel
      end
    end
  end.

Definition remains (d : dst) : res (option (list byte) * dst) :=
  match ensure d with
  | Ok (false, d1) => Ok (None, d1)
  | Ok (true, d1) =>
      match remains_loop (fuel_of d1) d1 [] with
      | Ok (dt, d2) => Ok (Some dt, d2)
      | Panic s => Panic s | OutOfFuel => OutOfFuel
      end
  | Panic s => Panic s | OutOfFuel => OutOfFuel
  end.

(* ---------------------------------------------------------------- numbers *)

(* intDigits[c]: None is invalidDigit *)
Definition digit (c : byte) : option N :=
  let x := Byte.to_N c in
  if (48 <=? x)%N && (x <=? 57)%N then Some (x - 48)%N else None.

Definition two64 : N := 18446744073709551616%N.
Definition wrap64 (v : N) : N := (v mod two64)%N.

(* for p := dec.head; p < dec.tail; p++ { i = intDigits[dec.buf[p]]
     if i == invalidDigit { dec.head = p + 1; return }; value = value*10 + i }
   over the window; Some k: stopped at window index k *)
Fixpoint scan_digits (w : list byte) (v : N) : N * option nat :=
  match w with
  | [] => (v, None)
  | b :: r =>
    match digit b with
    | None => (v, Some O)
    | Some i => let '(v', k) := scan_digits r (wrap64 (v * 10 + i)) in (v', option_map S k)
    end
  end.

Fixpoint uint_loop (fuel : nat) (d : dst) (v : N) : res (N * dst) :=
  match fuel with
  | O => OutOfFuel
  | S f =>
    (* for p := dec.head; p < dec.tail; p++ : no iteration (and no slicing) when head >= tail *)
    match (if tail d <? head d then Some [] else slice (buf d) (head d) (tail d)) with
    | None => Panic PSlice
    | Some w =>
      match scan_digits w v with
      | (v', Some k) => Ok (v', set_head d (head d + k + 1))
      | (v', None) =>
        match loadMore d with
        | Ok (false, d1) => Ok (v', d1)
        | Ok (true, d1) => uint_loop f d1 v'
        | Panic s => Panic s | OutOfFuel => OutOfFuel
        end
      end
    end
  end.

(* func (dec *Decoder) readUint64(c byte) (value uint64) *)
Definition readUint64 (c : byte) (d : dst) : res (N * dst) :=
  match digit c with
  | None => Ok (0%N, d)
  | Some i => uint_loop (S (fuel_of d)) d i
  end.

Definition minus : byte := x2d.

(* int64(v) and -int64(v) for a uint64 v, as mathematical integers *)
Definition to_int64 (v : N) : Z :=
  if (v <? 9223372036854775808)%N then Z.of_N v else (Z.of_N v - Z.of_N two64)%Z.
Definition neg_int64 (v : N) : Z := to_int64 (wrap64 (two64 - wrap64 v)).

(* func (dec *Decoder) ReadInt64() *)
Definition readInt64 (d : dst) : res (Z * dst) :=
  match nextByte d with
  | Ok (c, d1) =>
      if Byte.eqb c minus then
        match nextByte d1 with
        | Ok (c2, d2) =>
            match readUint64 c2 d2 with
            | Ok (v, d3) => Ok (neg_int64 v, d3)
            | Panic s => Panic s | OutOfFuel => OutOfFuel
            end
        | Panic s => Panic s | OutOfFuel => OutOfFuel
        end
      else
        match readUint64 c d1 with
        | Ok (v, d3) => Ok (to_int64 v, d3)
        | Panic s => Panic s | OutOfFuel => OutOfFuel
        end
  | Panic s => Panic s | OutOfFuel => OutOfFuel
  end.

(* func (dec *Decoder) ReadUint64() *)
Definition readUint64Top (d : dst) : res (Z * dst) :=
  match nextByte d with
  | Ok (c, d1) =>
      if Byte.eqb c minus then
        match nextByte d1 with
        | Ok (c2, d2) =>
            match readUint64 c2 d2 with
            | Ok (v, d3) => Ok (Z.of_N (wrap64 (two64 - wrap64 v)), d3)
            | Panic s => Panic s | OutOfFuel => OutOfFuel
            end
        | Panic s => Panic s | OutOfFuel => OutOfFuel
        end
      else
        match readUint64 c d1 with
        | Ok (v, d3) => Ok (Z.of_N v, d3)
        | Panic s => Panic s | OutOfFuel => OutOfFuel
        end
  | Panic s => Panic s | OutOfFuel => OutOfFuel
  end.

(* intDigits[b] as a uint64: 0xff for a non-digit *)
Definition digit_ff (c : byte) : N := match digit c with Some i => i | None => 255%N end.

(* read k digits with NextByte, most significant first: read2Digit, read3Digit, read4Digit *)
Fixpoint readDigits (k : nat) (acc : N) (d : dst) : res (N * dst) :=
  match k with
  | O => Ok (acc, d)
  | S k' =>
    match nextByte d with
    | Ok (c, d1) => readDigits k' (acc * 10 + digit_ff c)%N d1
    | Panic s => Panic s | OutOfFuel => OutOfFuel
    end
  end.
Definition read2Digit := readDigits 2 0%N.
Definition read3Digit := readDigits 3 0%N.
Definition read4Digit := readDigits 4 0%N.

Definition bind {A B} (x : res A) (f : A -> res B) : res B :=
  match x with Ok a => f a | Panic s => Panic s | OutOfFuel => OutOfFuel end.

(* func (dec *Decoder) readNsec() (nsec int, tag byte) *)
Definition readNsec (d : dst) : res (N * byte * dst) :=
  bind (read3Digit d) (fun '(n3, d1) =>
  let nsec := (n3 * 1000000)%N in
  bind (nextByte d1) (fun '(tag, d2) =>
  match digit tag with
  | None => Ok (nsec, tag, d2)
  | Some i =>
    bind (read2Digit d2) (fun '(n2, d3) =>
    let nsec := (nsec + i * 100000 + n2 * 1000)%N in
    bind (nextByte d3) (fun '(tag, d4) =>
    match digit tag with
    | None => Ok (nsec, tag, d4)
    | Some i =>
      bind (read2Digit d4) (fun '(n2, d5) =>
      let nsec := (nsec + i * 100 + n2)%N in
      bind (nextByte d5) (fun '(tag, d6) => Ok (nsec, tag, d6)))
    end))
  end)).

Definition tagPoint : byte := x2e.   (* '.' *)
Definition tagTime : byte := x54.    (* 'T' *)

(* hour min sec [. nsec] tag  — shared tail of readTime and readDateTime *)
Definition readHMS (d : dst) : res (list N * byte * dst) :=
  bind (read2Digit d) (fun '(h, d1) =>
  bind (read2Digit d1) (fun '(mi, d2) =>
  bind (read2Digit d2) (fun '(s, d3) =>
  bind (nextByte d3) (fun '(tag, d4) =>
  if Byte.eqb tag tagPoint then
    bind (readNsec d4) (fun '(ns, tag, d5) => Ok ([h; mi; s; ns], tag, d5))
  else Ok ([h; mi; s; 0%N], tag, d4))))).

(* func (dec *Decoder) readTime: fields [hour;min;sec;nsec] and the closing tag *)
Definition readTime := readHMS.

(* func (dec *Decoder) readDateTime: fields [year;month;day;hour;min;sec;nsec] and the closing tag *)
Definition readDateTime (d : dst) : res (list N * byte * dst) :=
  bind (read4Digit d) (fun '(y, d1) =>
  bind (read2Digit d1) (fun '(mo, d2) =>
  bind (read2Digit d2) (fun '(dd, d3) =>
  bind (nextByte d3) (fun '(tag, d4) =>
  if Byte.eqb tag tagTime then
    bind (readHMS d4) (fun '(l, tag, d5) => Ok ([y; mo; dd] ++ l, tag, d5))
  else Ok ([y; mo; dd; 0; 0; 0; 0]%N, tag, d4))))).

(* func (dec *Decoder) readBytes(): bytes := dec.Next(dec.ReadInt()); dec.Skip() *)
Definition readBytes (d : dst) : res (option (list byte) * dst) :=
  bind (readInt64 d) (fun '(n, d1) =>
  bind (next n d1) (fun '(x, _, d2) =>
  bind (skip d2) (fun d3 => Ok (x, d3)))).

(* ---------------------------------------------------------------- strings *)

(* checkUTF8String's switch on b >> 4: Some (bytes, utf16 units) or None = ErrInvalidUTF8 *)
Definition lead (b : byte) : option (nat * Z) :=
  let x := Byte.to_N b in
  let hi := (x / 16)%N in
  if (hi <=? 7)%N then Some (1, 1%Z)
  else if (hi =? 12)%N || (hi =? 13)%N then Some (2, 1%Z)
  else if (hi =? 14)%N then Some (3, 1%Z)
  else if (hi =? 15)%N then (if (N.land x 8 =? 8)%N then None else Some (4, 2%Z))
  else None.

(* fastReadStringAsBytes' loop over buf = dec.buf[head:tail]:
     for ; utf16Length > 0; utf16Length-- { off, utf16Length, ok = check(buf, off, utf16Length); if !ok { return } }
   None: invalid lead byte.  buf[off] is bounds-checked against len(buf). *)
Fixpoint fast_loop (fuel : nat) (w : list byte) (off : nat) (n : Z) : res (option nat) :=
  match fuel with
  | O => OutOfFuel
  | S f =>
    if (0 <? n)%Z then
      match nth_error w off with
      | None => Panic PIndex
      | Some b =>
        match lead b with
        | None => Ok None
        | Some (k, u) => fast_loop f w (off + k) (n - u)
        end
      end
    else Ok (Some off)
  end.

(* the inner loop of the slow path
     for ; utf16Length > 0 && off < length; utf16Length-- { ... }   result (off, utf16Length, ok) *)
Fixpoint slow_inner (fuel : nat) (w : list byte) (off : nat) (n length_ : Z) : res (nat * Z * bool) :=
  match fuel with
  | O => OutOfFuel
  | S f =>
    if (0 <? n)%Z && (Z.of_nat off <? length_)%Z then
      match nth_error w off with
      | None => Panic PIndex
      | Some b =>
        match lead b with
        | None => Ok (off, n, false)
        | Some (k, u) => slow_inner f w (off + k) (n - u) length_
        end
      end
    else Ok (off, n, true)
  end.

(* the refill loop inside the slow path (remains <= 0 is what the split character still owes, negated):
     for dec.tail < -remains {
        data = append(data, dec.buf[:dec.tail]...)
        remains += dec.tail
        if !dec.loadMore() { if dec.Error == nil { dec.Error = ErrInvalidUTF8 }; return } }
   result: (true, data, remains, d) when the loop ends normally, (false, data, remains, d) on the return *)
Fixpoint refill_loop (fuel : nat) (d : dst) (rem : Z) (data : list byte) : res (bool * list byte * Z * dst) :=
  match fuel with
  | O => OutOfFuel
  | S f =>
    if (Z.of_nat (tail d) <? - rem)%Z then
      match slice (buf d) 0 (tail d) with
      | None => Panic PSlice
      | Some x =>
        let rem1 := (rem + Z.of_nat (tail d))%Z in
        match loadMore d with
        | Panic s => Panic s
        | OutOfFuel => OutOfFuel
        | Ok (false, d1) => Ok (false, data ++ x, rem1, set_err d1 EInvalidUTF8)
        | Ok (true, d1) => refill_loop f d1 rem1 (data ++ x)
        end
      end
    else Ok (true, data, rem, d)
  end.

(* the outer loop of readStringAsBytes (string_decoder.go), statement by statement:
     for { buf := dec.buf[dec.head:dec.tail]; off := 0
           <inner loop>
           remains := length - off
           if remains > 0 || (remains == 0 && utf16Length <= 0) { dec.head += off
              if data == nil { return buf[:off], false }
              data = append(data, buf[:off]...); return }
           if !safe { safe = true; data = make([]byte, 0, capacity) }   (capacity <= len(buf)+len(dec.buf), never negative)
           data = append(data, buf...)
           if !dec.loadMore() { if remains < 0 { if dec.Error == nil { dec.Error = ErrInvalidUTF8 } }; return }
           <refill loop>
           data = append(data, dec.buf[dec.head:dec.head-remains]...)
           dec.head -= remains
           length = dec.tail - dec.head } *)
Fixpoint slow_loop (fuel : nat) (d : dst) (n length_ : Z) (data : option (list byte)) (safe : bool)
  : res (option (list byte) * bool * dst) :=
  match fuel with
  | O => OutOfFuel
  | S f =>
    match slice (buf d) (head d) (tail d) with
    | None => Panic PStrWindow
    | Some w =>
      match slow_inner (S (length w)) w 0 n length_ with
      | Panic s => Panic s
      | OutOfFuel => OutOfFuel
      | Ok (off, n1, false) => Ok (data, safe, set_err d EInvalidUTF8)
      | Ok (off, n1, true) =>
        let rem := (length_ - Z.of_nat off)%Z in
        if (0 <? rem)%Z || ((rem =? 0)%Z && (n1 <=? 0)%Z) then
          match slice (buf d) (head d) (head d + off) with      (* buf[:off], cap(buf) = cap - head *)
          | None => Panic PSlice
          | Some pre =>
            let d1 := set_head d (head d + off) in
            match data with
            | None => Ok (Some pre, false, d1)
            | Some dt => Ok (Some (dt ++ pre), safe, d1)
            end
          end
        else
          (* data = make([]byte, 0, capacity) with a capacity that can not be negative (/repo 2dd77fe) *)
          let dt := match data with Some x => x | None => [] end in
          let data2 := dt ++ w in
          match loadMore d with
          | Panic s => Panic s
          | OutOfFuel => OutOfFuel
          | Ok (false, d1) => Ok (Some data2, true, if (rem <? 0)%Z then set_err d1 EInvalidUTF8 else d1)
          | Ok (true, d1) =>
            match refill_loop (fuel_of d1) d1 rem data2 with
            | Panic s => Panic s
            | OutOfFuel => OutOfFuel
            | Ok (false, data3, _, d2) => Ok (Some data3, true, d2)
            | Ok (true, data3, rem2, d2) =>
              let k := Z.to_nat (- rem2) in
              match slice (buf d2) (head d2) (head d2 + k) with
              | None => Panic PStrExtra
              | Some extra =>
                let d3 := set_head d2 (head d2 + k) in
                slow_loop f d3 n1 (Z.of_nat (tail d3) - Z.of_nat (head d3))%Z (Some (data3 ++ extra)) true
              end
            end
          end
      end
    end
  end.

(* func (dec *Decoder) readStringAsBytes(utf16Length int) (data []byte, safe bool) *)
Definition readStringAsBytes (n : Z) (d : dst) : res (option (list byte) * bool * dst) :=
  if (n =? 0)%Z then Ok (None, true, d) else
  match ensure d with
  | Panic s => Panic s
  | OutOfFuel => OutOfFuel
  | Ok (false, d1) => Ok (None, true, d1)
  | Ok (true, d1) =>
    let length_ := (Z.of_nat (tail d1) - Z.of_nat (head d1))%Z in
    if (n * 3 <=? length_)%Z then
      match slice (buf d1) (head d1) (tail d1) with
      | None => Panic PSlice
      | Some w =>
        match fast_loop (S (length w)) w 0 n with
        | Panic s => Panic s
        | OutOfFuel => OutOfFuel
        | Ok None => Ok (None, false, set_err d1 EInvalidUTF8)
        | Ok (Some off) =>
          (* if off > len(buf) { dec.Error = ErrInvalidUTF8 (if nil); return nil }   (/repo d6dce2e) *)
          if length w <? off then Ok (None, false, set_err d1 EInvalidUTF8) else
          match slice (buf d1) (head d1) (head d1 + off) with
          | None => Panic PStrFast
          | Some x => Ok (Some x, false, set_head d1 (head d1 + off))
          end
        end
      end
    else slow_loop (S (fuel_of d1)) d1 n length_ None false
  end.

(* readStringAsSafeBytes: the same value, copied when it aliases the buffer; a nil result of the
   fast path (invalid UTF-8) becomes an empty non-nil slice by make([]byte, len(data)) *)
Definition readStringAsSafeBytes (n : Z) (d : dst) : res (option (list byte) * dst) :=
  bind (readStringAsBytes n d) (fun '(x, safe, d1) =>
  Ok (if safe then x else Some (match x with Some v => v | None => [] end), d1)).

(* func (dec *Decoder) ReadStringAsBytes(): data = readStringAsSafeBytes(dec.ReadInt()); dec.Skip() *)
Definition readStringAsBytesTop (d : dst) : res (option (list byte) * dst) :=
  bind (readInt64 d) (fun '(n, d1) =>
  bind (readStringAsSafeBytes n d1) (fun '(x, d2) =>
  bind (skip d2) (fun d3 => Ok (x, d3)))).

(* ---------------------------------------------------------------- commands *)

Inductive cmd :=
| CNextByte | CSkip | CNext (n : Z) | CUntil (delim : byte) | CRemains
| CReadInt64 | CReadUint64
| CRead2Digit | CRead3Digit | CRead4Digit | CReadTime | CReadDateTime
| CReadBytes
| CStr (n : Z)              (* readStringAsSafeBytes(n) *)
| CReadStringAsBytes.

Inductive value :=
| VUnit | VByte (b : byte) | VBytes (x : option (list byte)) | VNum (z : Z)
| VTime (fields : list N) (tag : byte).

Definition exec (c : cmd) (d : dst) : res (value * dst) :=
  match c with
  | CNextByte => bind (nextByte d) (fun '(b, d1) => Ok (VByte b, d1))
  | CSkip => bind (skip d) (fun d1 => Ok (VUnit, d1))
  | CNext n => bind (next n d) (fun '(x, _, d1) => Ok (VBytes x, d1))
  | CUntil c => bind (until c d) (fun '(x, _, d1) => Ok (VBytes x, d1))
  | CRemains => bind (remains d) (fun '(x, d1) => Ok (VBytes x, d1))
  | CReadInt64 => bind (readInt64 d) (fun '(z, d1) => Ok (VNum z, d1))
  | CReadUint64 => bind (readUint64Top d) (fun '(z, d1) => Ok (VNum z, d1))
  | CRead2Digit => bind (read2Digit d) (fun '(v, d1) => Ok (VNum (Z.of_N v), d1))
  | CRead3Digit => bind (read3Digit d) (fun '(v, d1) => Ok (VNum (Z.of_N v), d1))
  | CRead4Digit => bind (read4Digit d) (fun '(v, d1) => Ok (VNum (Z.of_N v), d1))
  | CReadTime => bind (readTime d) (fun '(l, t, d1) => Ok (VTime l t, d1))
  | CReadDateTime => bind (readDateTime d) (fun '(l, t, d1) => Ok (VTime l t, d1))
  | CReadBytes => bind (readBytes d) (fun '(x, d1) => Ok (VBytes x, d1))
  | CStr n => bind (readStringAsSafeBytes n d) (fun '(x, d1) => Ok (VBytes x, d1))
  | CReadStringAsBytes => bind (readStringAsBytesTop d) (fun '(x, d1) => Ok (VBytes x, d1))
  end.

(* a straight-line sequence of calls; what the harness observes after each: value and dec.Error *)
Fixpoint run_list (cs : list cmd) (d : dst) : list (value * option errk) * res dst :=
  match cs with
  | [] => ([], Ok d)
  | c :: r =>
    match exec c d with
    | Ok (v, d1) => let '(l, e) := run_list r d1 in ((v, err d1) :: l, e)
    | Panic s => ([], Panic s)
    | OutOfFuel => ([], OutOfFuel)
    end
  end.

(* io.NewDecoder(input) and io.NewDecoderFromReader(scripted reader, cap) *)
Definition bytes_mode (l : list byte) : dst := mk l 0 (length l) [] false None.
Definition reader_mode (cap : nat) (cs : list (list byte)) : dst :=
  mk (repeat zero cap) 0 0 cs true None.

(* decoders that inspect results: a command and a continuation on the value it returned *)
Inductive prog :=
| Done
| Step (c : cmd) (k : value -> prog).

Fixpoint run (p : prog) (d : dst) : list value * res dst :=
  match p with
  | Done => ([], Ok d)
  | Step c k =>
    match exec c d with
    | Ok (v, d1) => let '(l, e) := run (k v) d1 in (v :: l, e)
    | Panic s => ([], Panic s)
    | OutOfFuel => ([], OutOfFuel)
    end
  end.

(* ------------------------------------------------------------------ *)
(* Specification: the same operations as plain functions on the contiguous rest of the
   stream and the sticky error, written from the property text, not from the buffer code. *)

Definition sst := (list byte * option errk)%type.
Definition abs (d : dst) : sst := (remaining d, err d).

Definition s_nextByte (s : sst) : byte * sst :=
  match fst s with
  | [] => (zero, ([], or_err (snd s) EEOF))
  | b :: r => (b, (r, snd s))
  end.

Definition s_skip (s : sst) : sst := snd (s_nextByte s).

Definition s_next (n : Z) (s : sst) : res (option (list byte) * sst) :=
  match fst s with
  | [] => Ok (None, ([], or_err (snd s) EEOF))
  | bs =>
    if (n <? 0)%Z then Ok (None, (bs, or_err (snd s) ENegLen)) else
    let k := Z.to_nat n in
    if k <=? length bs then Ok (Some (firstn k bs), (skipn k bs, snd s))
    else Ok (Some bs, ([], or_err (snd s) EEOF))
  end.

Definition s_until (c : byte) (s : sst) : option (list byte) * sst :=
  match fst s with
  | [] => (None, ([], or_err (snd s) EEOF))
  | bs =>
    match index_byte bs c with
    | Some i => (Some (firstn i bs), (skipn (S i) bs, snd s))
    | None => (Some bs, ([], or_err (snd s) EEOF))
    end
  end.

Definition s_remains (s : sst) : option (list byte) * sst :=
  match fst s with
  | [] => (None, ([], or_err (snd s) EEOF))
  | bs => (Some bs, ([], or_err (snd s) EEOF))
  end.

Definition s_readUint64 (c : byte) (s : sst) : N * sst :=
  match digit c with
  | None => (0%N, s)
  | Some i =>
    match scan_digits (fst s) i with
    | (v, Some k) => (v, (skipn (S k) (fst s), snd s))
    | (v, None) => (v, ([], or_err (snd s) EEOF))
    end
  end.

Definition s_readInt64 (s : sst) : Z * sst :=
  let '(c, s1) := s_nextByte s in
  if Byte.eqb c minus then
    let '(c2, s2) := s_nextByte s1 in
    let '(v, s3) := s_readUint64 c2 s2 in (neg_int64 v, s3)
  else let '(v, s3) := s_readUint64 c s1 in (to_int64 v, s3).

Definition s_readUint64Top (s : sst) : Z * sst :=
  let '(c, s1) := s_nextByte s in
  if Byte.eqb c minus then
    let '(c2, s2) := s_nextByte s1 in
    let '(v, s3) := s_readUint64 c2 s2 in (Z.of_N (wrap64 (two64 - wrap64 v)), s3)
  else let '(v, s3) := s_readUint64 c s1 in (Z.of_N v, s3).

Fixpoint s_readDigits (k : nat) (acc : N) (s : sst) : N * sst :=
  match k with
  | O => (acc, s)
  | S k' => let '(c, s1) := s_nextByte s in s_readDigits k' (acc * 10 + digit_ff c)%N s1
  end.

Definition s_readNsec (s : sst) : N * byte * sst :=
  let '(n3, s1) := s_readDigits 3 0%N s in
  let nsec := (n3 * 1000000)%N in
  let '(tag, s2) := s_nextByte s1 in
  match digit tag with
  | None => (nsec, tag, s2)
  | Some i =>
    let '(n2, s3) := s_readDigits 2 0%N s2 in
    let nsec := (nsec + i * 100000 + n2 * 1000)%N in
    let '(tag, s4) := s_nextByte s3 in
    match digit tag with
    | None => (nsec, tag, s4)
    | Some i =>
      let '(n2, s5) := s_readDigits 2 0%N s4 in
      let nsec := (nsec + i * 100 + n2)%N in
      let '(tag, s6) := s_nextByte s5 in (nsec, tag, s6)
    end
  end.

Definition s_readHMS (s : sst) : list N * byte * sst :=
  let '(h, s1) := s_readDigits 2 0%N s in
  let '(mi, s2) := s_readDigits 2 0%N s1 in
  let '(sec, s3) := s_readDigits 2 0%N s2 in
  let '(tag, s4) := s_nextByte s3 in
  if Byte.eqb tag tagPoint then
    let '(ns, tag, s5) := s_readNsec s4 in ([h; mi; sec; ns], tag, s5)
  else ([h; mi; sec; 0%N], tag, s4).

Definition s_readDateTime (s : sst) : list N * byte * sst :=
  let '(y, s1) := s_readDigits 4 0%N s in
  let '(mo, s2) := s_readDigits 2 0%N s1 in
  let '(dd, s3) := s_readDigits 2 0%N s2 in
  let '(tag, s4) := s_nextByte s3 in
  if Byte.eqb tag tagTime then
    let '(l, tag, s5) := s_readHMS s4 in ([y; mo; dd] ++ l, tag, s5)
  else ([y; mo; dd; 0; 0; 0; 0]%N, tag, s4).

Definition s_readBytes (s : sst) : res (option (list byte) * sst) :=
  let '(n, s1) := s_readInt64 s in
  bind (s_next n s1) (fun '(x, s2) => Ok (x, s_skip s2)).

(* Walking the UTF-8 characters of [bs]: [skip] continuation bytes are still owed to the
   character in progress, [n] UTF-16 units are still wanted.  Result: bytes consumed,
   continuation bytes still owed, units still wanted, and whether every lead byte met was
   acceptable.  Stops at the end of [bs], when the units are used up, or at a bad lead byte. *)
Fixpoint scan (bs : list byte) (skip : nat) (n : Z) : nat * nat * Z * bool :=
  match bs with
  | [] => (O, skip, n, true)
  | b :: r =>
    match skip with
    | S k => let '(c, s, m, v) := scan r k n in (S c, s, m, v)
    | O =>
      if (n <=? 0)%Z then (O, O, n, true)
      else match lead b with
           | None => (O, O, n, false)
           | Some (w, u) => let '(c, s, m, v) := scan r (w - 1) (n - u) in (S c, s, m, v)
           end
    end
  end.

(* the string of [n] UTF-16 units at the front of the stream: its bytes, the rest, and EOF
   exactly when the stream ends before the string does *)
Definition s_str (n : Z) (s : sst) : option (list byte) * sst :=
  if (n =? 0)%Z then (None, s) else
  match fst s with
  | [] => (None, ([], or_err (snd s) EEOF))
  | bs =>
    let '(c, sk, m, v) := scan bs 0 n in
    if negb v then (Some [], (bs, or_err (snd s) EInvalidUTF8))
    else if (sk =? 0) && (m <=? 0)%Z then (Some (firstn c bs), (skipn c bs, snd s))
    else (Some bs, ([], or_err (snd s) EEOF))
  end.

Definition s_readStringAsBytesTop (s : sst) : option (list byte) * sst :=
  let '(n, s1) := s_readInt64 s in
  let '(x, s2) := s_str n s1 in (x, s_skip s2).

Definition s_exec (c : cmd) (s : sst) : res (value * sst) :=
  match c with
  | CNextByte => let '(b, s1) := s_nextByte s in Ok (VByte b, s1)
  | CSkip => Ok (VUnit, s_skip s)
  | CNext n => bind (s_next n s) (fun '(x, s1) => Ok (VBytes x, s1))
  | CUntil c => let '(x, s1) := s_until c s in Ok (VBytes x, s1)
  | CRemains => let '(x, s1) := s_remains s in Ok (VBytes x, s1)
  | CReadInt64 => let '(z, s1) := s_readInt64 s in Ok (VNum z, s1)
  | CReadUint64 => let '(z, s1) := s_readUint64Top s in Ok (VNum z, s1)
  | CRead2Digit => let '(v, s1) := s_readDigits 2 0%N s in Ok (VNum (Z.of_N v), s1)
  | CRead3Digit => let '(v, s1) := s_readDigits 3 0%N s in Ok (VNum (Z.of_N v), s1)
  | CRead4Digit => let '(v, s1) := s_readDigits 4 0%N s in Ok (VNum (Z.of_N v), s1)
  | CReadTime => let '(l, t, s1) := s_readHMS s in Ok (VTime l t, s1)
  | CReadDateTime => let '(l, t, s1) := s_readDateTime s in Ok (VTime l t, s1)
  | CReadBytes => bind (s_readBytes s) (fun '(x, s1) => Ok (VBytes x, s1))
  | CStr n => let '(x, s1) := s_str n s in Ok (VBytes x, s1)
  | CReadStringAsBytes => let '(x, s1) := s_readStringAsBytesTop s in Ok (VBytes x, s1)
  end.

Fixpoint s_run (p : prog) (s : sst) : list value * res sst :=
  match p with
  | Done => ([], Ok s)
  | Step c k =>
    match s_exec c s with
    | Ok (v, s1) => let '(l, e) := s_run (k v) s1 in (v :: l, e)
    | Panic x => ([], Panic x)
    | OutOfFuel => ([], OutOfFuel)
    end
  end.

(* ------------------------------------------------------------------ *)
(* What is outside the property's quantifier: a string whose bytes are not what the encoder
   emits -- a lead byte that checkUTF8String rejects, or a 4-byte character where only one
   UTF-16 unit is left.  A condition on the bytes alone (never on how they are delivered);
   true of every encoder output and of every truncation of one. *)
Definition str_ok (n : Z) (bs : list byte) : bool :=
  (n =? 0)%Z || (let '(c, s, m, v) := scan bs 0 n in v && (0 <=? m)%Z).

Definition s_cmd_guard (c : cmd) (s : sst) : bool :=
  match c with
  | CStr n => str_ok n (fst s)
  | CReadStringAsBytes => let '(n, s1) := s_readInt64 s in str_ok n (fst s1)
  | _ => true
  end.

Definition cmd_guard (c : cmd) (d : dst) : bool := s_cmd_guard c (abs d).

(* the strings a program reads from the contiguous bytes are well formed *)
Fixpoint s_guarded (p : prog) (s : sst) : Prop :=
  match p with
  | Done => True
  | Step c k =>
      s_cmd_guard c s = true /\
      match s_exec c s with
      | Ok (v, s1) => s_guarded (k v) s1
      | _ => True
      end
  end.

(* straight-line versions used by the correspondence run *)
Fixpoint s_run_list (cs : list cmd) (s : sst) : list (value * option errk) * res sst :=
  match cs with
  | [] => ([], Ok s)
  | c :: r =>
    match s_exec c s with
    | Ok (v, s1) => let '(l, e) := s_run_list r s1 in ((v, snd s1) :: l, e)
    | Panic x => ([], Panic x)
    | OutOfFuel => ([], OutOfFuel)
    end
  end.

Fixpoint guard_list (cs : list cmd) (d : dst) : bool :=
  match cs with
  | [] => true
  | c :: r =>
    cmd_guard c d &&
    match exec c d with
    | Ok (_, d1) => guard_list r d1
    | _ => true
    end
  end.

(* the first command whose guard fails (reason 1: malformed string) *)
Fixpoint why_list (cs : list cmd) (d : dst) (i : nat) : option (nat * nat) :=
  match cs with
  | [] => None
  | c :: r =>
    if cmd_guard c d then
      match exec c d with
      | Ok (_, d1) => why_list r d1 (S i)
      | _ => None
      end
    else Some (i, 1)
  end.
