(* Model of the MaxRequestLength enforcement of hprose-golang (C13).
     rpc/core/service.go      Service.MaxRequestLength, Service.Handle (IO plugins, then the function)
     rpc/core/error.go        ErrRequestEntityTooLarge, RequestEntityTooLarge = "Request entity too large"
     rpc/mock/handler.go      Handler.Handler          len(request) > max -> return the error value
     rpc/http/handler.go      ServeHTTP                request.ContentLength > int64(max) -> 413;
                                                       body shorter than Content-Length -> 400 (fix bf2ea6e)
                              ServeFastHTTP            ctx.Request.Header.ContentLength() > max -> 413
     rpc/socket/handler.go    Handler.receive / send   length > max -> error frame, connection closed
     rpc/websocket/handler.go Handler.receive / send   len(body) > max -> error frame, connection closed
     rpc/udp/handler.go       Handler.receive / send   length != n-8 -> dropped as invalid (fix 5ee4f50);
                                                       length > max -> error datagram
     rpc/{http,http/fasthttp,socket,websocket,udp}/transport.go   the client side of the rejection
   Executable definitions only; the proofs are in Proofs/LimitProofs.v.

   Two levels.  Level A describes one request by what its sender announces ([decl]) and how many
   body bytes it really puts on the wire ([sent]); [admission] mirrors each handler's decision.
   WHICH quantity a handler compares with the limit is a parameter ([site_table]); the check
   reads the table off the sources of the tree under test (go/ast, harness op "sites") on every
   run, so the model follows the code.  Level B are the byte-level receive functions of
   Model/Frame.v (C12); Proofs/LimitProofs.v shows that level A is their projection. *)
From Coq Require Import List ZArith Bool Init.Byte Strings.Byte.
From HV Require Import Lib.Crc32 Model.Frame.
Import ListNotations.
Open Scope Z_scope.

Inductive transport := Mock | NetHttp | FastHttp | Tcp | Unix | Websocket | Udp.

Definition all_transports : list transport := [Mock; NetHttp; FastHttp; Tcp; Unix; Websocket; Udp].

(* what a handler may hold against Service.MaxRequestLength *)
Inductive quantity :=
| QBodyLen         (* len(request), len(body), len(data), n-8: the bytes really in hand *)
| QDeclared        (* length: the length field of the frame header *)
| QContentLength.  (* request.ContentLength, Header.ContentLength(): -1 when the body is chunked *)

Definition quantity_eqb (a b : quantity) : bool :=
  match a, b with
  | QBodyLen, QBodyLen | QDeclared, QDeclared | QContentLength, QContentLength => true
  | _, _ => false
  end.

(* The class of a request, as far as a handler can tell requests apart before it decodes them:
   the HTTP method (the handlers single out GET), and bit 31 / bit 15 of the index word of a
   socket, websocket or udp header (parseHeader's [ok]; the stock clients never set it on a
   request, a hand-made frame may).  Whether a length is announced is the third coordinate
   ([is_none decl], "chunked"). *)
Record rclass := { r_get : bool; r_flag : bool }.

Definition all_classes : list rclass :=
  [ {| r_get := false; r_flag := false |}; {| r_get := true; r_flag := false |};
    {| r_get := false; r_flag := true |};  {| r_get := true; r_flag := true |} ].

(* a POST (or tcp frame with a stock index), a GET, a frame whose index word has the flag bit set *)
Definition plain : rclass := {| r_get := false; r_flag := false |}.
Definition get : rclass := {| r_get := true; r_flag := false |}.
Definition flagged : rclass := {| r_get := false; r_flag := true |}.

Definition is_none {A} (o : option A) : bool := match o with None => true | Some _ => false end.

(* For each transport and each class of request (method / index flag, length announced or not):
   the quantities the handler compares with the limit ON THAT PATH.  The extractor records the
   path condition of every comparison (enclosing if / else / case arms, the other conjuncts of
   its condition); a comparison guarded by the method, by ContentLength < 0 or by ok belongs
   to the classes that satisfy the guard only. *)
Definition site_table := transport -> rclass -> bool -> list quantity.

Definition has (q : quantity) (S : list quantity) : bool := existsb (quantity_eqb q) S.

(* the comparison sites of the pinned tree (each is  X > h.Service.MaxRequestLength); none of
   them depends on the class of the request *)
Definition pinned_sites : site_table := fun tr _ _ =>
  match tr with
  | Mock => [QBodyLen]               (* if len(request) > h.Service.MaxRequestLength *)
  | NetHttp => [QContentLength; QBodyLen]
                                     (* if request.ContentLength > int64(h.Service.MaxRequestLength)
                                        if len(data) > h.Service.MaxRequestLength        (fix 72ffd23) *)
  | FastHttp => [QContentLength; QBodyLen]
                                     (* if ctx.Request.Header.ContentLength() > h.Service.MaxRequestLength
                                        if len(body) > h.Service.MaxRequestLength        (fix e18593a) *)
  | Tcp | Unix => [QDeclared]        (* if length > h.Service.MaxRequestLength *)
  | Websocket => [QBodyLen]          (* if len(body) > h.Service.MaxRequestLength *)
  | Udp => [QDeclared]               (* case length > h.Service.MaxRequestLength, reached only when length == n-8 *)
  end.

(* historical: the sites before the fix commits 72ffd23 / e18593a -- the HTTP handlers looked at
   ContentLength only, which is -1 for a chunked body *)
Definition original_sites : site_table := fun tr k c =>
  match tr with
  | NetHttp | FastHttp => [QContentLength]
  | _ => pinned_sites tr k c
  end.

(* two tables with class-dependent sites, as the extractor produces them for code whose tests
   depend on the method or on the index flag (used as Examples in Props/C13.v):
     net/http:  if Method == "GET" {...} else if ContentLength > max {413};
                ... if ContentLength < 0 && len(data) > max {413}
     socket:    case ok && length > max *)
Definition example_method_sites : site_table := fun tr k c =>
  match tr with
  | NetHttp => (if r_get k then [] else [QContentLength]) ++ (if c then [QBodyLen] else [])
  | _ => pinned_sites tr k c
  end.

Definition example_flag_sites : site_table := fun tr k c =>
  match tr with
  | Tcp | Unix => if r_flag k then [] else [QDeclared]
  | _ => pinned_sites tr k c
  end.

(* ---- one request on the wire ---------------------------------------------------------------
   decl = Some d : a length is announced -- "Content-Length: d"; the length field d of the
                   socket / UDP header; payload length d+4 of a single websocket frame
   decl = None   : none is -- "Transfer-Encoding: chunked"; a fragmented websocket message; the
                   mock call (no header at all)
   sent          : the body bytes the peer writes for this request before it stops writing *)

(* request.ContentLength / Header.ContentLength() *)
Definition content_length (decl : option Z) : Z := match decl with Some d => d | None => -1 end.

(* The request body as delimited by the layer underneath the limit check -- the bytes that
   belong to this request.  On the byte streams (tcp, unix, and HTTP with a Content-Length, and
   the websocket frame layer) the announced length IS the delimiter: what follows belongs to the
   next frame.  A chunked body and a websocket message are delimited by the carrier.  A datagram
   is delimited by the carrier too, and its header must agree: a datagram whose header announces
   anything but the number of bytes it carries is no request (it is dropped as invalid before
   the limit is looked at).  [None]: no complete request. *)
Definition framed (tr : transport) (k : rclass) (decl : option Z) (sent : Z) : option Z :=
  match tr, decl with
  | Websocket, _ =>
      (* a message whose index word has bit 31 set is no request: InvalidRequestError, connection dropped *)
      if r_flag k then None
      else match decl with None => Some sent | Some d => if sent <? d then None else Some d end
  | Mock, _ => Some sent
  | Udp, Some d => if d =? sent then Some sent else None
  | (NetHttp | FastHttp), None => Some sent
  | (NetHttp | FastHttp | Tcp | Unix), Some d => if sent <? d then None else Some d
  | (Tcp | Unix | Udp), None => None
  end.

Inductive verdict :=
| Process (n : Z)   (* Service.Handle(ctx, body) runs with len(body) = n *)
| Reject413         (* HTTP: WriteHeader(413) / SetStatusCode(413); return *)
| RejectInBand      (* sendResponse(ctx, queue, index, nil, ErrRequestEntityTooLarge): error frame;
                       socket and websocket then drop the connection *)
| RejectError       (* mock: return nil, core.ErrRequestEntityTooLarge *)
| Reject400         (* HTTP: the body ended before Content-Length bytes: 400, nothing is handed over *)
| Starve            (* tcp, unix, websocket: the announced bytes never arrive: the read blocks until
                       the peer gives up; nothing is handed over, the connection is dropped *)
| Malformed.        (* no header where the transport needs one; a datagram whose header disagrees
                       with its size: onError(InvalidRequestError{}), no answer *)

(* sites S: is quantity q, with value v, compared and above the limit?   X > max *)
Definition over (S : list quantity) (q : quantity) (max v : Z) : bool := has q S && (v >? max).

Definition admission (sites : site_table) (tr : transport) (max : Z) (k : rclass)
  (decl : option Z) (sent : Z) : verdict :=
  let S := sites tr k (is_none decl) in
  match tr with
  | Mock =>
      (* if len(request) > max { return nil, ErrRequestEntityTooLarge }; return h.Service.Handle(ctx, request) *)
      if over S QBodyLen max sent then RejectError else Process sent
  | NetHttp =>
      (* if request.ContentLength > int64(max) { 413; return }
         data, err := readAll(request.Body, request.ContentLength)
           readAll: length > 0: make([]byte, length) + io.ReadFull
                    otherwise ioutil.ReadAll(body)  (Content-Length: 0 gives http.NoBody)
         if err != nil { onError; Body.Close(); 400; return }      -- body ended early
         if len(data) > max { 413; return }      -- the body is read through io.LimitReader(Body, max+1)
         h.Service.Handle(ctx, data) *)
      let cl := content_length decl in
      if over S QContentLength max cl then Reject413
      else if (cl >? 0) && (sent <? cl) then Reject400
      else
        let n := if cl >? 0 then cl else match decl with None => sent | Some _ => 0 end in
        if over S QBodyLen max n then Reject413 else Process n
  | FastHttp =>
      (* fasthttp reads the whole body before it calls the handler: Content-Length bytes, or
         every chunk; a connection that ends early never reaches the handler (400).
         if ctx.Request.Header.ContentLength() > max { 413; return }
         body := ctx.Request.Body(); if len(body) > max { 413; return }
         h.Service.Handle(ctx, copy of body) *)
      match framed FastHttp k decl sent with
      | None => Reject400
      | Some n =>
          if over S QContentLength max (content_length decl) then Reject413
          else if over S QBodyLen max n then Reject413 else Process n
      end
  | Tcp | Unix =>
      (* io.ReadAtLeast(conn, header[:], 12); length, index, ok := parseHeader(header)
         if length > max { sendResponse(..., ErrRequestEntityTooLarge); return }
         body := make([]byte, length); io.ReadAtLeast(conn, body, length); go h.run(...) *)
      match decl with
      | None => Malformed
      | Some d =>
          if over S QDeclared max d then RejectInBand
          else if sent <? d then Starve
          else if over S QBodyLen max d then RejectInBand else Process d
      end
  | Websocket =>
      (* messageType, data, err := conn.ReadMessage()  -- the library assembles the message
         body := data[4:]; if len(body) > max { sendResponse(..., ErrRequestEntityTooLarge); return } *)
      (* index, ok := parseHeader(data[:4]); if !ok { reportError(InvalidRequestError{}); return } *)
      if r_flag k then Malformed
      else
      match framed Websocket k decl sent with
      | None => Starve
      | Some n => if over S QBodyLen max n then RejectInBand else Process n
      end
  | Udp =>
      (* n, addr, err := conn.ReadFromUDP(buffer[:]); length, index, ok := parseHeader(buffer[:8])
         case length != n-8: h.onError(conn, core.InvalidRequestError{})          -- no answer
         case length > max: sendResponse(..., ErrRequestEntityTooLarge, addr)
         default: body := make([]byte, length); copy(body, buffer[8:]) *)
      match decl with
      | None => Malformed
      | Some d =>
          if negb (d =? sent) then Malformed
          else if over S QDeclared max d || over S QBodyLen max sent then RejectInBand else Process d
      end
  end.

Definition is_process (v : verdict) : bool := match v with Process _ => true | _ => false end.

Definition rejected (v : verdict) : bool :=
  match v with Reject413 | RejectInBand | RejectError => true | _ => false end.

(* ---- what runs: Service.Handle = the IO plugin chain, then (for a well-formed call) the
   invoke plugin chain and the published function ------------------------------------------ *)
Inductive event := EvIOPlugin (n : Z) | EvInvoke.

Definition handle_log (valid_call : bool) (n : Z) : list event :=
  EvIOPlugin n :: (if valid_call then [EvInvoke] else []).

Definition serve (sites : site_table) (tr : transport) (max : Z) (k : rclass) (decl : option Z)
  (sent : Z) (valid_call : bool) : verdict * list event :=
  let v := admission sites tr max k decl sent in
  (v, match v with Process n => handle_log valid_call n | _ => [] end).

(* ---- the declarations the peers of the library produce ------------------------------------ *)
Definition truthful (tr : transport) (k : rclass) (decl : option Z) (sent : Z) : bool :=
  match tr, decl with
  | Mock, _ => true
  | Websocket, None => negb (r_flag k)
  | Websocket, Some d => negb (r_flag k) && (d =? sent)
  | (NetHttp | FastHttp), None => true
  | (Tcp | Unix | Udp), None => false
  | _, Some d => d =? sent
  end.

(* do the sites on the path of this class of requests make the handler look at the quantity that
   delimits the request?  For an HTTP request that announces its length ContentLength will do,
   for a chunked one only the bytes read. *)
Definition covers (tr : transport) (chunked : bool) (S : list quantity) : bool :=
  match tr with
  | Tcp | Unix | Udp => has QDeclared S || has QBodyLen S
  | NetHttp | FastHttp => if chunked then has QBodyLen S else has QContentLength S || has QBodyLen S
  | Mock | Websocket => has QBodyLen S
  end.

(* the classes that have requests at all: a socket or udp frame always announces a length; a
   websocket message with the flag set is refused as invalid whatever its size *)
Definition expressible (tr : transport) (k : rclass) (chunked : bool) : bool :=
  match tr with
  | Tcp | Unix | Udp => negb chunked
  | Websocket => negb (r_flag k)
  | _ => true
  end.

(* ---- the way back: what the server answers and what the client makes of it ---------------- *)

(* core.RequestEntityTooLarge *)
(* spelled out byte by byte so that the extracted code does not drag in Coq's String module;
   too_large_text_spelling in the proofs: it is list_byte_of_string "Request entity too large" *)
Definition too_large_text : list byte :=
  ["R"; "e"; "q"; "u"; "e"; "s"; "t"; " "; "e"; "n"; "t"; "i"; "t"; "y"; " "; "t"; "o"; "o"; " "; "l"; "a"; "r"; "g"; "e"]%byte.

Inductive reply :=
| RpResult                                  (* whatever Service.Handle returned *)
| RpHttp (status : Z)
| RpFrame (flag : bool) (body : list byte)  (* top bit of the index, body *)
| RpError (too_large : bool)                (* mock: the Go error value itself *)
| RpNone.

(* Handler.send of socket / websocket / udp:
     if e != nil { index |= flag; if e == ErrRequestEntityTooLarge { body = RequestEntityTooLarge } else { body = e.Error() } } *)
Definition reply_of (v : verdict) : reply :=
  match v with
  | Process _ => RpResult
  | Reject413 => RpHttp 413
  | RejectInBand => RpFrame true too_large_text
  | RejectError => RpError true
  | Reject400 => RpHttp 400
  | Starve | Malformed => RpNone
  end.

Inductive outcome :=
| OResult
| OTooLarge                         (* core.ErrRequestEntityTooLarge *)
| OInvalidResponse (body : list byte)   (* core.InvalidResponseError{Response: body} *)
| OHttpError (status : Z)           (* errors.New(resp.Status) *)
| OOtherError
| ONothing.

Fixpoint bytes_eqb (a b : list byte) : bool :=
  match a, b with
  | [], [] => true
  | x :: a', y :: b' => Byte.eqb x y && bytes_eqb a' b'
  | _, _ => false
  end.

(* http/transport.go, http/fasthttp/transport.go:  switch resp.StatusCode { case 200: body;
     case 413: ErrRequestEntityTooLarge; default: errors.New(resp.Status) }
   socket/websocket/udp transport.go conn.receive:
     if !ok { if string(body) == core.RequestEntityTooLarge { err = ErrRequestEntityTooLarge }
              else { err = InvalidResponseError{body} } }    -- and err goes to every pending call
   mock/transport.go: the error value is returned as it is *)
Definition client_decode (r : reply) : outcome :=
  match r with
  | RpResult => OResult
  | RpHttp s => if s =? 200 then OResult else if s =? 413 then OTooLarge else OHttpError s
  | RpFrame false _ => OResult
  | RpFrame true b => if bytes_eqb b too_large_text then OTooLarge else OInvalidResponse b
  | RpError true => OTooLarge
  | RpError false => OOtherError
  | RpNone => ONothing
  end.

(* ---- tcp / unix: the rejection races with the teardown of the connection -------------------
   Handler.send writes the error frame and at once reports the error; Serve then closes the
   connection although the body the client announced is still unread (or still being written).
   Closing with unread data resets the connection.  On the client the Send goroutine (write
   fails: broken pipe / connection reset) and the Receive goroutine (decodes the error frame)
   both end in conn.Close(err); whichever gets there first decides what the pending call returns,
   and a reset can also discard the frame before it is read.  [race] is that choice of schedule;
   [still_writing]: the client had not finished writing the body when the server hung up.
   hooks/c13-fix-socket-reject-linger.patch (not applied: known finding) makes the server wait (bounded) for the client to
   finish: [linger = true] removes the TeardownFirst schedules. *)
Inductive race := FrameFirst | TeardownFirst.

Definition caller_outcome (linger : bool) (tr : transport) (v : verdict) (still_writing : bool)
  (r : race) : outcome :=
  match tr, v, r with
  | (Tcp | Unix), RejectInBand, TeardownFirst =>
      if still_writing && negb linger then OOtherError else client_decode (reply_of v)
  | _, _, _ => client_decode (reply_of v)
  end.

(* ---- level B: the same decisions on bytes, through Model/Frame.v --------------------------- *)

(* index |= math.MinInt32 (socket, websocket), index |= 0x8000 (udp) *)
Definition sock_reject_frame (index : Z) : list byte :=
  sock_frame (Z.lor index (-2147483648)) too_large_text.
Definition ws_reject_msg (index : Z) : list byte :=
  ws_frame (Z.lor index (-2147483648)) too_large_text.
Definition udp_reject_dgram (index : Z) : list byte :=
  udp_make_header (Z.of_nat (List.length too_large_text)) (Z.lor index 32768) ++ too_large_text.

(* the fate of the first request on a fresh connection *)
Definition sock_server_verdict (max : Z) (s : list byte) : verdict :=
  match recv_frames (Server max) s with
  | ((_, b) :: _, _) => Process (Z.of_nat (List.length b))
  | ([], EndTooLarge _) => RejectInBand
  | ([], EndShortBody _ _ _) => Starve
  | ([], _) => Malformed
  end.

(* One iteration of Handler.receive (rpc/udp/handler.go, Server max) and of conn.receive
   (rpc/udp/transport.go, Client) on receive buffer [buf], as of fix 5ee4f50:
     n, addr, err := conn.ReadFromUDP(buffer[:])
     case n < 8: onError
     default: length, index, ok := parseHeader(buffer[:8])
        case length == 0 && index == -1 && !ok: onError
        case length != n-8: onError                      -- declared must equal received
        case length > MaxRequestLength: respond too large        [server]
        default: body := make([]byte, length); copy(body, buffer[8:])
                 [client] if !ok { error carrying body } *)
Definition udp_recv (sd : side) (buf d : list byte) : dgram_result :=
  let '(buf', n) := udp_read_into buf d in
  if (n <? 8)%nat then DShort
  else
    match udp_parse_header (firstn 8 buf') with
    | None => DUnreachable
    | Some (length, index, ok) =>
      if is_reject (length, index, ok) then DBadHeader
      else if negb (length =? Z.of_nat n - 8) then DBadHeader
      else if (match sd with Server max => length >? max | Client => false end)
      then DTooLarge index
      else
        let body := copy_fresh (Z.to_nat length) (skipn 8 buf') in
        if (match sd with Client => negb ok | Server _ => false end)
        then DErrorFrame body
        else DDeliver index body
    end.

Definition udp_server_verdict (max : Z) (buf d : list byte) : verdict :=
  match udp_recv (Server max) buf d with
  | DDeliver _ b => Process (Z.of_nat (List.length b))
  | DTooLarge _ => RejectInBand
  | _ => Malformed
  end.

Definition ws_server_verdict (max : Z) (msg : list byte) : verdict :=
  match ws_recv (Server max) msg with
  | WDeliver _ b => Process (Z.of_nat (List.length b))
  | WTooLarge _ => RejectInBand
  | _ => Malformed
  end.

(* what net/http's body reader yields of the bytes on the wire: at most Content-Length of them *)
Definition http_yield (decl : option Z) (wire : list byte) : list byte :=
  match decl with Some d => firstn (Z.to_nat d) wire | None => wire end.

(* ServeHTTP on bytes, through readAll as modelled in Frame.http_read_all:
     if ContentLength > max { 413 }
     data, err := readAll(io.LimitReader(Body, max+1), ContentLength); if err != nil { 400 }
     if len(data) > max { 413 } *)
Definition http_server_verdict (max : Z) (decl : option Z) (wire : list byte) : verdict :=
  let cl := content_length decl in
  if cl >? max then Reject413
  else
    let limited := firstn (Z.to_nat (max + 1)) (http_yield decl wire) in
    let '(data, err) := http_read_all cl limited in
    if err then Reject400
    else if Z.of_nat (List.length data) >? max then Reject413
    else Process (Z.of_nat (List.length data)).

(* what the real clients make of the bytes that come back *)
Definition sock_client (s : list byte) : outcome :=
  match recv_frames Client s with
  | (_ :: _, _) => OResult
  | ([], EndErrorFrame b) => client_decode (RpFrame true b)
  | ([], _) => ONothing
  end.

Definition udp_client (d : list byte) : outcome :=
  match udp_recv Client udp_zero_buffer d with
  | DDeliver _ _ => OResult
  | DErrorFrame b => client_decode (RpFrame true b)
  | _ => ONothing
  end.

Definition ws_client (msg : list byte) : outcome :=
  match ws_recv Client msg with
  | WDeliver _ _ => OResult
  | WErrorFrame b => client_decode (RpFrame true b)
  | _ => ONothing
  end.
